;; R7RS examples (sections 4.1, 4.2, 6.x) with the values the report states.
(define x 28)
x
;=> 28
(quote a)
;=> a
'#(a b c)
;=> #(a b c)
'(+ 1 2)
;=> (+ 1 2)
'"abc"
;=> "abc"
(+ 3 4)
;=> 7
((if #f + *) 3 4)
;=> 12
((lambda (x) (+ x x)) 4)
;=> 8
(define reverse-subtract (lambda (x y) (- y x)))
(reverse-subtract 7 10)
;=> 3
(define add4 (let ((x 4)) (lambda (y) (+ x y))))
(add4 6)
;=> 10
((lambda x x) 3 4 5 6)
;=> (3 4 5 6)
((lambda (x y . z) z) 3 4 5 6)
;=> (5 6)
(if (> 3 2) 'yes 'no)
;=> yes
(if (> 2 3) 'yes 'no)
;=> no
(if (> 3 2) (- 3 2) (+ 3 2))
;=> 1
(define x 2)
(+ x 1)
;=> 3
(set! x 4)
(+ x 1)
;=> 5
===
(cond ((> 3 2) 'greater) ((< 3 2) 'less))
;=> greater
(cond ((> 3 3) 'greater) ((< 3 3) 'less) (else 'equal))
;=> equal
(cond ((assv 'b '((a 1) (b 2))) => cadr) (else #f))
;=> 2
(case (* 2 3) ((2 3 5 7) 'prime) ((1 4 6 8 9) 'composite))
;=> composite
(case (car '(c d)) ((a e i o u) 'vowel) ((w y) 'semivowel) (else => (lambda (x) x)))
;=> c
(and (= 2 2) (> 2 1))
;=> #t
(and (= 2 2) (< 2 1))
;=> #f
(and 1 2 'c '(f g))
;=> (f g)
(and)
;=> #t
(or (= 2 2) (> 2 1))
;=> #t
(or (= 2 2) (< 2 1))
;=> #t
(or #f #f #f)
;=> #f
(or (memq 'b '(a b c)) (quotient 3 0))
;=> (b c)
(when (= 1 1) 1 2 3)
;=> 3
(unless (= 1 2) 1 2 3)
;=> 3
(let ((x 2) (y 3)) (* x y))
;=> 6
(let ((x 2) (y 3)) (let ((x 7) (z (+ x y))) (* z x)))
;=> 35
(let ((x 2) (y 3)) (let* ((x 7) (z (+ x y))) (* z x)))
;=> 70
(letrec ((even? (lambda (n) (if (zero? n) #t (odd? (- n 1)))))
         (odd? (lambda (n) (if (zero? n) #f (even? (- n 1))))))
  (even? 88))
;=> #t
(letrec* ((p (lambda (x) (+ 1 (q (- x 1)))))
          (q (lambda (y) (if (zero? y) 0 (+ 1 (p (- y 1))))))
          (x (p 5))
          (y x))
  y)
;=> 5
(define x 0)
(and (= x 0) (begin (set! x 5) (+ x 1)))
;=> 6
(let loop ((numbers '(3 -2 1 6 -5)) (nonneg '()) (neg '()))
  (cond ((null? numbers) (list nonneg neg))
        ((>= (car numbers) 0) (loop (cdr numbers) (cons (car numbers) nonneg) neg))
        ((< (car numbers) 0) (loop (cdr numbers) nonneg (cons (car numbers) neg)))))
;=> ((6 1 3) (-5 -2))
===
(force (delay (+ 1 2)))
;=> 3
(let ((p (delay (+ 1 2)))) (list (force p) (force p)))
;=> (3 3)
(define integers (letrec ((next (lambda (n) (delay (cons n (next (+ n 1))))))) (next 0)))
(define head (lambda (stream) (car (force stream))))
(define tail (lambda (stream) (cdr (force stream))))
(head (tail (tail integers)))
;=> 2
(define count 0)
(define p (delay (begin (set! count (+ count 1)) (if (> count x) count (force p)))))
(define x 5)
(force p)
;=> 6
(begin (set! x 10) (force p))
;=> 6
(define (stream-filter p? s)
  (delay-force
    (if (null? (force s)) (delay '())
        (let ((h (car (force s))) (t (cdr (force s))))
          (if (p? h) (delay (cons h (stream-filter p? t))) (stream-filter p? t))))))
(head (tail (tail (stream-filter odd? integers))))
;=> 5
===
(define rx 5)
(define rp (delay (begin (set! rx (+ rx 1)) rx)))
(force rp)
;=> 6
(begin (set! rx 10) (force rp))
;=> 6
(define r1 (delay (begin (set! r1-first 'second) r1-first)))
(define r1-first 'first)
(define rf (let ((first? #t)) (delay (if first? (begin (set! first? #f) (force rf)) 'second))))
(force rf)
;=> second
(define rq (let ((count 5)) (define (get-count) count) (define p (delay (if (<= count 0) count (begin (set! count (- count 1)) (force p) (set! count (+ count 2)) count)))) (list get-count p)))
(define get-count (car rq))
(define rp3 (car (cdr rq)))
(get-count)
;=> 5
(force rp3)
;=> 0
(get-count)
;=> 10
(force rp3)
;=> 0
(define mcnt 0)
(define mr (delay (begin (set! mcnt (+ mcnt 1)) mcnt)))
(define ms (delay-force mr))
(force ms)
;=> 1
(force mr)
;=> 1
mcnt
;=> 1
(define mt (delay-force ms))
(list (force mt) (force ms) (force mr) mcnt)
;=> (1 1 1 1)
(define (rloop n) (if (= n 0) (delay 'end) (delay-force (rloop (- n 1)))))
(force (rloop 20))
;=> end
===
`(list ,(+ 1 2) 4)
;=> (list 3 4)
(let ((name 'a)) `(list ,name ',name))
;=> (list a (quote a))
`(1 . ,(+ 1 2))
;=> (1 . 3)
`#(10 5 ,(- 4 2) 8)
;=> #(10 5 2 8)
`(a `(b ,(c ,(+ 1 2))))
;=> (a (quasiquote (b (unquote (c 3)))))
(let ((name1 'x) (name2 'y)) `(a `(b ,,name1 ,',name2 d) e))
;=> (a (quasiquote (b (unquote x) (unquote (quote y)) d)) e)
(let ((a 3)) `((1 2) ,a ,4 ,'five 6))
;=> ((1 2) 3 4 five 6)
===
(define (f x) (lambda () `(a ,x)))
((f 7))
;=> (a 7)
(define (g) `#(1 ,(+ 1 1)))
(g)
;=> #(1 2)
(g)
;=> #(1 2)
===
(call-with-current-continuation (lambda (k) (for-each (lambda (x) (if (negative? x) (k x))) '(54 0 37 -3 245 19)) #t))
;=> -3
(define list-length
  (lambda (obj)
    (call-with-current-continuation
      (lambda (return)
        (letrec ((r (lambda (obj) (cond ((null? obj) 0) ((pair? obj) (+ (r (cdr obj)) 1)) (else (return #f))))))
          (r obj))))))
(list-length '(1 2 3 4))
;=> 4
(list-length '(a b . c))
;=> #f
(define k2 #f)
(define n 0)
(+ 1 (call/cc (lambda (k) (set! k2 k) 1)))
;=> 2
(if (< n 3) (begin (set! n (+ n 1)) (k2 n)) 'done)
;=> 2
(if (< n 3) (begin (set! n (+ n 1)) (k2 n)) 'done)
;=> 3
n
;=> 2
===
(apply + (list 3 4))
;=> 7
(define compose (lambda (f g) (lambda args (f (apply g args)))))
((compose - *) 12 75)
;=> -900
(map cadr '((a b) (d e) (g h)))
;=> (b e h)
(map + '(1 2 3) '(4 5 6))
;=> (5 7 9)
(let ((v (make-vector 5 0))) (for-each (lambda (i) (vector-set! v i (* i i))) '(0 1 2 3 4)) v)
;=> #(0 1 4 9 16)
(eval '(* 7 3))
;=> 21
(let ((f (eval '(lambda (f x) (f x x))))) (f + 10))
;=> 20
(define (gen-counter) (let ((n 0)) (lambda () (set! n (+ n 1)) n)))
(define c1 (gen-counter))
(define c2 (gen-counter))
(list (c1) (c1) (c2) (c1))
;=> (1 2 1 3)
(car 5)
;=> !
(undefined-variable-zz)
;=> !
((lambda (x) x))
;=> !
(error "boom" 1 'two "three")
;=> !
(c1)
;=> 4
(string->symbol "hello")
;=> hello
(eq? (string->symbol "mISSISSIppi") 'mISSISSIppi)
;=> #t
(symbol->string 'flying-fish)
;=> "flying-fish"
(eq? 'bitBlt (string->symbol "bitBlt"))
;=> #t
(string=? "K. Harper, M.D." (symbol->string (string->symbol "K. Harper, M.D.")))
;=> #t
(begin (display "hi") (write 'x) (newline) 5)
;=> 5
===
(define-syntax swap! (syntax-rules () ((_ a b) (let ((tmp a)) (set! a b) (set! b tmp)))))
(define p 1)
(define q 2)
(swap! p q)
(list p q)
;=> (2 1)
(define-syntax my-or (syntax-rules () ((_) #f) ((_ e) e) ((_ e1 e2 ...) (let ((t e1)) (if t t (my-or e2 ...))))))
(my-or #f #f 7)
;=> 7
(define-syntax my-list (syntax-rules () ((_ x ...) (list x ...))))
(my-list 1 (+ 1 1) 'three)
;=> (1 2 three)
(define-syntax kw (syntax-rules (=>) ((_ a => b) (cons a b)) ((_ a b c) 'other)))
(kw 1 => 2)
;=> (1 . 2)
(kw 1 2 3)
;=> other
(define-syntax mk (syntax-rules () ((_) 'made-by-macro)))
(eq? (mk) 'made-by-macro)
;=> #t
(my-list)
;=> ()
(kw 1)
;=> !
(- #f 1)
;=> !
(- 'a 1)
;=> !
(- "s")
;=> !
(- 5 #f)
;=> !
(- 10 3 #t 1)
;=> !
(+ 1 #f)
;=> !
(* #t 2)
;=> !
(sub1 #f)
;=> !
(map sub1 (list 4 #f 1))
;=> !
