;; Hand-stated syntax-rules examples: R7RS 4.3.2 (be-like-begin, my-or) and the derived-form
;; definitions of R7RS 7.3, plus small transformers for each clause of the matching rules.
;; A session is: the definition, then uses; `;=> datum` is the expansion R7RS prescribes for the
;; preceding use, `;=> !` states that no rule matches.  Checked by TLC (MC_SynRules) against
;; spec/SyntaxRules.tla; the same transformers (templates quoted) are also run in marwood.
(define-syntax and
  (syntax-rules ()
    ((and) #t)
    ((and test) test)
    ((and test1 test2 ...) (if test1 (and test2 ...) #f))))
(and)
;=> #t
(and x)
;=> x
(and x y z)
;=> (if x (and y z) #f)
(and . x)
;=> !
===
(define-syntax or
  (syntax-rules ()
    ((or) #f)
    ((or test) test)
    ((or test1 test2 ...) (let ((x test1)) (if x x (or test2 ...))))))
(or)
;=> #f
(or a)
;=> a
(or a b c)
;=> (let ((x a)) (if x x (or b c)))
===
(define-syntax my-or
  (syntax-rules ()
    ((my-or) #f)
    ((my-or e) e)
    ((my-or e1 e2 ...) (let ((temp e1)) (if temp temp (my-or e2 ...))))))
(my-or 1 2 3)
;=> (let ((temp 1)) (if temp temp (my-or 2 3)))
(my-or (f x))
;=> (f x)
===
(define-syntax be-like-begin
  (syntax-rules ()
    ((be-like-begin name)
     (define-syntax name
       (syntax-rules ()
         ((name expr (... ...))
          (begin expr (... ...))))))))
(be-like-begin sequence)
;=> (define-syntax sequence (syntax-rules () ((sequence expr ...) (begin expr ...))))
(be-like-begin)
;=> !
===
(define-syntax let
  (syntax-rules ()
    ((let ((name val) ...) body1 body2 ...)
     ((lambda (name ...) body1 body2 ...) val ...))
    ((let tag ((name val) ...) body1 body2 ...)
     ((letrec ((tag (lambda (name ...) body1 body2 ...))) tag) val ...))))
(let ((a 1) (b 2)) (+ a b))
;=> ((lambda (a b) (+ a b)) 1 2)
(let () 5)
;=> ((lambda () 5))
(let loop ((i 0)) (loop (+ i 1)) i)
;=> ((letrec ((loop (lambda (i) (loop (+ i 1)) i))) loop) 0)
(let ((a 1)))
;=> !
(let ((a 1 2)) a)
;=> !
===
(define-syntax let*
  (syntax-rules ()
    ((let* () body1 body2 ...) (let () body1 body2 ...))
    ((let* ((name1 val1) (name2 val2) ...) body1 body2 ...)
     (let ((name1 val1)) (let* ((name2 val2) ...) body1 body2 ...)))))
(let* ((a 1) (b 2)) (f a b))
;=> (let ((a 1)) (let* ((b 2)) (f a b)))
(let* () 1 2)
;=> (let () 1 2)
(let* ((a 1)) a)
;=> (let ((a 1)) (let* () a))
===
(define-syntax cond
  (syntax-rules (else =>)
    ((cond (else result1 result2 ...)) (begin result1 result2 ...))
    ((cond (test => result)) (let ((temp test)) (if temp (result temp))))
    ((cond (test => result) clause1 clause2 ...)
     (let ((temp test)) (if temp (result temp) (cond clause1 clause2 ...))))
    ((cond (test)) test)
    ((cond (test) clause1 clause2 ...)
     (let ((temp test)) (if temp temp (cond clause1 clause2 ...))))
    ((cond (test result1 result2 ...)) (if test (begin result1 result2 ...)))
    ((cond (test result1 result2 ...) clause1 clause2 ...)
     (if test (begin result1 result2 ...) (cond clause1 clause2 ...)))))
(cond (else 1 2))
;=> (begin 1 2)
(cond (a => f))
;=> (let ((temp a)) (if temp (f temp)))
(cond (a => f) (else 3))
;=> (let ((temp a)) (if temp (f temp) (cond (else 3))))
(cond (a))
;=> a
(cond (a) (b 1))
;=> (let ((temp a)) (if temp temp (cond (b 1))))
(cond (a 1 2))
;=> (if a (begin 1 2))
(cond ((p x) 1) ((q x) 2) (else 3))
;=> (if (p x) (begin 1) (cond ((q x) 2) (else 3)))
(cond)
;=> !
===
(define-syntax do
  (syntax-rules ()
    ((do ((var init step ...) ...) (test expr ...) command ...)
     (letrec
         ((loop
           (lambda (var ...)
             (if test
                 (begin (if #f #f) expr ...)
                 (begin command ... (loop (do "step" var step ...) ...))))))
       (loop init ...)))
    ((do "step" x) x)
    ((do "step" x y) y)))
(do ((i 0 (+ i 1)) (acc 1)) ((= i 5) acc) (set! acc (* 2 acc)))
;=> (letrec ((loop (lambda (i acc) (if (= i 5) (begin (if #f #f) acc) (begin (set! acc (* 2 acc)) (loop (do "step" i (+ i 1)) (do "step" acc))))))) (loop 0 1))
(do "step" i (+ i 1))
;=> (+ i 1)
(do "step" acc)
;=> acc
===
(define-syntax when
  (syntax-rules ()
    ((when test result1 result2 ...) (if test (begin result1 result2 ...)))))
(when a b c)
;=> (if a (begin b c))
(when a)
;=> !
===
(define-syntax tail
  (syntax-rules ()
    ((_ a ... b c) (last2 b c (a ...)))))
(tail 1 2 3 4)
;=> (last2 3 4 (1 2))
(tail 1 2)
;=> (last2 1 2 ())
(tail 1)
;=> !
===
(define-syntax imp
  (syntax-rules ()
    ((_ a b . c) (a b c))
    ((_ . d) (rest d))))
(imp 1 2 3 4)
;=> (1 2 (3 4))
(imp 1 2)
;=> (1 2 ())
(imp 1 2 . 3)
;=> (1 2 3)
(imp 1)
;=> (rest (1))
(imp)
;=> (rest ())
(imp . 7)
;=> (rest 7)
===
(define-syntax elt
  (syntax-rules ()
    ((_ (a ... z . r)) (r z a ...))))
(elt (1 2 3 . 4))
;=> (4 3 1 2)
(elt (1 2 3))
;=> (() 3 1 2)
(elt (1))
;=> (() 1)
(elt ())
;=> !
===
(define-syntax vec
  (syntax-rules ()
    ((_ #(a b ...)) #(b ... a))
    ((_ #()) empty)))
(vec #(1 2 3))
;=> #(2 3 1)
(vec #(1))
;=> #(1)
(vec #())
;=> empty
(vec (1 2))
;=> !
===
(define-syntax nest
  (syntax-rules ()
    ((_ (k v ...) ...) (table (k (v ...)) ...))))
(nest (a 1 2) (b) (c 3))
;=> (table (a (1 2)) (b ()) (c (3)))
(nest)
;=> (table)
(nest a)
;=> !
===
(define-syntax flat
  (syntax-rules ()
    ((_ (k v ...) ...) (all v ... ...))))
(flat (a 1 2) (b) (c 3))
;=> (all 1 2 3)
===
(define-syntax for
  (syntax-rules (in from to)
    ((_ x in lst body ...) (for-each (lambda (x) body ...) lst))
    ((_ x from a to b body ...) (range-each (lambda (x) body ...) a b))))
(for y in '(1 2) (display y))
;=> (for-each (lambda (y) (display y)) '(1 2))
(for y from 1 to 3 (display y))
;=> (range-each (lambda (y) (display y)) 1 3)
(for y of lst z)
;=> !
===
(define-syntax und
  (syntax-rules ()
    ((_ _ a _) (got a))))
(und 1 2 3)
;=> (got 2)
(und 1 2)
;=> !
===
(define-syntax my-list
  (syntax-rules ::: ()
    ((_ a :::) (list a ::: ...))))
(my-list 1 2)
;=> (list 1 2 ...)
===
(define-syntax dup
  (syntax-rules ()
    ((_ a b ...) ((a b) ... (b b) ... a))))
(dup x 1 2)
;=> ((x 1) (x 2) (1 1) (2 2) x)
(dup x)
;=> (x)
===
(define-syntax ul
  (syntax-rules (_)
    ((ul _ a) (lit a))
    ((ul b a) (any b a))))
(ul _ 1)
;=> (lit 1)
(ul 2 1)
;=> (any 2 1)
===
(define-syntax dat
  (syntax-rules ()
    ((_ 1 "two" #\3 #t () a) (ok a))))
(dat 1 "two" #\3 #t () x)
;=> (ok x)
(dat 1 "two" #\3 #f () x)
;=> !
(dat 1 "twO" #\3 #t () x)
;=> !
===
(define-syntax swap-pairs
  (syntax-rules ()
    ((_ (a . b) ...) ((b . a) ...))))
(swap-pairs (1 . 2) (3 4))
;=> ((2 . 1) ((4) . 3))
===
(define-syntax dot-template
  (syntax-rules ()
    ((_ a b ...) (a b ... . a))))
(dot-template (1 2) x y)
;=> ((1 2) x y 1 2)
(dot-template z)
;=> (z . z)
===
(define-syntax dot-only-ellipsis
  (syntax-rules ()
    ((_ a ...) (a ... . end))))
(dot-only-ellipsis)
;=> end
(dot-only-ellipsis 1)
;=> (1 . end)
(dot-only-ellipsis 1 2)
;=> (1 2 . end)
===
(define-syntax dot-two-ellipses
  (syntax-rules ()
    ((_ (a ...) (b ...)) ((a ... b ... . tail) (b ... . a-done)))))
(dot-two-ellipses () ())
;=> (tail a-done)
(dot-two-ellipses (1) ())
;=> ((1 . tail) a-done)
(dot-two-ellipses () (2 3))
;=> ((2 3 . tail) (2 3 . a-done))
===
(define-syntax proper-only
  (syntax-rules ()
    ((_ (a b) c) (pair a b c))
    ((_ x c) (other x c))))
(proper-only (1 2) 3)
;=> (pair 1 2 3)
(proper-only (1 . 2) 3)
;=> (other (1 . 2) 3)
(proper-only (1 2 . 3) 4)
;=> (other (1 2 . 3) 4)
===
(define-syntax two-exact
  (syntax-rules ()
    ((_ a b) (two a b))))
(two-exact 1 2)
;=> (two 1 2)
(two-exact 1 . 2)
;=> !
===
(define-syntax all-proper
  (syntax-rules ()
    ((_ a ...) (all a ...))))
(all-proper 1 2 3)
;=> (all 1 2 3)
(all-proper 1 2 . 3)
;=> !
===
(define-syntax show-ops
  (syntax-rules ()
    ((_ x ...) (shown x ...))))
(show-ops 1 (show-ops 2))
;=> (shown 1 (show-ops 2))
(show-ops (show-ops))
;=> (shown (show-ops))
===
(define-syntax tail-after-empty
  (syntax-rules ()
    ((_ a b ... end) (closed a b ...))
    ((_ a b ...) (open a b ...))))
(tail-after-empty 1)
;=> (open 1)
(tail-after-empty 1 end)
;=> (closed 1)
(tail-after-empty 1 2 3)
;=> (closed 1 2)
===
(define-syntax nested-two-levels
  (syntax-rules ()
    ((_ (k (a b)) ...) ((k a b) ...))))
(nested-two-levels (x (1 2)) (y (3 4)))
;=> ((x 1 2) (y 3 4))
(nested-two-levels)
;=> ()
===
(define-syntax kind-of-datum
  (syntax-rules ()
    ((_ 1 a) (one a))
    ((_ "s" a) (str a))
    ((_ #t a) (true a))
    ((_ #\c a) (chr a))
    ((_ () a) (nil a))
    ((_ b a) (other a))))
(kind-of-datum 1 x)
;=> (one x)
(kind-of-datum "s" x)
;=> (str x)
(kind-of-datum #t x)
;=> (true x)
(kind-of-datum #\c x)
;=> (chr x)
(kind-of-datum () x)
;=> (nil x)
(kind-of-datum s x)
;=> (other x)
(kind-of-datum "1" x)
;=> (other x)
(kind-of-datum "#t" x)
;=> (other x)
(kind-of-datum "()" x)
;=> (other x)
(kind-of-datum c x)
;=> (other x)
(kind-of-datum "c" x)
;=> (other x)
(kind-of-datum #\s x)
;=> (other x)
(kind-of-datum #\1 x)
;=> (other x)
(kind-of-datum (1) x)
;=> (other x)
===
(define-syntax tail-of-two-literal
  (syntax-rules (stop)
    ((_ a ... b stop) (first (a ...) b))
    ((_ x ...) (second x ...))))
(tail-of-two-literal 1 2 3 stop)
;=> (first (1 2) 3)
(tail-of-two-literal 1 2 stop)
;=> (first (1) 2)
(tail-of-two-literal 1 2 3 4)
;=> (second 1 2 3 4)
(tail-of-two-literal 1 2 3 halt)
;=> (second 1 2 3 halt)
===
(define-syntax tail-of-two-datum
  (syntax-rules ()
    ((_ a ... b 0) (first (a ...) b))
    ((_ x ...) (second x ...))))
(tail-of-two-datum 1 2 3 0)
;=> (first (1 2) 3)
(tail-of-two-datum 1 2 3 4)
;=> (second 1 2 3 4)
===
(define-syntax tail-of-two-nested
  (syntax-rules ()
    ((_ a ... b (c d)) (first (a ...) b c d))
    ((_ x ...) (second x ...))))
(tail-of-two-nested 1 2 3 (4 5))
;=> (first (1 2) 3 4 5)
(tail-of-two-nested 1 2 3 4)
;=> (second 1 2 3 4)
(tail-of-two-nested 1 2 3 (4 5 6))
;=> (second 1 2 3 (4 5 6))
===
(define-syntax tail-of-two-only-rule
  (syntax-rules (stop)
    ((_ a ... b stop) ((a ...) b))))
(tail-of-two-only-rule 1 2 3 stop)
;=> ((1 2) 3)
(tail-of-two-only-rule 1 2 3 4)
;=> !
===
(define-syntax tail-of-three
  (syntax-rules (x y)
    ((_ a ... x b y) (xy (a ...) b))
    ((_ a ...) (plain a ...))))
(tail-of-three 1 2 x 3 y)
;=> (xy (1 2) 3)
(tail-of-three 1 2 x 3 z)
;=> (plain 1 2 x 3 z)
(tail-of-three 1 2 z 3 y)
;=> (plain 1 2 z 3 y)
