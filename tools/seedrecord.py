#!/usr/bin/env python3
"""tools/seedrecord.py PROP N  -- file a confirmed seeded change under /verif/seeded/PROP-N/ (patch.diff, demo,
meta.json) from /tmp/seed/PROP.out/N/ and the confirmation log /tmp/seed/logs/PROP-N.log."""
import json, os, re, shutil, sys
prop, n = sys.argv[1], sys.argv[2]
# SEED_DIR=/tmp/seed2 SEED_TAG=r2 files round-2 records as PROP-r2-N; extra logs (re-checks after strengthening) are
# /tmp/seedN/logs/PROP-N-b.log etc. and are appended in order
base = os.environ.get('SEED_DIR', '/tmp/seed')
tag = os.environ.get('SEED_TAG', '')
src = '%s/%s.out/%s' % (base, prop, n)
dst = '/verif/seeded/%s-%s%s' % (prop, (tag + '-') if tag else '', n)
log = ''
for suffix in ('', 'b', '-b', '-c'):
    lp = '%s/logs/%s-%s%s.log' % (base, prop, n, suffix)
    if os.path.exists(lp):
        t = open(lp).read()
        if '--- check' not in t:
            # a bare tools/mutant.sh log: wrap it
            t = '--- check %s against the change\n%s\nexit=%d\n' % (prop, t, 1 if 'VIOLATION' in t else 0)
        log += t + '\n'
os.makedirs(dst, exist_ok=True)
for f in ('patch.diff', 'demo.rs', 'notes.md'):
    if os.path.exists(os.path.join(src, f)):
        shutil.copy(os.path.join(src, f), os.path.join(dst, f))
for f in os.listdir(src):
    if f.endswith('.scm') or f.endswith('.txt'):
        shutil.copy(os.path.join(src, f), os.path.join(dst, f))
notes = open(os.path.join(src, 'notes.md')).read() if os.path.exists(os.path.join(src, 'notes.md')) else ''
checks = re.findall(r'--- check (\w+) against the change\n(.*?)exit=(\d+)', log, re.S)
meta = {
    'property': prop,
    'origin': 'sub-agent given only the property text and a scratch worktree of /repo',
    'needs_to_manifest': (re.search(r'(?is)(what it takes|needs|manifest|trigger)[^\n]*\n(.{0,900})', notes) or [None, None, ''])[2].strip()[:900] or notes[:900],
    'confirmed': {
        'suite_with_change': (re.search(r'suite with change: (.*)', log) or [None, '?'])[1],
        'demo_with_change': (re.search(r'demo with change: (.*)', log) or [None, '?'])[1],
        'demo_without_change': (re.search(r'demo without change: (.*)', log) or [None, '?'])[1],
        'how': 'tools/seedcheck.sh %s %s (scratch worktree of /repo HEAD, cargo test --workspace --offline, demo dropped into marwood/tests/)' % (prop, n),
    },
    'checks_run': [{'check': c, 'tier': 'quick', 'exit': int(e), 'detected': int(e) == 1,
                    'first_lines': [l[:300] for l in out.strip().split('\n') if l.strip()][:4]} for c, out, e in checks],
}
meta['base_commit'] = os.environ.get('SEED_BASE', '60abf79')
meta['round'] = tag or 'r1'
if len(sys.argv) > 3:
    meta['remarks'] = ' '.join(sys.argv[3:])
json.dump(meta, open(os.path.join(dst, 'meta.json'), 'w'), indent=1)
print(dst, [(c['check'], c['detected']) for c in meta['checks_run']])
