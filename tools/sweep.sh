#!/bin/sh
# tools/sweep.sh <seed> [tier]: run every registered check with VERIF_SEED=<seed> on the unchanged tree and
# list the exit codes (evidence and work go to a scratch directory); any non-zero exit is a false alarm or a tool error.
SEED=$1; TIER=${2:-quick}
D=/tmp/sweep-$SEED
mkdir -p $D
export VERIF_SEED=$SEED VERIF_WORK=$D/work VERIF_EVID=$D/evid VERIF_REPLAYS=$D/replays
for p in C01 C02 C03 C04 C05 C06 C07 C08 C09 C10 C11 C12 C13 C14 C15 C16 C17 C18 C20; do
  /verif/bin/check $p $TIER > $D/$p.out 2>&1
  echo "$p seed=$SEED exit=$? $(grep -c '^VIOLATION' $D/$p.out) violations $(grep -c '^KNOWN-FINDING' $D/$p.out) known $(grep -E 'exit [0-9] in' $D/$p.out | sed 's/.*in //')" >> $D/summary.txt
done
echo done >> $D/summary.txt
