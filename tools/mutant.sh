#!/bin/sh
# tools/mutant.sh <patch.diff> <ID> [tier]   -- run a check against a scratch worktree of /repo with the
# patch applied, without touching /repo.  Everything lives under /tmp/mwmut-$$ and is removed afterwards.
# Exit code = the check's exit code (1 = the mutant is detected).
set -e
PATCH=$(readlink -f "$1"); ID=$2; TIER=${3:-quick}
D=/tmp/mwmut-$$
mkdir -p $D
git -C /repo worktree add -q --detach $D/repo HEAD
trap 'cd /; git -C /repo worktree remove --force '$D'/repo 2>/dev/null; rm -rf '$D EXIT
git -C $D/repo apply "$PATCH" 2>/dev/null || git -C $D/repo apply -3 "$PATCH"
rsync -a --exclude target /verif/harness/ $D/harness/
sed -i "s|/repo/marwood|$D/repo/marwood|" $D/harness/Cargo.toml
export VERIF_MAX_HEAP=${VERIF_MAX_HEAP:-3g}
export VERIF_HARNESS=$D/harness VERIF_WORK=$D/work VERIF_EVID=$D/evidence VERIF_REPLAYS=$D/replays
set +e
/verif/bin/check $ID $TIER > $D/out.txt 2>&1
RC=$?
grep -E "VIOLATION|KNOWN-FINDING|TOOL-ERROR|exit " $D/out.txt | cut -c1-300 | head -${MUTANT_LINES:-6}
grep -A1 "^VIOLATION" $D/out.txt | grep -v "^VIOLATION\|^--" | cut -c1-400 | head -3
[ $RC -ge 2 ] && tail -25 $D/out.txt | cut -c1-300
exit $RC
