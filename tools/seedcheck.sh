#!/bin/sh
# tools/seedcheck.sh <PROP> <n> [check ids...]  -- confirm a seeded change delivered under /tmp/seed/<PROP>.out/<n>/
# (patch.diff + demo.rs): (1) suite green with it, (2) demo fails with it, (3) demo passes without it;
# then run the given checks (default: the property's own) against it with tools/mutant.sh.
PROP=$1; N=$2; shift 2
CHECKS=${*:-$PROP}
SRC=${SEED_DIR:-/tmp/seed}/$PROP.out/$N
D=/tmp/seedchk-$$
mkdir -p $D
git -C /repo worktree add -q --detach $D/repo HEAD || exit 2
trap 'cd /; git -C /repo worktree remove --force '$D'/repo 2>/dev/null; rm -rf '$D EXIT
cd $D/repo
if ! git apply "$SRC/patch.diff" 2>$D/apply.err && ! { git apply -3 "$SRC/patch.diff" 2>$D/apply.err && git reset -q; }; then echo "APPLY-FAILED: $(head -3 $D/apply.err)"; exit 3; fi
SUITE=$(cargo test --workspace --no-fail-fast --offline 2>&1 | grep -E "^test result" | grep -v "ok\. 0 passed" | awk '{s+=$4; f+=$6} END {print s" passed "f" failed"}')
echo "suite with change: $SUITE"
DEMO=none
if [ -f "$SRC/demo.rs" ]; then
  cp "$SRC/demo.rs" marwood/tests/zz_seed_demo.rs
  W=$(cargo test -p marwood --test zz_seed_demo --offline 2>&1 | grep -E "^test result" | head -1)
  echo "demo with change: $W"
  git checkout -q -- . 2>/dev/null; git apply -R "$SRC/patch.diff" 2>/dev/null
  git stash -q 2>/dev/null; git checkout -q -- . ; 
  cp "$SRC/demo.rs" marwood/tests/zz_seed_demo.rs
  WO=$(cargo test -p marwood --test zz_seed_demo --offline 2>&1 | grep -E "^test result" | head -1)
  echo "demo without change: $WO"
  rm -f marwood/tests/zz_seed_demo.rs
fi
cd /
for c in $CHECKS; do
  echo "--- check $c against the change"
  MUTANT_LINES=3 /verif/tools/mutant.sh "$SRC/patch.diff" $c quick
  echo "exit=$?"
done
