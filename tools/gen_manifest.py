#!/usr/bin/env python3
"""Writes MANIFEST.json from the table below (single source of truth for the registered checks)."""
import json, os, subprocess
here = os.path.dirname(os.path.abspath(__file__))
root = os.path.dirname(here)

CHECKS = {
 'C01': dict(cat='model_checking', tech='trace validation of generated sessions against the TLA+ reference semantics SchemeCEK with TLC',
   text='Every generated session (typed grammar over all core and derived forms, failure injection) and the hand-stated R7RS corpus is executed by the real VM (fresh, and after unrelated definitions) and validated form by form by TLC against the CEK machine of spec/SchemeCEK.tla: value, failure, error payload and output must match. Exhaustive only over the corpus; the grammar is sampled (400 quick / 20000 thorough sessions). In addition the second, implementation-shaped TLA+ semantics Machine.tla (Compile: core form -> instructions; Exec: one instruction) is bound to the code: for grammar sessions and scope skeletons TLC compiles every macro-expanded form itself and requires the real compiler listing to be equal instruction for instruction, then executes it and requires sp, bp, instruction offset, the value in acc and the slot on top of the control stack to be equal before every instruction (Trace_Machine).',
   note='Trusted: TLC/SANY/Json module, the Cell->JSON projection, my reading of R7RS encoded in SchemeCEK (regression: corpus/r7rs.scm). Sessions leaving the model (big integers, R7RS-unspecified steps) are abandoned and counted.', ref='5 C01'),

 'C02': dict(cat='model_checking', tech='trace validation of scope-skeleton sessions against the TLA+ reference semantics SchemeCEK (environment = name->location) with TLC',
   text='Scope skeletons (nested procedures over a,b,c; parameter / rest / internal definition / free per level; set! before and after closure creation; closures invoked inside the creator, after its return, repeatedly; closures made in loops) log every read; the real VM runs them and TLC validates the complete read log against the CEK machine, whose environments map names to store locations, one location per binding per activation. Exhaustive for one level (216) in quick and for two levels (11664) in thorough; three and four levels sampled. The slot-level mechanism is checked as well: Machine.tla models environments as name -> (value | pointer into another environment), CLOSURE pointing captured names at the creator activation and ENTER cloning per activation; Trace_Machine requires every compiled lambda to capture every free variable (computed by the specification) bound by its enclosing lambda and validates the register trace of every instruction; MC_Machine model-checks Machine against SchemeCEK on a bounded grammar (every 61st of 1.39 million programs quick, all thorough) and on 3772 closure/continuation skeleton programs.',
   note='Same trusted base as C01; slot numbers are compared by variable name (marwood numbers slots in hash-set iteration order).', ref='5 C02'),
 'C03': dict(cat='model_checking', tech='trace validation under forced collection schedules against the collector-free TLA+ semantics SchemeCEK; (structural half: MarwoodGC/Trace_GC)',
   text='The CEK machine has no collector, so a single behaviour of it is the oracle for every collection schedule: each session (allocation-heavy templates, C01/C02/C05 generators) is executed with no forced collection, with a collection forced before every k-th instruction (k in 1..16) and under pseudo-random schedules, and every run is validated by TLC against that behaviour. Register traces recorded under forced collections (every 1st / 2nd / 3rd instruction) are validated instruction by instruction against the collector-free instruction-level model Machine.tla.',
   note='Collections are forced through the verif hook at instruction boundaries (the place where natural collections happen). Same trusted base as C01.', ref='5 C03'),
 'C05': dict(cat='model_checking', tech='trace validation of continuation sessions against the TLA+ reference semantics SchemeCEK (continuation value = captured K) with TLC',
   text='Sessions built from 15 parametrised continuation templates (escape, re-entry from later top-level forms, operand positions, storage in data, nested extents, generators, coroutines) are run in the real VM and validated form by form by TLC against the CEK machine, in which call/cc captures the continuation K as a value and invoking it replaces K while the store is kept. At instruction level Machine.tla models capture as a copy of stack[1..sp] and the registers and invocation as their restoration with the value in acc; the register trace of every instruction of continuation sessions is validated against it (Trace_Machine), the calling-protocol arithmetic against VMRules (Trace_VM).',
   note='Same trusted base as C01. Continuations are always invoked with exactly one value.', ref='5 C05'),
 'C07': dict(cat='model_checking', tech='trace validation of failure histories and their effects-only twin histories against SchemeCEK with TLC',
   text='Histories interleaving failing forms (9 templates incl. blocks of k identical failures, k<=50 quick / 1000 thorough) and probes are run twice in the real VM: as generated, and with each failing form replaced by the effects it completed. TLC validates both against the CEK machine (failure aborts the form, store and globals persist) and checks that every probe - value, failure, error payload, stack trace - is identical in both, that every evaluation starts at the idle stack pointer, and that stack capacity and live cells do not grow over repeated identical failures.',
   note='Same trusted base as C01. The stack-trace format is not specified; the residue-free twin history is its oracle.', ref='5 C07'),
 'C13': dict(cat='model_checking', tech='trace validation of sliced runs (prepare_eval + run_count budgets) against the slice-free TLA+ semantics SchemeCEK with TLC',
   text='The CEK machine has no slices, so one behaviour is the oracle for every budget sequence: programs of the C01/C05/allocation generators are run with constant budgets 1..64 (each) and with seeded random budget sequences in 1..10^4; TLC validates value, failure, output and later global effects of every sliced run, and that no resumed slice with work left executes zero instructions. Register traces of runs in slices of 1, 5 and 37 instructions are validated instruction by instruction against the slice-free instruction-level model Machine.tla.',
   note='Same trusted base as C01; instructions per slice are counted by the verif hook.', ref='5 C13'),

 'C04': dict(cat='model_checking', tech='trace validation of tail-call loop programs against SchemeCEK with a refinement bound between continuation depth and the implementation stack pointer (TLC)',
   text='In the CEK machine a call pushes no frame, so tail calls are exactly the calls across which the continuation depth D does not grow. For every loop program (21 tail contexts and their compositions x caller/callee arities 0..4 with/without rest x cycles of 1-3 procedures) TLC runs the machine at n=10 and n=100, checks value agreement with the implementation, D(10)=D(100), and that the implementation\'s maximal stack pointer stays within (D+2)(2W+5); the runs at n=1000 and n=100000 (implementation only, statistics hook) must stay within the same bound and return the value of the non-tail twin program. The compiler side is checked directly: Compile of Machine.tla threads the tail flag as R7RS 3.5 defines tail position (if arms, last body expression; derived forms reach it macro-expanded) and Trace_Machine requires the real listing of every tail program to carry TCALL at exactly those applications, then validates the frame rewrite of every TCALL in the register trace. The arithmetic behind the constant-space argument is proved with TLAPS for all natural numbers (VMRulesProofs.tla: an activation entered by TCALL returns with exactly the stack pointer the replaced activation would have returned with; CALL/ENTER/RET, VARARG and builtin calls restore the stack pointer).',
   note='The bound rests on the argument of DESIGN.md 5/C04 (each VM return frame belongs to a pending non-tail call under a distinct CEK context frame). TLC cannot run 10^5 iterations; the twin program is the value oracle there.', ref='5 C04'),
 'C11': dict(cat='model_checking', tech='exhaustive TLC model check of the reader grammar spec (Reader.tla) + replay of all TLC-generated token-class sequences into parse_text + trace validation of scanner spans',
   text='Reader.tla states R7RS 7.1.2 twice (grammar predicate and pushdown recogniser) and TLC proves them equivalent and prefix-consistent for all class sequences to length 7 (quick) / 8 (thorough). Every sequence to length 5 / 7 is emitted by TLC with its required classification (datum consuming k tokens / incomplete / error / unspecified), rendered with 8 spellings and separator choices and replayed into parse_text and the eval_text loop; seeded Unicode texts are scanned by the implementation and TLC validates the span discipline and the grammar verdict of each recorded text.',
   note='Trusted: the rendering tables of harness/src/reader.rs. The REPL and wasm front ends are not linked; their loops are the parse_text/eval_text computation exercised here.', ref='5 C11'),
 'C17': dict(cat='model_checking', tech='trace validation of (transformer, use) records against the TLA+ specification of R7RS 4.3.2 (SyntaxRules.tla) with TLC',
   text='SyntaxRules.tla specifies matching and template instantiation (literals, underscore, custom ellipsis, nested ellipses, tails after an ellipsis, improper and vector patterns/templates, (... ...)). Generated transformers and uses are evaluated by the real VM with quoted templates under a resource watchdog; TLC recomputes Expand for every record and accepts a reported error always, a value only when it equals the prescribed expansion, and never a panic or time-out. The spec is regression-checked on 95 hand-stated R7RS examples.',
   note='Hygiene is out of scope by construction (quoted templates, no binders). Seven genuine matcher/expander defects are listed as open known findings with structural signatures; a different defect on transformers of exactly those shapes could be masked.', ref='5 C17'),
 'C18': dict(cat='model_checking', tech='trace validation of symbol-production sessions under forced collection schedules against SchemeCEK (symbols are interned names) with TLC',
   text='In the CEK machine a symbol is its interned name (symbol table in the machine state), eq? on symbols is identity of the interned name, and the two conversions are the identity on names. Sessions produce two symbols by every pair of routes with names from all of Unicode, keep or drop the first, within one form or across forms, under forced collections at every k-th instruction and pseudo-random boundaries; TLC validates eq?, memq and the string round trips observed inside the language.',
   note='The intern table itself is checked structurally by the C03/C12 snapshot check.', ref='5 C18'),

 'C08': dict(cat='model_checking', tech='trace validation of recorded arithmetic operation records against NumTower/BigNum (arbitrary-precision arithmetic specified in TLA+) with TLC',
   text='BigNum.tla specifies integers as base-10^4 limb sequences (self-checked by TLC against native integers on 416k pairs) and NumTower.tla exact rationals and IEEE doubles decoded to exact values. The harness draws operands from the boundary palette in every internal representation (injected Number variants and Scheme-level routes), evaluates + - * / abs floor ceiling truncate numerator denominator expt quotient remainder modulo in the real VM, and TLC judges every record: exact results must equal the true value, inexact ones are allowed only when the exact result is unrepresentable and within 2^-50 relative error, representations must agree, panics are rejected.',
   note='Sampled with boundary bias (7.5k quick / 280k thorough evaluations). Open known findings: the deliberate float fallback of mixed rational arithmetic (109 structural keys + 47 unobserved siblings).', ref='5 C08'),
 'C09': dict(cat='model_checking', tech='trace validation of recorded comparison records against NumTower/BigNum with TLC',
   text='Comparison records (< = > <= >=, binary and variadic, min max zero? positive? negative?) over the C08 palette extended with doubles (near 2^53 and 2^63, +-0.0, subnormals, infinities, neighbours of exact values) in every representation; TLC decides each truth value from the exact mathematical values, so trichotomy, consistency, transitivity and the variadic rule are consequences checked per record.',
   note='NaN excluded. min/max judged by value only.', ref='5 C09'),
 'C12': dict(cat='model_checking', tech='exhaustive TLC model check of the collector model MarwoodGC + trace validation of heap snapshots and capacity events against GCPreds',
   text='MarwoodGC.tla (cells Free/Allocated/Used, free list, intern table, roots, 1.5x growth policy, stop-the-world mark with worklist and sweep) is model checked exhaustively for small heaps: Safety, Exactness after sweep, FreeListOK, InternOK, MarksReset, marking terminates. The same predicates (GCPreds.tla) validate snapshots taken before marking and after sweeping at natural and forced collections of the real VM: exactly the allocated cells reachable from the roots survive, survivors unchanged, free list = free cells without duplicates, intern table = symbol cells. Garbage loops (17 allocation kinds, among them runs of failing evaluations, loops driven in slices, continuation chains handed on by the receiver, delay-force chains, top-level forms with fresh local names and bulk-builtin bursts, x live sizes 0/10/1000/4000 - the last beyond one 8192-cell chunk - x n and 10n iterations) must follow the growth policy, end with capacity(10n) = capacity(n) and stay under the bound derived from the live data.',
   note='The projection of raw cells to out-edges and roots (harness/src/snap.rs) is trusted; it is written from the meaning of the cell kinds, not from heap.rs. The abstract model is checked for heaps of at most 3 cells (quick) / with liveness (thorough).', ref='5 C12'),
 'C16': dict(cat='model_checking', tech='trace validation of number<->string records against NumTower (digit strings and rounding intervals specified in TLA+) with TLC',
   text='Records (z, radix, number->string, string->number of it, the prefixed source literal) over the C08/C09 palettes, random fixnums, bignums, rationals at radix 2/8/10/16 and finite doubles by bit pattern at radix 10. TLC checks the read-back equals z with the same exactness, the literal denotes the same value, and - independently of the reader - that the printed digits denote z (Horner value for exact numbers, rounding interval for doubles).',
   note='Doubles at radix 10 only.', ref='5 C16'),
 'C20': dict(cat='model_checking', tech='exhaustive TLC model check of Highlight.tla + replay of all TLC-generated (text, cursor) cases into the real highlighter + trace validation of Unicode cases',
   text='Highlight.tla specifies tokenisation over the 11-symbol alphabet, bracket tokens, the properly nested partner and the required output (unchanged, or one escape pair around the partner) plus the one-directional highlight_check requirement. TLC checks spec invariants (partner is an involution, pairs never cross) for all texts to length 5/6 and emits every (text, byte cursor) case to length 4 (quick) / 6 (thorough) with its required outcome; the harness calls both real methods under catch_unwind and compares exactly. Longer texts by simulation; seeded Unicode texts are validated I->S for the weak clauses.',
   note='The statement asks for length 8 exhaustively (11^8 texts): out of reach; the bound reached is in the evidence. Where the statement is ambiguous (cursor on a non-bracket token directly after a bracket) both readings are accepted.', ref='5 C20'),

 'C14': dict(cat='model_checking', tech='replay of TLC-generated behaviours of Store.tla (pool of objects with identity, library specified in Prims.tla) on the real VM',
   text='Store.tla is a state machine over a heap of objects with identity and a pool of four named values; each step applies one list/vector procedure of the statement (specified in Prims.tla from R7RS) to arguments drawn from the pool, index ranges -1..len+1 and 100, and keys. TLC enumerates every operation with every argument combination on six initial pools (exhaustive for one step; frame condition and type invariant checked on the spec) and simulates sequences of length 12 (one family of operations and one candidate drawn per step, copies and mutators more often; the evidence reports the mean number of drawn operations, the procedures drawn and the behaviours with a mutation after a copy, and a degenerate simulation is a tool error); each behaviour carries the required outcome (value / error / unspecified), the rendering of all pool objects and the identity matrix (which pool objects are the same object or a tail of which) after every step, and the harness replays it on the real VM comparing result, all four objects and the identity matrix (read from the heap pointers of the VM) after each step.',
   note='Identity is observed through mutation visibility and through the heap pointers of the pool slots (verif accessors), never through eq? on pairs: the pinned suite fixes (eq? (cons a b) (cons a b)) => #t. Mutations that would create cycles are not generated. Exhaustive for single operations only; sequences are sampled (3000 quick / 150000 thorough).', ref='5 C14'),
 'C15': dict(cat='model_checking', tech='replay of TLC-generated behaviours of Strings.tla (strings as mutable vectors of Unicode scalar values, character table CharTable.tla) on the real VM',
   text='Strings.tla: pool of strings mixing 1-4 byte characters (and the lists/vectors the conversions produce); each step applies one string or character procedure of the statement with start/end/index from -1..len+1, characters from a 17-character palette of every UTF-8 width, integers across the surrogate gap and above U+10FFFF, and wrong-typed arguments. TLC enumerates all single operations on three pools (15.8k behaviours; invariants: only scalar values in strings, mutators keep lengths, frame condition) and simulates sequences of length 10; the harness replays them comparing result and every pool object after each step.',
   note='Case mapping and character classes from the explicit table CharTable.tla (ASCII + palette, taken from the Unicode data files); U+00DF and characters outside the table: any outcome accepted.', ref='5 C15'),

 'C06': dict(cat='exploration', tech='replay of TLC-generated call descriptors from Builtins.tla (signature table over a 42-value palette) on the real VM with crash/hang isolation; trace validation of text entry points (Trace_API)',
   text='Builtins.tla holds the signature table of the global procedures and a palette of 42 values of every kind with boundary values (incl. zeros left in rational and bignum representation by cancelling arithmetic, data holding procedures, macro values and continuations, circular list, self-containing vector, i64 extremes, bignum, rationals, inf, NaN, -0.0, procedures, continuation, macro value, unspecified value). TLC enumerates the calls (all procedures x arities 0 and 1 completely, arity 2 by stride or completely, arities 3-5 by stride); the harness executes each call in a real VM, attributes a crash or hang of the process to the call in flight, renders every error and value as text, and evaluates a probe afterwards. Generated texts (random Unicode, token soup, mutated programs, nesting to 64) go through scan, parse, eval_text and sliced evaluation and TLC (Trace_API) rejects any outcome other than a value or an error.',
   note='C06 demands only value-or-error; what R7RS prescribes for each call is emitted too and counted, not enforced. Allocation sizes and exponents beyond 10^6 are outside the property. Two open known findings (cyclic data).', ref='5 C06'),
 'C10': dict(cat='exploration', tech='trace validation of write/read/eval records against Codec.tla (write injective, read its left inverse, write stable, quote-eval identity) with TLC',
   text='Codec.tla states what a printer/reader pair satisfies with the text as an opaque token. The harness generates data (all kinds, finite doubles by bit pattern, integers across the fixnum/bignum boundary, rationals, all Unicode classes in characters and strings, reader-produced symbols, containers to depth 6), records write(d), read of that text, write again and the evaluation of (quote d); TLC checks every record structurally (numbers by value and exactness) and the injectivity of write on records sorted by text.',
   note='The spelling chosen by the printer is not specified (C16 judges numeric spellings). Sampled: 30000 quick / 200000 thorough data.', ref='5 C10'),
}
NOT_YET = {}
NA = {
 'C19': 'native-stack exhaustion kills the host process; a dead process yields no trace to validate and native stack depth is no part of any state a TLA+ specification of marwood can be bound to (DESIGN.md 5, C19)',
}
ALL = ['C%02d' % i for i in range(1, 21)]

def main():
    commits = subprocess.check_output(['git', '-C', '/repo', 'log', '--format=%h %s'], text=True).splitlines()
    hooks = [c.split()[0] for c in commits if c.split(' ', 1)[1].startswith('verif hooks')]
    checks = []
    for pid in ALL:
        if pid in CHECKS:
            c = CHECKS[pid]
            checks.append({
                'property_id': pid,
                'quick_cmd': 'bin/check %s quick' % pid,
                'thorough_cmd': 'bin/check %s thorough' % pid,
                'evidence_file': 'evidence/%s.json' % pid,
                'replay_cmd_template': 'bin/check %s --replay {path}' % pid,
                'engine': 'tlc',
                'level_claimed': {'category': c['cat'], 'text': c['text'], 'design_ref': 'DESIGN.md section ' + c['ref']},
                'level_note': c['note'],
                'technique': c['tech'],
            })
    na = []
    for pid in ALL:
        if pid in CHECKS:
            continue
        na.append({'property_id': pid, 'reason': NA.get(pid, 'check under construction in this session: specification and harness for this property are not committed yet')})
    m = {
        'version': 1,
        'setup_cmd': 'bin/setup',
        'hooks': {
            'guard': 'cargo feature "verif" of the marwood crate',
            'enable': 'the harness crate /verif/harness depends on /repo/marwood with features = ["verif"]; cargo build --release --offline in /verif/harness rebuilds marwood from the working tree',
            'baseline_off_cmd': 'cd /repo && cargo test --workspace --no-fail-fast --offline',
            'source_commits': hooks,
            'add_only': False,
        },
        'engines': [
            {'name': 'tlc', 'path': 'spec/', 'serves_properties': sorted(CHECKS), 'kind_free_text': 'TLA+ specifications checked with TLC 1.8: exhaustive MC_* configurations, trace validation (Trace_*), behaviour generation (Gen_*)'},
            {'name': 'mwverif', 'path': 'harness/', 'serves_properties': sorted(CHECKS), 'kind_free_text': 'Rust conformance harness: drives the real library (feature verif), records ndjson traces, replays TLC-generated behaviours'},
        ],
        'checks': checks,
        'not_applicable': na,
        'notes': 'Model-based verification with explicit TLA+ specifications; see DESIGN.md. add_only is false because run_gc gained "!forced &&" in its utilisation test (one edited line).',
    }
    with open(os.path.join(root, 'MANIFEST.json'), 'w') as f:
        json.dump(m, f, indent=1)
    print('MANIFEST: %d checks, %d not applicable' % (len(checks), len(na)))

if __name__ == '__main__':
    main()
