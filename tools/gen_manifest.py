#!/usr/bin/env python3
"""Writes MANIFEST.json from the table below (single source of truth for the registered checks)."""
import json, os, subprocess
here = os.path.dirname(os.path.abspath(__file__))
root = os.path.dirname(here)

CHECKS = {
 'C01': dict(cat='model_checking', tech='trace validation of generated sessions against the TLA+ reference semantics SchemeCEK with TLC',
   text='Every generated session (typed grammar over all core and derived forms, failure injection) and the hand-stated R7RS corpus is executed by the real VM (fresh, and after unrelated definitions) and validated form by form by TLC against the CEK machine of spec/SchemeCEK.tla: value, failure, error payload and output must match. Exhaustive only over the corpus; the grammar is sampled (400 quick / 20000 thorough sessions).',
   note='Trusted: TLC/SANY/Json module, the Cell->JSON projection, my reading of R7RS encoded in SchemeCEK (regression: corpus/r7rs.scm). Sessions leaving the model (big integers, R7RS-unspecified steps) are abandoned and counted.', ref='5 C01'),
}
NOT_YET = {}
NA = {
 'C19': 'native-stack exhaustion kills the host process; a dead process yields no trace to validate and native stack depth is no part of any state a TLA+ specification of marwood can be bound to (DESIGN.md 5, C19)',
}
ALL = ['C%02d' % i for i in range(1, 21)]

def main():
    commits = subprocess.check_output(['git', '-C', '/repo', 'log', '--format=%h %s'], text=True).splitlines()
    hooks = [c.split()[0] for c in commits if c.split(' ', 1)[1].startswith('verif hooks')]
    checks = []
    for pid in ALL:
        if pid in CHECKS:
            c = CHECKS[pid]
            checks.append({
                'property_id': pid,
                'quick_cmd': 'bin/check %s quick' % pid,
                'thorough_cmd': 'bin/check %s thorough' % pid,
                'evidence_file': 'evidence/%s.json' % pid,
                'replay_cmd_template': 'bin/check %s --replay {path}' % pid,
                'engine': 'tlc',
                'level_claimed': {'category': c['cat'], 'text': c['text'], 'design_ref': 'DESIGN.md section ' + c['ref']},
                'level_note': c['note'],
                'technique': c['tech'],
            })
    na = []
    for pid in ALL:
        if pid in CHECKS:
            continue
        na.append({'property_id': pid, 'reason': NA.get(pid, 'check under construction in this session: specification and harness for this property are not committed yet')})
    m = {
        'version': 1,
        'setup_cmd': 'bin/setup',
        'hooks': {
            'guard': 'cargo feature "verif" of the marwood crate',
            'enable': 'the harness crate /verif/harness depends on /repo/marwood with features = ["verif"]; cargo build --release --offline in /verif/harness rebuilds marwood from the working tree',
            'baseline_off_cmd': 'cd /repo && cargo test --workspace --no-fail-fast --offline',
            'source_commits': hooks,
            'add_only': False,
        },
        'engines': [
            {'name': 'tlc', 'path': 'spec/', 'serves_properties': sorted(CHECKS), 'kind_free_text': 'TLA+ specifications checked with TLC 1.8: exhaustive MC_* configurations, trace validation (Trace_*), behaviour generation (Gen_*)'},
            {'name': 'mwverif', 'path': 'harness/', 'serves_properties': sorted(CHECKS), 'kind_free_text': 'Rust conformance harness: drives the real library (feature verif), records ndjson traces, replays TLC-generated behaviours'},
        ],
        'checks': checks,
        'not_applicable': na,
        'notes': 'Model-based verification with explicit TLA+ specifications; see DESIGN.md. add_only is false because run_gc gained "!forced &&" in its utilisation test (one edited line).',
    }
    with open(os.path.join(root, 'MANIFEST.json'), 'w') as f:
        json.dump(m, f, indent=1)
    print('MANIFEST: %d checks, %d not applicable' % (len(checks), len(na)))

if __name__ == '__main__':
    main()
