//! `mwverif vmtrace kind=<generator> seed= count= out=`: instruction traces for Trace_VM.
//! At every instruction boundary the hook records the instruction about to execute, sp, bp,
//! ip, the kind of value in acc and the frame slots the calling-protocol rules refer to.
//! One ndjson record per evaluated form: {id, text, steps:[...]} (the last step is a terminator).
use crate::enc::parse_all;
use crate::gen_cmd::{get, kv};
use crate::sess::{RunCfg, Session};
use marwood::vm::verif::VerifEvent;
use marwood::vm::vcell::VCell;
use marwood::vm::Vm;
use serde_json::{json, Value};
use std::cell::RefCell;
use std::io::Write;
use std::rc::Rc;

fn argc_at(vm: &Vm, idx: i64) -> i64 {
    if idx < 0 {
        return -1;
    }
    match vm.verif_stack().get(idx as usize) {
        Ok(VCell::ArgumentCount(n)) => *n as i64,
        _ => -1,
    }
}

fn step_record(vm: &Vm) -> Value {
    let (ipl, ipo) = vm.verif_ip();
    let sp = vm.verif_stack().get_sp() as i64;
    let bp = vm.verif_bp() as i64;
    let heap = vm.verif_heap().verif_cells();
    let (op, nargs) = match heap.get(ipl) {
        Some(VCell::Lambda(l)) => (
            match l.bc.get(ipo) {
                Some(VCell::OpCode(o)) => format!("{:?}", o),
                _ => "?".to_string(),
            },
            l.args.len() as i64,
        ),
        _ => ("?".to_string(), 0),
    };
    let acc = match vm.verif_acc() {
        VCell::Ptr(p) => heap.get(*p).cloned().unwrap_or(VCell::Undefined),
        v => v.clone(),
    };
    let (acck, bname) = match &acc {
        VCell::Closure(_, _) => ("closure", String::new()),
        VCell::Lambda(_) => ("lambda", String::new()),
        VCell::BuiltInProc(b) => ("builtin", b.desc().to_string()),
        VCell::Continuation(_) => ("continuation", String::new()),
        _ => ("other", String::new()),
    };
    let sbp = match vm.verif_stack().get((bp + 4).max(0) as usize) {
        Ok(VCell::BasePointer(b)) => *b as i64,
        _ => -1,
    };
    json!({"op": op, "sp": sp, "bp": bp, "ipo": ipo, "acck": acck, "bname": bname,
           "targc": argc_at(vm, sp), "argc2": argc_at(vm, sp - 2), "fargc": argc_at(vm, bp + 1), "sbp": sbp,
           "nreq": nargs - 1})
}

pub fn main(args: &[String]) -> Result<(), String> {
    let m = kv(args);
    let kind = m.get("kind").cloned().unwrap_or("lang".into());
    let seed: u64 = get(&m, "seed", 0);
    let count: usize = get(&m, "count", 10);
    let maxsteps: usize = get(&m, "maxsteps", 4000);
    let out = m.get("out").cloned().ok_or("out=<file> required")?;
    let mut f = std::io::BufWriter::new(std::fs::File::create(&out).map_err(|e| e.to_string())?);
    let mut id = 0;
    for i in 0..count {
        let sseed = seed.wrapping_mul(1_000_003).wrapping_add(i as u64);
        let forms = if kind == "tail" {
            let p = crate::gen_tail::nth(i * 97 + (seed as usize % 97), &mut crate::rng::Rng::new(sseed));
            let mut v: Vec<String> = vec!["(define cnt 0)".into(), "(define acc 0)".into()];
            v.extend(p.defs_tail.iter().cloned());
            v.push(format!("(begin (set! cnt 12) (set! acc 0) {})", p.start_tail));
            v
        } else {
            crate::gcsnap::forms_of(&kind, sseed)?
        };
        let cfg = RunCfg::plain();
        let mut s = Session::new(&cfg);
        let steps: Rc<RefCell<Vec<Value>>> = Rc::new(RefCell::new(vec![]));
        let st = steps.clone();
        let mut n: u64 = 0;
        s.vm.verif.hook = Some(Box::new(move |vm: &Vm, ev: VerifEvent| -> bool {
            if ev == VerifEvent::Step {
                n += 1;
                if n > 2_000_000 {
                    n = 0;
                    panic!("verif-timeout");
                }
                let mut v = st.borrow_mut();
                if v.len() < maxsteps {
                    v.push(step_record(vm));
                }
            }
            false
        }));
        for t in forms.iter() {
            let c = parse_all(t)?;
            steps.borrow_mut().clear();
            let (o, _) = s.eval(&c[0], &cfg);
            let mut v: Vec<Value> = steps.borrow_mut().drain(..).collect();
            if v.len() >= maxsteps || v.is_empty() {
                if s.dead {
                    break;
                }
                continue; // truncated or empty traces are not judged
            }
            // terminator: the state after the last instruction (only meaningful after a normal end)
            let ok = matches!(o, crate::sess::Outcome::Ok(_));
            if ok {
                v.push(json!({"op": "END", "sp": s.vm.verif_stack().get_sp(), "bp": s.vm.verif_bp(), "ipo": 0, "acck": "other", "bname": "",
                              "targc": -1, "argc2": -1, "fargc": -1, "sbp": -1, "nreq": -1}));
            } else {
                // the failing instruction has no post-state: drop it
                v.pop();
            }
            if v.len() >= 2 {
                id += 1;
                writeln!(f, "{}", json!({"id": id, "text": t.chars().take(200).collect::<String>(), "steps": v, "ok": ok}))
                    .map_err(|e| e.to_string())?;
            }
            if s.dead {
                break;
            }
        }
    }
    eprintln!("vmtrace {}: {} evaluations", kind, id);
    Ok(())
}
