//! C05: sessions exercising first-class continuations: escape, re-entry (also from later
//! top-level forms), continuations stored in variables and data, invoked 0-3 times, from
//! inside loops and map/for-each callbacks, nested extents, generators, coroutines.
//! Every continuation is invoked with exactly one value; re-entry is bounded by counters.
use crate::rng::Rng;

fn ilist(rng: &mut Rng, n: usize) -> String {
    let v: Vec<String> = (0..n).map(|_| format!("{}", rng.range(-3, 12))).collect();
    format!("'({})", v.join(" "))
}

/// One block of forms; `u` is a unique suffix for global names.
pub const TEMPLATES: usize = 27;

pub fn block(rng: &mut Rng, u: usize, tags: &mut Vec<String>) -> Vec<String> {
    block_of(rng, u, tags, None)
}

/// `force`: the template to use (sessions enumerate the templates round-robin for their first block, so that a run of
/// 26 sessions or more contains every template whatever the seed)
pub fn block_of(rng: &mut Rng, u: usize, tags: &mut Vec<String>, force: Option<usize>) -> Vec<String> {
    let drawn = rng.below(TEMPLATES);
    let t = force.map(|f| f % TEMPLATES).unwrap_or(drawn);
    tags.push(format!("cont-t{}", t));
    let a = rng.range(1, 9);
    let b = rng.range(2, 5);
    let r = rng.range(0, 3); // number of re-entries
    match t {
        0 => {
            // escape from a for-each callback, at a random position
            let n = 3 + rng.below(4);
            let l = ilist(rng, n);
            let pred = *rng.pick(&["negative?", "even?", "zero?", "(lambda (x) (> x 5))"]);
            vec![
                format!("(define (find{u} pred lst) (call/cc (lambda (return) (for-each (lambda (x) (if (pred x) (return x))) lst) 'none)))", u = u),
                format!("(find{u} {} {})", pred, l, u = u),
                format!("(list (find{u} {} {}) 'after)", pred, l, u = u),
            ]
        }
        1 => {
            // re-entry from later top-level forms through a global, with a counter
            let op = *rng.pick(&["+", "-", "*", "list", "cons"]);
            let mut f = vec![
                format!("(define k{u} #f)", u = u),
                format!("(define n{u} 0)", u = u),
                format!("(define trail{u} '())", u = u),
                format!(
                    "(begin (set! trail{u} (cons (list 'before n{u}) trail{u})) (let ((v ({op} {a} (call/cc (lambda (c) (set! k{u} c) {b}))))) (set! trail{u} (cons v trail{u})) v))",
                    u = u, op = op, a = a, b = b
                ),
            ];
            for _ in 0..=r {
                f.push(format!("(if (< n{u} {r}) (begin (set! n{u} (+ n{u} 1)) (k{u} (* n{u} {a}))) 'done)", u = u, r = r, a = a));
            }
            f.push(format!("(list n{u} (reverse trail{u}))", u = u));
            f
        }
        2 => {
            // operands already evaluated keep their values; later operands are re-evaluated
            let pos = rng.below(3);
            let mut ops = vec![format!("(tick{u})", u = u), format!("(tick{u})", u = u)];
            ops.insert(pos, format!("(call/cc (lambda (c) (set! k{u} c) 'first))", u = u));
            let mut f = vec![
                format!("(define cnt{u} 0)", u = u),
                format!("(define k{u} #f)", u = u),
                format!("(define (tick{u}) (set! cnt{u} (+ cnt{u} 1)) cnt{u})", u = u),
                format!("(list {})", ops.join(" ")),
            ];
            for i in 0..r {
                f.push(format!("(if (< cnt{u} 9) (k{u} 'again{i}) 'stop)", u = u, i = i));
            }
            f.push(format!("cnt{u}", u = u));
            f
        }
        3 => {
            // generator: re-entry into a for-each
            let n = 1 + rng.below(4);
            let l = ilist(rng, n);
            let mut f = vec![format!(
                "(define (make-gen{u} lst) (define return #f) (define (gen) (call/cc (lambda (r) (set! return r) (for-each (lambda (x) (call/cc (lambda (next) (set! gen (lambda () (next #f))) (return x)))) lst) (return 'done)))) (lambda () (call/cc (lambda (r2) (set! return r2) (gen)))))",
                u = u
            )];
            f.push(format!("(define g{u} (make-gen{u} {}))", l, u = u));
            for _ in 0..(n + 1) {
                f.push(format!("(g{u})", u = u));
            }
            f
        }
        4 => {
            // continuation stored in a vector / pair / closure, invoked later
            let store = rng.below(3);
            let (mk, put, get) = match store {
                0 => (format!("(define box{u} (vector #f 0))", u = u), format!("(vector-set! box{u} 0 c)", u = u), format!("(vector-ref box{u} 0)", u = u)),
                1 => (format!("(define box{u} (cons #f '()))", u = u), format!("(set-car! box{u} c)", u = u), format!("(car box{u})", u = u)),
                _ => (format!("(define box{u} #f)", u = u), format!("(set! box{u} (lambda () c))", u = u), format!("(box{u})", u = u)),
            };
            let mut f = vec![mk, format!("(define hits{u} 0)", u = u)];
            f.push(format!(
                "(let ((x (+ {a} (call/cc (lambda (c) {put} 1))))) (set! hits{u} (+ hits{u} 1)) (list 'x x 'hits hits{u}))",
                a = a, put = put, u = u
            ));
            for i in 0..r {
                f.push(format!("(if (< hits{u} 5) ({get} {v}) 'enough)", u = u, get = get, v = 10 * (i + 1)));
            }
            f.push(format!("hits{u}", u = u));
            f
        }
        5 => {
            // nested extents: k1 invoked inside k2's receiver and vice versa
            let v = rng.range(0, 9);
            vec![
                format!("(call/cc (lambda (k1) (+ 1 (call/cc (lambda (k2) (k1 (k2 {v})))))))", v = v),
                format!("(+ {a} (call/cc (lambda (k1) (* 100 (call/cc (lambda (k2) (k1 {v})))))))", a = a, v = v),
                format!("(list (call/cc (lambda (k1) (call/cc (lambda (k2) (k2 (k1 {v})))))) 'end)", v = v),
            ]
        }
        6 => {
            // receiver returns normally; call/cc in tail position; receiver not a lambda
            vec![
                format!("(call/cc (lambda (k) {}))", a),
                format!("(define (tailcc{u} x) (call/cc (lambda (k) (if (> x {b}) (k 'big) 'small))))", u = u, b = b),
                format!("(list (tailcc{u} {a}) (tailcc{u} 0))", u = u, a = a),
                "(call/cc procedure?)".to_string(),
                format!("(+ 1 (call/cc (lambda (k) (+ 10 (k {})))))", a),
            ]
        }
        7 => {
            // escape from map; map's earlier results are dropped
            let n = 3 + rng.below(3);
            let l = ilist(rng, n);
            let key = rng.range(-3, 12);
            vec![format!(
                "(call/cc (lambda (k) (map (lambda (x) (if (= x {key}) (k (list 'found x)) (* x 2))) {l})))",
                key = key, l = l
            )]
        }
        8 => {
            // data mutations made since capture stay visible after re-entry
            let mut f = vec![
                format!("(define v{u} (vector 0 0))", u = u),
                format!("(define k{u} #f)", u = u),
                format!(
                    "(begin (vector-set! v{u} 0 (+ 1 (vector-ref v{u} 0))) (call/cc (lambda (c) (set! k{u} c))) (vector-set! v{u} 1 (+ 1 (vector-ref v{u} 1))) (vector->list v{u}))",
                    u = u
                ),
            ];
            for _ in 0..r {
                f.push(format!("(if (< (vector-ref v{u} 1) 4) (k{u} 'x) 'end)", u = u));
            }
            f.push(format!("(vector->list v{u})", u = u));
            f
        }
        9 => {
            // escape from deep non-tail recursion
            let d = 1 + rng.below(30);
            vec![
                format!("(define (deep{u} n k) (if (= n 0) (k 'bottom) (+ 1 (deep{u} (- n 1) k))))", u = u),
                format!("(call/cc (lambda (k) (deep{u} {d} k)))", u = u, d = d),
                format!("(list 'ok (call/cc (lambda (k) (deep{u} {d} (lambda (v) (k (list v {d})))))))", u = u, d = d),
            ]
        }
        10 => {
            // two coroutines handing control back and forth, bounded
            let n = 2 + rng.below(3);
            vec![
                format!("(define out{u} '())", u = u),
                format!("(define (emit{u} x) (set! out{u} (cons x out{u})))", u = u),
                format!("(define other{u} #f)", u = u),
                format!(
                    "(define (transfer{u} v) (call/cc (lambda (me) (let ((o other{u})) (set! other{u} me) (o v)))))",
                    u = u
                ),
                format!(
                    "(call/cc (lambda (finish) (set! other{u} (lambda (v) (let loop ((i 0)) (if (< i {n}) (begin (emit{u} (list 'b i)) (transfer{u} i) (loop (+ i 1))) (finish 'b-done))))) (let loop ((i 0)) (if (< i {n}) (begin (emit{u} (list 'a i)) (transfer{u} i) (loop (+ i 1))) 'a-done))))",
                    u = u, n = n
                ),
                format!("(reverse out{u})", u = u),
            ]
        }
        11 => {
            // through apply and as a first-class procedure
            vec![
                format!("(apply call/cc (list (lambda (k) (k {}))))", a),
                format!("(map (lambda (f) (f (lambda (k) (k {})))) (list call/cc call-with-current-continuation))", b),
                format!("((call/cc (lambda (k) k)) (lambda (x) {}))", a),
            ]
        }
        12 => {
            // re-entry into a define: the definition is redone
            let mut f = vec![
                format!("(define k{u} #f)", u = u),
                format!("(define times{u} 0)", u = u),
                format!("(define val{u} (call/cc (lambda (c) (set! k{u} c) 'initial)))", u = u),
                format!("val{u}", u = u),
            ];
            for i in 0..r {
                f.push(format!("(if (< times{u} 3) (begin (set! times{u} (+ times{u} 1)) (k{u} 'redefined{i})) 'no)", u = u, i = i));
                f.push(format!("val{u}", u = u));
            }
            f
        }
        13 => {
            // loop implemented by re-entering a continuation inside one form (bounded by a counter)
            vec![
                format!("(define acc{u} '())", u = u),
                format!(
                    "(let ((i 0) (k #f)) (call/cc (lambda (c) (set! k c))) (set! acc{u} (cons i acc{u})) (set! i (+ i 1)) (if (< i {n}) (k 'again) (reverse acc{u})))",
                    u = u, n = 1 + rng.below(5)
                ),
            ]
        }
        14 => {
            // call/cc inside a closure activation; the resumed frame reads the activation's variables
            // after the call/cc operand (the activation's environment lives only in the continuation)
            let mut f = vec![
                format!("(define k{u} #f)", u = u),
                format!("(define c{u} 0)", u = u),
                format!("(define (mk{u} n) (lambda (x) (+ (call/cc (lambda (c) (set! k{u} c) 0)) n x)))", u = u),
                format!("((mk{u} {}) {})", a * 100, b, u = u),
                format!("(define (junk{u} n) (if (= n 0) '() (cons (vector n n) (junk{u} (- n 1)))))", u = u),
                format!("(length (junk{u} 40))", u = u),
            ];
            for _ in 0..=r {
                f.push(format!("(if (< c{u} 3) (begin (set! c{u} (+ c{u} 1)) (k{u} c{u})) 'done)", u = u));
            }
            f
        }
        15 => {
            // a continuation captured deep inside a non-tail recursion (a stack of several hundred slots),
            // re-entered from later top-level forms
            let d = 40 + rng.below(120);
            let mut f = vec![
                format!("(define k{u} #f)", u = u),
                format!("(define n{u} 0)", u = u),
                format!("(define (deep{u} d) (if (= d 0) (call/cc (lambda (c) (set! k{u} c) 0)) (+ 1 (deep{u} (- d 1)))))", u = u),
                format!("(deep{u} {})", d, u = u),
                "(+ 1 2)".to_string(),
            ];
            for _ in 0..=r {
                f.push(format!("(if (< n{u} 2) (begin (set! n{u} (+ n{u} 1)) (k{u} n{u})) 'done)", u = u));
            }
            f
        }
        16 => {
            // a mutable object delivered through a continuation (from a later top-level form, non-tail and
            // through a tail call) is the object itself: mutations through the receiving place and through
            // the sender's alias are the same mutations
            let mk = *rng.pick(&["(list 1 2 3)", "(cons 1 2)", "(vector 1 2 3)", "(list (list 1) 2)"]);
            let isvec = mk.starts_with("(vector");
            let setter = if isvec { "vector-set!" } else { "set-car!" };
            let idx = if isvec { " 0" } else { "" };
            let tailform = rng.below(2) == 1;
            let mut f = vec![
                format!("(define k{u} #f)", u = u),
                format!("(define n{u} 0)", u = u),
                format!("(define p{u} {mk})", u = u, mk = mk),
                format!("(define (deliver{u} v) (k{u} v))", u = u),
                format!("(define q{u} (call/cc (lambda (c) (set! k{u} c) 'first)))", u = u),
                format!(
                    "(if (< n{u} 1) (begin (set! n{u} (+ n{u} 1)) {}) 'done)",
                    if tailform { format!("(deliver{u} p{u})", u = u) } else { format!("(k{u} p{u})", u = u) },
                    u = u
                ),
                format!("({setter} q{u}{idx} {a})", setter = setter, u = u, idx = idx, a = a * 10),
                format!("(list q{u} p{u} (eq? q{u} p{u}))", u = u),
                format!("({setter} p{u}{idx} {b})", setter = setter, u = u, idx = idx, b = b * 100),
                format!("(list q{u} p{u})", u = u),
            ];
            f.push(format!("(define (junk{u} n) (if (= n 0) '() (cons (vector n n) (junk{u} (- n 1)))))", u = u));
            f.push(format!("(length (junk{u} 60))", u = u));
            f.push(format!("(list q{u} p{u})", u = u));
            f
        }
        17 => {
            // a fresh pair made by the sender, delivered into a let-bound variable and into a global,
            // then mutated and read after an allocation burst
            vec![
                format!("(define k{u} #f)", u = u),
                format!("(define n{u} 0)", u = u),
                format!("(define g{u} '())", u = u),
                format!("(define (junk{u} n) (if (= n 0) '() (cons (vector n n) (junk{u} (- n 1)))))", u = u),
                format!(
                    "(let ((x (call/cc (lambda (c) (set! k{u} c) (list 0))))) (set! g{u} x) (set-car! x (+ (car x) {a})) (list 'x x))",
                    u = u, a = a
                ),
                format!("(if (< n{u} 2) (begin (set! n{u} (+ n{u} 1)) (k{u} (list n{u} {b}))) 'done)", u = u, b = b),
                format!("(length (junk{u} 80))", u = u),
                format!("g{u}", u = u),
                format!("(begin (set-cdr! g{u} 'tail) g{u})", u = u),
            ]
        }
        18 => {
            // operands already evaluated when the continuation is captured are fresh heap objects (list,
            // vector, closure) that only the captured stack refers to; re-entry after allocation and collection
            let kind = rng.below(3);
            let fresh = match kind {
                0 => format!("(define (fresh{u} x) (list x (* x 2)))", u = u),
                1 => format!("(define (fresh{u} x) (vector x (list x)))", u = u),
                _ => format!("(define (fresh{u} x) (lambda (y) (+ x y)))", u = u),
            };
            let capture = format!("(call/cc (lambda (c) (set! k{u} c) {b}))", u = u, b = b);
            let call = match (kind, rng.below(2)) {
                (2, _) => format!("((lambda (f v) (list (f 1) v)) (fresh{u} {a}) {cap})", u = u, a = a, cap = capture),
                (_, 0) => format!("(list (fresh{u} {a}) {cap} (fresh{u} {b}))", u = u, a = a, b = b, cap = capture),
                _ => format!("(cons (fresh{u} {a}) {cap})", u = u, a = a, cap = capture),
            };
            let mut f = vec![
                format!("(define k{u} #f)", u = u),
                format!("(define n{u} 0)", u = u),
                fresh,
                call,
                format!("(define (junk{u} n) (if (= n 0) '() (cons (vector n n) (junk{u} (- n 1)))))", u = u),
                format!("(length (junk{u} 50))", u = u),
            ];
            for _ in 0..=r {
                f.push(format!("(if (< n{u} {r}) (begin (set! n{u} (+ n{u} 1)) (k{u} (* n{u} 7))) 'done)", u = u, r = r));
                f.push(format!("(length (junk{u} 30))", u = u));
            }
            f
        }
        19 => {
            // a continuation captured in a map callback (not for the first element) and re-entered after map has
            // returned: the second return builds its own list, the list returned earlier is not mutated
            let len = 3 + rng.below(3);
            let pos = 2 + rng.below(len - 1);
            let l: Vec<String> = (1..=len).map(|i| i.to_string()).collect();
            let two = rng.below(2) == 1;
            let call = if two {
                format!("(map (lambda (x y) (call/cc (lambda (c) (if (= x {pos}) (set! k{u} c)) (+ (* x 10) y)))) '({l}) '({l}))", pos = pos, u = u, l = l.join(" "))
            } else {
                format!("(map (lambda (x) (call/cc (lambda (c) (if (= x {pos}) (set! k{u} c)) (* x 10)))) '({l}))", pos = pos, u = u, l = l.join(" "))
            };
            vec![
                format!("(define k{u} #f)", u = u),
                format!("(define cnt{u} 0)", u = u),
                format!("(define r{u} {})", call, u = u),
                format!("(define saved{u} r{u})", u = u),
                format!("(if (< cnt{u} 1) (begin (set! cnt{u} (+ cnt{u} 1)) (k{u} 'again)) 'done)", u = u),
                format!("(list saved{u} r{u} (eq? saved{u} r{u}))", u = u),
                format!("(if (< cnt{u} 2) (begin (set! cnt{u} (+ cnt{u} 1)) (k{u} 'third)) 'done)", u = u),
                format!("(list saved{u} r{u})", u = u),
            ]
        }
        20 => {
            // the receiver of call/cc is itself a continuation: (call/cc k) sends the current continuation to k;
            // the continuation received that way is a procedure like any other and is invoked later
            let mut f = vec![
                format!("(define k{u} #f)", u = u),
                format!("(define n{u} 0)", u = u),
                format!("(define seen{u} '())", u = u),
                format!("(set! seen{u} (cons (call/cc (lambda (c) (set! k{u} c) 'first)) seen{u}))", u = u),
            ];
            for _ in 0..(1 + r.min(2)) {
                f.push(format!("(if (< n{u} 3) (begin (set! n{u} (+ n{u} 1)) (list 'back (call/cc k{u}))) 'done)", u = u));
            }
            f.push(format!("(list n{u} (length seen{u}) (map procedure? seen{u}))", u = u));
            f.push(format!("(if (procedure? (car seen{u})) ((car seen{u}) {a}) 'none)", u = u, a = a));
            f.push(format!("(list n{u} (length seen{u}))", u = u));
            f
        }
        21 => {
            // a continuation captured inside an unquoted element of a quasiquote template (vector or list):
            // every return builds its own result, the result of the first return is not touched by the second
            let vec = rng.below(2) == 0;
            let tpl = if vec {
                format!("`#(1 ,(call/cc (lambda (c) (set! k{u} c) 2)) 3 ,(+ {a} 1))", u = u, a = a)
            } else {
                format!("`(1 ,(call/cc (lambda (c) (set! k{u} c) 2)) (3 ,(+ {a} 1)) . end)", u = u, a = a)
            };
            vec![
                format!("(define k{u} #f)", u = u),
                format!("(define cnt{u} 0)", u = u),
                format!("(define r{u} {})", tpl, u = u),
                format!("(define saved{u} r{u})", u = u),
                format!("(if (< cnt{u} 1) (begin (set! cnt{u} (+ cnt{u} 1)) (k{u} 20)) 'done)", u = u),
                format!("(list saved{u} r{u} (eq? saved{u} r{u}))", u = u),
                format!("(if (< cnt{u} 2) (begin (set! cnt{u} (+ cnt{u} 1)) (k{u} 30)) 'done)", u = u),
                format!("(list saved{u} r{u})", u = u),
            ]
        }
        22 => {
            // the same continuation re-entered several times within ONE evaluation: after each re-entry the
            // computation returns below the capture point, the caller reuses that part of the stack, and the next
            // invocation comes from a deeper frame (a helper procedure behind pending operands, a map callback)
            let rounds = 3 + rng.below(3);
            let pending: Vec<String> = (0..1 + rng.below(4)).map(|i| format!("{}", (i + 1) * 1000)).collect();
            let via_map = rng.below(2) == 0;
            let again = if via_map {
                format!("(map (lambda (x) (k{u} (+ x n{u}))) '(10 20 30))", u = u)
            } else {
                format!("(+ {} (jump{u} n{u}))", pending.join(" "), u = u)
            };
            vec![
                format!("(define k{u} #f)", u = u),
                format!("(define n{u} 0)", u = u),
                format!("(define trail{u} '())", u = u),
                format!("(define (f{u}) (list 'a {a} (call/cc (lambda (c) (set! k{u} c) 0))))", u = u, a = a),
                format!("(define (jump{u} v) (k{u} v))", u = u),
                format!(
                    "(define (g{u}) (let ((r (f{u}))) (set! trail{u} (cons r trail{u})) (set! n{u} (+ n{u} 1)) (if (< n{u} {rounds}) {again} r)))",
                    u = u, rounds = rounds, again = again
                ),
                format!("(g{u})", u = u),
                format!("(list n{u} trail{u})", u = u),
            ]
        }
        23 => {
            // the code a continuation resumes in is referenced by nothing but the continuation: code compiled by eval,
            // or a global procedure redefined after the capture; allocation, then re-entry
            let by_eval = rng.below(2) == 0;
            let mut f = vec![
                format!("(define k{u} #f)", u = u),
                format!("(define n{u} 0)", u = u),
                format!("(define (junk{u} n) (if (= n 0) '() (cons (vector n n) (junk{u} (- n 1)))))", u = u),
            ];
            if by_eval {
                f.push(format!("(eval '(+ {a} (call/cc (lambda (c) (set! k{u} c) 1)) (* 2 {b})))", u = u, a = a, b = b));
            } else {
                f.push(format!("(define (cap{u}) (list 'in (+ {a} (call/cc (lambda (c) (set! k{u} c) 1))) 'cap))", u = u, a = a));
                f.push(format!("(cap{u})", u = u));
                f.push(format!("(define (cap{u}) 'redefined)", u = u));
            }
            f.push(format!("(length (junk{u} 60))", u = u));
            for _ in 0..=r.min(1) {
                f.push(format!("(if (< n{u} 2) (begin (set! n{u} (+ n{u} 1)) (k{u} (* n{u} 10))) 'done)", u = u));
                f.push(format!("(length (junk{u} 40))", u = u));
            }
            f
        }
        24 => {
            // the invocation (k v) is written in the body of the very procedure that captured k: it runs in a second
            // activation of that procedure (same code, same frame base, same stack depth) or later in the same
            // activation, while OTHER operands are pending -- the ones pending at capture time must come back
            if rng.below(2) == 0 {
                let mut f = vec![
                    format!("(define k{u} #f)", u = u),
                    format!(
                        "(define (f{u} x first) (+ x (if first (call/cc (lambda (c) (set! k{u} c) {a})) (k{u} {b}))))",
                        u = u, a = a, b = b * 10
                    ),
                    format!("(f{u} 1 #t)", u = u),
                    format!("(f{u} 100 #f)", u = u),
                ];
                if r > 0 {
                    f.push(format!("(list (f{u} 1000 #f))", u = u));
                    f.push(format!("(f{u} 7 #t)", u = u));
                    f.push(format!("(f{u} 500 #f)", u = u));
                }
                f
            } else {
                vec![
                    format!("(define r{u} '())", u = u),
                    format!(
                        "(define (g{u}) (define k #f) (define n 0) (set! r{u} (cons (+ {a} (call/cc (lambda (c) (set! k c) 1))) r{u})) (set! n (+ n 1)) (if (< n {lim}) (+ 100 (k n)) r{u}))",
                        u = u, a = a, lim = 2 + r
                    ),
                    format!("(g{u})", u = u),
                    format!("r{u}", u = u),
                ]
            }
        }
        25 => {
            // about a hundred re-entries inside one form, each delivering a fresh list that nothing else refers to:
            // the heap fills up and is collected many times on the way, whatever the collection schedule, and some
            // invocation happens with the heap nearly full
            let n = 90 + rng.below(30);
            vec![
                format!("(define k{u} #f)", u = u),
                format!("(define n{u} 0)", u = u),
                format!("(define sum{u} 0)", u = u),
                format!(
                    "(let ((v (call/cc (lambda (c) (set! k{u} c) (list 0))))) (set! sum{u} (+ sum{u} (length v) (car v))) (set! n{u} (+ n{u} 1)) (if (< n{u} {n}) (k{u} (vector->list (make-vector {m} n{u}))) sum{u}))",
                    u = u, n = n, m = 50 + a
                ),
                format!("(list n{u} sum{u})", u = u),
            ]
        }
        _ => {
            // invoked from inside a for-each callback of a later form: abandons that loop
            let mut f = vec![
                format!("(define k{u} #f)", u = u),
                format!("(define seen{u} '())", u = u),
                format!("(define fuel{u} {})", r, u = u),
                format!("(list 'got (call/cc (lambda (c) (set! k{u} c) 'start)))", u = u),
                format!(
                    "(for-each (lambda (x) (set! seen{u} (cons x seen{u})) (if (and (= x {key}) (> fuel{u} 0)) (begin (set! fuel{u} (- fuel{u} 1)) (k{u} (list 'from x))))) '(1 2 3 4))",
                    u = u, key = rng.range(1, 4)
                ),
                format!("(reverse seen{u})", u = u),
            ];
            f.push(format!("fuel{u}", u = u));
            f
        }
    }
}

pub fn session(rng: &mut Rng) -> (Vec<String>, Vec<String>) {
    session_nth(rng, None)
}

/// the `index`-th session of a run: its first block is template `index mod 26`
pub fn session_nth(rng: &mut Rng, index: Option<usize>) -> (Vec<String>, Vec<String>) {
    let mut tags = vec![];
    let nb = 1 + rng.below(3);
    let mut forms = vec![];
    for i in 0..nb {
        forms.extend(block_of(rng, i + 1, &mut tags, if i == 0 { index } else { None }));
    }
    (forms, tags)
}
