//! `mwverif numtower ...` -- see DESIGN.md; implemented by the check of the corresponding property.
pub fn main(_args: &[String]) -> Result<(), String> {
    Err("numtower: not implemented yet".into())
}
