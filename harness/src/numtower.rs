//! `mwverif numtower gen op-class=c08|c09|c16 seed=.. count=.. out=..`
//! `mwverif numtower replay in=<ndjson> out=<ndjson>`
//!
//! Operation records for the numeric properties C08 (exact arithmetic), C09 (comparison)
//! and C16 (number<->string), validated by spec/Trace_Num.tla.
//!
//! A *group* is an operation applied to mathematical argument values; its *runs* are the
//! outcomes marwood produced when those values were carried by each combination of internal
//! representations (fixnum / bignum / 32-bit rational / double), once with the `Number`
//! variants injected directly into the evaluated `Cell` (route "inj") and once obtained by
//! Scheme source text (route "src": literals, `(+ v (* 0 2^63))` for a small value carried as
//! bignum, `(/ v 1)` for an integer-valued rational).  The harness never computes an expected
//! result: `num` is used to draw operands and to encode numbers as sign + base-10^4 limbs.
use crate::enc::{cps, parse_all};
use crate::gen_cmd::{get, kv};
use crate::rng::Rng;
use crate::sess::{error_variant, Outcome, RunCfg, Sched, Session};
use marwood::cell::Cell;
use marwood::number::Number;
use num::bigint::BigInt;
use num::{One, Rational32, Signed, ToPrimitive, Zero};
use serde_json::{json, Value};
use std::io::Write;
use std::panic::{catch_unwind, AssertUnwindSafe};
use std::rc::Rc;

// ----------------------------------------------------------------------------- values

#[derive(Clone, Debug, PartialEq)]
pub enum Val {
    Int(BigInt),
    /// reduced, denominator > 1
    Rat(i32, i32),
    /// bit pattern of a double
    Flo(u64),
}

fn gcd_i64(a: i64, b: i64) -> i64 {
    let (mut a, mut b) = (a.abs(), b.abs());
    while b != 0 {
        let t = a % b;
        a = b;
        b = t;
    }
    a
}

/// n/d (d != 0) as a value: reduced; an integer when the denominator divides.
fn rat(n: i64, d: i64) -> Val {
    let g = gcd_i64(n, d).max(1);
    let (mut n, mut d) = (n / g, d / g);
    if d < 0 {
        n = -n;
        d = -d;
    }
    if d == 1 || n < i32::MIN as i64 || n > i32::MAX as i64 || d > i32::MAX as i64 {
        Val::Int(BigInt::from(n / d))
    } else {
        Val::Rat(n as i32, d as i32)
    }
}

fn val_text(v: &Val) -> String {
    match v {
        Val::Int(i) => i.to_string(),
        Val::Rat(n, d) => format!("{}/{}", n, d),
        Val::Flo(b) => format!("{:?}", f64::from_bits(*b)),
    }
}

/// decimal digits (no sign) -> little-endian base-10^4 limbs, normalised
fn limbs_of_decimal(digits: &str) -> Vec<u32> {
    let b = digits.as_bytes();
    let mut out = vec![];
    let mut end = b.len();
    while end > 0 {
        let start = end.saturating_sub(4);
        let chunk = std::str::from_utf8(&b[start..end]).unwrap();
        out.push(chunk.parse::<u32>().unwrap());
        end = start;
    }
    while let Some(0) = out.last() {
        out.pop();
    }
    out
}

fn enc_exact(num_dec: &str, den_dec: &str) -> Value {
    let (neg, mag) = match num_dec.strip_prefix('-') {
        Some(m) => (true, m),
        None => (false, num_dec),
    };
    let n = limbs_of_decimal(mag);
    let s = if n.is_empty() { 0 } else if neg { -1 } else { 1 };
    json!({"k":"x","s":s,"n":n,"d":limbs_of_decimal(den_dec)})
}

fn enc_double(bits: u64) -> Value {
    json!({"k":"f","w":[(bits >> 48) & 0xffff, (bits >> 32) & 0xffff, (bits >> 16) & 0xffff, bits & 0xffff]})
}

fn enc_val(v: &Val) -> Value {
    match v {
        Val::Int(i) => enc_exact(&i.to_string(), "1"),
        Val::Rat(n, d) => enc_exact(&n.to_string(), &d.to_string()),
        Val::Flo(b) => enc_double(*b),
    }
}

fn rep_of(n: &Number) -> &'static str {
    match n {
        Number::Fixnum(_) => "fix",
        Number::BigInt(_) => "big",
        Number::Rational(_) => "rat",
        Number::Float(_) => "flo",
    }
}

/// a number produced by marwood, with the representation that carries it
fn enc_number(n: &Number) -> Value {
    let mut j = match n {
        Number::Fixnum(i) => enc_exact(&i.to_string(), "1"),
        Number::BigInt(b) => enc_exact(&b.to_string(), "1"),
        Number::Rational(r) => {
            let (mut a, mut b) = (*r.numer() as i64, *r.denom() as i64);
            if b == 0 {
                return json!({"k":"other","t":"rational with zero denominator"});
            }
            if b < 0 {
                a = -a;
                b = -b;
            }
            enc_exact(&a.to_string(), &b.to_string())
        }
        Number::Float(f) => enc_double(f.to_bits()),
    };
    j["rep"] = json!(rep_of(n));
    j
}

fn reps_of(v: &Val) -> Vec<&'static str> {
    match v {
        Val::Int(i) => {
            let mut r = vec![];
            if i.to_i64().is_some() {
                r.push("fix");
            }
            r.push("big");
            if i.to_i32().is_some() {
                r.push("rat");
            }
            r
        }
        Val::Rat(_, _) => vec!["rat"],
        Val::Flo(_) => vec!["flo"],
    }
}

fn number_of(v: &Val, rep: &str) -> Option<Number> {
    match (v, rep) {
        (Val::Int(i), "fix") => i.to_i64().map(Number::Fixnum),
        (Val::Int(i), "big") => Some(Number::BigInt(Rc::new(i.clone()))),
        (Val::Int(i), "rat") => i.to_i32().map(|x| Number::Rational(Rational32::new_raw(x, 1))),
        (Val::Rat(n, d), "rat") => Some(Number::Rational(Rational32::new_raw(*n, *d))),
        (Val::Flo(b), "flo") => Some(Number::Float(f64::from_bits(*b))),
        _ => None,
    }
}

/// same variant and same contents (doubles by bit pattern)
fn same_number(a: &Number, b: &Number) -> bool {
    match (a, b) {
        (Number::Fixnum(x), Number::Fixnum(y)) => x == y,
        (Number::BigInt(x), Number::BigInt(y)) => **x == **y,
        (Number::Rational(x), Number::Rational(y)) => x.numer() == y.numer() && x.denom() == y.denom(),
        (Number::Float(x), Number::Float(y)) => x.to_bits() == y.to_bits(),
        _ => false,
    }
}

/// Scheme source whose value is v carried by rep (checked by evaluation before use)
fn source_of(v: &Val, rep: &str) -> Option<String> {
    match (v, rep) {
        (Val::Int(i), "fix") => Some(i.to_string()),
        (Val::Int(i), "big") => {
            if i.to_i64().is_some() {
                Some(format!("(+ {} (* 0 9223372036854775808))", i))
            } else {
                Some(i.to_string())
            }
        }
        (Val::Int(i), "rat") => Some(format!("(/ {} 1)", i)),
        (Val::Rat(n, d), "rat") => Some(format!("{}/{}", n, d)),
        (Val::Flo(b), "flo") => {
            let f = f64::from_bits(*b);
            if f.is_finite() {
                Some(format!("{:?}", f))
            } else {
                None
            }
        }
        _ => None,
    }
}

// ----------------------------------------------------------------------------- evaluation

pub struct Ev {
    sess: Option<Session>,
    cfg: RunCfg,
    pub evals: usize,
    pub src_unavailable: usize,
}

impl Ev {
    pub fn new() -> Ev {
        Ev { sess: None, cfg: RunCfg::plain(), evals: 0, src_unavailable: 0 }
    }
    fn eval(&mut self, c: &Cell) -> Outcome {
        if self.sess.as_ref().map(|s| s.dead).unwrap_or(true) {
            let mut s = Session::new(&self.cfg);
            s.install_sched(&Sched::None);
            self.sess = Some(s);
        }
        self.evals += 1;
        let s = self.sess.as_mut().unwrap();
        let (o, _) = s.eval(c, &self.cfg);
        o
    }
    fn eval_text(&mut self, text: &str) -> Outcome {
        let parsed = catch_unwind(AssertUnwindSafe(|| parse_all(text)));
        match parsed {
            Err(_) => Outcome::Panic("reader panicked".into()),
            Ok(Err(e)) => Outcome::Err(marwood::error::Error::InvalidSyntax(format!("unreadable: {}", e))),
            Ok(Ok(cells)) => {
                if cells.len() != 1 {
                    return Outcome::Err(marwood::error::Error::InvalidSyntax("not one datum".into()));
                }
                self.eval(&cells[0])
            }
        }
    }
    /// the source text yields exactly this number (variant and contents)?
    fn source_ok(&mut self, text: &str, want: &Number) -> bool {
        match self.eval_text(text) {
            Outcome::Ok(Cell::Number(n)) => same_number(&n, want),
            _ => false,
        }
    }
}

fn enc_outcome(o: &Outcome) -> Value {
    match o {
        Outcome::Ok(Cell::Number(n)) => enc_number(n),
        Outcome::Ok(Cell::Bool(b)) => json!({"k":"b","v":b}),
        Outcome::Ok(Cell::String(s)) => json!({"k":"s","v":cps(s)}),
        Outcome::Ok(c) => json!({"k":"other","t":format!("{:#}", c)}),
        Outcome::Err(e) => json!({"k":"err","e":error_variant(e)}),
        Outcome::Panic(m) => json!({"k":"panic","msg":m}),
        // the watchdog outcomes (instruction budget; any further kind a later harness adds)
        _ => json!({"k":"timeout"}),
    }
}

fn call_cell(op: &str, args: Vec<Cell>) -> Cell {
    let mut v = vec![Cell::new_symbol(op)];
    v.extend(args);
    Cell::new_list(v)
}

fn call_text(op: &str, args: &[String]) -> String {
    if args.is_empty() {
        format!("({})", op)
    } else {
        format!("({} {})", op, args.join(" "))
    }
}

// ----------------------------------------------------------------------------- groups

pub struct Group {
    pub cls: String,
    pub op: String,
    pub args: Vec<Val>,
    /// radix (c16), 0 = procedure called without a radix argument
    pub radix: u32,
    /// (representation of each argument, route)
    pub plans: Vec<(Vec<String>, String)>,
}

fn group_expr(g: &Group) -> String {
    let a: Vec<String> = g.args.iter().map(val_text).collect();
    if g.cls == "c16" {
        if g.radix == 0 {
            format!("(number->string {})", a[0])
        } else {
            format!("(number->string {} {})", a[0], g.radix)
        }
    } else {
        call_text(&g.op, &a)
    }
}

/// Evaluate every planned run of the group; None for a run whose source route is not available.
fn run_group(ev: &mut Ev, id: usize, g: &Group) -> Value {
    let mut runs = vec![];
    for (reps, route) in &g.plans {
        let nums: Vec<Number> = match g.args.iter().zip(reps.iter()).map(|(v, r)| number_of(v, r)).collect() {
            Some(n) => n,
            None => continue,
        };
        let srcs: Option<Vec<String>> = if route == "src" {
            let s: Option<Vec<String>> = g.args.iter().zip(reps.iter()).map(|(v, r)| source_of(v, r)).collect();
            match s {
                Some(s) if s.iter().zip(nums.iter()).all(|(t, n)| ev.source_ok(t, n)) => Some(s),
                _ => {
                    ev.src_unavailable += 1;
                    continue;
                }
            }
        } else {
            None
        };
        let mut run = json!({"reps": reps, "route": route});
        if g.cls == "c16" {
            let radix = if g.radix == 0 { 10 } else { g.radix };
            // s = (number->string z r)
            let o = match &srcs {
                None => {
                    let mut a = vec![Cell::Number(nums[0].clone())];
                    if g.radix != 0 {
                        a.push(Cell::Number(Number::Fixnum(radix as i64)));
                    }
                    ev.eval(&call_cell("number->string", a))
                }
                Some(s) => {
                    let mut a = vec![s[0].clone()];
                    if g.radix != 0 {
                        a.push(radix.to_string());
                    }
                    ev.eval_text(&call_text("number->string", &a))
                }
            };
            run["s"] = enc_outcome(&o);
            if let Outcome::Ok(Cell::String(s)) = &o {
                run["text"] = json!(s);
                // z1 = (string->number s r)
                let mut a = vec![Cell::String(s.clone())];
                if g.radix != 0 {
                    a.push(Cell::Number(Number::Fixnum(radix as i64)));
                }
                let z1 = ev.eval(&call_cell("string->number", a));
                run["z1"] = enc_outcome(&z1);
                // z2 = value of the literal with the radix prefix, read by the parser
                let prefix = match radix {
                    2 => "#b",
                    8 => "#o",
                    16 => "#x",
                    _ => "#d",
                };
                let z2 = ev.eval_text(&format!("{}{}", prefix, s));
                run["z2"] = enc_outcome(&z2);
                // z3 = the printed form of z (what the REPL shows, what write emits) read back as program text
                if radix == 10 {
                    let printed = catch_unwind(AssertUnwindSafe(|| format!("{:#}", Cell::Number(nums[0].clone()))));
                    match printed {
                        Ok(p) => {
                            run["printed"] = json!(p);
                            run["z3"] = enc_outcome(&ev.eval_text(&p));
                        }
                        Err(_) => run["z3"] = json!({"k":"panic"}),
                    }
                }
            } else {
                run["z1"] = json!({"k":"none"});
                run["z2"] = json!({"k":"none"});
            }
        } else {
            let o = match &srcs {
                None => ev.eval(&call_cell(&g.op, nums.iter().map(|n| Cell::Number(n.clone())).collect())),
                Some(s) => ev.eval_text(&call_text(&g.op, s)),
            };
            run["res"] = enc_outcome(&o);
            if let Some(s) = &srcs {
                run["src"] = json!(call_text(&g.op, s));
            }
        }
        runs.push(run);
    }
    json!({"id": id, "cls": g.cls, "op": g.op, "r": if g.radix == 0 { 10 } else { g.radix }, "radix_arg": g.radix != 0,
           "args": g.args.iter().map(enc_val).collect::<Vec<_>>(),
           "expr": group_expr(g), "runs": runs})
}

/// all combinations of representations (at most `cap`, chosen at random beyond that), each
/// injected; a source-route twin for every combination with probability src/100.
fn plan(rng: &mut Rng, args: &[Val], cap: usize, src: u32) -> Vec<(Vec<String>, String)> {
    let mut combos: Vec<Vec<String>> = vec![vec![]];
    for a in args {
        let mut next = vec![];
        for c in &combos {
            for r in reps_of(a) {
                let mut c2 = c.clone();
                c2.push(r.to_string());
                next.push(c2);
            }
        }
        combos = next;
    }
    while combos.len() > cap {
        let i = rng.below(combos.len());
        combos.swap_remove(i);
    }
    let mut out = vec![];
    for c in combos {
        if rng.chance(src, 100) {
            out.push((c.clone(), "src".to_string()));
        }
        out.push((c, "inj".to_string()));
    }
    out
}

// ----------------------------------------------------------------------------- palettes

fn pow2(k: u32) -> BigInt {
    BigInt::one() << k
}

fn rand_bits(rng: &mut Rng, bits: u32) -> BigInt {
    let mut v = BigInt::zero();
    let mut got = 0;
    while got < bits {
        v = (v << 64) + BigInt::from(rng.next());
        got += 64;
    }
    let v = v & (pow2(bits) - 1);
    // exactly `bits` bits
    v | pow2(bits - 1)
}

fn sign(rng: &mut Rng, v: BigInt) -> BigInt {
    if rng.chance(1, 2) {
        -v
    } else {
        v
    }
}

const BOUNDARY_EXP: [u32; 11] = [15, 16, 31, 31, 32, 53, 62, 63, 63, 64, 128];

fn boundary_int(rng: &mut Rng) -> BigInt {
    let base = match rng.below(14) {
        0 => BigInt::from(46341),        // ceil(sqrt(2^31))
        1 => BigInt::from(3037000500u64), // ceil(sqrt(2^63))
        2 => BigInt::zero(),
        _ => pow2(*rng.pick(&BOUNDARY_EXP)),
    };
    let d = rng.range(-2, 2);
    sign(rng, base + d)
}

/// the representation boundaries themselves and the units
fn hot_int(rng: &mut Rng) -> BigInt {
    match rng.below(12) {
        0 => BigInt::zero(),
        1 => BigInt::one(),
        2 | 3 => BigInt::from(-1),
        4 => BigInt::from(*rng.pick(&[2i64, -2])),
        5 => -pow2(31),
        6 => sign(rng, pow2(31) - 1),
        7 => -pow2(63),
        8 => sign(rng, pow2(63) - 1),
        9 => pow2(*rng.pick(&[31u32, 32, 63, 64])),
        10 => -pow2(*rng.pick(&[32u32, 64])) + rng.range(-1, 1),
        _ => BigInt::from(rng.range(-3, 3)),
    }
}

pub fn draw_int(rng: &mut Rng) -> BigInt {
    match rng.weighted(&[22, 33, 10, 35]) {
        0 => hot_int(rng),
        1 => boundary_int(rng),
        2 => BigInt::from(rng.range(-20, 20)),
        _ => {
            let bits = *rng.pick(&[8u32, 16, 24, 31, 32, 33, 48, 63, 64, 65, 100, 128, 200, 256]);
            let b = rand_bits(rng, bits);
            sign(rng, b)
        }
    }
}

const RAT_COMP: [i64; 16] = [1, 2, 3, 5, 7, 10, 46340, 46341, 65535, 65536, 65537, 1 << 30, (1 << 31) - 3, (1 << 31) - 2, (1 << 31) - 1, 715827883];

fn rat_comp(rng: &mut Rng) -> i64 {
    if rng.chance(1, 2) {
        *rng.pick(&RAT_COMP)
    } else {
        let bits = *rng.pick(&[3u32, 8, 15, 16, 17, 24, 30, 31]);
        1 + (rng.next() % ((1u64 << bits) - 1)) as i64
    }
}

pub fn draw_rat(rng: &mut Rng) -> Val {
    let mut n = rat_comp(rng);
    let d = rat_comp(rng);
    if rng.chance(1, 40) {
        n = 1 << 31; // numerator -2^31 (the most negative 32-bit value)
        return rat(-n, d);
    }
    if rng.chance(1, 2) {
        n = -n;
    }
    rat(n, d)
}

pub fn draw_exact(rng: &mut Rng) -> Val {
    if rng.chance(3, 5) {
        Val::Int(draw_int(rng))
    } else {
        draw_rat(rng)
    }
}

fn as_int(v: &Val) -> Option<&BigInt> {
    match v {
        Val::Int(i) => Some(i),
        _ => None,
    }
}

/// an operand related to `a`: equal, negated, neighbour, complement to a boundary, multiple
fn related(rng: &mut Rng, a: &Val) -> Val {
    match a {
        Val::Int(i) => match rng.below(7) {
            0 => Val::Int(i.clone()),
            1 => Val::Int(-i.clone()),
            2 => Val::Int(i + rng.range(-2, 2)),
            3 => Val::Int(boundary_int(rng) - i),
            4 => Val::Int(i * BigInt::from(rng.range(-9, 9))),
            5 => {
                // divisor-like: a boundary divided by i
                if i.is_zero() {
                    Val::Int(BigInt::one())
                } else {
                    Val::Int(boundary_int(rng) / i + rng.range(-1, 1))
                }
            }
            _ => match i.to_i32() {
                Some(x) if x != 0 => rat(rat_comp(rng), x as i64),
                _ => Val::Int(i.clone() + 1),
            },
        },
        Val::Rat(n, d) => match rng.below(6) {
            0 => Val::Rat(*n, *d),
            1 => rat(-(*n as i64), *d as i64),
            2 => rat(*d as i64, *n as i64),
            3 => rat(rat_comp(rng), *d as i64),
            4 => rat(*n as i64, rat_comp(rng)),
            _ => Val::Int(BigInt::from(*d)),
        },
        Val::Flo(b) => Val::Flo(*b),
    }
}

// doubles ---------------------------------------------------------------------------------

const DOUBLE_BITS: [u64; 30] = [
    0x0000000000000000, // 0.0
    0x8000000000000000, // -0.0
    0x0000000000000001, // least subnormal
    0x8000000000000001,
    0x000fffffffffffff, // greatest subnormal
    0x0010000000000000, // least normal
    0x3ff0000000000000, // 1.0
    0xbff0000000000000, // -1.0
    0x3fe0000000000000, // 0.5
    0x3fb999999999999a, // 0.1
    0x3fd5555555555555, // 1/3
    0x41dfffffffc00000, // 2^31 - 1
    0x41e0000000000000, // 2^31
    0x41e0000000100000, // 2^31 + 0.5
    0xc1e0000000000000, // -2^31
    0x433fffffffffffff, // 2^53 - 1
    0x4340000000000000, // 2^53
    0x4340000000000001, // 2^53 + 2
    0xc340000000000000, // -2^53
    0x43dfffffffffffff, // 2^63 - 1024
    0x43e0000000000000, // 2^63
    0x43e0000000000001, // 2^63 + 2048
    0xc3e0000000000000, // -2^63
    0x43f0000000000000, // 2^64
    0x7fe1ccf385ebc8a0, // 1e308
    0x7fefffffffffffff, // greatest finite
    0xffefffffffffffff,
    0x7ff0000000000000, // +inf
    0xfff0000000000000, // -inf
    0x3ff0000000000001, // 1 + ulp
];

/// the double nearest to an exact value as Rust computes it (an input, not an oracle: any double will do)
fn approx_double(v: &Val) -> f64 {
    match v {
        Val::Int(i) => i.to_f64().unwrap_or(f64::INFINITY),
        Val::Rat(n, d) => *n as f64 / *d as f64,
        Val::Flo(b) => f64::from_bits(*b),
    }
}

fn neighbour(rng: &mut Rng, f: f64) -> u64 {
    let b = f.to_bits();
    let mag = b & 0x7fffffffffffffff;
    let d = rng.range(-2, 2);
    let m2 = (mag as i64 + d).clamp(0, 0x7ff0000000000000) as u64;
    (b & 0x8000000000000000) | m2
}

fn draw_double_finite(rng: &mut Rng, any_bits: bool) -> u64 {
    loop {
        let b = match rng.weighted(&[30, 30, if any_bits { 40 } else { 5 }]) {
            0 => *rng.pick(&DOUBLE_BITS),
            1 => {
                let v = draw_exact(rng);
                neighbour(rng, approx_double(&v))
            }
            _ => rng.next(),
        };
        if f64::from_bits(b).is_finite() {
            return b;
        }
    }
}

/// C09 operand: exact palette, or a double (no NaN)
fn draw_ordered(rng: &mut Rng) -> Val {
    match rng.weighted(&[55, 20, 20, 5]) {
        0 => draw_exact(rng),
        1 => Val::Flo(*rng.pick(&DOUBLE_BITS)),
        2 => {
            let v = draw_exact(rng);
            let f = approx_double(&v);
            let b = neighbour(rng, f);
            if f64::from_bits(b).is_nan() {
                Val::Flo(f.to_bits())
            } else {
                Val::Flo(b)
            }
        }
        _ => Val::Flo(draw_double_finite(rng, true)),
    }
}

/// a value close to (or equal to) `a` in the mathematical order, possibly of another kind
fn near(rng: &mut Rng, a: &Val) -> Val {
    match rng.below(6) {
        0 => a.clone(),
        1 | 2 => {
            let f = approx_double(a);
            let b = neighbour(rng, f);
            if f64::from_bits(b).is_nan() {
                a.clone()
            } else {
                Val::Flo(b)
            }
        }
        3 => match a {
            Val::Flo(b) => {
                // the exact integer part of the double (when it is an integer-sized value)
                let f = f64::from_bits(*b);
                if f.is_finite() && f.abs() < 1e300 {
                    match num::BigInt::from_f64_lossy(f.trunc()) {
                        Some(i) => Val::Int(i + rng.range(-1, 1)),
                        None => a.clone(),
                    }
                } else {
                    a.clone()
                }
            }
            other => related(rng, other),
        },
        4 => match a {
            Val::Int(i) => match i.to_i32() {
                Some(x) if (x as i64).abs() < (1 << 30) => rat(2 * x as i64 + 1, 2),
                _ => Val::Int(i + rng.range(-1, 1)),
            },
            Val::Rat(n, d) => rat(*n as i64 + rng.range(-1, 1), *d as i64),
            Val::Flo(_) => a.clone(),
        },
        _ => match a {
            Val::Int(i) => Val::Int(i + rng.range(-2, 2)),
            Val::Rat(n, d) => Val::Int(BigInt::from(*n as i64 / *d as i64 + rng.range(0, 1))),
            Val::Flo(_) => a.clone(),
        },
    }
}

trait FromF64Lossy {
    fn from_f64_lossy(f: f64) -> Option<BigInt>;
}
impl FromF64Lossy for BigInt {
    /// exact integer value of an integral finite double, from its bit pattern
    fn from_f64_lossy(f: f64) -> Option<BigInt> {
        if !f.is_finite() {
            return None;
        }
        let b = f.to_bits();
        let e = ((b >> 52) & 0x7ff) as i64;
        let frac = b & 0x000fffffffffffff;
        let (m, e) = if e == 0 { (frac, -1074) } else { (frac | (1 << 52), e - 1075) };
        let mut v = BigInt::from(m);
        if e >= 0 {
            v <<= e as usize;
        } else {
            v >>= (-e) as usize;
        }
        Some(if b >> 63 == 1 { -v } else { v })
    }
}

// ----------------------------------------------------------------------------- generators

fn bits_of(v: &Val) -> u64 {
    match v {
        Val::Int(i) => i.bits(),
        Val::Rat(n, d) => 32.max(64 - (*n as i64).abs().leading_zeros() as u64).max(64 - (*d as i64).leading_zeros() as u64),
        Val::Flo(_) => 64,
    }
}

fn gen_c08(rng: &mut Rng) -> Group {
    let kind = rng.weighted(&[46, 8, 3, 14, 10, 19]);
    let (op, args): (&str, Vec<Val>) = match kind {
        0 => {
            let op = *rng.pick(&["+", "-", "*", "/", "+", "-", "*", "/", "/"]);
            let a = draw_exact(rng);
            let b = if rng.chance(2, 5) { related(rng, &a) } else { draw_exact(rng) };
            if rng.chance(1, 2) {
                (op, vec![a, b])
            } else {
                (op, vec![b, a])
            }
        }
        1 => {
            let op = *rng.pick(&["+", "*", "+", "*", "-"]);
            let a = draw_exact(rng);
            let b = if rng.chance(1, 2) { related(rng, &a) } else { draw_exact(rng) };
            let c = if rng.chance(1, 2) { related(rng, &b) } else { draw_exact(rng) };
            (op, vec![a, b, c])
        }
        2 => {
            let op = *rng.pick(&["+", "*", "-", "/"]);
            if (op == "+" || op == "*") && rng.chance(1, 4) {
                (op, vec![])
            } else {
                (op, vec![draw_exact(rng)])
            }
        }
        3 => {
            let op = *rng.pick(&["abs", "floor", "ceiling", "truncate", "numerator", "denominator"]);
            let a = if rng.chance(1, 2) { draw_rat(rng) } else { draw_exact(rng) };
            (op, vec![a])
        }
        4 => {
            let base = match rng.below(4) {
                0 => Val::Int(BigInt::from(rng.range(-12, 12))),
                1 => rat(rng.range(-9, 9), rng.range(1, 9)),
                _ => draw_exact(rng),
            };
            let mut k = match rng.below(3) {
                0 => *rng.pick(&[0i64, 1, 2, 3, 10, 15, 16, 30, 31, 32, 33, 40, 62, 63, 64, 65]),
                _ => rng.range(0, 70),
            };
            // results are capped at 2048 bits; beyond the cap the exponent is drawn anew below it
            let b = bits_of(&base).max(1) as i64;
            if b * k > 2048 {
                k = rng.range(0, 2048 / b);
            }
            ("expt", vec![base, Val::Int(BigInt::from(k))])
        }
        _ => {
            let op = *rng.pick(&["quotient", "remainder", "modulo"]);
            let a = Val::Int(draw_int(rng));
            let b = match rng.below(10) {
                0 => Val::Int(BigInt::from(*rng.pick(&[1i64, -1, -1, 2, -2]))),
                1 | 2 | 3 => {
                    let mut r = related(rng, &a);
                    if as_int(&r).is_none() {
                        r = Val::Int(draw_int(rng));
                    }
                    r
                }
                _ => Val::Int(draw_int(rng)),
            };
            if rng.chance(1, 2) {
                (op, vec![a, b])
            } else {
                (op, vec![b, a])
            }
        }
    };
    let plans = plan(rng, &args, 9, 35);
    Group { cls: "c08".into(), op: op.into(), args, radix: 0, plans }
}

fn gen_c09(rng: &mut Rng, pending: &mut Vec<Group>) -> Group {
    if let Some(g) = pending.pop() {
        return g;
    }
    let kind = rng.weighted(&[55, 22, 10, 10, 3]);
    match kind {
        0 => {
            // a pair under `=` and two of the four order relations
            let a = draw_ordered(rng);
            let b = if rng.chance(1, 2) { near(rng, &a) } else { draw_ordered(rng) };
            let args = if rng.chance(1, 2) { vec![a, b] } else { vec![b, a] };
            let mut ops = vec!["<", ">", "<=", ">="];
            let i = rng.below(ops.len());
            ops.swap_remove(i);
            let i = rng.below(ops.len());
            ops.swap_remove(i);
            for op in ops {
                let plans = plan(rng, &args, 4, 25);
                pending.push(Group { cls: "c09".into(), op: op.into(), args: args.clone(), radix: 0, plans });
            }
            let plans = plan(rng, &args, 4, 25);
            Group { cls: "c09".into(), op: "=".into(), args, radix: 0, plans }
        }
        1 => {
            // a triple of neighbouring values (transitivity, variadic = conjunction of adjacent pairs)
            let a = draw_ordered(rng);
            let b = if rng.chance(3, 4) { near(rng, &a) } else { draw_ordered(rng) };
            let pick_a = rng.chance(1, 2);
            let c = if rng.chance(3, 4) { near(rng, if pick_a { &a } else { &b }) } else { draw_ordered(rng) };
            let mut args = vec![a, b, c];
            if rng.chance(1, 6) {
                args.push(near(rng, &args[2].clone()));
            }
            let op = *rng.pick(&["<", "=", ">", "<=", ">=", "=", "<="]);
            // the pairwise comparisons of the same triple
            for (i, j) in [(0, 1), (1, 2), (0, 2)] {
                let pa = vec![args[i].clone(), args[j].clone()];
                let plans = plan(rng, &pa, 2, 0);
                pending.push(Group { cls: "c09".into(), op: op.into(), args: pa, radix: 0, plans });
            }
            let plans = plan(rng, &args, 4, 25);
            Group { cls: "c09".into(), op: op.into(), args, radix: 0, plans }
        }
        2 => {
            let op = *rng.pick(&["min", "max"]);
            let a = draw_ordered(rng);
            let b = if rng.chance(1, 2) { near(rng, &a) } else { draw_ordered(rng) };
            let mut args = vec![a, b];
            if rng.chance(1, 3) {
                args.push(near(rng, &args[0].clone()));
            }
            let plans = plan(rng, &args, 4, 25);
            Group { cls: "c09".into(), op: op.into(), args, radix: 0, plans }
        }
        3 => {
            let op = *rng.pick(&["zero?", "positive?", "negative?"]);
            let a = if rng.chance(1, 4) {
                rng.pick(&[Val::Int(BigInt::zero()), Val::Flo(0), Val::Flo(1 << 63), Val::Flo(1), Val::Flo((1 << 63) | 1)]).clone()
            } else {
                draw_ordered(rng)
            };
            let args = vec![a];
            let plans = plan(rng, &args, 4, 25);
            Group { cls: "c09".into(), op: op.into(), args, radix: 0, plans }
        }
        _ => {
            let op = *rng.pick(&["<", "=", ">", "<=", ">="]);
            let args = vec![draw_ordered(rng)];
            let plans = plan(rng, &args, 3, 25);
            Group { cls: "c09".into(), op: op.into(), args, radix: 0, plans }
        }
    }
}


// ----------------------------------------------------------------------------- deterministic grids

fn hot_exact() -> Vec<Val> {
    let mut v: Vec<Val> = vec![];
    for i in [0i64, 1, -1, 2, -2, 3, -7, 10] {
        v.push(Val::Int(BigInt::from(i)));
    }
    for (k, d) in [(31u32, -1i64), (31, 0), (32, 0), (32, 1), (53, 0), (62, 0), (63, -1), (63, 0), (64, 0), (127, 0)] {
        v.push(Val::Int(pow2(k) + d));
    }
    for (k, d) in [(31u32, 0i64), (31, -1), (63, 0), (63, -1), (64, 1)] {
        v.push(Val::Int(-pow2(k) + d));
    }
    for (n, d) in [(1i64, 2i64), (-1, 2), (3, 7), (-5, 3), ((1 << 31) - 1, 2), (1, (1 << 31) - 1), (-(1 << 31), 3), (46341, 46340)] {
        v.push(rat(n, d));
    }
    v
}

/// C08: every ordered pair of the hot values under every binary operation, the unary operations on every hot
/// value, expt on a base x exponent grid.  `stride`/`off` thin the grid deterministically.
fn grid_c08(rng: &mut Rng, stride: usize, off: usize) -> Vec<Group> {
    let hot = hot_exact();
    let mut out = vec![];
    let mut n = 0usize;
    let mut push = |out: &mut Vec<Group>, rng: &mut Rng, op: &str, args: Vec<Val>| {
        n += 1;
        if n % stride == off % stride {
            let plans = plan(rng, &args, 9, 35);
            out.push(Group { cls: "c08".into(), op: op.into(), args, radix: 0, plans });
        }
    };
    for a in hot.iter() {
        for b in hot.iter() {
            for op in ["+", "-", "*", "/"] {
                push(&mut out, rng, op, vec![a.clone(), b.clone()]);
            }
            if as_int(a).is_some() && as_int(b).is_some() {
                for op in ["quotient", "remainder", "modulo"] {
                    push(&mut out, rng, op, vec![a.clone(), b.clone()]);
                }
            }
        }
        for op in ["abs", "floor", "ceiling", "truncate", "numerator", "denominator", "-", "/"] {
            push(&mut out, rng, op, vec![a.clone()]);
        }
    }
    let bases: Vec<Val> = vec![
        Val::Int(BigInt::from(0)), Val::Int(BigInt::from(1)), Val::Int(BigInt::from(-1)), Val::Int(BigInt::from(2)),
        Val::Int(BigInt::from(-2)), Val::Int(BigInt::from(3)), Val::Int(BigInt::from(10)), Val::Int(BigInt::from(-10)),
        rat(1, 2), rat(-3, 2), Val::Int(pow2(31)), Val::Int(pow2(32) - 1), Val::Int(BigInt::from(46341)),
    ];
    for b in bases.iter() {
        for k in [0i64, 1, 2, 3, 15, 16, 30, 31, 32, 33, 61, 62, 63, 64, 65, 100] {
            if bits_of(b).max(1) as i64 * k <= 2048 {
                push(&mut out, rng, "expt", vec![b.clone(), Val::Int(BigInt::from(k))]);
            }
        }
    }
    out
}

fn next_up(b: u64) -> u64 {
    let f = f64::from_bits(b);
    if f.is_nan() || f == f64::INFINITY { b } else if f == 0.0 { 1 } else if f > 0.0 { b + 1 } else { b - 1 }
}
fn next_down(b: u64) -> u64 {
    let f = f64::from_bits(b);
    if f.is_nan() || f == f64::NEG_INFINITY { b } else if f == 0.0 { 0x8000000000000001 } else if f > 0.0 { b - 1 } else { b + 1 }
}

/// C09: exact values at the edges of double precision against the doubles next to them, small integers in every
/// representation against each other, the sign predicates on every kind of zero and of tiny number.
fn grid_c09(rng: &mut Rng, stride: usize, off: usize) -> Vec<Group> {
    let mut out = vec![];
    let mut n = 0usize;
    let mut push = |out: &mut Vec<Group>, rng: &mut Rng, op: &str, args: Vec<Val>, cap: usize| {
        n += 1;
        if n % stride == off % stride {
            let plans = plan(rng, &args, cap, 25);
            out.push(Group { cls: "c09".into(), op: op.into(), args, radix: 0, plans });
        }
    };
    let mut exacts: Vec<Val> = vec![];
    for k in [24u32, 31, 32, 52, 53, 54, 62, 63, 64, 100] {
        for d in [-3i64, -2, -1, 0, 1, 2, 3] {
            exacts.push(Val::Int(pow2(k) + d));
            exacts.push(Val::Int(-pow2(k) + d));
        }
    }
    for d in [1i64, 3, 5, 1023, (1 << 52) + 1, (1 << 53) - 1] {
        exacts.push(Val::Int(pow2(53) + d)); // odd values between 2^53 and 2^54
    }
    for (a, b) in [(1i64, 2i64), (1, 3), (-1, 3), (2, 3), ((1 << 31) - 1, 1 << 30), (1, (1 << 31) - 1), (0, 1), (1, 1), (-1, 1)] {
        exacts.push(rat(a, b));
    }
    let ops = ["=", "<", ">", "<=", ">="];
    for e in exacts.iter() {
        let d0 = approx_double(e).to_bits();
        for d in [d0, next_up(d0), next_down(d0)] {
            if f64::from_bits(d).is_nan() {
                continue;
            }
            for op in ops {
                push(&mut out, rng, op, vec![e.clone(), Val::Flo(d)], 4);
                push(&mut out, rng, op, vec![Val::Flo(d), e.clone()], 4);
            }
        }
    }
    // small integers: every ordered pair in every combination of representations
    let small: Vec<Val> = [-5i64, -1, 0, 1, 3, 5].iter().map(|i| Val::Int(BigInt::from(*i))).collect();
    for a in small.iter() {
        for b in small.iter() {
            for op in ops {
                push(&mut out, rng, op, vec![a.clone(), b.clone()], 9);
            }
            for op in ["min", "max"] {
                push(&mut out, rng, op, vec![a.clone(), b.clone()], 9);
            }
        }
    }
    // rationals closer to each other than the resolution of a double (components near 2^31)
    let m = (1i64 << 31) - 1;
    let close: Vec<Val> = vec![rat(m - 3, m - 2), rat(m - 2, m - 1), rat(m - 1, m), rat(m - 4, m - 2), rat(1, 3), rat(715827882, m),
                               rat(715827883, m), rat(-(m - 2), m - 1), rat(-(m - 1), m), rat(m, m - 1), rat(m - 1, m - 2)];
    for a in close.iter() {
        for b in close.iter() {
            for op in ops {
                push(&mut out, rng, op, vec![a.clone(), b.clone()], 2);
            }
            push(&mut out, rng, "max", vec![a.clone(), b.clone()], 2);
            push(&mut out, rng, "min", vec![a.clone(), b.clone()], 2);
        }
    }
    // min / max of an exact value no double equals and a double: the result is one of the arguments
    for e in exacts.iter().chain(close.iter()) {
        for d in [0x3ff8000000000000u64, 0xbff8000000000000, 0x43e0000000000000, 0xc3e0000000000000, 0] {
            for op in ["min", "max"] {
                push(&mut out, rng, op, vec![e.clone(), Val::Flo(d)], 2);
                push(&mut out, rng, op, vec![Val::Flo(d), e.clone()], 2);
            }
        }
    }
    // sign predicates and one-argument comparisons
    let mut ones: Vec<Val> = small.clone();
    for b in [0u64, 1 << 63, 1, (1 << 63) | 1, 0x0010000000000000, 0x8010000000000000, 0x3c80000000000000, 0xbc80000000000000,
              0x3ff0000000000000, 0xbff0000000000000, 0x7ff0000000000000, 0xfff0000000000000, 0x7fefffffffffffff] {
        ones.push(Val::Flo(b));
    }
    ones.push(rat(1, 3));
    ones.push(rat(-1, 3));
    ones.push(Val::Int(pow2(64)));
    ones.push(Val::Int(-pow2(64)));
    for a in ones.iter() {
        for op in ["zero?", "positive?", "negative?"] {
            push(&mut out, rng, op, vec![a.clone()], 4);
        }
    }
    out
}

const NICE_DOUBLES: [f64; 24] = [
    0.1, 0.2, 0.3, 1.5, -2.5, 3.14159, 100.0, 1e10, 1.0e10 + 1.0, 1e11, 1.5e11, 1e21, 1e22, 1e23, 123456.789, 1e-7, 1.5e-10,
    6.02214076e23, 1.7976931348623157e308, 2.2250738585072014e-308, 5e-324, 4.9406564584124654e-320, -1e15, 9007199254740993.0,
];

fn gen_c16(rng: &mut Rng, pending: &mut Vec<Group>) -> Group {
    if let Some(g) = pending.pop() {
        return g;
    }
    if rng.chance(11, 20) {
        // finite double, radix 10
        let b = if rng.chance(1, 6) {
            let f = *rng.pick(&NICE_DOUBLES);
            (if rng.chance(1, 4) { -f } else { f }).to_bits()
        } else {
            draw_double_finite(rng, true)
        };
        let args = vec![Val::Flo(b)];
        let plans = plan(rng, &args, 1, 30);
        let radix = if rng.chance(1, 3) { 0 } else { 10 };
        return Group { cls: "c16".into(), op: "number->string".into(), args, radix, plans };
    }
    let z = draw_exact(rng);
    let args = vec![z];
    let mut radices = vec![2u32, 8, 10, 16, 0];
    while radices.len() > 3 {
        let i = rng.below(radices.len());
        radices.swap_remove(i);
    }
    let first = radices.pop().unwrap();
    for r in radices {
        let plans = plan(rng, &args, 3, 30);
        pending.push(Group { cls: "c16".into(), op: "number->string".into(), args: args.clone(), radix: r, plans });
    }
    let plans = plan(rng, &args, 3, 30);
    Group { cls: "c16".into(), op: "number->string".into(), args, radix: first, plans }
}

// ----------------------------------------------------------------------------- replay decoding

fn decimal_of_limbs(l: &Value) -> String {
    let limbs: Vec<u64> = l.as_array().map(|a| a.iter().map(|x| x.as_u64().unwrap_or(0)).collect()).unwrap_or_default();
    if limbs.is_empty() {
        return "0".into();
    }
    let mut s = String::new();
    for (i, x) in limbs.iter().rev().enumerate() {
        if i == 0 {
            s.push_str(&x.to_string());
        } else {
            s.push_str(&format!("{:04}", x));
        }
    }
    s
}

fn val_of_json(j: &Value) -> Result<Val, String> {
    match j["k"].as_str() {
        Some("x") => {
            let n: BigInt = decimal_of_limbs(&j["n"]).parse().map_err(|_| "bad limbs")?;
            let d: BigInt = decimal_of_limbs(&j["d"]).parse().map_err(|_| "bad limbs")?;
            let n = if j["s"].as_i64() == Some(-1) { -n } else { n };
            if d.is_one() {
                Ok(Val::Int(n))
            } else {
                Ok(Val::Rat(n.to_i32().ok_or("numerator")?, d.to_i32().ok_or("denominator")?))
            }
        }
        Some("f") => {
            let w: Vec<u64> = j["w"].as_array().ok_or("w")?.iter().map(|x| x.as_u64().unwrap_or(0)).collect();
            Ok(Val::Flo((w[0] << 48) | (w[1] << 32) | (w[2] << 16) | w[3]))
        }
        _ => Err("unknown value kind".into()),
    }
}

fn group_of_json(j: &Value) -> Result<Group, String> {
    let args: Result<Vec<Val>, String> = j["args"].as_array().ok_or("args")?.iter().map(val_of_json).collect();
    let mut plans = vec![];
    for r in j["runs"].as_array().ok_or("runs")? {
        let reps: Vec<String> = r["reps"].as_array().ok_or("reps")?.iter().map(|x| x.as_str().unwrap_or("").to_string()).collect();
        plans.push((reps, r["route"].as_str().unwrap_or("inj").to_string()));
    }
    let radix = if j["radix_arg"].as_bool() == Some(false) { 0 } else { j["r"].as_u64().unwrap_or(10) as u32 };
    Ok(Group {
        cls: j["cls"].as_str().ok_or("cls")?.to_string(),
        op: j["op"].as_str().ok_or("op")?.to_string(),
        args: args?,
        radix: if j["cls"] == "c16" { radix } else { 0 },
        plans,
    })
}

// ----------------------------------------------------------------------------- main

pub fn main(args: &[String]) -> Result<(), String> {
    if args.is_empty() {
        return Err("numtower gen|replay key=value...".into());
    }
    let m = kv(&args[1..]);
    let out = m.get("out").cloned().ok_or("out=<file> required")?;
    let mut f = std::io::BufWriter::new(std::fs::File::create(&out).map_err(|e| e.to_string())?);
    let mut ev = Ev::new();
    // the premise of route "inj": evaluating a number cell keeps the variant it is given
    for (v, rep) in [(Val::Int(BigInt::from(5)), "big"), (Val::Int(BigInt::from(3)), "rat"), (Val::Int(BigInt::from(7)), "fix")] {
        let n = number_of(&v, rep).unwrap();
        match ev.eval(&Cell::Number(n.clone())) {
            Outcome::Ok(Cell::Number(r)) if same_number(&r, &n) => {}
            _ => return Err(format!("evaluating a {} number cell does not keep its representation", rep)),
        }
    }
    match args[0].as_str() {
        "gen" => {
            let cls = m.get("op-class").cloned().ok_or("op-class=c08|c09|c16 required")?;
            let seed: u64 = get(&m, "seed", 0);
            let count: usize = get(&m, "count", 1000);
            let mut rng = Rng::new(seed.wrapping_mul(7919).wrapping_add(match cls.as_str() {
                "c08" => 8,
                "c09" => 9,
                _ => 16,
            }));
            let mut pending: Vec<Group> = vec![];
            let mut nruns = 0;
            let mut id = 0;
            // grid=<stride>: the deterministic grid of the class first (every stride-th entry, offset = seed)
            let stride: usize = get(&m, "grid", 0);
            if stride > 0 {
                let gr = match cls.as_str() {
                    "c08" => grid_c08(&mut rng, stride, seed as usize),
                    "c09" => grid_c09(&mut rng, stride, seed as usize),
                    _ => vec![],
                };
                let mut ngrid = 0;
                for g in gr {
                    id += 1;
                    let j = run_group(&mut ev, id, &g);
                    if j["runs"].as_array().map(|a| a.len()).unwrap_or(0) == 0 {
                        id -= 1;
                        continue;
                    }
                    ngrid += 1;
                    writeln!(f, "{}", j).map_err(|e| e.to_string())?;
                }
                eprintln!("numtower grid {}: {} groups", cls, ngrid);
            }
            while nruns < count {
                let g = match cls.as_str() {
                    "c08" => gen_c08(&mut rng),
                    "c09" => gen_c09(&mut rng, &mut pending),
                    "c16" => gen_c16(&mut rng, &mut pending),
                    other => return Err(format!("unknown op-class {}", other)),
                };
                id += 1;
                let j = run_group(&mut ev, id, &g);
                let n = j["runs"].as_array().map(|a| a.len()).unwrap_or(0);
                if n == 0 {
                    id -= 1;
                    continue;
                }
                nruns += n;
                writeln!(f, "{}", j).map_err(|e| e.to_string())?;
            }
            eprintln!("numtower gen {}: {} groups, {} runs, {} evaluations, {} source routes unavailable",
                      cls, id, nruns, ev.evals, ev.src_unavailable);
            Ok(())
        }
        "replay" => {
            let input = m.get("in").cloned().ok_or("in=<file> required")?;
            let text = std::fs::read_to_string(&input).map_err(|e| e.to_string())?;
            for line in text.lines().filter(|l| !l.trim().is_empty()) {
                let j: Value = serde_json::from_str(line).map_err(|e| e.to_string())?;
                let g = group_of_json(&j)?;
                let id = j["id"].as_u64().unwrap_or(0) as usize;
                writeln!(f, "{}", run_group(&mut ev, id, &g)).map_err(|e| e.to_string())?;
            }
            Ok(())
        }
        other => Err(format!("unknown numtower command {}", other)),
    }
}
