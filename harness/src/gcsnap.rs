//! `mwverif gcsnap kind=<generator> seed= count= period=<k> every=<j> out=`:
//! run generated sessions with a collection forced before every k-th instruction
//! (period=0: natural cadence only) and record, for every j-th collection, a snapshot of the
//! heap before marking and after sweeping, plus every change of heap capacity.
use crate::enc::parse_all;
use crate::gen_cmd::{get, kv};
use crate::sess::{RunCfg, Session};
use crate::snap::{snapshot, snapshot_x};
use marwood::vm::verif::VerifEvent;
use marwood::vm::Vm;
use serde_json::{json, Value};
use std::cell::RefCell;
use std::io::Write;
use std::rc::Rc;

#[derive(Default)]
pub struct GcLog {
    pub events: Vec<Value>,
    pub collections: u64,
    pub instr: u64,
    pub last_cap: usize,
    pub pre: Option<Value>,
    pub post: Option<Value>,
    pub allocated_since_gc: i64,
    pub used_after_last_gc: usize,
    pub max_events: usize,
}

pub fn install(vm: &mut Vm, period: u64, every: u64, limit: u64, log: Rc<RefCell<GcLog>>) {
    log.borrow_mut().last_cap = vm.verif_heap().capacity();
    vm.verif.hook = Some(Box::new(move |vm: &Vm, ev: VerifEvent| -> bool {
        let mut l = log.borrow_mut();
        match ev {
            VerifEvent::Step => {
                l.instr += 1;
                if l.instr > limit {
                    l.instr = 0;
                    drop(l);
                    panic!("verif-timeout");
                }
                let cap = vm.verif_heap().capacity();
                if cap != l.last_cap {
                    // capacity changed outside a collection: growth on allocation
                    let e = json!({"ev": "grow-alloc", "cap0": l.last_cap, "cap1": cap, "used": vm.verif_heap().used_size()});
                    l.events.push(e);
                    l.last_cap = cap;
                }
                period > 0 && l.instr % period == 0
            }
            VerifEvent::GcPre { .. } => {
                l.collections += 1;
                let sample = every > 0 && (l.collections % every == 0 || l.collections == 1) && l.events.len() < l.max_events;
                l.pre = if sample { Some(snapshot(vm)) } else { None };
                l.post = None;
                let cap = vm.verif_heap().capacity();
                if cap != l.last_cap {
                    let e = json!({"ev": "grow-alloc", "cap0": l.last_cap, "cap1": cap, "used": vm.verif_heap().used_size()});
                    l.events.push(e);
                    l.last_cap = cap;
                }
                false
            }
            VerifEvent::GcPost { .. } => {
                if l.pre.is_some() {
                    l.post = Some(snapshot_x(vm, false));
                }
                l.used_after_last_gc = vm.verif_heap().used_size();
                false
            }
            VerifEvent::GcDone { forced } => {
                let cap = vm.verif_heap().capacity();
                let mut e = json!({"ev": "gc", "n": l.collections, "forced": forced, "cap0": l.last_cap, "cap1": cap,
                                   "live": l.used_after_last_gc});
                if let (Some(pre), Some(post)) = (l.pre.take(), l.post.take()) {
                    e["pre"] = pre;
                    e["post"] = post;
                }
                if e.get("pre").is_some() || cap != l.last_cap {
                    l.events.push(e);
                }
                l.last_cap = cap;
                false
            }
        }
    }));
}

pub fn forms_of(kind: &str, seed: u64) -> Result<Vec<String>, String> {
    let mut rng = crate::rng::Rng::new(seed);
    Ok(match kind {
        "alloc" => crate::gen_alloc::session(&mut rng).0,
        "biglive" => crate::gen_alloc::big_session(&mut rng).0,
        "cont" => crate::gen_cont::session(&mut rng).0,
        "sym" => crate::gen_sym::session(&mut rng).0,
        "lang" => {
            let mut g = crate::gen_lang::LangGen::new(seed);
            let n = 3 + g.rng.below(6);
            g.session(n, 15)
        }
        "scope" => crate::gen_scope::random(3, &mut rng).forms(),
        other => return Err(format!("gcsnap: unknown kind {}", other)),
    })
}

pub fn main(args: &[String]) -> Result<(), String> {
    let m = kv(args);
    let kind = m.get("kind").cloned().unwrap_or("alloc".into());
    let seed: u64 = get(&m, "seed", 0);
    let count: usize = get(&m, "count", 10);
    let period: u64 = get(&m, "period", 1);
    let every: u64 = get(&m, "every", 1);
    let maxev: usize = get(&m, "maxev", 200);
    let out = m.get("out").cloned().ok_or("out=<file> required")?;
    let mut f = std::io::BufWriter::new(std::fs::File::create(&out).map_err(|e| e.to_string())?);
    let mut nev = 0;
    for i in 0..count {
        let sseed = seed.wrapping_mul(1_000_003).wrapping_add(i as u64);
        let forms = forms_of(&kind, sseed)?;
        let cfg = RunCfg::plain();
        let mut s = Session::new(&cfg);
        let log = Rc::new(RefCell::new(GcLog { max_events: maxev, ..Default::default() }));
        install(&mut s.vm, period, every, crate::sess::INSTR_LIMIT, log.clone());
        for (fi, t) in forms.iter().enumerate() {
            let c = parse_all(t)?;
            let (_o, _) = s.eval(&c[0], &cfg);
            let evs: Vec<Value> = log.borrow_mut().events.drain(..).collect();
            for mut e in evs {
                e["sess"] = json!(i + 1);
                e["form"] = json!(fi + 1);
                e["kind"] = json!(kind);
                e["seed"] = json!(sseed);
                e["text"] = json!(t);
                writeln!(f, "{}", e).map_err(|e| e.to_string())?;
                nev += 1;
            }
            if s.dead {
                break;
            }
        }
    }
    eprintln!("gcsnap {}: {} events", kind, nev);
    Ok(())
}

// ------------------------------------------------------------------------------------------
// C12: garbage-producing loops under the natural collection cadence

pub const GARBAGE_KINDS: &[&str] =
    &["pairs", "vectors", "strings", "closures", "continuations", "eval", "toplevel", "symbols", "bignums", "mixed",
      "contchain", "delayforce", "freshlocals", "bursts", "sliced-pairs", "sliced-closures", "failures"];

/// (setup forms, loop form with the iteration count N substituted, per-iteration top-level form if any)
fn garbage_program(kind: &str, live: usize, n: usize) -> (Vec<String>, Vec<String>) {
    // one burst allocates and walks 600 cells (about 5000 instructions): 1/50 of the iterations gives the allocation
    // volume of the other kinds and stays inside the instruction budget of the watchdog
    let n = if kind == "bursts" { (n / 50).max(10) } else { n };
    let mut setup = vec![
        "(define (iota-list n) (let loop ((i 0) (acc '())) (if (= i n) acc (loop (+ i 1) (cons i acc)))))".to_string(),
        "(define sink 0)".to_string(),
    ];
    let keep = match kind {
        "pairs" | "toplevel" | "mixed" | "freshlocals" | "bursts" | "failures" => format!("(define live (iota-list {}))", live),
        "contchain" => {
            setup.push("(define last #f)".to_string());
            setup.push("(define (remember! c) (set! last c) 0)".to_string());
            format!("(define live (iota-list {}))", live)
        }
        "delayforce" => {
            setup.push("(define (dfloop n) (if (= n 0) (delay 'end) (delay-force (dfloop (- n 1)))))".to_string());
            format!("(define live (iota-list {}))", live)
        }
        "vectors" => format!("(define live (map (lambda (i) (make-vector 2 i)) (iota-list {})))", live),
        "strings" => format!("(define live (map (lambda (i) (make-string 2 #\\a)) (iota-list {})))", live),
        "closures" => format!("(define live (map (lambda (i) (lambda () i)) (iota-list {})))", live),
        "continuations" => format!("(define live (map (lambda (i) (call/cc (lambda (k) k))) (iota-list {})))", live.min(50)),
        "eval" => format!("(define live (map (lambda (i) (eval (list 'lambda '(x) (list '+ 'x i)))) (iota-list {})))", live.min(200)),
        "symbols" => format!("(define live (map (lambda (i) (string->symbol (string-append \"live-\" (make-string (modulo i 40) #\\s) (number->string i)))) (iota-list {})))", live),
        "bignums" => format!("(define live (map (lambda (i) (* 100000000000000000000 (+ i 1))) (iota-list {})))", live),
        _ => format!("(define live (iota-list {}))", live),
    };
    setup.push(keep);
    let body = match kind {
        "pairs" => "(set! sink (length (list i i i)))",
        "vectors" => "(set! sink (vector-length (make-vector 3 i)))",
        "strings" => "(set! sink (string-length (string-append \"abc\" (make-string 2 #\\z))))",
        "closures" => "(set! sink ((lambda (a) ((lambda (b) (+ a b)) i)) i))",
        "continuations" => "(set! sink (+ 1 (call/cc (lambda (k) (k i)))))",
        "eval" => "(set! sink (eval (list '+ i 1)))",
        "symbols" => "(set! sink (symbol? (string->symbol (string-append \"tmp-\" (number->string i)))))",
        "bignums" => "(set! sink (> (* 100000000000000000000 (+ i 1)) 0))",
        "mixed" => "(set! sink (list (make-vector 2 i) (lambda () i) (string-append \"a\" \"b\") (call/cc (lambda (k) k))))",
        // generator style: the receiver passes the continuation on in a non-tail call; only the newest is kept
        "contchain" => "(set! sink (+ 1 (call/cc (lambda (c) (remember! c)))))",
        // allocation bursts inside one instruction (bulk builtins)
        "bursts" => "(set! sink (length (reverse (vector->list (make-vector 300 i)))))",
        _ => "",
    };
    let run = if kind == "toplevel" {
        // n successive small top-level evaluations: their code is the garbage
        vec![format!("TOPLEVEL {}", n)]
    } else if kind == "failures" {
        // n successive evaluations that fail (run-time errors at some depth, compile errors): what they allocated is garbage
        vec![format!("FAILURES {}", n)]
    } else if kind == "freshlocals" {
        // n successive top-level evaluations, each with local variable names never seen before
        vec![format!("FRESHLOCALS {}", n)]
    } else if kind == "delayforce" {
        // R7RS 4.2.5: a chain of delay-force promises is forced iteratively, in constant space
        vec![format!("(set! sink (force (dfloop {})))", n), "(length live)".to_string()]
    } else {
        vec![format!("(let loop ((i 0)) (if (< i {}) (begin {} (loop (+ i 1))) 'done))", n, body), "(length live)".to_string()]
    };
    (setup, run)
}

struct RunStats {
    cap: usize,
    max_live: usize,
    max_window_alloc: i64,
    collections: u64,
    events: Vec<Value>,
    ok: bool,
}

fn run_garbage(kind: &str, live: usize, n: usize, every: u64, maxev: usize) -> Result<RunStats, String> {
    let mut cfg = RunCfg::plain();
    // sliced-<kind>: the same loop driven by prepare_eval + run_count in slices of 1000 instructions (an embedder's
    // event loop): garbage must be reclaimed there as well
    let kind = match kind.strip_prefix("sliced-") {
        Some(base) => {
            cfg.budgets = Some(vec![1000]);
            base
        }
        None => kind,
    };
    let mut s = Session::new(&cfg);
    let log = Rc::new(RefCell::new(GcLog { max_events: maxev, ..Default::default() }));
    let (setup, run) = garbage_program(kind, live, n);
    install(&mut s.vm, 0, every, 4_000_000_000, log.clone());
    let mut ok = true;
    let mut max_live = 0usize;
    let mut max_window = 0i64;
    let mut eval_one = |s: &mut Session, text: &str| -> bool {
        let c = match parse_all(text) {
            Ok(c) => c,
            Err(_) => return false,
        };
        let used0 = s.vm.verif_heap().used_size() as i64;
        let colls0 = log.borrow().collections;
        let (o, _) = s.eval(&c[0], &cfg);
        let l = log.borrow();
        if l.collections == colls0 {
            // no collection during this evaluation: everything allocated is still counted
            max_window = max_window.max(s.vm.verif_heap().used_size() as i64 - used0);
        }
        max_live = max_live.max(l.used_after_last_gc);
        matches!(o, crate::sess::Outcome::Ok(_))
    };
    for t in setup.iter() {
        ok &= eval_one(&mut s, t);
    }
    for t in run.iter() {
        if let Some(cnt) = t.strip_prefix("TOPLEVEL ") {
            let cnt: usize = cnt.parse().unwrap();
            for i in 0..cnt {
                ok &= eval_one(&mut s, &format!("(set! sink (+ {} (length (list 1 2 3))))", i % 1000));
                if s.dead {
                    break;
                }
            }
        } else if let Some(cnt) = t.strip_prefix("FAILURES ") {
            let cnt: usize = cnt.parse().unwrap();
            let forms = ["(car (list-tail (list 1 2 3) 3))", "(vector-ref (vector 1 2) 5)", "((lambda (a) (+ a (car '()))) 1)", "(if)",
                         "(undefined-variable-zz 1)", "(error \"boom\" (list 1 2 3))", "(let loop ((i 0)) (if (= i 20) (car '()) (loop (+ i 1))))"];
            for i in 0..cnt {
                let _ = eval_one(&mut s, forms[i % forms.len()]);
                if s.dead {
                    break;
                }
            }
        } else if let Some(cnt) = t.strip_prefix("FRESHLOCALS ") {
            let cnt: usize = cnt.parse().unwrap();
            for i in 0..cnt {
                ok &= eval_one(&mut s, &format!("(set! sink ((lambda (zz-a{i} zz-b{i}) (+ zz-a{i} ((lambda (zz-c{i}) zz-c{i}) zz-b{i}))) 1 2))", i = i));
                if s.dead {
                    break;
                }
            }
        } else {
            ok &= eval_one(&mut s, t);
        }
        if s.dead {
            ok = false;
            break;
        }
    }
    let l = log.borrow();
    Ok(RunStats {
        cap: s.vm.verif_heap().capacity(),
        max_live: max_live.max(l.used_after_last_gc),
        max_window_alloc: max_window,
        collections: l.collections,
        events: l.events.clone(),
        ok,
    })
}

/// `mwverif garbage n=<n> lives=0,10,1000 every=<j> out=<file>`
pub fn garbage_main(args: &[String]) -> Result<(), String> {
    let m = kv(args);
    let n: usize = get(&m, "n", 3000);
    let every: u64 = get(&m, "every", 5);
    let maxev: usize = get(&m, "maxev", 6);
    let lives: Vec<usize> = m.get("lives").cloned().unwrap_or("0,10,1000".into()).split(',').filter_map(|x| x.parse().ok()).collect();
    let out = m.get("out").cloned().ok_or("out=<file> required")?;
    let kinds: Vec<String> = match m.get("kinds") {
        Some(k) => k.split(',').map(|x| x.to_string()).collect(),
        None => GARBAGE_KINDS.iter().map(|x| x.to_string()).collect(),
    };
    let mut jobs = vec![];
    for k in &kinds {
        for l in &lives {
            jobs.push((k.clone(), *l));
        }
    }
    let results: std::sync::Mutex<Vec<(usize, Vec<String>)>> = std::sync::Mutex::new(vec![]);
    let next = std::sync::atomic::AtomicUsize::new(0);
    let threads: usize = std::env::var("VERIF_THREADS").ok().and_then(|v| v.parse().ok()).unwrap_or(10);
    std::thread::scope(|sc| {
        for _ in 0..threads {
            sc.spawn(|| loop {
                let i = next.fetch_add(1, std::sync::atomic::Ordering::SeqCst);
                if i >= jobs.len() {
                    break;
                }
                let (k, live) = &jobs[i];
                let a = run_garbage(k, *live, n, 0, 0);
                let b = run_garbage(k, *live, 10 * n, every, maxev);
                let mut lines = vec![];
                if let (Ok(a), Ok(b)) = (a, b) {
                    for mut e in b.events.clone() {
                        e["sess"] = json!(i + 1);
                        e["form"] = json!(0);
                        e["kind"] = json!(format!("garbage:{}/live{}", k, live));
                        e["text"] = json!("");
                        lines.push(e.to_string());
                    }
                    lines.push(
                        json!({"ev": "run", "sess": i + 1, "form": 0, "kind": format!("garbage:{}/live{}", k, live),
                               "template": k, "livesize": live, "n": n, "cap_n": a.cap, "cap_10n": b.cap,
                               "maxlive": b.max_live.max(a.max_live), "maxwindow": b.max_window_alloc.max(a.max_window_alloc),
                               "collections_n": a.collections, "collections_10n": b.collections, "ok": a.ok && b.ok})
                        .to_string(),
                    );
                }
                results.lock().unwrap().push((i, lines));
            });
        }
    });
    let mut results = results.into_inner().unwrap();
    results.sort_by_key(|r| r.0);
    let mut f = std::io::BufWriter::new(std::fs::File::create(&out).map_err(|e| e.to_string())?);
    let mut nev = 0;
    for (_, lines) in results {
        for l in lines {
            writeln!(f, "{}", l).map_err(|e| e.to_string())?;
            nev += 1;
        }
    }
    eprintln!("garbage: {} events", nev);
    Ok(())
}
