//! `mwverif reader ...` -- the implementation side of property C11 (reader discipline).
//!
//! `reader replay in=<ndjson> out=<json> seed=<n> rend=<n>`   (specification -> implementation)
//!     every line of `in` is a case printed by Gen_Reader.tla: a token-class sequence with the
//!     outcome Reader.tla requires.  Each sequence is rendered as `rend` concrete texts (different
//!     spellings of every class, different separators) and marwood's `parse_text` is compared with
//!     the required outcome, first datum and datum-by-datum; texts whose data can all be evaluated
//!     are also run through the `eval_text` loop the REPL uses.  A failing rendering is reduced to
//!     the fewest non-canonical choices before it is reported.
//!
//! `reader spans seed=<n> count=<n> out=<ndjson>`            (implementation -> specification)
//!     seeded random Unicode strings, token soups and mutations of valid programs; records the
//!     text (code points + UTF-8 widths), what `lex::scan` returned (spans + token types, or the
//!     error) and what `parse_text` returned, for Trace_Reader.tla.
use crate::gen_cmd::{get, kv};
use crate::rng::Rng;
use marwood::cell::Cell;
use marwood::lex::{self, TokenType};
use marwood::parse;
use marwood::vm::Vm;
use serde_json::{json, Value};
use std::collections::{BTreeMap, HashSet};
use std::io::{BufRead, Write};
use std::panic::{catch_unwind, AssertUnwindSafe};
use std::sync::atomic::{AtomicU64, Ordering};
use std::sync::{Arc, Mutex};

pub fn main(args: &[String]) -> Result<(), String> {
    if args.is_empty() {
        return Err("reader replay|spans key=value...".into());
    }
    match args[0].as_str() {
        "replay" => replay(&args[1..]),
        "spans" => spans(&args[1..]),
        "one" => one(&args[1..]),
        other => Err(format!("reader: unknown mode {}", other)),
    }
}

// ------------------------------------------------------------------------------------------------
// watchdog: a hang of marwood is data, not a tool failure

struct Watch {
    progress: Arc<AtomicU64>,
    current: Arc<Mutex<String>>,
}

impl Watch {
    fn start() -> Watch {
        let progress = Arc::new(AtomicU64::new(0));
        let current = Arc::new(Mutex::new(String::new()));
        let (p, c) = (progress.clone(), current.clone());
        std::thread::spawn(move || {
            let mut last = u64::MAX;
            let mut still = 0;
            loop {
                std::thread::sleep(std::time::Duration::from_secs(1));
                let now = p.load(Ordering::Relaxed);
                if now == last {
                    still += 1;
                    if still >= 30 {
                        let text = c.lock().map(|s| s.clone()).unwrap_or_default();
                        println!("{}", json!({"hang": text}));
                        std::process::exit(3);
                    }
                } else {
                    still = 0;
                    last = now;
                }
            }
        });
        Watch { progress, current }
    }
    fn at(&self, text: &str) {
        if let Ok(mut g) = self.current.lock() {
            g.clear();
            g.push_str(text);
        }
        self.progress.fetch_add(1, Ordering::Relaxed);
    }
}

// ------------------------------------------------------------------------------------------------
// observing parse_text

#[derive(Clone, Debug, PartialEq)]
enum PO {
    /// a datum, and the byte offset (in the text handed to parse_text) of the remaining text
    Ok(Option<usize>),
    Incomplete,
    /// (kind, message): kind is "atom" (the content of one token is rejected), "structure", "lex"
    Error(&'static str, String),
    Panic(String),
    /// the remaining text is not a suffix of the input
    BadRest(String),
}

impl PO {
    fn show(&self) -> String {
        match self {
            PO::Ok(Some(o)) => format!("a datum, remaining text from byte {}", o),
            PO::Ok(None) => "a datum, no remaining text".into(),
            PO::Incomplete => "incomplete".into(),
            PO::Error(k, m) => format!("error ({}): {}", k, m),
            PO::Panic(m) => format!("panic: {}", m),
            PO::BadRest(m) => format!("remaining text is not a suffix of the input: {}", m),
        }
    }
    fn word(&self) -> &'static str {
        match self {
            PO::Ok(_) => "ok",
            PO::Incomplete => "incomplete",
            PO::Error(k, _) => k,
            PO::Panic(_) => "panic",
            PO::BadRest(_) => "badrest",
        }
    }
}

fn panic_msg(p: Box<dyn std::any::Any + Send>) -> String {
    if let Some(s) = p.downcast_ref::<&str>() {
        s.to_string()
    } else if let Some(s) = p.downcast_ref::<String>() {
        s.clone()
    } else {
        "?".into()
    }
}

fn classify_parse_error(e: &parse::Error) -> PO {
    match e {
        parse::Error::Incomplete => PO::Incomplete,
        parse::Error::LexError(lex::Error::Incomplete) => PO::Incomplete,
        parse::Error::LexError(l) => PO::Error("lex", format!("{}", l)),
        parse::Error::UnknownChar(_) | parse::Error::SyntaxError(_) => PO::Error("atom", format!("{}", e)),
        other => PO::Error("structure", format!("{}", other)),
    }
}

/// Vm::new() reads the prelude with the reader under test: a broken reader is data, not a tool failure
fn new_vm() -> Option<Vm> {
    catch_unwind(Vm::new).ok()
}

fn suffix_offset(text: &str, rest: &str) -> Result<usize, String> {
    let base = text.as_ptr() as usize;
    let p = rest.as_ptr() as usize;
    if p < base || p > base + text.len() || p - base + rest.len() != text.len() {
        return Err(format!("{:?}", rest));
    }
    Ok(p - base)
}

fn run_parse(text: &str) -> (PO, Option<Cell>) {
    let r = catch_unwind(AssertUnwindSafe(|| parse::parse_text(text)));
    match r {
        Err(p) => (PO::Panic(panic_msg(p)), None),
        Ok(Err(e)) => (classify_parse_error(&e), None),
        Ok(Ok((cell, None))) => (PO::Ok(None), Some(cell)),
        Ok(Ok((cell, Some(rest)))) => match suffix_offset(text, rest) {
            Ok(o) => (PO::Ok(Some(o)), Some(cell)),
            Err(m) => (PO::BadRest(m), Some(cell)),
        },
    }
}

// ------------------------------------------------------------------------------------------------
// spellings

#[derive(Clone, Debug)]
struct Tok {
    s: String,
    cat: &'static str,
}

/// (spelling, category, evaluates to itself)
const ATOMS: &[(&str, &str, bool)] = &[
    ("a", "symbol", false),
    ("1", "number", true),
    ("foo-bar", "symbol", false),
    ("x1", "symbol", false),
    ("set!", "symbol", false),
    ("a.b", "symbol", false),
    ("<=?", "symbol", false),
    ("!$%&*/:<=>?^_~", "symbol", false),
    ("list->vector", "symbol", false),
    ("\u{3bb}", "symbol-unicode", false),
    ("na\u{ef}ve", "symbol-unicode", false),
    ("\u{65e5}\u{672c}", "symbol-unicode", false),
    ("+", "peculiar", false),
    ("-", "peculiar", false),
    ("...", "peculiar", false),
    ("..", "peculiar", false),
    ("->x", "peculiar", false),
    ("+x", "peculiar", false),
    ("-x", "peculiar", false),
    (".a", "peculiar", false),
    ("0", "number", true),
    ("42", "number", true),
    ("-7", "number", true),
    ("+5", "number", true),
    ("1.5", "number", true),
    (".5", "number", true),
    ("-.5", "number", true),
    ("1/2", "number", true),
    ("123456789012345678901234567890", "number", true),
    ("#x1F", "number-prefixed", true),
    ("#b101", "number-prefixed", true),
    ("#o17", "number-prefixed", true),
    ("#d9", "number-prefixed", true),
    ("#e1.5", "number-prefixed", true),
    ("#i3", "number-prefixed", true),
    ("#e#x10", "number-prefixed", true),
    ("#x#e10", "number-prefixed", true),
    ("\"s\"", "string", true),
    ("\"\"", "string", true),
    ("\"a b\"", "string", true),
    ("\"a\\\"b\"", "string", true),
    ("\"a\\\"\"", "string", true),
    ("\"\\\"\"", "string", true),
    ("\"\\\\\\\"\"", "string", true),
    ("\"\\\\\"", "string", true),
    ("\"(x\"", "string", true),
    ("\")\"", "string", true),
    ("\"a;b\"", "string", true),
    ("\"; not a comment\"", "string", true),
    ("\"x\\x41;y\"", "string", true),
    ("\"\\n\\t\"", "string", true),
    ("\"\u{e9}\u{1f436}\"", "string", true),
    ("\"a\nb\"", "string", true),
    ("\"#(\"", "string", true),
    ("\"'\"", "string", true),
    ("#\\a", "char", true),
    ("#\\space", "char", true),
    ("#\\newline", "char", true),
    ("#\\tab", "char", true),
    ("#\\(", "char", true),
    ("#\\)", "char", true),
    ("#\\;", "char", true),
    ("#\\\"", "char", true),
    ("#\\'", "char", true),
    ("#\\#", "char", true),
    ("#\\.", "char", true),
    ("#\\ ", "char", true),
    ("#\\x", "char", true),
    ("#\\x41", "char", true),
    ("#\\1", "char", true),
    ("#\\\u{3bb}", "char", true),
    ("#\\\u{1f436}", "char", true),
    ("#t", "bool", true),
    ("#f", "bool", true),
];

const PREFIXES: &[(&str, &str)] = &[("'", "quote"), ("`", "quasiquote"), (",", "unquote")];

/// (text, category); "" is only used where adjacency is lexically unambiguous
const SEPS: &[(&str, &str)] = &[
    (" ", "space"),
    ("", "none"),
    ("\n", "newline"),
    ("\t", "tab"),
    ("   ", "spaces"),
    ("\r\n", "crlf"),
    (" \n ", "space-newline"),
    (" ; c\n", "comment"),
    ("\n;\n", "empty-comment"),
    (" ;; (unbalanced \" 'x [ #\\\n", "comment-with-brackets"),
    (";c\n", "flush-comment"),
    ("; note\n", "flush-comment"),
    (";; (\n", "flush-comment"),
];
const LEADS: &[(&str, &str)] = &[
    ("", "none"),
    (" ", "space"),
    ("\n", "newline"),
    ("; lead (\n", "comment"),
    ("\t ;x\n  ", "comment"),
];
const TRAILS: &[(&str, &str)] = &[
    ("", "none"),
    (" ", "space"),
    ("\n", "newline"),
    ("\n\n  ", "newlines"),
    (" ; end )", "comment-no-newline"),
    (" ; end\n", "comment"),
    (";end", "flush-comment"),
];

#[derive(Clone, Debug)]
struct Case {
    t: Vec<String>,
    c: String,
    k: usize,
    ks: Vec<usize>,
    fin: String,
}

impl Case {
    fn from_json(v: &Value) -> Result<Case, String> {
        let t = v["t"].as_array().ok_or("case without t")?.iter().map(|x| x.as_str().unwrap_or("").to_string()).collect();
        let ks = v["ks"].as_array().ok_or("case without ks")?.iter().map(|x| x.as_u64().unwrap_or(0) as usize).collect();
        Ok(Case {
            t,
            c: v["c"].as_str().ok_or("case without c")?.to_string(),
            k: v["k"].as_u64().ok_or("case without k")? as usize,
            ks,
            fin: v["fin"].as_str().ok_or("case without fin")?.to_string(),
        })
    }
    fn classes(&self) -> String {
        if self.t.is_empty() {
            "(empty)".into()
        } else {
            self.t.join(" ")
        }
    }
    /// indices (0-based) of the tokens that begin a top-level datum
    fn datum_starts(&self) -> Vec<usize> {
        let mut v = vec![];
        let mut p = 0;
        for &e in &self.ks {
            v.push(p);
            p = e;
        }
        v
    }
    /// every datum of the text can be evaluated: quoted, or an atom (spelled self-evaluating)
    fn evaluable(&self) -> bool {
        self.fin == "End" && !self.ks.is_empty() && self.datum_starts().iter().all(|&i| self.t[i] == "PFX" || self.t[i] == "ATOM")
    }
}

/// One rendering: a spelling for every token, a separator for every gap (lead, n-1 gaps, trail)
#[derive(Clone, Debug)]
struct Plan {
    toks: Vec<Tok>,
    seps: Vec<Tok>,
    curly: bool,
}

fn canon_tok(class: &str, top_eval: bool) -> Tok {
    let (s, cat) = match class {
        "LP" => ("(", "round"),
        "RP" => (")", "round"),
        "LB" => ("[", "alt"),
        "RB" => ("]", "alt"),
        "VEC" => ("#(", "vector"),
        "PFX" => ("'", "quote"),
        "DOT" => (".", "dot"),
        _ => {
            if top_eval {
                ("1", "number")
            } else {
                ("a", "symbol")
            }
        }
    };
    Tok { s: s.into(), cat }
}

fn spelled(class: &str, tok: &Tok, curly: bool) -> String {
    match (class, curly) {
        ("LB", true) => "{".into(),
        ("RB", true) => "}".into(),
        _ => tok.s.clone(),
    }
}

fn self_terminating(class: &str, tok: &Tok) -> bool {
    matches!(class, "LP" | "RP" | "LB" | "RB" | "VEC" | "PFX") || tok.cat == "string"
}

fn starts_with_delimiter(class: &str) -> bool {
    matches!(class, "LP" | "RP" | "LB" | "RB")
}

fn starts_with_dquote(tok: &Tok) -> bool {
    tok.s.starts_with('"')
}

/// may tokens i-1 and i be adjacent without anything between them (R7RS 7.1.1: identifiers,
/// numbers, characters, booleans and `.` must be followed by a delimiter; delimiters are white
/// space, ( ) " ; and, with marwood's alternative brackets, [ ] { })
fn adjacency_ok(case: &Case, plan: &Plan, gap: usize) -> bool {
    let n = case.t.len();
    if gap == 0 || gap >= n {
        return true;
    }
    let (l, r) = (gap - 1, gap);
    self_terminating(&case.t[l], &plan.toks[l]) || starts_with_delimiter(&case.t[r]) || starts_with_dquote(&plan.toks[r])
}

fn plan_valid(case: &Case, plan: &Plan) -> bool {
    (0..plan.seps.len()).all(|g| plan.seps[g].s != "" || adjacency_ok(case, plan, g))
}

fn canonical_plan(case: &Case, eval_mode: bool) -> Plan {
    let n = case.t.len();
    let tops: HashSet<usize> = if eval_mode { case.datum_starts().into_iter().collect() } else { HashSet::new() };
    let toks = (0..n).map(|i| canon_tok(&case.t[i], tops.contains(&i))).collect();
    let mut seps = vec![Tok { s: " ".into(), cat: "space" }; n + 1];
    seps[0] = Tok { s: "".into(), cat: "none" };
    seps[n] = Tok { s: "".into(), cat: "none" };
    Plan { toks, seps, curly: false }
}

fn render(case: &Case, plan: &Plan) -> (String, Vec<usize>) {
    let mut text = String::new();
    let mut starts = vec![];
    text.push_str(&plan.seps[0].s);
    for i in 0..case.t.len() {
        starts.push(text.len());
        text.push_str(&spelled(&case.t[i], &plan.toks[i], plan.curly));
        text.push_str(&plan.seps[i + 1].s);
    }
    (text, starts)
}

fn pick_tok(rng: &mut Rng, class: &str, top_eval: bool, diversity: u32) -> Tok {
    if !rng.chance(diversity, 100) {
        return canon_tok(class, top_eval);
    }
    match class {
        "PFX" => {
            if top_eval {
                canon_tok(class, top_eval)
            } else {
                let (s, cat) = *rng.pick(PREFIXES);
                Tok { s: s.into(), cat }
            }
        }
        "ATOM" => {
            for _ in 0..64 {
                let i = rng.below(ATOMS.len());
                let (s, cat, _) = ATOMS[i];
                if !top_eval || SELFEVAL_OK.get().map(|v| v[i]).unwrap_or(false) {
                    return Tok { s: s.into(), cat };
                }
            }
            canon_tok(class, top_eval)
        }
        _ => canon_tok(class, top_eval),
    }
}

/// Rendering number r of a case.  r = 0: canonical; r = 1: as tight as the lexical rules allow;
/// r % 4 == 3: comments start flush against the preceding token; others: seeded mixtures.
fn make_plan(case: &Case, r: usize, rng: &mut Rng, eval_mode: bool) -> Plan {
    let n = case.t.len();
    let mut plan = canonical_plan(case, eval_mode);
    if r == 0 {
        return plan;
    }
    let tops: HashSet<usize> = if eval_mode { case.datum_starts().into_iter().collect() } else { HashSet::new() };
    let diversity = if r == 1 { 50 } else { 85 };
    for i in 0..n {
        plan.toks[i] = pick_tok(rng, &case.t[i], tops.contains(&i), diversity);
    }
    plan.curly = rng.chance(1, 2);
    let flush = r % 4 == 3;
    for g in 0..=n {
        let (s, cat) = if g == 0 {
            if r == 1 { LEADS[0] } else { *rng.pick(LEADS) }
        } else if g == n {
            if r == 1 {
                TRAILS[0]
            } else {
                loop {
                    let t = *rng.pick(TRAILS);
                    if t.1 != "flush-comment" || flush {
                        break t;
                    }
                }
            }
        } else if r == 1 {
            SEPS[1]
        } else {
            loop {
                let t = *rng.pick(SEPS);
                if t.1 == "flush-comment" && !flush {
                    continue;
                }
                if flush && t.1 != "flush-comment" && rng.chance(1, 2) {
                    continue;
                }
                break t;
            }
        };
        plan.seps[g] = Tok { s: s.into(), cat };
    }
    // no separator only where adjacency is unambiguous
    for g in 1..n {
        if plan.seps[g].s.is_empty() && !adjacency_ok(case, &plan, g) {
            plan.seps[g] = Tok { s: " ".into(), cat: "space" };
        }
    }
    plan
}

// ------------------------------------------------------------------------------------------------
// judging one rendering

struct Miss {
    what: String,
    got: String,
    expect: String,
}

/// parse_text against the required outcome: first datum, then datum by datum
fn check_parse(case: &Case, text: &str, starts: &[usize], calls: &mut u64) -> Option<Miss> {
    let n = case.t.len();
    let mut off = 0usize;
    for (i, &end) in case.ks.iter().enumerate() {
        let want = if end < n { Some(starts[end]) } else { None };
        *calls += 1;
        let (po, _) = run_parse(&text[off..]);
        let ord = if i == 0 { "first datum".to_string() } else { format!("datum {}", i + 1) };
        let expect = format!("{}: a datum of tokens {}..{}, {}", ord, if i == 0 { 1 } else { case.ks[i - 1] + 1 }, end,
                             match want { Some(w) => format!("remaining text from byte {}", w), None => "no remaining text".into() });
        let miss = |what: &str, po: &PO| Some(Miss { what: what.to_string(), got: po.show(), expect: expect.clone() });
        match &po {
            PO::Ok(r) => {
                let got = r.map(|o| o + off);
                if got != want {
                    return match (got, want) {
                        (Some(_), None) => miss("remaining text reported although no token is left", &po),
                        (None, Some(_)) => miss("no remaining text reported although tokens are left", &po),
                        _ => miss("remaining text does not begin at the token after the datum", &PO::Ok(got)),
                    };
                }
            }
            PO::Incomplete => return miss("complete datum reported incomplete", &po),
            PO::Error(..) => return miss("complete datum reported as an error", &po),
            PO::Panic(_) => return miss("panic", &po),
            PO::BadRest(_) => return miss("remaining text is not a suffix of the input", &po),
        }
        match want {
            Some(w) => off = w,
            None => return None,
        }
    }
    if case.fin == "End" {
        return None;
    }
    *calls += 1;
    let (po, _) = run_parse(&text[off..]);
    let where_ = if case.ks.is_empty() { "".to_string() } else { format!(" (after {} complete data)", case.ks.len()) };
    let mk = |what: &str, expect: &str| Some(Miss { what: what.to_string(), got: po.show(), expect: format!("{}{}", expect, where_) });
    match (case.fin.as_str(), &po) {
        (_, PO::Panic(_)) => mk("panic", "no panic"),
        (_, PO::BadRest(_)) => mk("remaining text is not a suffix of the input", "a suffix"),
        ("Incomplete", PO::Incomplete) => None,
        ("Incomplete", PO::Ok(_)) => mk("incomplete datum accepted as a datum", "incomplete"),
        ("Incomplete", PO::Error(..)) => mk("text cut inside a well-formed datum reported as an error, not as incomplete", "incomplete"),
        ("Error", PO::Error(..)) => None,
        ("Error", PO::Incomplete) => mk("malformed text reported as incomplete", "an error other than incomplete"),
        ("Error", PO::Ok(_)) => mk("malformed text accepted as a datum", "an error other than incomplete"),
        _ => None, // Unspecified: anything that terminates without a panic
    }
}

/// the loop of the REPL: eval_text, continue with the remaining text
fn check_eval(case: &Case, text: &str, starts: &[usize], vm: &mut Option<Vm>, calls: &mut u64) -> Option<Miss> {
    let n = case.t.len();
    let mut off = 0usize;
    let mut visited = 0usize;
    let total = case.ks.len();
    loop {
        if visited > total {
            return Some(Miss { what: "eval loop visits more data than the text holds".into(), got: format!("{} iterations", visited), expect: format!("{} data", total) });
        }
        if visited == total {
            return None;
        }
        let end = case.ks[visited];
        let want = if end < n { Some(starts[end]) } else { None };
        let cur = &text[off..];
        // the datum this iteration has to evaluate
        let expected_val = match run_parse(cur) {
            // a top-level datum of an evaluable text is an atom or an abbreviation (quote x)
            (PO::Ok(_), Some(cell)) => {
                if cell.is_pair() {
                    cell.cadr().cloned().unwrap_or(Cell::Nil)
                } else {
                    cell
                }
            }
            _ => return None, // already reported by check_parse
        };
        if vm.is_none() {
            *vm = new_vm();
        }
        if vm.is_none() {
            return Some(Miss { what: "eval loop: Vm::new() panics (the prelude cannot be read)".into(), got: "panic".into(), expect: "a Vm".into() });
        }
        *calls += 1;
        let r = {
            let m = vm.as_mut().unwrap();
            catch_unwind(AssertUnwindSafe(|| m.eval_text(cur).map(|(c, r)| (c, r.map(|r| suffix_offset(cur, r))))))
        };
        let expect = format!("iteration {}: value {:#}, {}", visited + 1, expected_val,
                             match want { Some(w) => format!("remaining text from byte {}", w), None => "no remaining text".into() });
        let miss = |what: &str, got: String| Some(Miss { what: what.to_string(), got, expect: expect.clone() });
        match r {
            Err(p) => {
                *vm = None;
                return miss("eval loop: panic", panic_msg(p));
            }
            Ok(Err(e)) => return miss("eval loop: evaluation of a quoted or self-evaluating datum failed", format!("{}", e)),
            Ok(Ok((val, rest))) => {
                let got = match rest {
                    None => None,
                    Some(Ok(o)) => Some(o + off),
                    Some(Err(m)) => return miss("eval loop: remaining text is not a suffix of the input", m),
                };
                if format!("{:#}", val) != format!("{:#}", expected_val) {
                    return miss("eval loop: iteration evaluated a different datum", format!("value {:#}", val));
                }
                if got != want {
                    return miss("eval loop: wrong remaining text", format!("{:?}", got));
                }
                visited += 1;
                match want {
                    Some(w) => off = w,
                    None => {
                        return if visited == total { None } else { miss("eval loop: stops before the last datum", format!("{} of {}", visited, total)) };
                    }
                }
            }
        }
    }
}

fn judge(case: &Case, plan: &Plan, eval_mode: bool, vm: &mut Option<Vm>, calls: &mut (u64, u64)) -> Option<Miss> {
    let (text, starts) = render(case, plan);
    if let Some(m) = check_parse(case, &text, &starts, &mut calls.0) {
        return Some(m);
    }
    if eval_mode {
        return check_eval(case, &text, &starts, vm, &mut calls.1);
    }
    None
}

/// Reduce a failing plan: revert every choice to the canonical one as long as the same failure remains.
fn minimise(case: &Case, plan: &Plan, what: &str, eval_mode: bool, vm: &mut Option<Vm>) -> Plan {
    let canon = canonical_plan(case, eval_mode);
    let mut cur = plan.clone();
    let mut scratch = (0u64, 0u64);
    let mut still_fails = |p: &Plan, vm: &mut Option<Vm>| -> bool {
        plan_valid(case, p) && matches!(judge(case, p, eval_mode, vm, &mut scratch), Some(m) if m.what == what)
    };
    let mut changed = true;
    while changed {
        changed = false;
        if cur.curly {
            let mut p = cur.clone();
            p.curly = false;
            if still_fails(&p, vm) {
                cur = p;
                changed = true;
            }
        }
        for g in 0..cur.seps.len() {
            if cur.seps[g].s != canon.seps[g].s {
                let mut p = cur.clone();
                p.seps[g] = canon.seps[g].clone();
                if still_fails(&p, vm) {
                    cur = p;
                    changed = true;
                }
            }
        }
        for i in 0..cur.toks.len() {
            if cur.toks[i].s != canon.toks[i].s {
                let mut p = cur.clone();
                p.toks[i] = canon.toks[i].clone();
                if still_fails(&p, vm) {
                    cur = p;
                    changed = true;
                }
            }
        }
    }
    cur
}

/// the non-canonical choices of a plan
fn features(case: &Case, plan: &Plan, eval_mode: bool) -> Vec<String> {
    let canon = canonical_plan(case, eval_mode);
    let n = case.t.len();
    let mut f = vec![];
    if plan.curly && case.t.iter().any(|c| c == "LB" || c == "RB") {
        f.push("brackets:curly".to_string());
    }
    for i in 0..n {
        if plan.toks[i].s != canon.toks[i].s {
            f.push(format!("tok:{}", plan.toks[i].cat));
        }
    }
    for g in 0..=n {
        if plan.seps[g].s != canon.seps[g].s {
            let pos = if g == 0 { "lead" } else if g == n { "trail" } else { "sep" };
            if plan.seps[g].cat == "flush-comment" && g > 0 {
                f.push(format!("{}:flush-comment after {}", pos, plan.toks[g - 1].cat));
            } else if plan.seps[g].cat == "none" && g > 0 && g < n {
                f.push(format!("sep:none between {} and {}", plan.toks[g - 1].cat, plan.toks[g].cat));
            } else {
                f.push(format!("{}:{}", pos, plan.seps[g].cat));
            }
        }
    }
    f.sort();
    f.dedup();
    f
}

/// Which atoms marked self-evaluating really evaluate in this marwood (only those are placed at the
/// top level of texts for the eval_text loop).  Nothing else is filtered: an atom of the table
/// that marwood cannot read shows up as a mismatch of its renderings, never as a tool error.
static SELFEVAL_OK: std::sync::OnceLock<Vec<bool>> = std::sync::OnceLock::new();

fn self_check() {
    let mut vm = new_vm();
    let mut ok = vec![];
    for (s, _cat, selfeval) in ATOMS {
        let mut good = false;
        if *selfeval {
            if vm.is_none() {
                vm = new_vm();
            }
            if let Some(m) = vm.as_mut() {
                match catch_unwind(AssertUnwindSafe(|| m.eval_text(s).map(|_| ()))) {
                    Ok(Ok(())) => good = true,
                    Ok(Err(_)) => {}
                    Err(_) => vm = None,
                }
            }
        }
        ok.push(good);
    }
    let _ = SELFEVAL_OK.set(ok);
}

fn hash64(s: &str) -> u64 {
    let mut h: u64 = 0xcbf29ce484222325;
    for b in s.bytes() {
        h ^= b as u64;
        h = h.wrapping_mul(0x100000001b3);
    }
    h
}

fn replay(args: &[String]) -> Result<(), String> {
    let m = kv(args);
    let input = m.get("in").cloned().ok_or("in=<file> required")?;
    let out = m.get("out").cloned().ok_or("out=<file> required")?;
    let seed: u64 = get(&m, "seed", 0);
    let rend: usize = get(&m, "rend", 8);
    self_check();
    let watch = Watch::start();
    let f = std::fs::File::open(&input).map_err(|e| format!("{}: {}", input, e))?;
    let mut vm: Option<Vm> = None;
    let mut nseq = 0u64;
    let mut nrend = 0u64;
    let mut calls = (0u64, 0u64);
    let mut eval_texts = 0u64;
    let mut loop_texts = 0u64;
    let mut by_class: BTreeMap<String, u64> = BTreeMap::new();
    let mut distinct: HashSet<u64> = HashSet::new();
    let mut nontrivial: HashSet<u64> = HashSet::new();
    let mut groups: BTreeMap<String, Value> = BTreeMap::new();
    let mut total_miss = 0u64;
    let mut samples: Vec<Value> = vec![];
    let mut maxlen = 0usize;
    for (lineno, line) in std::io::BufReader::new(f).lines().enumerate() {
        let line = line.map_err(|e| e.to_string())?;
        if line.trim().is_empty() {
            continue;
        }
        let v: Value = serde_json::from_str(&line).map_err(|e| format!("{}:{}: {}", input, lineno + 1, e))?;
        let case = Case::from_json(&v)?;
        nseq += 1;
        maxlen = maxlen.max(case.t.len());
        *by_class.entry(case.c.clone()).or_insert(0) += 1;
        let key = hash64(&case.classes());
        let evaluable = case.evaluable();
        for r in 0..rend {
            // every other rendering of an evaluable text is built for the eval_text loop
            let eval_mode = evaluable && r % 2 == 0;
            let mut rng = Rng::new(seed.wrapping_mul(0x9E37).wrapping_add(key).wrapping_add((r as u64) << 40));
            let plan = make_plan(&case, r, &mut rng, eval_mode);
            let (text, _) = render(&case, &plan);
            watch.at(&text);
            nrend += 1;
            let h = hash64(&text);
            distinct.insert(h);
            if case.t.len() >= 2 {
                nontrivial.insert(h);
            }
            if case.ks.len() > 1 || (case.ks.len() == 1 && case.fin != "End") {
                loop_texts += 1;
            }
            if eval_mode {
                eval_texts += 1;
            }
            if samples.len() < 6 && nseq % 499 == 3 && r == rend - 1 {
                samples.push(json!({"classes": case.classes(), "text": text, "required": {"c": case.c, "k": case.k, "ks": case.ks, "fin": case.fin}}));
            }
            if let Some(miss) = judge(&case, &plan, eval_mode, &mut vm, &mut calls) {
                total_miss += 1;
                let small = minimise(&case, &plan, &miss.what, eval_mode, &mut vm);
                let (mtext, _) = render(&case, &small);
                let mm = judge(&case, &small, eval_mode, &mut vm, &mut (0, 0)).unwrap_or(miss);
                let feats = features(&case, &small, eval_mode);
                let gkey = format!("{} [{}]", mm.what, feats.join(", "));
                let entry = groups.entry(gkey.clone()).or_insert_with(|| json!({"what": mm.what, "features": feats, "count": 0, "classes": case.classes(),
                    "text": mtext, "required": mm.expect, "actual": mm.got, "original_text": text, "spec": {"c": case.c, "k": case.k, "ks": case.ks, "fin": case.fin}}));
                entry["count"] = json!(entry["count"].as_u64().unwrap_or(0) + 1);
                // keep the shortest witness of the group
                if mtext.len() < entry["text"].as_str().map(|s| s.len()).unwrap_or(usize::MAX) {
                    entry["classes"] = json!(case.classes());
                    entry["text"] = json!(mtext);
                    entry["required"] = json!(mm.expect);
                    entry["actual"] = json!(mm.got);
                    entry["original_text"] = json!(text);
                    entry["spec"] = json!({"c": case.c, "k": case.k, "ks": case.ks, "fin": case.fin});
                }
            }
        }
    }
    let summary = json!({
        "sequences": nseq, "max_length": maxlen, "renderings": nrend, "renderings_per_sequence": rend,
        "parse_text_calls": calls.0, "eval_text_calls": calls.1, "eval_loop_texts": eval_texts, "multi_step_texts": loop_texts,
        "distinct_texts": distinct.len(), "distinct_texts_of_2_or_more_tokens": nontrivial.len(),
        "by_required_outcome": by_class, "mismatching_renderings": total_miss,
        "groups": groups.values().cloned().collect::<Vec<Value>>(), "samples": samples,
        "atom_spellings": ATOMS.len(), "separator_spellings": SEPS.len(),
    });
    std::fs::write(&out, serde_json::to_string(&summary).unwrap()).map_err(|e| e.to_string())?;
    eprintln!("reader replay: {} sequences, {} renderings, {} mismatching renderings in {} groups", nseq, nrend, total_miss, groups.len());
    Ok(())
}

/// `reader one <text>`: show what marwood does with one text (for replaying a finding by hand)
fn one(args: &[String]) -> Result<(), String> {
    let text = args.first().cloned().unwrap_or_default();
    println!("text   {:?}", text);
    match catch_unwind(AssertUnwindSafe(|| lex::scan(&text))) {
        Ok(Ok(toks)) => {
            for t in &toks {
                println!("token  {:?} {:?} {:?}", t.span, t.token_type, text.get(t.span.0..t.span.1));
            }
        }
        Ok(Err(e)) => println!("scan   error: {}", e),
        Err(p) => println!("scan   panic: {}", panic_msg(p)),
    }
    let mut cur: &str = &text;
    for _ in 0..64 {
        let (po, cell) = run_parse(cur);
        println!("parse  {:?} => {}{}", cur, po.show(), cell.map(|c| format!("   [{:#}]", c)).unwrap_or_default());
        match po {
            PO::Ok(Some(o)) => cur = &cur[o..],
            _ => break,
        }
    }
    Ok(())
}

// ------------------------------------------------------------------------------------------------
// spans: implementation -> specification

const WHITE_SPACE: &[u32] = &[
    9, 10, 11, 12, 13, 32, 133, 160, 5760, 8192, 8193, 8194, 8195, 8196, 8197, 8198, 8199, 8200, 8201, 8202, 8232, 8233, 8239, 8287, 12288,
];
const LEXICAL: &str = "()[]{}'`,.#\"\\;|@+-/*<=>!?:$%&^_~";
const WORDY: &str = "abefinotxdXF0123456789";
const MULTI: &[u32] = &[0xe9, 0x3bb, 0xdf, 0x20ac, 0x4e2d, 0x1f436, 0x10000, 0x10ffff, 0xfeff, 0x200b, 0x180e, 0x301, 0xff, 0x100, 0x7ff, 0x800, 0xffff, 0xd7ff, 0xe000, 0x2060, 0xa0, 0x85];
const JUNK: &[&str] = &[
    "#", "#\\", "\"abc", "#x", "#e", "#q", "|", "@", ",@", "#;", "#|", "|#", "\\", "#true", "#false", "#\\spac", "#\\xZZ", "\"\\xZZ;\"", "\"\\x41\"",
    "1e+3", "+inf.0", "....", ".5.", "1.2.3", "a;b", "#\\x110000", "#\\xD800", "#u8(", "#0=", "#0#", "#\\", "\"\\", "\"\\\"", "#(", "#xZZ", "#x(", "#b2", "#e#", "#\\x;",
    // values beyond a machine word, odd prefix orders and cases, non-finite and huge exact conversions
    "-2147483648/-1", "1/-2147483648", "1/-2", "#e1/-3", "2147483648/2147483647", "#x-80000000/-1", "1/+2",
    "foo\\", "x\\ y", "(a b\\)", "1\\", "\u{feff}(a)", "\u{feff}1 2",
    "#\\x100000000", "#\\xFFFFFFFFFFFF", "#\\x0000000041", "#\\x-1", "\"\\x100000000;\"", "\"\\xFFFFFFFFFFFFFFFFF;\"", "a\\x100000000;b", "|\\x100000000;|",
    "#xFFFFFFFFFFFFFFFFFFFFFFFF", "99999999999999999999999999999999999999999", "1e400", "-1e400", "1e-400", "#e1e39", "#e-1e39", "#e1e400", "#e#d1e39", "#i1/0",
    "1/0", "#e1/0", "-0/5", "#x#e10", "#b#i101", "#d#d1", "#e#e1", "#X1F", "#E1.5", "#e#X10", "#B101", "#T", "#F", "#e+inf.0", "#e-nan.0", "-nan.0", "+nan.0", "1/2/3",
    "#x1e5", "#xe/7", "#e1.5e10", "1+2i", "+i", "#e.5", "#i.5e1", "#x-FF", "#b-101/11", "#o777777777777777777777777",
    "\u{2003}", "\u{3000}a", "a\u{a0}b", "\u{85}", "#\\\u{e9}x", "#t\u{e9}", "#\u{e9}", "\"\u{1f436}", ".\u{e9}", "1\u{e9}", "+\u{3bb}", "-.", "+.", ".;", "a;",
];
const SOUP_SEPS: &[&str] = &["", "", " ", " ", " ", "\n", "\t", "\r", "\r\n", ";c\n", " ;x\n", " ; \u{e9}\u{1f436} (\n", "\u{a0}", "\u{2003}", "\u{85}", "\u{3000}", "\u{200b}", "\u{feff}", "\u{2028}", "\u{b}", "\u{c}"];
const PROGRAMS: &[&str] = &[
    "(define (fact n) (if (< n 2) 1 (* n (fact (- n 1)))))",
    "(let loop ((i 0) (acc '())) ; count\n  (if (= i 10) (reverse acc) (loop (+ i 1) (cons i acc))))",
    "(define-syntax swap! (syntax-rules () ((_ a b) (let ((tmp a)) (set! a b) (set! b tmp)))))",
    "`(1 ,(+ 1 1) ,x . ,y) '#(1 #(2 \"three\") #\\4) '(a . (b . (c . ())))",
    "(display \"a \\\"quoted\\\" string; with (parens) and \\\\ and \\x3bb;\") ; trailing comment",
    "(string-append \"na\u{ef}ve \" \"\u{1f436} \u{65e5}\u{672c}\") (char->integer #\\\u{3bb}) #\\space #\\x41 #\\( #\\)",
    "[let {[x #x1F] [y #e1.5]} (list x y #t #f -7 +5 .5 1/2 ... + -)]",
    ";; leading comment\n\n(define v (vector 1 2 3))\n(vector-ref v 0) ; => 1\n(car '((a . b) c))\n",
    "(lambda args (apply + args)) ((lambda (x . r) r) 1 2 3) (cond ((assv 'b '((a 1) (b 2))) => cadr) (else #f))",
    "'() '(()) '(() . ()) #() '#(()) ''a `',b ,'`c",
    "(define \u{3bb}x 'sym\u{e9}) (set! \u{3bb}x \"\\t\\n\") (list 'a.b '->x '<=? '!$%&*/:<=>?^_~)",
    "(a\n (b ; one\n  (c ;; two (\n   d))\n e)\r\n(f)\t(g)",
];

fn random_cp(rng: &mut Rng) -> char {
    loop {
        let c = match rng.weighted(&[34, 14, 16, 12, 10, 6, 8]) {
            0 => LEXICAL.as_bytes()[rng.below(LEXICAL.len())] as u32,
            1 => WORDY.as_bytes()[rng.below(WORDY.len())] as u32,
            2 => *rng.pick(WHITE_SPACE),
            3 => *rng.pick(MULTI),
            4 => rng.range(0x80, 0xffff) as u32,
            5 => rng.range(0x10000, 0x10ffff) as u32,
            _ => rng.range(0, 0x7f) as u32,
        };
        if let Some(ch) = char::from_u32(c) {
            return ch;
        }
    }
}

fn random_unicode(rng: &mut Rng) -> String {
    let n = rng.below(28);
    (0..n).map(|_| random_cp(rng)).collect()
}

fn soup_piece(rng: &mut Rng) -> String {
    match rng.weighted(&[30, 30, 10, 8, 22]) {
        0 => ["(", ")", "(", ")", "[", "]", "{", "}", "#(", "'", "`", ",", "."][rng.below(13)].to_string(),
        1 => rng.pick(ATOMS).0.to_string(),
        2 => rng.pick(JUNK).to_string(),
        3 => random_cp(rng).to_string(),
        _ => ["a", "1", "x", "\"s\"", "#t", "b2", "-3", "#\\a"][rng.below(8)].to_string(),
    }
}

fn token_soup(rng: &mut Rng) -> String {
    let n = 1 + rng.below(14);
    let mut s = String::new();
    if rng.chance(1, 4) {
        s.push_str(*rng.pick(SOUP_SEPS));
    }
    for _ in 0..n {
        s.push_str(&soup_piece(rng));
        // mostly plain separators so that the grammar of longer token sequences is exercised
        if rng.chance(3, 4) {
            s.push_str([" ", " ", "\n", "", ""][rng.below(5)]);
        } else {
            s.push_str(*rng.pick(SOUP_SEPS));
        }
    }
    s
}

/// a well-nested text of several data, then cut or disturbed: long token sequences for the grammar clauses
fn nested(rng: &mut Rng, depth: usize, out: &mut String) {
    match if depth == 0 { 0 } else { rng.weighted(&[30, 30, 12, 14, 14]) } {
        0 => out.push_str(["a", "1", "\"s\"", "#\\(", "x", "#t", "..."][rng.below(7)]),
        1 => {
            let (o, c) = [("(", ")"), ("(", ")"), ("[", "]"), ("{", "}")][rng.below(4)];
            out.push_str(o);
            let n = rng.below(4);
            for i in 0..n {
                if i > 0 {
                    out.push(' ');
                }
                nested(rng, depth - 1, out);
            }
            if n > 0 && rng.chance(1, 4) {
                out.push_str(" . ");
                nested(rng, depth - 1, out);
            }
            out.push_str(c);
        }
        2 => {
            out.push_str("#(");
            let n = rng.below(3);
            for i in 0..n {
                if i > 0 {
                    out.push(' ');
                }
                nested(rng, depth - 1, out);
            }
            out.push(')');
        }
        3 => {
            out.push_str(["'", "`", ","][rng.below(3)]);
            nested(rng, depth - 1, out);
        }
        _ => {
            out.push('(');
            nested(rng, depth - 1, out);
            out.push(' ');
            nested(rng, depth - 1, out);
            out.push(')');
        }
    }
}

fn mutate(rng: &mut Rng, base: &str) -> String {
    let mut cs: Vec<char> = base.chars().collect();
    // work on a window so that records stay small
    if cs.len() > 60 {
        let a = rng.below(cs.len() - 40);
        let b = (a + 20 + rng.below(40)).min(cs.len());
        cs = cs[a..b].to_vec();
    }
    let k = rng.below(4);
    for _ in 0..k {
        if cs.is_empty() {
            break;
        }
        let i = rng.below(cs.len());
        match rng.below(7) {
            0 => {
                cs.remove(i);
            }
            1 => cs.insert(i, random_cp(rng)),
            2 => cs[i] = random_cp(rng),
            3 => {
                let j = (i + 1 + rng.below(6)).min(cs.len());
                let slice: Vec<char> = cs[i..j].to_vec();
                for (o, c) in slice.into_iter().enumerate() {
                    cs.insert(j + o, c);
                }
            }
            4 => cs.truncate(i),
            5 => {
                if i + 1 < cs.len() {
                    cs.swap(i, i + 1);
                }
            }
            _ => {
                let piece: Vec<char> = soup_piece(rng).chars().collect();
                for (o, c) in piece.into_iter().enumerate() {
                    cs.insert(i + o, c);
                }
            }
        }
    }
    cs.into_iter().collect()
}

fn token_class(text: &str, t: &lex::Token) -> &'static str {
    let first = text.get(t.span.0..).and_then(|s| s.chars().next()).unwrap_or(' ');
    match t.token_type {
        TokenType::LeftParen => match first {
            '(' => "LP",
            '[' => "LB",
            _ => "LC",
        },
        TokenType::RightParen => match first {
            ')' => "RP",
            ']' => "RB",
            _ => "RC",
        },
        TokenType::HashParen => "VEC",
        TokenType::SingleQuote | TokenType::Quasiquote | TokenType::Unquote => "PFX",
        TokenType::Dot => "DOT",
        TokenType::Number => "NUM",
        TokenType::Symbol | TokenType::True | TokenType::False => "ATOM",
        TokenType::Char | TokenType::String => "ATOMF",
        TokenType::NumberPrefix => "NPFX",
        TokenType::WhiteSpace => "WS",
    }
}

fn span_record(id: u64, fam: &str, text: &str) -> Value {
    let cps: Vec<u32> = text.chars().map(|c| c as u32).collect();
    let w: Vec<usize> = text.chars().map(|c| c.len_utf8()).collect();
    let mut rec = json!({"id": id, "fam": fam, "cps": cps, "w": w, "spans": [], "ty": []});
    match catch_unwind(AssertUnwindSafe(|| lex::scan(text))) {
        Ok(Ok(toks)) => {
            rec["scan"] = json!("ok");
            rec["spans"] = Value::Array(toks.iter().map(|t| json!([t.span.0, t.span.1])).collect());
            rec["ty"] = Value::Array(toks.iter().map(|t| json!(token_class(text, t))).collect());
        }
        Ok(Err(lex::Error::Incomplete)) => rec["scan"] = json!("incomplete"),
        Ok(Err(e)) => {
            rec["scan"] = json!("error");
            rec["msg"] = json!(format!("{}", e));
        }
        Err(p) => {
            rec["scan"] = json!("panic");
            rec["msg"] = json!(panic_msg(p));
        }
    }
    let (po, _) = run_parse(text);
    rec["parse"] = json!(po.word());
    rec["rest"] = match po {
        PO::Ok(Some(o)) => json!(o),
        _ => json!(-1),
    };
    if let PO::Panic(m) | PO::BadRest(m) = &po {
        rec["pmsg"] = json!(m);
    }
    rec
}

fn spans(args: &[String]) -> Result<(), String> {
    let m = kv(args);
    let seed: u64 = get(&m, "seed", 0);
    let count: usize = get(&m, "count", 1000);
    let first: u64 = get(&m, "first", 1);
    let out = m.get("out").cloned().ok_or("out=<file> required")?;
    let watch = Watch::start();
    let mut f = std::io::BufWriter::new(std::fs::File::create(&out).map_err(|e| e.to_string())?);
    let mut fams: BTreeMap<String, u64> = BTreeMap::new();
    let mut scans: BTreeMap<String, u64> = BTreeMap::new();
    let mut parses: BTreeMap<String, u64> = BTreeMap::new();
    let mut distinct: HashSet<u64> = HashSet::new();
    let mut nontrivial: HashSet<u64> = HashSet::new();
    let mut samples: Vec<Value> = vec![];
    for i in 0..count {
        let id = first + i as u64;
        let mut rng = Rng::new(seed.wrapping_mul(1_000_003).wrapping_add(id));
        let (fam, text) = match rng.weighted(&[25, 30, 25, 20]) {
            0 => ("unicode", random_unicode(&mut rng)),
            1 => ("soup", token_soup(&mut rng)),
            2 => {
                let base = *rng.pick(PROGRAMS);
                ("mutant", mutate(&mut rng, base))
            }
            _ => {
                let mut s = String::new();
                let n = 1 + rng.below(3);
                for j in 0..n {
                    if j > 0 {
                        s.push_str([" ", "\n", ""][rng.below(3)]);
                    }
                    nested(&mut rng, 3, &mut s);
                }
                let s = if s.chars().count() > 70 { s.chars().take(70).collect() } else { s };
                ("nested", if rng.chance(1, 2) { mutate(&mut rng, &s) } else { s })
            }
        };
        watch.at(&text);
        let rec = span_record(id, fam, &text);
        *fams.entry(fam.to_string()).or_insert(0) += 1;
        *scans.entry(rec["scan"].as_str().unwrap_or("").to_string()).or_insert(0) += 1;
        *parses.entry(rec["parse"].as_str().unwrap_or("").to_string()).or_insert(0) += 1;
        let h = hash64(&text);
        distinct.insert(h);
        let ntok = rec["spans"].as_array().map(|a| a.len()).unwrap_or(0);
        if ntok >= 2 {
            nontrivial.insert(h);
        }
        if samples.len() < 4 && ntok >= 3 && i % 7 == 3 {
            samples.push(json!({"family": fam, "text": text, "spans": rec["spans"], "kinds": rec["ty"], "parse_text": rec["parse"], "rest": rec["rest"]}));
        }
        writeln!(f, "{}", rec).map_err(|e| e.to_string())?;
    }
    f.flush().map_err(|e| e.to_string())?;
    let summary = json!({"texts": count, "distinct_texts": distinct.len(), "distinct_texts_scanned_into_2_or_more_tokens": nontrivial.len(),
                         "families": fams, "scan_outcomes": scans, "parse_outcomes": parses, "samples": samples});
    std::fs::write(format!("{}.summary.json", out), serde_json::to_string(&summary).unwrap()).map_err(|e| e.to_string())?;
    eprintln!("reader spans: {} texts", count);
    Ok(())
}
