//! `mwverif reader ...` -- see DESIGN.md; implemented by the check of the corresponding property.
pub fn main(_args: &[String]) -> Result<(), String> {
    Err("reader: not implemented yet".into())
}
