//! `mwverif gen <kind> key=value ...`: generate sessions of a kind, run them in the
//! implementation under a set of configurations, write ndjson for Trace_CEK.
use crate::corpus::{session_json_x, standard_cfgs};
use crate::enc::parse_all;
use crate::gen_lang::LangGen;
use crate::sess::{RunCfg, Sched};
use serde_json::{json, Value};
use std::collections::HashMap;
use std::io::Write;

pub fn kv(args: &[String]) -> HashMap<String, String> {
    let mut m = HashMap::new();
    for a in args {
        if let Some((k, v)) = a.split_once('=') {
            m.insert(k.to_string(), v.to_string());
        }
    }
    m
}

pub fn get<T: std::str::FromStr>(m: &HashMap<String, String>, k: &str, d: T) -> T {
    m.get(k).and_then(|v| v.parse().ok()).unwrap_or(d)
}

/// Collection schedules of C03: none, every k-th instruction for k in 1..16, pseudo-random.
pub fn gc_cfgs(seed: u64, all: bool) -> Vec<RunCfg> {
    let mut v = vec![RunCfg::plain()];
    let ks: Vec<u64> = if all { (1..=16).collect() } else { vec![1, 2, 3, 5, 8, 13, 16] };
    for k in ks {
        v.push(RunCfg { name: format!("gc{}", k), sched: Sched::Every(k), budgets: None, prefix: false, live: false });
    }
    v.push(RunCfg { name: "gcr1".into(), sched: Sched::Random(seed * 2 + 1, 64), budgets: None, prefix: false, live: false });
    v.push(RunCfg { name: "gcr2".into(), sched: Sched::Random(seed * 7 + 3, 400), budgets: None, prefix: false, live: false });
    v
}

/// Slice configurations of C13: constant budgets 1..64, or seeded random budget sequences in 1..10^4.
pub fn slice_cfgs(seed: u64, constant: bool) -> Vec<RunCfg> {
    let mut v = vec![RunCfg::plain()];
    if constant {
        for b in 1..=64usize {
            v.push(RunCfg { name: format!("slice{}", b), sched: Sched::None, budgets: Some(vec![b]), prefix: false, live: false });
        }
        // slices combined with collections at instruction boundaries (a slice end is a collection opportunity)
        v.push(RunCfg { name: "slicegc1".into(), sched: Sched::Every(1), budgets: Some(vec![1]), prefix: false, live: false });
        v.push(RunCfg { name: "slicegc2".into(), sched: Sched::Every(2), budgets: Some(vec![3]), prefix: false, live: false });
        v.push(RunCfg { name: "slicegc3".into(), sched: Sched::Random(seed | 1, 300), budgets: Some(vec![7, 2]), prefix: false, live: false });
    } else {
        let mut rng = crate::rng::Rng::new(seed ^ 0x5151);
        for i in 0..6 {
            let hi = [4i64, 16, 100, 1000, 10000, 10000][i];
            let bs: Vec<usize> = (0..40).map(|_| rng.range(1, hi) as usize).collect();
            v.push(RunCfg { name: format!("slicer{}", i), sched: Sched::None, budgets: Some(bs), prefix: false, live: false });
        }
    }
    v
}

pub fn cfgs_for(level: &str, seed: u64) -> Vec<RunCfg> {
    match level {
        "slices64" => slice_cfgs(seed, true),
        "slicesr" => slice_cfgs(seed, false),
        "gc" => gc_cfgs(seed, false),
        "gcall" => gc_cfgs(seed, true),
        // big single forms in slices: constant budgets around the sizes embedders use
        "slicebig" => {
            let mut v = vec![RunCfg::plain()];
            for b in [1usize, 7, 64, 1000] {
                v.push(RunCfg { name: format!("slice{}", b), sched: Sched::None, budgets: Some(vec![b]), prefix: false, live: false });
            }
            v
        }
        // big live data: fewer forced collections (each one traverses more than a heap chunk)
        "gcbig" => vec![
            RunCfg::plain(),
            RunCfg { name: "gc5".into(), sched: Sched::Every(5), budgets: None, prefix: false, live: false },
            RunCfg { name: "gc64".into(), sched: Sched::Every(64), budgets: None, prefix: false, live: false },
            RunCfg { name: "gcr1".into(), sched: Sched::Random(seed * 2 + 1, 64), budgets: None, prefix: false, live: false },
        ],
        other => standard_cfgs(other),
    }
}

pub fn main(args: &[String]) -> Result<(), String> {
    if args.is_empty() {
        return Err("gen <kind> key=value...".into());
    }
    let kind = args[0].as_str();
    let m = kv(&args[1..]);
    let seed: u64 = get(&m, "seed", 0);
    let count: usize = get(&m, "count", 100);
    let out = m.get("out").cloned().ok_or("out=<file> required")?;
    let level = m.get("cfgs").cloned().unwrap_or("basic".into());
    let isolate = m.get("isolate").map(|v| v == "1").unwrap_or(false);
    let only: Option<usize> = m.get("only").and_then(|v| v.parse().ok());
    if let Some(i) = only {
        // child of an isolated run: exactly one session
        let lines = one_session(kind, &m, seed, i, &level)?;
        let mut f = std::io::BufWriter::new(std::fs::File::create(&out).map_err(|e| e.to_string())?);
        for l in lines {
            writeln!(f, "{}", l).map_err(|e| e.to_string())?;
        }
        return Ok(());
    }
    let threads: usize = std::env::var("VERIF_THREADS").ok().and_then(|v| v.parse().ok()).unwrap_or(12).max(1);
    let results: std::sync::Mutex<Vec<(usize, Vec<String>)>> = std::sync::Mutex::new(vec![]);
    let error: std::sync::Mutex<Option<String>> = std::sync::Mutex::new(None);
    let next = std::sync::atomic::AtomicUsize::new(0);
    std::thread::scope(|sc| {
        for _ in 0..threads {
            sc.spawn(|| loop {
                let i = next.fetch_add(1, std::sync::atomic::Ordering::SeqCst);
                if i >= count || error.lock().unwrap().is_some() {
                    break;
                }
                let r = if isolate { isolated_session(args, i, &out) } else { one_session(kind, &m, seed, i, &level) };
                match r {
                    Ok(lines) => results.lock().unwrap().push((i, lines)),
                    Err(e) => {
                        *error.lock().unwrap() = Some(e);
                        break;
                    }
                }
            });
        }
    });
    if let Some(e) = error.into_inner().unwrap() {
        return Err(e);
    }
    let mut results = results.into_inner().unwrap();
    results.sort_by_key(|r| r.0);
    let mut f = std::io::BufWriter::new(std::fs::File::create(&out).map_err(|e| e.to_string())?);
    let mut n = 0;
    for (_, lines) in results {
        for l in lines {
            writeln!(f, "{}", l).map_err(|e| e.to_string())?;
            n += 1;
        }
    }
    eprintln!("gen {}: {} sessions", kind, n);
    Ok(())
}

fn cells(forms: &[String]) -> Result<Vec<marwood::cell::Cell>, String> {
    let mut cells = vec![];
    for t in forms {
        match parse_all(t) {
            Ok(c) if c.len() == 1 => cells.push(c.into_iter().next().unwrap()),
            Ok(_) => return Err(format!("generator text is not one datum: {}", t)),
            // a form the reader rejects stands for a read error: an unreadable datum is
            // represented by a form that fails to compile in the same way in both histories
            Err(e) => return Err(format!("generator produced unreadable text: {}", e)),
        }
    }
    Ok(cells)
}

/// C07: records for history A (failing forms) and history B (effects-only twins).
fn fail_records(id: usize, sseed: u64, kmax: usize) -> Result<Vec<Value>, String> {
    use crate::corpus::session_json_runs;
    use crate::sess::run_session;
    let (items, tags) = crate::gen_fail::session(&mut crate::rng::Rng::new(sseed), kmax);
    let fa: Vec<String> = items.iter().map(|i| i.a.clone()).collect();
    let fb: Vec<String> = items.iter().map(|i| i.b.clone()).collect();
    let ca = cells(&fa)?;
    let cb = cells(&fb)?;
    let cfg = RunCfg { name: "plain".into(), sched: Sched::None, budgets: None, prefix: false, live: true };
    // the same history driven in slices (prepare_eval + run_count), as an embedding front end would
    let cfg_s = RunCfg { name: "slice".into(), sched: Sched::None, budgets: Some(vec![23, 5, 120, 9]), prefix: false, live: false };
    let mut oa = run_session(&ca, &cfg);
    let mut os = run_session(&ca, &cfg_s);
    let ob = run_session(&cb, &cfg);
    for o in [&mut oa, &mut os] {
        for (i, it) in items.iter().enumerate() {
            if i >= o.len() || i >= ob.len() {
                break;
            }
            if it.probe {
                let mut t = json!({"r": ob[i]["r"].clone()});
                for k in ["v", "u", "tr"] {
                    if !ob[i][k].is_null() {
                        t[k] = ob[i][k].clone();
                    }
                }
                o[i]["twin"] = t;
            }
            if let Some(first) = it.rep {
                o[i]["rep"] = json!(first + 1);
            }
        }
    }
    let extra = vec![("tags", json!(tags)), ("kind", json!("fail")), ("seed", json!(sseed))];
    let ja = session_json_runs(id, &ca, None, vec![("plain".into(), oa), ("slice".into(), os)], &extra);
    let extra_b = vec![("tags", json!(tags)), ("kind", json!("fail-twin")), ("seed", json!(sseed))];
    let jb = session_json_runs(id + 1, &cb, None, vec![("plain".into(), ob)], &extra_b);
    Ok(vec![ja, jb])
}

/// The record(s) of the i-th session of a kind (independent of the other sessions).
fn one_session(kind: &str, m: &HashMap<String, String>, seed: u64, i: usize, level: &str) -> Result<Vec<String>, String> {

        let sseed = seed.wrapping_mul(1_000_003).wrapping_add(i as u64);
        if kind == "tail" {
            return Ok(vec![tail_record(i, sseed, m)?.to_string()]);
        }
        if kind == "fail" {
            // two histories per case: A (with the failing forms) and its effects-only twin B
            let kmax: usize = get(m, "kmax", 8);
            return Ok(fail_records(2 * i + 1, sseed, kmax)?.iter().map(|j| j.to_string()).collect());
        }
        let (forms, tags, extra): (Vec<String>, Vec<String>, Vec<(&str, Value)>) = match kind {
            "lang" => {
                let mut g = LangGen::new(sseed);
                let nforms = 3 + g.rng.below(6);
                let fail: u32 = get(m, "fail", 15);
                let forms = g.session(nforms, fail);
                (forms, g.tags.clone(), vec![])
            }
            "scope" => {
                // enumeration (from + i) or random sampling of scope skeletons with l levels
                let l: usize = get(m, "l", 2);
                let mode = m.get("mode").cloned().unwrap_or("enum".into());
                let sk = if mode == "enum" {
                    let from: usize = get(m, "from", 0);
                    let stride: usize = get(m, "stride", 1);
                    let idx = from + i * stride;
                    if idx >= crate::gen_scope::space(l) {
                        return Ok(vec![]);
                    }
                    crate::gen_scope::nth(l, idx)
                } else {
                    crate::gen_scope::random(l, &mut crate::rng::Rng::new(sseed))
                };
                (sk.forms(), vec![format!("scope:{}", sk.describe())], vec![])
            }
            "cont" => {
                let (forms, tags) = crate::gen_cont::session_nth(&mut crate::rng::Rng::new(sseed), Some(i));
                (forms, tags, vec![])
            }
            "bigform" => {
                let (forms, tags) = crate::gen_alloc::big_form(&mut crate::rng::Rng::new(sseed));
                (forms, tags, vec![])
            }
            "biglive" => {
                let (forms, tags) = crate::gen_alloc::big_session(&mut crate::rng::Rng::new(sseed));
                (forms, tags, vec![])
            }
            "alloc" => {
                let (forms, tags) = crate::gen_alloc::session(&mut crate::rng::Rng::new(sseed));
                (forms, tags, vec![])
            }
            "sym" => {
                let (forms, tags) = crate::gen_sym::session(&mut crate::rng::Rng::new(sseed));
                (forms, tags, vec![])
            }
            "scopeloop" => (crate::gen_scope::loop_sessions(&mut crate::rng::Rng::new(sseed)), vec!["scope-loop".into()], vec![]),
            other => return Err(format!("unknown kind {}", other)),
        };
        let mut cells = vec![];
        for t in &forms {
            // the generators write well-formed texts of exactly one datum: a text the reader of the code under test
            // rejects, splits or panics on is an outcome of the code under test, recorded like an abort
            let r = std::panic::catch_unwind(|| parse_all(t));
            let why = match &r {
                Ok(Ok(c)) if c.len() == 1 => None,
                Ok(Ok(c)) => Some(format!("the reader reads {} data in a text of one datum", c.len())),
                Ok(Err(e)) => Some(format!("the reader rejects a well-formed text: {}", e.chars().take(160).collect::<String>())),
                Err(_) => Some("the reader panics on a well-formed text".to_string()),
            };
            if let Some(why) = why {
                let st = crate::enc::SymTab::new();
                let j = json!({"id": i + 1, "syms": st.to_json(), "forms": [], "runs": [], "text": [t],
                               "abort": format!("{} -- {}", why, t.chars().take(200).collect::<String>()),
                               "kind": kind, "tags": ["unreadable"], "seed": sseed,
                               "reproduce": format!("mwverif gen {} seed={} only={}", kind, seed, i)});
                return Ok(vec![j.to_string()]);
            }
            cells.push(r.unwrap().unwrap().into_iter().next().unwrap());
        }
        let cfgs = cfgs_for(&level, sseed);
        let mut extra = extra;
        extra.push(("tags", json!(tags)));
        extra.push(("kind", json!(kind)));
        extra.push(("seed", json!(sseed)));
        let j = session_json_x(i + 1, &cells, None, &cfgs, &extra);
        return Ok(vec![j.to_string()]);
}

/// C04: one tail-call program with its non-tail twin.  Forms 1.. define both; then the loop is
/// started with n = 10 and n = 100 (tail and twin) -- these the specification runs too; the runs
/// with n = 1000 and n = 100000 are made by the implementation only and recorded under "big".
fn tail_record(i: usize, sseed: u64, m: &HashMap<String, String>) -> Result<Value, String> {
    use crate::corpus::session_json_runs;
    use crate::sess::{outcome_json, Session};
    let from: usize = get(m, "from", 0);
    let stride: usize = get(m, "stride", 1);
    let mode = m.get("mode").cloned().unwrap_or("enum".into());
    let mut rng = crate::rng::Rng::new(sseed);
    let idx = if mode == "enum" { from + i * stride } else { crate::gen_tail::single_space() + i };
    let p = crate::gen_tail::nth(idx, &mut rng);
    let mut forms: Vec<String> = vec!["(define cnt 0)".into(), "(define acc 0)".into()];
    forms.extend(p.defs_tail.iter().cloned());
    forms.extend(p.defs_twin.iter().cloned());
    let start = |n: usize, call: &str| format!("(begin (set! cnt {}) (set! acc 0) {})", n, call);
    let base = forms.len();
    forms.push(start(10, &p.start_tail)); // base+1
    forms.push(start(100, &p.start_tail)); // base+2
    forms.push(start(10, &p.start_twin)); // base+3
    forms.push(start(100, &p.start_twin)); // base+4
    let cs = cells(&forms)?;
    let cfg = RunCfg::plain();
    // the session itself
    let mut s = Session::new(&cfg);
    s.install_sched(&cfg.sched);
    let mut obs = vec![];
    for f in &cs {
        let sp0 = s.vm.verif_stack().get_sp();
        s.vm.verif_reset_counters();
        let (o, _) = s.eval(f, &cfg);
        let mut j = outcome_json(&o);
        j["out"] = json!([]);
        j["sp0"] = json!(sp0);
        j["maxsp"] = json!(s.vm.verif.max_sp);
        j["instr"] = json!(s.vm.verif.instr);
        obs.push(j);
        if s.dead {
            break;
        }
    }
    // big iteration counts, implementation only
    let mut big = vec![];
    if !s.dead {
        for n in [1000usize, 100000] {
            let mut rec = json!({"n": n});
            for (key, call) in [("tail", &p.start_tail), ("twin", &p.start_twin)] {
                // a non-tail loop through call/cc copies the whole stack per iteration (quadratic memory)
                if key == "twin" && n > 1000 && p.desc.contains("call/cc") {
                    continue;
                }
                let c = cells(&[start(n, call)])?;
                // a loop of tail calls that needs more than 50000 stack slots has failed already;
                // the twin legitimately needs about 6n slots
                s.sp_limit.set(if key == "tail" { 50_000 } else { 2_000_000 });
                s.instr_limit.set(2_000_000_000);
                let sp0 = s.vm.verif_stack().get_sp();
                s.vm.verif_reset_counters();
                let (o, _) = s.eval(&c[0], &cfg);
                let mut j = outcome_json(&o);
                j["maxsp"] = json!(s.vm.verif.max_sp as i64 - sp0 as i64);
                rec[key] = j;
                if s.dead {
                    // the watchdog unwound the VM in mid-evaluation: continue in a fresh one
                    s = Session::new(&cfg);
                    s.install_sched(&cfg.sched);
                    for f in cs.iter().take(base) {
                        let _ = s.eval(f, &cfg);
                    }
                    s.dead = false;
                }
            }
            big.push(rec);
        }
    }
    // W: the widest list in the program text
    fn width(c: &marwood::cell::Cell) -> usize {
        match c {
            marwood::cell::Cell::Pair(_, _) => {
                let mut n = 0;
                let mut w = 0;
                let mut r = c;
                while let marwood::cell::Cell::Pair(a, d) = r {
                    n += 1;
                    w = w.max(width(a));
                    r = d;
                }
                w.max(n)
            }
            marwood::cell::Cell::Vector(v) => v.iter().map(width).max().unwrap_or(0).max(v.len()),
            _ => 0,
        }
    }
    let w = cs.iter().map(width).max().unwrap_or(1);
    let extra = vec![
        ("tags", json!([format!("tail:{}", p.desc)])),
        ("kind", json!("tail")),
        ("seed", json!(sseed)),
        ("w", json!(w)),
        ("tailpairs", json!([[base + 1, base + 2]])),
        ("tailforms", json!([base + 1, base + 2])),
        ("big", json!(big)),
    ];
    Ok(session_json_runs(i + 1, &cs, None, vec![("plain".into(), obs)], &extra))
}

/// Run session i in a child process, so that an abort of the code under test (double panic,
/// native stack overflow, allocation failure) is data: it yields a record with the field "abort".
fn isolated_session(args: &[String], i: usize, out: &str) -> Result<Vec<String>, String> {
    let exe = std::env::current_exe().map_err(|e| e.to_string())?;
    let tmp = format!("{}.child{}", out, i);
    let mut a: Vec<String> = vec!["gen".into()];
    a.extend(args.iter().filter(|x| !x.starts_with("out=") && !x.starts_with("isolate=")).cloned());
    a.push(format!("only={}", i));
    a.push(format!("out={}", tmp));
    let mut child = std::process::Command::new(exe)
        .args(&a)
        .stdout(std::process::Stdio::null())
        .stderr(std::process::Stdio::null())
        .spawn()
        .map_err(|e| e.to_string())?;
    // wall-clock watchdog: loops at the Rust level (not counted in VM instructions) are data too
    let limit = std::time::Duration::from_secs(
        std::env::var("VERIF_CHILD_SECS").ok().and_then(|v| v.parse().ok()).unwrap_or(90),
    );
    let t0 = std::time::Instant::now();
    let mut hung = false;
    let st = loop {
        match child.try_wait().map_err(|e| e.to_string())? {
            Some(st) => break st,
            None => {
                if t0.elapsed() > limit {
                    hung = true;
                    let _ = child.kill();
                    break child.wait().map_err(|e| e.to_string())?;
                }
                std::thread::sleep(std::time::Duration::from_millis(20));
            }
        }
    };
    let res = if st.success() && !hung {
        let text = std::fs::read_to_string(&tmp).map_err(|e| e.to_string())?;
        Ok(text.lines().map(|l| l.to_string()).collect())
    } else {
        use std::os::unix::process::ExitStatusExt;
        let how = match st.signal() {
            _ if hung => format!("no termination within {} s (killed)", limit.as_secs()),
            Some(sig) => format!("signal {}", sig),
            None => format!("exit status {}", st.code().unwrap_or(-1)),
        };
        let st = crate::enc::SymTab::new();
        let j = json!({"id": i + 1, "syms": st.to_json(), "forms": [], "runs": [], "text": [],
                       "abort": how, "kind": args[0].clone(), "tags": ["abort"],
                       "reproduce": format!("mwverif gen {} only={}", args.join(" "), i)});
        Ok(vec![j.to_string()])
    };
    let _ = std::fs::remove_file(&tmp);
    res
}
