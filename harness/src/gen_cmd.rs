//! `mwverif gen <kind> key=value ...`: generate sessions of a kind, run them in the
//! implementation under a set of configurations, write ndjson for Trace_CEK.
use crate::corpus::{session_json_x, standard_cfgs};
use crate::enc::parse_all;
use crate::gen_lang::LangGen;
use crate::sess::{RunCfg, Sched};
use serde_json::{json, Value};
use std::collections::HashMap;
use std::io::Write;

pub fn kv(args: &[String]) -> HashMap<String, String> {
    let mut m = HashMap::new();
    for a in args {
        if let Some((k, v)) = a.split_once('=') {
            m.insert(k.to_string(), v.to_string());
        }
    }
    m
}

pub fn get<T: std::str::FromStr>(m: &HashMap<String, String>, k: &str, d: T) -> T {
    m.get(k).and_then(|v| v.parse().ok()).unwrap_or(d)
}

/// Collection schedules of C03: none, every k-th instruction for k in 1..16, pseudo-random.
pub fn gc_cfgs(seed: u64, all: bool) -> Vec<RunCfg> {
    let mut v = vec![RunCfg::plain()];
    let ks: Vec<u64> = if all { (1..=16).collect() } else { vec![1, 2, 3, 5, 8, 13, 16] };
    for k in ks {
        v.push(RunCfg { name: format!("gc{}", k), sched: Sched::Every(k), budgets: None, prefix: false });
    }
    v.push(RunCfg { name: "gcr1".into(), sched: Sched::Random(seed * 2 + 1, 64), budgets: None, prefix: false });
    v.push(RunCfg { name: "gcr2".into(), sched: Sched::Random(seed * 7 + 3, 400), budgets: None, prefix: false });
    v
}

pub fn cfgs_for(level: &str, seed: u64) -> Vec<RunCfg> {
    match level {
        "gc" => gc_cfgs(seed, false),
        "gcall" => gc_cfgs(seed, true),
        other => standard_cfgs(other),
    }
}

pub fn main(args: &[String]) -> Result<(), String> {
    if args.is_empty() {
        return Err("gen <kind> key=value...".into());
    }
    let kind = args[0].as_str();
    let m = kv(&args[1..]);
    let seed: u64 = get(&m, "seed", 0);
    let count: usize = get(&m, "count", 100);
    let out = m.get("out").cloned().ok_or("out=<file> required")?;
    let level = m.get("cfgs").cloned().unwrap_or("basic".into());
    let mut f = std::io::BufWriter::new(std::fs::File::create(&out).map_err(|e| e.to_string())?);
    let mut n = 0;
    for i in 0..count {
        let sseed = seed.wrapping_mul(1_000_003).wrapping_add(i as u64);
        let (forms, tags, extra): (Vec<String>, Vec<String>, Vec<(&str, Value)>) = match kind {
            "lang" => {
                let mut g = LangGen::new(sseed);
                let nforms = 3 + g.rng.below(6);
                let fail: u32 = get(&m, "fail", 15);
                let forms = g.session(nforms, fail);
                (forms, g.tags.clone(), vec![])
            }
            other => return Err(format!("unknown kind {}", other)),
        };
        let mut cells = vec![];
        for t in &forms {
            let c = parse_all(t).map_err(|e| format!("generator produced unreadable text: {}", e))?;
            if c.len() != 1 {
                return Err(format!("generator text is not one datum: {}", t));
            }
            cells.push(c.into_iter().next().unwrap());
        }
        let cfgs = cfgs_for(&level, sseed);
        let mut extra = extra;
        extra.push(("tags", json!(tags)));
        extra.push(("kind", json!(kind)));
        extra.push(("seed", json!(sseed)));
        let j = session_json_x(i + 1, &cells, None, &cfgs, &extra);
        writeln!(f, "{}", j).map_err(|e| e.to_string())?;
        n += 1;
    }
    eprintln!("gen {}: {} sessions", kind, n);
    Ok(())
}
