//! Generator of "well-scoped" sessions for C01 (and reused by C03/C07/C13):
//! typed recursive grammar over the core and derived forms.  See DESIGN.md 4.4
//! for the rules that keep R7RS-unspecified behaviour unobservable.
use crate::rng::Rng;

#[derive(Clone, Copy, PartialEq, Eq, Debug)]
pub enum Ty {
    Int,
    Bool,
    List, // proper list of ints
    Sym,
    Str,
    Chr,
    Vec, // vector of ints
    Fun, // procedure int -> int
}

#[derive(Clone, Debug)]
pub struct Var {
    pub name: String,
    pub ty: Ty,
    /// bound to a freshly constructed object that may be mutated
    pub fresh: bool,
    pub assignable: bool,
}

#[derive(Clone, Debug)]
pub struct Func {
    pub name: String,
    pub nargs: usize,
    pub rest: bool,
}

pub struct LangGen {
    pub rng: Rng,
    pub globals: Vec<Var>,
    pub funcs: Vec<Func>,
    pub counter: usize,
    pub tags: Vec<String>,
    /// probability (per 1000) that an Int expression is replaced by a failing one
    pub fail_rate: u32,
    pub failing: bool,
    /// only functions with an index below this may be called (termination: calls go strictly downwards)
    pub call_limit: usize,
    /// procedures called for effect only (their last body expression is a set!)
    pub setters: Vec<String>,
    /// builtins that have been redefined in this session
    pub redefined: Vec<String>,
    /// user macros defined at the start of the session (my-if, my-list, inc!, my-let1)
    pub macros: bool,
}

const SYMS: &[&str] = &["a", "b", "c", "foo", "bar", "x1", "lambda-ish", "q"];

impl LangGen {
    pub fn new(seed: u64) -> LangGen {
        LangGen { rng: Rng::new(seed), globals: vec![], funcs: vec![], counter: 0, tags: vec![], fail_rate: 0, failing: false, call_limit: usize::MAX, setters: vec![], redefined: vec![], macros: false }
    }

    fn tag(&mut self, t: &str) {
        if !self.tags.iter().any(|x| x == t) {
            self.tags.push(t.to_string());
        }
    }

    fn fresh(&mut self, p: &str) -> String {
        self.counter += 1;
        format!("{}{}", p, self.counter)
    }

    fn vars_of<'a>(&self, cx: &'a [Var], ty: Ty) -> Vec<Var> {
        // inside a procedure body, global procedure-valued variables are excluded: they may hold
        // a later-defined procedure and so close a call cycle (termination of generated programs)
        let no_global_funs = self.call_limit != usize::MAX && ty == Ty::Fun;
        cx.iter()
            .chain(self.globals.iter().filter(|_| !no_global_funs))
            .filter(|v| v.ty == ty)
            .cloned()
            .collect()
    }

    fn int_lit(&mut self) -> String {
        format!("{}", self.rng.range(-5, 20))
    }

    fn sym_lit(&mut self) -> String {
        self.rng.pick(SYMS).to_string()
    }

    fn str_lit(&mut self) -> String {
        let opts = ["\"\"", "\"abc\"", "\"hello world\"", "\"x\"", "\"A-b\"", "\"foo\""];
        self.rng.pick(&opts).to_string()
    }

    fn list_lit(&mut self) -> String {
        let n = self.rng.below(4);
        let items: Vec<String> = (0..n).map(|_| self.int_lit()).collect();
        format!("'({})", items.join(" "))
    }

    /// an Int expression that fails at run time
    fn failing_int(&mut self, cx: &[Var]) -> String {
        self.failing = true;
        let k = self.rng.below(18);
        self.tag("inject-failure");
        match k {
            0 => "(car '())".into(),
            1 => "(vector-ref (vector 1 2) 5)".into(),
            2 => "undefined-variable-zz".into(),
            3 => {
                let lim = self.call_limit.min(self.funcs.len());
                if lim > 0 {
                    let f = self.funcs[lim - 1].clone();
                    if !f.rest {
                        let args: Vec<String> = (0..f.nargs + 1).map(|_| self.int_lit()).collect();
                        return format!("({} {})", f.name, args.join(" "));
                    }
                }
                "((lambda (x) x))".into()
            }
            4 => "((lambda (x y) x) 1)".into(),
            5 => {
                let irritant = self.expr(Ty::Int, cx, 1);
                format!("(error \"boom\" 'irritant {})", irritant)
            }
            6 => "(7 8)".into(),
            7 => "(+ 'a 1)".into(),
            8 => "(list-tail '(1 2) 5)".into(),
            9 => "(integer->char -1)".into(),
            10 => "(symbol->string 5)".into(),
            11 => "(undefined-procedure-zz 1 2)".into(),
            12 => "(apply + 1 2)".into(),
            // more arguments than parameters: directly, through apply, through a tail call, through map
            13 => "((lambda (x) x) 1 2)".into(),
            14 => "(apply (lambda (x y) x) '(1 2 3))".into(),
            15 => "(let ((f (lambda (a) a))) (if #t (f 1 2) 0))".into(),
            16 => "(car (map (lambda (x) x) '(1) '(2)))".into(),
            _ => "(error \"msg\")".into(),
        }
    }

    pub fn expr(&mut self, ty: Ty, cx: &[Var], depth: usize) -> String {
        if ty == Ty::Int && self.fail_rate > 0 && self.rng.chance(self.fail_rate, 1000) {
            return self.failing_int(cx);
        }
        if depth == 0 {
            return self.leaf(ty, cx);
        }
        // generic productions shared by all types
        let g = self.rng.below(100);
        if g < 8 {
            let c = self.expr(Ty::Bool, cx, depth - 1);
            let a = self.expr(ty, cx, depth - 1);
            let b = self.expr(ty, cx, depth - 1);
            return format!("(if {} {} {})", c, a, b);
        }
        if g < 14 {
            return self.let_form(ty, cx, depth);
        }
        if g < 17 {
            let c = self.expr(Ty::Bool, cx, depth - 1);
            let c2 = self.expr(Ty::Bool, cx, depth - 1);
            let a = self.expr(ty, cx, depth - 1);
            let b = self.expr(ty, cx, depth - 1);
            let d = self.expr(ty, cx, depth - 1);
            self.tag("cond");
            return format!("(cond ({} {}) ({} {}) (else {}))", c, a, c2, b, d);
        }
        if g < 20 {
            let k = self.expr(Ty::Int, cx, depth - 1);
            let a = self.expr(ty, cx, depth - 1);
            let b = self.expr(ty, cx, depth - 1);
            let d = self.expr(ty, cx, depth - 1);
            self.tag("case");
            return format!("(case {} ((0 1 2) {}) ((3 5 7 -1) {}) (else {}))", k, a, b, d);
        }
        if g < 23 {
            // effect then value
            let eff = self.effect(cx, depth - 1);
            let a = self.expr(ty, cx, depth - 1);
            self.tag("begin");
            return format!("(begin {} {})", eff, a);
        }
        if g < 26 {
            // immediately applied lambda, possibly with internal definition
            let p = self.fresh("p");
            let arg = self.expr(Ty::Int, cx, depth - 1);
            let mut cx2 = cx.to_vec();
            cx2.insert(0, Var { name: p.clone(), ty: Ty::Int, fresh: false, assignable: true });
            if self.rng.chance(1, 2) {
                let d = self.fresh("d");
                let init = self.expr(Ty::Int, &cx2, depth - 1);
                cx2.insert(0, Var { name: d.clone(), ty: Ty::Int, fresh: false, assignable: true });
                let body = self.expr(ty, &cx2, depth - 1);
                self.tag("internal-define");
                return format!("((lambda ({}) (define {} {}) {}) {})", p, d, init, body, arg);
            }
            let body = self.expr(ty, &cx2, depth - 1);
            return format!("((lambda ({}) {}) {})", p, body, arg);
        }
        if g < 28 {
            // call/cc escape returning a value of this type
            let k = self.fresh("k");
            let a = self.expr(ty, cx, depth - 1);
            let b = self.expr(ty, cx, depth - 1);
            let c = self.expr(Ty::Bool, cx, depth - 1);
            self.tag("call/cc");
            return format!("(call/cc (lambda ({}) (if {} ({} {}) {})))", k, c, k, a, b);
        }
        if g < 30 {
            // delay / force
            let a = self.expr(ty, cx, depth - 1);
            self.tag("delay");
            return format!("(force (delay {}))", a);
        }
        if g < 32 {
            // and / or as value selectors:  (or #f e) = e, (and #t e) = e
            let a = self.expr(ty, cx, depth - 1);
            let c = self.expr(Ty::Bool, cx, depth - 1);
            if ty == Ty::Bool {
                self.tag("and-or");
                return if self.rng.chance(1, 2) { format!("(and {} {})", c, a) } else { format!("(or {} {})", c, a) };
            }
            self.tag("and-or");
            return if self.rng.chance(1, 2) { format!("(or #f {})", a) } else { format!("(and 0 {})", a) };
        }
        if self.macros && self.rng.chance(8, 100) {
            self.tag("user-macro");
            match (ty, self.rng.below(3)) {
                (Ty::List, _) => {
                    let n = self.rng.below(4);
                    let items: Vec<String> = (0..n).map(|_| self.expr(Ty::Int, cx, depth - 1)).collect();
                    return format!("(my-list {})", items.join(" ")).replace(" )", ")");
                }
                (_, 0) => {
                    let c = self.expr(Ty::Bool, cx, depth - 1);
                    let a = self.expr(ty, cx, depth - 1);
                    let b = self.expr(ty, cx, depth - 1);
                    return format!("(my-if {} {} {})", c, a, b);
                }
                (_, 1) => {
                    let v = self.fresh("m");
                    let init = self.expr(Ty::Int, cx, depth - 1);
                    let mut cx2 = cx.to_vec();
                    cx2.insert(0, Var { name: v.clone(), ty: Ty::Int, fresh: false, assignable: true });
                    let body = self.expr(ty, &cx2, depth - 1);
                    return format!("(my-let1 ({} {}) {})", v, init, body);
                }
                _ => {}
            }
        }
        if ty == Ty::Int && !self.funcs.is_empty() && self.call_limit.min(self.funcs.len()) > 0 && self.rng.chance(12, 100) {
            return self.user_call(cx, depth - 1);
        }
        match ty {
            Ty::Int => self.int_expr(cx, depth),
            Ty::Bool => self.bool_expr(cx, depth),
            Ty::List => self.list_expr(cx, depth),
            Ty::Sym => self.sym_expr(cx, depth),
            Ty::Str => self.str_expr(cx, depth),
            Ty::Chr => self.chr_expr(cx, depth),
            Ty::Vec => self.vec_expr(cx, depth),
            Ty::Fun => self.fun_expr(cx, depth),
        }
    }

    fn leaf(&mut self, ty: Ty, cx: &[Var]) -> String {
        let vs = self.vars_of(cx, ty);
        if !vs.is_empty() && self.rng.chance(2, 3) {
            return self.rng.pick(&vs).name.clone();
        }
        match ty {
            Ty::Int => self.int_lit(),
            Ty::Bool => (if self.rng.chance(1, 2) { "#t" } else { "#f" }).into(),
            Ty::List => self.list_lit(),
            Ty::Sym => format!("'{}", self.sym_lit()),
            Ty::Str => self.str_lit(),
            Ty::Chr => self.rng.pick(&["#\\a", "#\\Z", "#\\0", "#\\space"]).to_string(),
            Ty::Vec => {
                let n = self.rng.below(4);
                let items: Vec<String> = (0..n).map(|_| self.int_lit()).collect();
                format!("(vector {})", items.join(" "))
            }
            Ty::Fun => {
                let lim = self.call_limit;
                let fs: Vec<Func> =
                    self.funcs.iter().enumerate().filter(|(i, f)| *i < lim && f.nargs == 1 && !f.rest).map(|(_, f)| f.clone()).collect();
                if !fs.is_empty() && self.rng.chance(1, 2) {
                    return self.rng.pick(&fs).name.clone();
                }
                self.rng.pick(&["add1", "sub1", "abs", "(lambda (z) (+ z 1))", "(lambda (z) (* z 2))", "-"]).to_string()
            }
        }
    }

    fn let_form(&mut self, ty: Ty, cx: &[Var], depth: usize) -> String {
        if ty == Ty::List && self.rng.chance(1, 8) {
            // a variadic predicate whose answer is decided by a pair other than the first, as a middle operand: a
            // procedure implemented in Rust pops all of its arguments whatever the answer
            self.tag("variadic-predicate-operand");
            let p = *self.rng.pick(&["(char=? #\\a #\\a #\\b)", "(char<? #\\a #\\c #\\b #\\d)", "(string=? \"x\" \"x\" \"y\")", "(string<? \"a\" \"c\" \"b\")",
                                     "(= 1 1 2 2)", "(< 1 3 2 4)", "(>= 3 3 4)", "(char-ci=? #\\a #\\A #\\b)", "(eq? 'a 'b)", "(equal? '(1) '(2))"]);
            let a = self.expr(Ty::Int, cx, 0);
            return format!("(list {} {} {})", a, p, self.rng.range(0, 9));
        }
        if ty == Ty::Int && self.rng.chance(1, 7) {
            // let* binds one name after the other: an init sees the bindings to its left (of this let* or of an
            // enclosing form), never the ones at or to its right; a closure made by an init keeps the binding it saw
            self.tag("let*-rebinding");
            let x = self.fresh("x");
            let y = self.fresh("y");
            let f = self.fresh("f");
            let a = self.expr(Ty::Int, cx, 0);
            let b = self.expr(Ty::Int, cx, 0);
            return format!(
                "(let (({x} {a})) (let* (({y} {x}) ({x} (+ {y} {b})) ({f} (lambda () {x})) ({x} (* {x} 2))) (+ {x} (* 3 {y}) (* 5 ({f})))))",
                x = x, y = y, f = f, a = a, b = b
            );
        }
        let which = self.rng.below(5);
        let tys = [Ty::Int, Ty::Int, Ty::List, Ty::Bool, Ty::Sym, Ty::Fun, Ty::Vec, Ty::Str];
        let n = 1 + self.rng.below(2);
        let mut names = vec![];
        let mut inits = vec![];
        let mut cx_seq = cx.to_vec(); // for let*
        let mut newvars = vec![];
        for _ in 0..n {
            let t = *self.rng.pick(&tys);
            let name = self.fresh("v");
            let init = if which == 1 { self.expr(t, &cx_seq, depth - 1) } else { self.expr(t, cx, depth - 1) };
            let fresh = t == Ty::Vec || (t == Ty::List && init.starts_with("(list"));
            let v = Var { name: name.clone(), ty: t, fresh, assignable: true };
            cx_seq.insert(0, v.clone());
            newvars.push(v);
            names.push(name);
            inits.push(init);
        }
        let mut cx2 = cx.to_vec();
        for v in newvars {
            cx2.insert(0, v);
        }
        let body = self.expr(ty, &cx2, depth - 1);
        let binds: Vec<String> = names.iter().zip(inits.iter()).map(|(n, i)| format!("({} {})", n, i)).collect();
        match which {
            0 | 2 => {
                self.tag("let");
                format!("(let ({}) {})", binds.join(" "), body)
            }
            1 => {
                self.tag("let*");
                format!("(let* ({}) {})", binds.join(" "), body)
            }
            3 => {
                // letrec with a recursive helper
                self.tag("letrec");
                let f = self.fresh("r");
                let n0 = self.rng.range(0, 6);
                let step = self.expr(Ty::Int, cx, 0);
                let mut cx3 = cx.to_vec();
                cx3.insert(0, Var { name: format!("({} {})", f, n0), ty: Ty::Int, fresh: false, assignable: false });
                let body = self.expr(ty, &cx3, depth - 1);
                format!(
                    "(letrec (({f} (lambda (n) (if (<= n 0) {step} (+ 1 ({f} (- n 1))))))) {body})",
                    f = f,
                    step = step,
                    body = body
                )
            }
            _ => {
                // named let loop producing an Int, bound for the body
                self.tag("named-let");
                // the loop tag is in scope in the loop body only: half of the time it takes the name of an integer
                // variable of the enclosing scope, and the initial value of the counter is computed from that variable
                let outer: Vec<String> = cx
                    .iter()
                    .filter(|v| v.ty == Ty::Int && !v.name.contains('(') && !v.name.contains(' '))
                    .map(|v| v.name.clone())
                    .collect();
                let (lp, n0) = if !outer.is_empty() && self.rng.chance(1, 2) {
                    self.tag("named-let-shadowing-tag");
                    let x = self.rng.pick(&outer).clone();
                    (x.clone(), format!("(modulo (abs {}) 7)", x))
                } else {
                    (self.fresh("loop"), format!("{}", self.rng.range(0, 7)))
                };
                let acc0 = self.expr(Ty::Int, cx, 0);
                let v = self.fresh("v");
                let mut cx3 = cx.to_vec();
                cx3.insert(0, Var { name: v.clone(), ty: Ty::Int, fresh: false, assignable: true });
                let body = self.expr(ty, &cx3, depth - 1);
                format!(
                    "(let (({v} (let {lp} ((i {n0}) (acc {acc0})) (if (= i 0) acc ({lp} (- i 1) (+ acc i)))))) {body})",
                    v = v,
                    lp = lp,
                    n0 = n0,
                    acc0 = acc0,
                    body = body
                )
            }
        }
    }

    /// (define (setN a) ... (set! g (f a))): a procedure whose last body expression is an assignment
    /// whose value is a procedure call; it is called for effect only
    fn define_setter(&mut self) -> Option<String> {
        let targets: Vec<Var> = self.globals.iter().filter(|v| v.assignable && v.ty == Ty::Int).cloned().collect();
        if targets.is_empty() || self.funcs.is_empty() {
            return None;
        }
        let g = self.rng.pick(&targets).clone();
        let name = self.fresh("set");
        self.call_limit = self.funcs.len();
        let p = self.fresh("a");
        let cx = vec![Var { name: p.clone(), ty: Ty::Int, fresh: false, assignable: true }];
        let call = self.user_call(&cx, 2);
        self.call_limit = usize::MAX;
        self.setters.push(name.clone());
        self.tag("set!-in-tail-position");
        let pre = if self.rng.chance(1, 2) { format!("(set! {} (+ {} 1)) ", g.name, g.name) } else { String::new() };
        Some(format!("(define ({} {}) {}(set! {} {}))", name, p, pre, g.name, call))
    }

    /// an expression evaluated for effect
    fn effect(&mut self, cx: &[Var], depth: usize) -> String {
        if !self.setters.is_empty() && self.call_limit == usize::MAX && self.rng.chance(1, 4) {
            let s = self.rng.pick(&self.setters.clone()).clone();
            let a = self.expr(Ty::Int, cx, depth.min(1));
            return format!("({} {})", s, a);
        }
        let assignable: Vec<Var> = cx
            .iter()
            .chain(self.globals.iter())
            .filter(|v| v.assignable && matches!(v.ty, Ty::Int | Ty::Bool | Ty::Sym))
            .cloned()
            .collect();
        let k = self.rng.below(6);
        if self.macros && !assignable.is_empty() && self.rng.chance(1, 4) {
            let ints: Vec<Var> = assignable.iter().filter(|v| v.ty == Ty::Int).cloned().collect();
            if !ints.is_empty() {
                let v = self.rng.pick(&ints).clone();
                self.tag("user-macro");
                return if self.rng.chance(1, 2) { format!("(inc! {})", v.name) } else { format!("(inc! {} {})", v.name, self.int_lit()) };
            }
        }
        if k < 3 && !assignable.is_empty() {
            let v = self.rng.pick(&assignable).clone();
            let e = self.expr(v.ty, cx, depth);
            self.tag("set!");
            return format!("(set! {} {})", v.name, e);
        }
        if k == 3 {
            let e = self.expr(Ty::Int, cx, depth);
            self.tag("output");
            return format!("(display {})", e);
        }
        if k == 4 {
            let fresh: Vec<Var> = cx.iter().chain(self.globals.iter()).filter(|v| v.fresh && v.ty == Ty::Vec).cloned().collect();
            if !fresh.is_empty() {
                let v = self.rng.pick(&fresh).clone();
                let e = self.expr(Ty::Int, cx, depth);
                self.tag("vector-set!");
                return format!("(if (> (vector-length {v}) 0) (vector-set! {v} 0 {e}))", v = v.name, e = e);
            }
        }
        let e = self.expr(Ty::Sym, cx, depth);
        self.tag("output");
        format!("(write {})", e)
    }

    /// call of a user-defined procedure returning an Int
    fn user_call(&mut self, cx: &[Var], d: usize) -> String {
        let lim = self.call_limit.min(self.funcs.len());
        let f = self.funcs[self.rng.below(lim)].clone();
        let extra = if f.rest { self.rng.below(3) } else { 0 };
        let args: Vec<String> = (0..f.nargs + extra).map(|_| self.expr(Ty::Int, cx, d.min(1))).collect();
        self.tag(if f.rest { "call-variadic" } else { "call-user" });
        if self.rng.chance(1, 5) {
            self.tag("apply");
            format!("(apply {} (list {}))", f.name, args.join(" "))
        } else {
            format!("({} {})", f.name, args.join(" ")).replace(" )", ")")
        }
    }

    fn int_expr(&mut self, cx: &[Var], depth: usize) -> String {
        let d = depth - 1;
        match self.rng.below(25) {
            0 | 1 => format!("(+ {} {})", self.expr(Ty::Int, cx, d), self.expr(Ty::Int, cx, d)),
            2 => format!("(- {} {})", self.expr(Ty::Int, cx, d), self.expr(Ty::Int, cx, d)),
            3 => format!("(* {} {})", self.expr(Ty::Int, cx, 0), self.rng.range(-2, 3)),
            4 => format!("(quotient {} {})", self.expr(Ty::Int, cx, d), self.rng.pick(&[1, 2, 3, -2, 7])),
            5 => format!("(modulo {} {})", self.expr(Ty::Int, cx, d), self.rng.pick(&[2, 3, 5, -3])),
            6 => format!("(remainder {} {})", self.expr(Ty::Int, cx, d), self.rng.pick(&[2, 3, 5, -3])),
            7 => format!("(length {})", self.expr(Ty::List, cx, d)),
            8 => {
                let l = self.expr(Ty::List, cx, d);
                format!("(car (cons {} {}))", self.expr(Ty::Int, cx, d), l)
            }
            9 => {
                let f = self.expr(Ty::Fun, cx, d);
                format!("({} {})", f, self.expr(Ty::Int, cx, d))
            }
            10 => {
                self.tag("apply");
                let l = self.expr(Ty::List, cx, d);
                match self.rng.below(4) {
                    0 => format!("(apply + {})", l),
                    1 => format!("(apply + {} {} {})", self.expr(Ty::Int, cx, d), self.expr(Ty::Int, cx, d), l),
                    2 => {
                        // several leading arguments, a receiver that is sensitive to their order
                        self.tag("apply-leading-args");
                        let k = 2 + self.rng.below(3);
                        let lead: Vec<String> = (0..k).map(|_| self.expr(Ty::Int, cx, 0)).collect();
                        format!("(apply - {} '({}))", lead.join(" "), if self.rng.chance(1, 2) { "" } else { "1 2" })
                    }
                    _ => {
                        self.tag("apply-leading-args");
                        let k = 2 + self.rng.below(3);
                        let lead: Vec<String> = (0..k).map(|_| self.expr(Ty::Int, cx, 0)).collect();
                        format!("(car (apply list {} {}))", lead.join(" "), l)
                    }
                }
            }
            11 => {
                // call of a user function
                let lim = self.call_limit.min(self.funcs.len());
                if lim == 0 {
                    return format!("(abs {})", self.expr(Ty::Int, cx, d));
                }
                let f = self.funcs[self.rng.below(lim)].clone();
                let extra = if f.rest { self.rng.below(3) } else { 0 };
                let args: Vec<String> = (0..f.nargs + extra).map(|_| self.expr(Ty::Int, cx, d.min(1))).collect();
                self.tag(if f.rest { "call-variadic" } else { "call-user" });
                if self.rng.chance(1, 4) {
                    self.tag("apply");
                    format!("(apply {} (list {}))", f.name, args.join(" "))
                } else {
                    format!("({} {})", f.name, args.join(" "))
                }
            }
            12 => {
                self.tag("eval");
                let a = self.expr(Ty::Int, cx, 0);
                let b = self.expr(Ty::Int, cx, 0);
                match self.rng.below(7) {
                    // the datum given to eval goes through macro expansion like any program text
                    3 => {
                        self.tag("eval-derived-form");
                        format!("(eval (list 'let (list (list 'u {}) (list 'w {})) '(cond ((< u w) (- w u)) (else (- u w)))))", a, b)
                    }
                    4 => {
                        self.tag("eval-derived-form");
                        format!("(eval `(let* ((u ,{}) (w (+ u 1))) (if (and (> w u) (or #f #t)) (when #t (* u 2)) 0)))", a)
                    }
                    5 => {
                        self.tag("eval-derived-form");
                        format!("(eval `(do ((i 0 (+ i 1)) (s ,{} (+ s i))) ((= i 3) s)))", a)
                    }
                    0 => format!("(eval (list '+ {} {}))", a, b),
                    1 => format!("(eval `(* ,{} 2))", a),
                    _ => format!("((eval '(lambda (u w) (- u w))) {} {})", a, b),
                }
            }
            13 => {
                let v = self.expr(Ty::Vec, cx, d);
                format!("(vector-length {})", v)
            }
            14 => {
                let t = self.fresh("t");
                let v = self.expr(Ty::Vec, cx, d);
                format!("(let (({t} {v})) (if (> (vector-length {t}) 0) (vector-ref {t} 0) -1))", t = t, v = v)
            }
            15 => format!("(string-length {})", self.expr(Ty::Str, cx, d)),
            16 => format!("(char->integer {})", self.expr(Ty::Chr, cx, d)),
            17 => {
                // for-each accumulating into a fresh local
                self.tag("for-each");
                let acc = self.fresh("acc");
                let l = self.expr(Ty::List, cx, d);
                format!("(let (({acc} 0)) (for-each (lambda (e) (set! {acc} (+ {acc} e))) {l}) {acc})", acc = acc, l = l)
            }
            18 => format!("(max {} {})", self.expr(Ty::Int, cx, d), self.expr(Ty::Int, cx, d)),
            19 => format!("(min {} {})", self.expr(Ty::Int, cx, d), self.expr(Ty::Int, cx, d)),
            20 => {
                // counter closure: separate activations, shared location
                self.tag("closure-counter");
                let c = self.fresh("mk");
                let n = self.rng.range(1, 4);
                let calls: Vec<String> = (0..n).map(|_| "(c1)".to_string()).collect();
                format!(
                    "(let (({c} (lambda () (let ((n 0)) (lambda () (set! n (+ n 1)) n))))) (let ((c1 ({c})) (c2 ({c}))) (c2) (+ {calls})))",
                    c = c,
                    calls = calls.join(" ")
                )
            }
            21 => {
                // a variable whose only reference is the unquoted tail of a dotted template, inside a procedure
                // nested in the one that binds it
                self.tag("qq-dotted-tail");
                let t = self.fresh("t");
                let init = self.expr(Ty::Int, cx, d);
                match self.rng.below(5) {
                    3 => format!("(let (({t} {init})) ((lambda () (vector-ref `#(item ,{t}) 1))))", t = t, init = init),
                    4 => format!("(((lambda ({t}) (lambda (u) (vector-ref (car (cdr `(,u #(0 ,{t})))) 1))) {init}) 0)", t = t, init = init),
                    0 => format!("(let (({t} {init})) ((lambda () (cdr `(item . ,{t})))))", t = t, init = init),
                    1 => format!("(let (({t} {init})) (let ((k (lambda () `(1 item . ,{t})))) (cdr (cdr (k)))))", t = t, init = init),
                    _ => format!("(((lambda ({t}) (lambda (u) (cdr `(,u . ,{t})))) {init}) 0)", t = t, init = init),
                }
            }
            22 => {
                // an object inserted by unquote is that object, not a copy: a mutation through the original is seen
                // through the constructed list, and the other way round
                self.tag("qq-unquoted-object-identity");
                let p = self.fresh("p");
                let q = self.fresh("q");
                let v = self.expr(Ty::Int, cx, d.min(1));
                match self.rng.below(5) {
                    0 => format!("(let (({p} (list 1 2))) (let (({q} `(a ,{p} b))) (set-car! {p} {v}) (car (car (cdr {q})))))", p = p, q = q, v = v),
                    1 => format!("(let (({p} (list 3 4))) (let (({q} `(0 . ,{p}))) (set-car! {p} {v}) (car (cdr {q}))))", p = p, q = q, v = v),
                    2 => format!("(let (({q} ((lambda ({p}) `(,{p} ,{p})) (list 0)))) (set-car! (car {q}) {v}) (car (car (cdr {q}))))", p = p, q = q, v = v),
                    3 => format!("(let (({p} (list 1))) (let (({q} `#(0 ,{p}))) (set-car! {p} {v}) (car (vector-ref {q} 1))))", p = p, q = q, v = v),
                    _ => format!("(let (({p} (vector 1 2))) (let (({q} `(a (b ,{p})))) (vector-set! (car (cdr (car (cdr {q})))) 0 {v}) (vector-ref {p} 0)))", p = p, q = q, v = v),
                }
            }
            23 => {
                // the rest of the library vocabulary that marwood writes in Scheme (prelude.scm): c[ad][ad]r, the
                // mem*/ass* family, promises made by make-promise and delay-force, letrec*, unless, substring
                self.tag("library-vocabulary");
                let a = self.expr(Ty::Int, cx, d.min(1));
                let b = self.expr(Ty::Int, cx, 0);
                let l = self.expr(Ty::List, cx, d.min(1));
                match self.rng.below(16) {
                    0 => format!("(cadr (cons {a} (cons {b} {l})))", a = a, b = b, l = l),
                    1 => format!("(caar (list (list {a} {b}) {l}))", a = a, b = b, l = l),
                    2 => format!("(car (cdar (list (list {a} {b}) {l})))", a = a, b = b, l = l),
                    3 => format!("(length (cddr (cons {a} (cons {b} {l}))))", a = a, b = b, l = l),
                    // (make-promise obj) itself is left out: marwood binds that name to the two-argument constructor
                    // of the R7RS reference implementation, and the name is not among the forms C01 lists
                    4 => format!("(force (delay (force (delay {a}))))", a = a),
                    5 => format!("(let ((cnt 0)) (let ((p (delay (begin (set! cnt (+ cnt 1)) (+ cnt {a}))))) (+ (force p) (force p) cnt)))", a = a),
                    6 => format!("(force (delay-force (delay (+ {a} {b}))))", a = a, b = b),
                    7 => format!("(let ((p (delay (+ {a} 1)))) (+ (force p) (force p)))", a = a),
                    8 => format!("(cdr (assv (modulo {a} 3) '((0 . 10) (1 . 11) (2 . 12))))", a = a),
                    9 => format!("(let ((r (assq (if (even? {a}) 'b 'zz) '((a 1) (b 2) (c 3))))) (if r (cadr r) -1))", a = a),
                    10 => format!("(let ((r (assoc (list (modulo {a} 2)) '(((0) . 5) ((1) . 6))))) (if r (cdr r) -1))", a = a),
                    11 => format!("(length (or (memq (if (even? {a}) 'c 'q) '(a b c d e)) '()))", a = a),
                    12 => format!("(length (or (member (list (modulo {a} 3)) '((0) (1) (2) (3))) '()))", a = a),
                    13 => format!("(letrec* ((u {a}) (w (+ u 1)) (f (lambda (n) (if (= n 0) w (f (- n 1)))))) (* u (f 3)))", a = a),
                    14 => format!("(let ((n {a})) (unless (> n 1000) (set! n (+ n 1)) (set! n (* n 2))) (when (< n -1000) (set! n 0)) n)", a = a),
                    _ => format!("(string-length (substring \"hello world\" (modulo {a} 5) (+ 5 (modulo {b} 6))))", a = a, b = b),
                }
            }
            _ => self.leaf(Ty::Int, cx),
        }
    }

    fn bool_expr(&mut self, cx: &[Var], depth: usize) -> String {
        let d = depth - 1;
        match self.rng.below(14) {
            0 => format!("(< {} {})", self.expr(Ty::Int, cx, d), self.expr(Ty::Int, cx, d)),
            1 => format!("(= {} {})", self.expr(Ty::Int, cx, d), self.expr(Ty::Int, cx, d)),
            2 => format!("(>= {} {} {})", self.expr(Ty::Int, cx, d), self.expr(Ty::Int, cx, d), self.expr(Ty::Int, cx, d)),
            3 => format!("(not {})", self.expr(Ty::Bool, cx, d)),
            4 => format!("(null? {})", self.expr(Ty::List, cx, d)),
            5 => format!("(eq? {} {})", self.expr(Ty::Sym, cx, d), self.expr(Ty::Sym, cx, d)),
            6 => format!("(equal? {} {})", self.expr(Ty::List, cx, d), self.expr(Ty::List, cx, d)),
            7 => format!("(even? {})", self.expr(Ty::Int, cx, d)),
            8 => format!("(pair? {})", self.expr(Ty::List, cx, d)),
            9 => format!("(string=? {} {})", self.expr(Ty::Str, cx, d), self.expr(Ty::Str, cx, d)),
            10 => format!("(if (memv {} {}) #t #f)", self.expr(Ty::Int, cx, d), self.expr(Ty::List, cx, d)),
            11 => format!("(procedure? {})", self.expr(Ty::Fun, cx, d)),
            12 => format!("(zero? {})", self.expr(Ty::Int, cx, d)),
            _ => self.leaf(Ty::Bool, cx),
        }
    }

    fn qq_template(&mut self, cx: &[Var], depth: usize, level: usize) -> String {
        // a list template whose unquoted holes are Int expressions
        let n = 1 + self.rng.below(3);
        let mut items = vec![];
        for _ in 0..n {
            match self.rng.below(6) {
                0 => items.push(self.int_lit()),
                1 => items.push(self.sym_lit()),
                2 | 3 => items.push(format!(",{}", self.expr(Ty::Int, cx, depth))),
                4 if level < 1 => {
                    self.tag("qq-nested");
                    items.push(format!("`(n ,{} ,,{})", self.int_lit(), self.expr(Ty::Int, cx, depth)))
                }
                _ => items.push(format!("({} ,{})", self.sym_lit(), self.expr(Ty::Int, cx, depth))),
            }
        }
        format!("`({})", items.join(" "))
    }

    fn list_expr(&mut self, cx: &[Var], depth: usize) -> String {
        let d = depth - 1;
        match self.rng.below(12) {
            0 => {
                let n = self.rng.below(4);
                let items: Vec<String> = (0..n).map(|_| self.expr(Ty::Int, cx, d)).collect();
                format!("(list {})", items.join(" "))
            }
            1 => format!("(cons {} {})", self.expr(Ty::Int, cx, d), self.expr(Ty::List, cx, d)),
            2 => {
                self.tag("map");
                format!("(map {} {})", self.expr(Ty::Fun, cx, d), self.expr(Ty::List, cx, d))
            }
            3 => {
                self.tag("map");
                format!("(map + {} {})", self.expr(Ty::List, cx, d), self.expr(Ty::List, cx, d))
            }
            4 => format!("(append {} {})", self.expr(Ty::List, cx, d), self.expr(Ty::List, cx, d)),
            5 => format!("(reverse {})", self.expr(Ty::List, cx, d)),
            6 => {
                // quasiquote producing a list of ints
                self.tag("quasiquote");
                let n = 1 + self.rng.below(3);
                let items: Vec<String> = (0..n)
                    .map(|_| if self.rng.chance(1, 2) { self.int_lit() } else { format!(",{}", self.expr(Ty::Int, cx, d)) })
                    .collect();
                format!("`({})", items.join(" "))
            }
            7 => {
                let t = self.fresh("t");
                let l = self.expr(Ty::List, cx, d);
                format!("(let (({t} {l})) (if (pair? {t}) (cdr {t}) {t}))", t = t, l = l)
            }
            8 => format!("(vector->list {})", self.expr(Ty::Vec, cx, d)),
            9 => {
                // variadic lambda collecting its arguments
                self.tag("lambda-rest");
                let n = self.rng.below(4);
                let items: Vec<String> = (0..n).map(|_| self.expr(Ty::Int, cx, d)).collect();
                if self.rng.chance(1, 2) {
                    format!("((lambda args args) {})", items.join(" "))
                } else {
                    format!("((lambda (h . t) (cons h t)) {} {})", self.expr(Ty::Int, cx, d), items.join(" "))
                }
            }
            10 => {
                // mutation of a fresh list
                self.tag("set-car!");
                let p = self.fresh("p");
                format!(
                    "(let (({p} (list {} {}))) (set-car! {p} {}) (set-cdr! (cdr {p}) (list {})) {p})",
                    self.int_lit(),
                    self.int_lit(),
                    self.expr(Ty::Int, cx, d),
                    self.int_lit(),
                    p = p
                )
            }
            _ => self.leaf(Ty::List, cx),
        }
    }

    fn sym_expr(&mut self, cx: &[Var], depth: usize) -> String {
        let d = depth - 1;
        match self.rng.below(5) {
            0 => {
                self.tag("string->symbol");
                format!("(string->symbol {})", self.expr(Ty::Str, cx, d))
            }
            1 => {
                self.tag("string->symbol");
                format!("(string->symbol (string-append \"s-\" (symbol->string {})))", self.expr(Ty::Sym, cx, d))
            }
            2 => format!("(car (list {} 1))", self.expr(Ty::Sym, cx, d)),
            3 => {
                // case compares in the sense of eqv?: a freshly built compound key selects no clause whose datum merely
                // has the same structure; atoms of every kind do select theirs
                self.tag("case-compound-key");
                let i = self.expr(Ty::Int, cx, d.min(1));
                match self.rng.below(5) {
                    0 => format!("(case (list {i} 2) ((({i0} 2) (1 2)) 'hit) ((5) 'five) (else 'miss))", i = i, i0 = self.rng.range(0, 3)),
                    1 => format!("(case (vector {i}) ((#(0) #(1) #(2)) 'hit) (else 'miss))", i = i),
                    2 => format!("(case (cons 'a {i}) (((a . 0) (a . 1) (a . 2)) 'hit) (else 'miss))", i = i),
                    3 => format!("(case (car (list (string->symbol \"a\") {i})) (((a)) 'list) ((\"a\" #\\a) 'other) ((b a) 'sym) (else 'miss))", i = i),
                    _ => format!("(case (if (< {i} 1) #\\a 'a) ((#\\a) 'char) ((a) 'sym) ((\"a\") 'str) (else 'miss))", i = i),
                }
            }
            _ => self.leaf(Ty::Sym, cx),
        }
    }

    fn str_expr(&mut self, cx: &[Var], depth: usize) -> String {
        let d = depth - 1;
        match self.rng.below(6) {
            0 => format!("(string-append {} {})", self.expr(Ty::Str, cx, d), self.expr(Ty::Str, cx, d)),
            1 => format!("(symbol->string {})", self.expr(Ty::Sym, cx, d)),
            2 => format!("(string {} {})", self.expr(Ty::Chr, cx, d), self.expr(Ty::Chr, cx, d)),
            3 => format!("(list->string (list {}))", self.expr(Ty::Chr, cx, d)),
            4 => format!("(make-string {} {})", self.rng.below(4), self.expr(Ty::Chr, cx, d)),
            _ => self.leaf(Ty::Str, cx),
        }
    }

    fn chr_expr(&mut self, cx: &[Var], depth: usize) -> String {
        let d = depth - 1;
        match self.rng.below(4) {
            0 => format!("(integer->char (+ 65 (modulo {} 26)))", self.expr(Ty::Int, cx, d)),
            1 => {
                let t = self.fresh("t");
                format!("(let (({t} {})) (if (> (string-length {t}) 0) (string-ref {t} 0) #\\-))", self.expr(Ty::Str, cx, d), t = t)
            }
            _ => self.leaf(Ty::Chr, cx),
        }
    }

    fn vec_expr(&mut self, cx: &[Var], depth: usize) -> String {
        let d = depth - 1;
        match self.rng.below(6) {
            0 => {
                let n = self.rng.below(4);
                let items: Vec<String> = (0..n).map(|_| self.expr(Ty::Int, cx, d)).collect();
                format!("(vector {})", items.join(" "))
            }
            1 => format!("(make-vector {} {})", self.rng.below(4), self.expr(Ty::Int, cx, d)),
            2 => format!("(list->vector {})", self.expr(Ty::List, cx, d)),
            3 => {
                self.tag("qq-vector");
                let n = 1 + self.rng.below(3);
                let items: Vec<String> = (0..n)
                    .map(|_| if self.rng.chance(1, 2) { self.int_lit() } else { format!(",{}", self.expr(Ty::Int, cx, d)) })
                    .collect();
                format!("`#({})", items.join(" "))
            }
            _ => self.leaf(Ty::Vec, cx),
        }
    }

    fn fun_expr(&mut self, cx: &[Var], depth: usize) -> String {
        let d = depth - 1;
        match self.rng.below(6) {
            0 | 1 => {
                let p = self.fresh("a");
                let mut cx2 = cx.to_vec();
                cx2.insert(0, Var { name: p.clone(), ty: Ty::Int, fresh: false, assignable: true });
                let body = self.expr(Ty::Int, &cx2, d);
                format!("(lambda ({}) {})", p, body)
            }
            2 => {
                // compose
                let f = self.expr(Ty::Fun, cx, d);
                let g = self.expr(Ty::Fun, cx, d);
                self.tag("higher-order");
                format!("((lambda (f g) (lambda (y) (f (g y)))) {} {})", f, g)
            }
            3 => {
                // closure over a local: adder
                let n = self.expr(Ty::Int, cx, d);
                self.tag("higher-order");
                format!("((lambda (n) (lambda (y) (+ y n))) {})", n)
            }
            4 => {
                // closure returning through a quasiquote template inside
                let p = self.fresh("a");
                self.tag("qq-in-closure");
                format!("(lambda ({p}) (car (cdr `(tag ,(+ {p} 1)))))", p = p)
            }
            _ => self.leaf(Ty::Fun, cx),
        }
    }

    // ------------------------------------------------------------------ top-level forms

    fn define_var(&mut self) -> String {
        let tys = [Ty::Int, Ty::Int, Ty::List, Ty::Bool, Ty::Sym, Ty::Fun, Ty::Vec, Ty::Str];
        let t = *self.rng.pick(&tys);
        let name = self.fresh("g");
        let e = self.expr(t, &[], 3);
        let fresh = t == Ty::Vec;
        self.globals.push(Var { name: name.clone(), ty: t, fresh, assignable: true });
        format!("(define {} {})", name, e)
    }

    fn define_func(&mut self, redefine: Option<Func>) -> String {
        let (name, nargs, rest) = match redefine {
            Some(f) => (f.name, f.nargs, f.rest),
            None => (self.fresh("f"), self.rng.below(4), self.rng.chance(1, 4)),
        };
        // the body may call only functions defined before this one (also after a redefinition)
        self.call_limit = self.funcs.iter().position(|g| g.name == name).unwrap_or(self.funcs.len());
        let mut cx = vec![];
        let mut params = vec![];
        for _ in 0..nargs {
            let p = self.fresh("a");
            cx.push(Var { name: p.clone(), ty: Ty::Int, fresh: false, assignable: true });
            params.push(p);
        }
        let mut restname = None;
        if rest {
            let r = self.fresh("r");
            cx.push(Var { name: r.clone(), ty: Ty::List, fresh: false, assignable: true });
            restname = Some(r);
        }
        // optional internal definitions
        let mut defs = String::new();
        if self.rng.chance(1, 3) {
            let d = self.fresh("d");
            let init = self.expr(Ty::Int, &cx, 2);
            defs.push_str(&format!("(define {} {}) ", d, init));
            cx.insert(0, Var { name: d, ty: Ty::Int, fresh: false, assignable: true });
            self.tag("internal-define");
        }
        if self.rng.chance(1, 5) {
            let h = self.fresh("h");
            let hp = self.fresh("a");
            let mut cx2 = cx.clone();
            cx2.insert(0, Var { name: hp.clone(), ty: Ty::Int, fresh: false, assignable: true });
            let hb = self.expr(Ty::Int, &cx2, 2);
            defs.push_str(&format!("(define ({} {}) {}) ", h, hp, hb));
            // h is usable as a Fun variable
            cx.insert(0, Var { name: h, ty: Ty::Fun, fresh: false, assignable: false });
            self.tag("internal-define");
        }
        let body = self.expr(Ty::Int, &cx, 3);
        let f = Func { name: name.clone(), nargs, rest };
        if !self.funcs.iter().any(|g| g.name == name) {
            self.funcs.push(f);
        }
        self.call_limit = usize::MAX;
        let formals = match (&restname, params.is_empty()) {
            (Some(r), true) => format!(". {}", r),
            (Some(r), false) => format!("{} . {}", params.join(" "), r),
            (None, _) => params.join(" "),
        };
        if self.rng.chance(1, 3) {
            let lf = match (&restname, params.is_empty()) {
                (Some(r), true) => r.clone(),
                _ => format!("({})", formals),
            };
            format!("(define {} (lambda {} {}{}))", name, lf, defs, body)
        } else if formals.is_empty() {
            format!("(define ({}) {}{})", name, defs, body)
        } else {
            format!("(define ({} {}) {}{})", name, formals, defs, body)
        }
    }

    /// redefinition (define or set!) of a standard procedure that marwood's prelude does not use itself;
    /// code compiled earlier must see the new binding (late binding of globals)
    fn redefine_builtin(&mut self) -> String {
        self.tag("redefine-builtin");
        let unary = ["abs", "vector-length", "string-length", "char->integer"];
        let binary = ["*", "max", "min", "quotient", "remainder", "modulo"];
        if self.rng.chance(1, 2) {
            let b = self.rng.pick(&binary).to_string();
            self.redefined.push(b.clone());
            match self.rng.below(3) {
                0 => format!("(define ({} x y) (+ x y 1000))", b),
                1 => format!("(set! {} +)", b),
                _ => format!("(define {} (lambda (x y) (- x y)))", b),
            }
        } else {
            let b = self.rng.pick(&unary[..1]).to_string();
            self.redefined.push(b.clone());
            match self.rng.below(2) {
                0 => format!("(define ({} x) (+ x 500))", b),
                _ => format!("(set! {} (lambda (x) (- 0 x)))", b),
            }
        }
    }

    fn syntax_error_form(&mut self) -> String {
        self.tag("inject-syntax-error");
        self.failing = true;
        self.rng
            .pick(&["(if)", "(lambda (x))", "(let ((x 1 2)) x)", "(set! 5 1)", "()", "(define)", "(quote)", "(let ((x)) x)", "(lambda)"])
            .to_string()
    }

    /// One session: returns the form texts.
    pub fn session(&mut self, nforms: usize, fail_per_form: u32) -> Vec<String> {
        let mut forms = vec![];
        if self.rng.chance(1, 3) {
            // user macros: each defined once, as a top-level form, before any use; templates need no renaming
            self.macros = true;
            forms.push("(define-syntax my-if (syntax-rules () ((_ c t e) (cond (c t) (else e)))))".to_string());
            forms.push("(define-syntax my-list (syntax-rules () ((_ x ...) (list x ...))))".to_string());
            forms.push("(define-syntax my-let1 (syntax-rules () ((_ (n v) body) ((lambda (n) body) v))))".to_string());
            forms.push("(define-syntax inc! (syntax-rules () ((_ v) (set! v (+ v 1))) ((_ v n) (set! v (+ v n)))))".to_string());
        }
        if self.rng.chance(1, 6) {
            // non-tail recursion deep enough to make a fresh VM enlarge its control stack (256 slots, doubling), in a
            // user procedure and in the prelude's map: the result must not depend on what the VM ran before
            self.tag("deep-recursion");
            let d = if self.rng.chance(1, 16) { 400 } else { *self.rng.pick(&[50usize, 50, 64, 64, 100, 100, 128, 200]) };
            forms.push("(define (zdeep-count n) (if (= n 0) 0 (+ 1 (zdeep-count (- n 1)))))".to_string());
            forms.push(format!("(zdeep-count {})", d));
            forms.push("(define (zdeep-build n) (if (= n 0) '() (cons n (zdeep-build (- n 1)))))".to_string());
            forms.push(format!("(apply + (map (lambda (x) (* x 2)) (zdeep-build {})))", d + d / 2));
        }
        for i in 0..nforms {
            self.failing = false;
            let inject = self.rng.chance(fail_per_form, 100);
            self.fail_rate = if inject { 120 } else { 0 };
            let k = self.rng.below(100);
            let f = if inject && self.rng.chance(1, 6) {
                self.syntax_error_form()
            } else if i == 0 || k < 20 {
                self.define_func(None)
            } else if k < 35 {
                self.define_var()
            } else if k < 43 && !self.funcs.is_empty() {
                // redefinition, later calls go through earlier-compiled callers
                self.tag("redefinition");
                let f = self.rng.pick(&self.funcs.clone()).clone();
                self.define_func(Some(f))
            } else if k < 47 {
                // a procedure compiled while the builtin is in place, the redefinition, and the call afterwards
                let binary = ["*", "max", "min", "quotient", "remainder", "modulo"];
                let op = self.rng.pick(&binary).to_string();
                let h = self.fresh("usesb");
                let (x, y) = (self.rng.range(1, 9), self.rng.range(1, 9));
                forms.push(format!("(define ({} a b) (list ({} a b) (apply {} (list a b)) (map {} (list a) (list b))))", h, op, op, op));
                forms.push(format!("({} {} {})", h, x, y));
                let mut r = self.redefine_builtin();
                if !r.contains(&format!("{} ", op)) && !r.contains(&format!("({} ", op)) {
                    r = format!("(define ({} x y) (+ x y 1000))", op);
                    self.redefined.push(op.clone());
                }
                forms.push(r);
                format!("({} {} {})", h, x, y)
            } else if k < 52 {
                match self.define_setter() {
                    Some(f) => {
                        // define the setter, call it for effect, then observe the assigned global
                        forms.push(f);
                        let s = self.setters.last().unwrap().clone();
                        let a = self.expr(Ty::Int, &[], 1);
                        forms.push(format!("({} {})", s, a));
                        let ints: Vec<Var> = self.globals.iter().filter(|v| v.ty == Ty::Int).cloned().collect();
                        let names: Vec<String> = ints.iter().map(|v| v.name.clone()).collect();
                        format!("(list {})", names.join(" "))
                    }
                    None => self.effect(&[], 3),
                }
            } else if k < 57 {
                self.fail_rate = self.fail_rate.min(60);
                self.effect(&[], 3)
            } else {
                let tys = [Ty::Int, Ty::Int, Ty::Int, Ty::List, Ty::List, Ty::Bool, Ty::Sym, Ty::Str, Ty::Vec, Ty::Chr];
                let t = *self.rng.pick(&tys);
                if t == Ty::List && self.rng.chance(1, 4) {
                    self.tag("quasiquote");
                    self.qq_template(&[], 2, 0)
                } else {
                    self.expr(t, &[], 4)
                }
            };
            self.fail_rate = 0;
            forms.push(f);
        }
        forms
    }
}
