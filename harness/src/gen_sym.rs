//! C18: symbols are interned.  Two symbols produced by any pair of routes (literal, quoted
//! datum, string->symbol, eval) are eq? exactly when their names are equal, whether or not
//! collections ran between their creations (the session runs under the C03 schedules);
//! symbol->string / string->symbol round trips are the identity on names.
//! Names are built from code points with list->string, so no string-literal syntax is involved.
use crate::rng::Rng;

const PALETTE: &[&str] = &[
    "", " ", "a b", "(", ")", "a(b", "\"", "\\", "a\\b", "\\x41;", "\\x41", "x41;", "1abc", "123", "-5", "+", "-", "...", ".",
    "a.b", "#foo", "#t", "->x", "-x", "+x", ".a", "x@y", "+5x", "1abc", "12foo", "7zip", "aA", "semi;colon", "end;", "'", "`", ",", ",@", ";c", "|", "a|b", "|a b|", "λ", "Λ", "日本", "😀", "\n", "\t", "A", "a",
    "x\u{0}y", "\u{feff}", "\u{a0}", "\u{2028}", "e\u{301}", "\u{e9}", "hello", "Hello", "hello ", "lambda", "if", "quote",
    "define", "else", "foo", "foo-bar!", "<=?", "a->b", "\u{10ffff}", "\u{ffff}", "\r\n", "a;b", "[x]", "{y}",
];

fn ident_like(s: &str) -> bool {
    !s.is_empty()
        && s.chars().all(|c| c.is_ascii_alphanumeric() || "!$%&*/:<=>?^_~+-.@".contains(c))
        && !s.chars().next().unwrap().is_ascii_digit()
        && !["+", "-", "...", ".", "lambda", "if", "quote", "define", "else", "-5"].contains(&s)
        && !s.starts_with('.')
        && !s.starts_with('+')
        && !s.starts_with('-')
        && !s.contains('@')
}

const PECULIAR: &[&str] = &["+", "-", "...", "->x", "-x", "+x", ".a", "a.b", "x@y", "+5x"];

/// A literal spelling of the symbol named `name` (None: the name has no literal spelling).  Characters that
/// cannot stand in an identifier are written as inline hex escapes; `over` additionally escapes one character
/// that needs no escape (every spelling of a name is the same symbol); `raw_digit` leaves a digit-initial name
/// unescaped when the reader takes it for a symbol.
fn spell(name: &str, over: bool, raw_digit: bool) -> Option<String> {
    if name.is_empty() {
        return None;
    }
    if PECULIAR.contains(&name) && !over {
        return Some(name.to_string());
    }
    let cs: Vec<char> = name.chars().collect();
    let plain = |i: usize, c: char| -> bool {
        c.is_ascii_alphabetic()
            || "!$%&*/:<=>?^_~".contains(c)
            || (i > 0 && (c.is_ascii_digit() || "+-.@".contains(c)))
            || (c as u32 > 0xff && c.is_alphabetic())
    };
    if raw_digit {
        let ok = cs[0].is_ascii_digit()
            && cs.iter().all(|c| c.is_ascii_alphanumeric() || "!$%&*:<=>?^_~".contains(*c))
            && cs.iter().any(|c| "ghijklmnopqrstuvwyz".contains(*c));
        return if ok { Some(name.to_string()) } else { None };
    }
    let over_at = if over { cs.iter().enumerate().position(|(i, c)| plain(i, *c)) } else { None };
    if over && over_at.is_none() {
        return None;
    }
    let mut out = String::new();
    for (i, c) in cs.iter().enumerate() {
        if plain(i, *c) && over_at != Some(i) {
            out.push(*c);
        } else {
            out.push_str(&format!("\\x{:x};", *c as u32));
        }
    }
    Some(out)
}

fn mkstr(s: &str) -> String {
    let cps: Vec<String> = s.chars().map(|c| (c as u32).to_string()).collect();
    format!("(list->string (map integer->char '({})))", cps.join(" "))
}

fn pick_name(rng: &mut Rng) -> String {
    match rng.below(10) {
        0 => {
            // random code points from all of Unicode
            let n = 1 + rng.below(4);
            (0..n)
                .map(|_| loop {
                    let c = match rng.below(4) {
                        0 => rng.range(0, 127) as u32,
                        1 => rng.range(128, 0x7ff) as u32,
                        2 => rng.range(0x800, 0xffff) as u32,
                        _ => rng.range(0x10000, 0x10ffff) as u32,
                    };
                    if let Some(ch) = char::from_u32(c) {
                        break ch;
                    }
                })
                .collect()
        }
        1 => {
            if rng.chance(1, 4) {
                "x".repeat(1 + rng.below(300))
            } else {
                "y".repeat(1 + rng.below(12))
            }
        }
        _ => rng.pick(PALETTE).to_string(),
    }
}

/// a route producing a symbol named `name`; `strvar` holds a string with that name
fn route(rng: &mut Rng, name: &str, strvar: &str, tags: &mut Vec<String>) -> (String, &'static str) {
    // a literal spelling, if the name has one: plain, with the needed escapes, with one escape more than
    // needed, or (digit-initial names the reader takes for symbols) without any
    let lit: Option<String> = match rng.below(8) {
        0 => spell(name, true, false).map(|x| {
            tags.push("spelling:over-escaped".into());
            x
        }),
        1 => spell(name, false, true).map(|x| {
            tags.push("digit-initial-literal".into());
            x
        }),
        _ => spell(name, false, false),
    };
    let lit = match lit {
        Some(l) => Some(l),
        None => spell(name, false, false),
    };
    let k = rng.below(if lit.is_some() { 8 } else { 3 });
    if k >= 3 && lit.as_ref().map(|l| l.contains('\\')).unwrap_or(false) {
        tags.push("spelling:escaped".into());
    }
    let l = lit.unwrap_or_default();
    match k {
        0 => (format!("(string->symbol {})", strvar), "string->symbol"),
        1 => (format!("(string->symbol (string-copy {}))", strvar), "string->symbol-copy"),
        2 => {
            let cs: Vec<char> = name.chars().collect();
            let h = cs.len() / 2;
            let a: String = cs[..h].iter().collect();
            let b: String = cs[h..].iter().collect();
            (format!("(string->symbol (string-append {} {}))", mkstr(&a), mkstr(&b)), "string->symbol-append")
        }
        3 => (format!("'{}", l), "literal"),
        4 => (format!("(car (cdr '(zz {} yy)))", l), "quoted-datum"),
        5 => (format!("(eval '(quote {}))", l), "eval"),
        7 => (format!("(mk-quoted {})", l), "macro-output"),
        _ => (format!("(car (eval (list 'quote (list (string->symbol {})))))", strvar), "eval-constructed"),
    }
}

pub fn session(rng: &mut Rng) -> (Vec<String>, Vec<String>) {
    let mut tags = vec![];
    let mut f = vec![
        "(define (junk n) (if (= n 0) '() (cons (make-string 3 #\\j) (junk (- n 1)))))".to_string(),
        // a macro whose output is a quoted symbol taken from its use
        "(define-syntax mk-quoted (syntax-rules () ((_ s) (car (list 's)))))".to_string(),
    ];
    let nb = 1 + rng.below(3);
    for b in 0..nb {
        if tags.iter().any(|t| t == "digit-initial-literal") {
            break; // such a session holds one block only (its known finding must not cover other blocks)
        }
        let u = b + 1;
        let n1 = pick_name(rng);
        let n2 = match rng.below(12) {
            0..=5 => n1.clone(),
            // a different name that spells the written (escaped) form of the first: the two are distinct symbols
            6 | 7 => match spell(&n1, false, false) {
                Some(w) if w != n1 => {
                    tags.push("name2:written-form-of-name1".into());
                    w
                }
                _ => pick_name(rng),
            },
            _ => pick_name(rng),
        };
        f.push(format!("(define s{u}a {})", mkstr(&n1), u = u));
        f.push(format!("(define s{u}b {})", mkstr(&n2), u = u));
        let (mut r1, t1) = route(rng, &n1, &format!("s{}a", u), &mut tags);
        let (mut r2, t2) = route(rng, &n2, &format!("s{}b", u), &mut tags);
        // a symbol stays the same object when it travels: through a continuation invoked in operand position,
        // through a procedure call, through storage in a vector
        for r in [&mut r1, &mut r2] {
            match rng.below(12) {
                0 => {
                    tags.push("via:continuation-operand".into());
                    *r = format!("(call/cc (lambda (k) (if (k {}) 1 2)))", r);
                }
                1 => {
                    tags.push("via:continuation-tail".into());
                    *r = format!("(call/cc (lambda (k) (k {})))", r);
                }
                2 => {
                    tags.push("via:apply".into());
                    *r = format!("(apply (lambda (a . r) (car r)) 0 (list {}))", r);
                }
                3 => {
                    tags.push("via:vector".into());
                    *r = format!("(vector-ref (vector 0 {}) 1)", r);
                }
                4 => {
                    // a one-element vector is the only holder of the symbol while garbage is made
                    tags.push("via:box".into());
                    *r = format!("(let ((bx (vector {}))) (junk 3) (vector-ref bx 0))", r);
                }
                5 => {
                    tags.push("via:pair".into());
                    *r = format!("(let ((bx (cons {} '()))) (junk 3) (car bx))", r);
                }
                _ => {}
            }
        }
        tags.push(format!("route:{}x{}", t1, t2));
        let within_one_form = rng.chance(1, 3);
        let drop_first = rng.chance(1, 3);
        if within_one_form {
            f.push(format!("(let* ((y1 {}) (g (junk 4)) (y2 {})) (list (eq? y1 y2) (symbol? y1) (string=? (symbol->string y1) s{u}a) (string=? (symbol->string y2) s{u}b) (length g)))", r1, r2, u = u));
            tags.push("within-one-form".into());
        } else {
            if drop_first {
                // the first production is dropped before the others are made
                tags.push("drop-first".into());
                f.push(format!("(symbol? {})", r1));
                f.push("(length (junk 6))".into());
            }
            f.push(format!("(define y{u}a {})", r1, u = u));
            f.push("(length (junk 5))".into());
            f.push(format!("(define y{u}b {})", r2, u = u));
            f.push(format!("(eq? y{u}a y{u}b)", u = u));
            f.push(format!("(list (symbol? y{u}a) (string=? (symbol->string y{u}a) s{u}a) (string=? (symbol->string y{u}b) s{u}b))", u = u));
            f.push(format!("(eq? (string->symbol (symbol->string y{u}a)) y{u}a)", u = u));
            f.push(format!("(equal? (string->list (symbol->string y{u}b)) (string->list s{u}b))", u = u));
            f.push(format!("(list (string-length (symbol->string y{u}a)) (string-length s{u}a))", u = u));
            f.push(format!("(eq? y{u}a (string->symbol s{u}a))", u = u));
            f.push(format!("(if (memq y{u}b (list 'q y{u}a 'r)) 'member 'not-member)", u = u));
        }
    }
    (f, tags)
}
