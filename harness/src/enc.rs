//! Projection of marwood data (`Cell`) to the JSON encoding read by the TLA+ specs.
//! Program data carry interned symbol ids (per-session table, fixed names first);
//! observed values carry symbol names as code-point arrays.
use crate::names::FIXED;
use marwood::cell::Cell;
use marwood::number::Number;
use serde_json::{json, Value};
use std::collections::HashMap;

pub const INT_LIMIT: i64 = 1 << 30;

pub struct SymTab {
    pub names: Vec<String>,
    map: HashMap<String, usize>,
}

impl SymTab {
    pub fn new() -> SymTab {
        let mut st = SymTab { names: vec![], map: HashMap::new() };
        for n in FIXED {
            st.id(n);
        }
        st
    }
    pub fn id(&mut self, name: &str) -> usize {
        if let Some(i) = self.map.get(name) {
            return *i;
        }
        self.names.push(name.to_string());
        let i = self.names.len();
        self.map.insert(name.to_string(), i);
        i
    }
    pub fn to_json(&self) -> Value {
        Value::Array(self.names.iter().map(|n| cps(n)).collect())
    }
}

pub fn cps(s: &str) -> Value {
    Value::Array(s.chars().map(|c| json!(c as u32)).collect())
}

fn num(n: &Number) -> Value {
    match n {
        Number::Fixnum(i) if *i <= INT_LIMIT && *i >= -INT_LIMIT => json!({"t":"int","v":i}),
        other => json!({"t":"num","s":format!("{}", other)}),
    }
}

fn list_parts(c: &Cell) -> (Vec<&Cell>, &Cell) {
    let mut items = vec![];
    let mut rest = c;
    while let Cell::Pair(car, cdr) = rest {
        items.push(car.as_ref());
        rest = cdr.as_ref();
    }
    (items, rest)
}

/// Program datum: symbols as ids of `st`.
pub fn prog_datum(c: &Cell, st: &mut SymTab) -> Value {
    match c {
        Cell::Bool(b) => json!({"t":"bool","v":b}),
        Cell::Char(ch) => json!({"t":"char","v":*ch as u32}),
        Cell::Nil => json!({"t":"nil"}),
        Cell::Number(n) => num(n),
        Cell::String(s) => json!({"t":"str","v":cps(s)}),
        // a symbol is its name: marwood keeps the written form (inline hex escapes), the name is the decoded text
        Cell::Symbol(s) => json!({"t":"sym","v":st.id(&symbol_name(s))}),
        Cell::Pair(_, _) => {
            let (items, tail) = list_parts(c);
            let v: Vec<Value> = items.iter().map(|i| prog_datum(i, st)).collect();
            json!({"t":"list","v":v,"tl":prog_datum(tail, st)})
        }
        Cell::Vector(v) => {
            let v: Vec<Value> = v.iter().map(|i| prog_datum(i, st)).collect();
            json!({"t":"vec","v":v})
        }
        Cell::Continuation => json!({"t":"kont"}),
        Cell::Macro => json!({"t":"macro"}),
        Cell::Procedure(_) => json!({"t":"proc"}),
        Cell::Undefined => json!({"t":"undef"}),
        Cell::Void => json!({"t":"void"}),
    }
}

/// marwood keeps a symbol's text in written form: characters that cannot appear in an
/// identifier are held as `\x<hex>;`.  The name of the symbol is the text with those
/// escapes decoded (anything that is not a well-formed escape is kept literally).
pub fn symbol_name(s: &str) -> String {
    let cs: Vec<char> = s.chars().collect();
    let mut out = String::new();
    let mut i = 0;
    while i < cs.len() {
        if cs[i] == '\\' && i + 1 < cs.len() && cs[i + 1] == 'x' {
            let mut j = i + 2;
            let mut v: u32 = 0;
            let mut nd = 0;
            while j < cs.len() && cs[j].is_ascii_hexdigit() && nd < 8 {
                v = v.wrapping_mul(16).wrapping_add(cs[j].to_digit(16).unwrap());
                j += 1;
                nd += 1;
            }
            if nd > 0 && j < cs.len() && cs[j] == ';' {
                if let Some(ch) = char::from_u32(v) {
                    out.push(ch);
                    i = j + 1;
                    continue;
                }
            }
        }
        out.push(cs[i]);
        i += 1;
    }
    out
}

/// Observed value: symbols by name.
pub fn obs_datum(c: &Cell) -> Value {
    match c {
        Cell::Bool(b) => json!({"t":"bool","v":b}),
        Cell::Char(ch) => json!({"t":"char","v":*ch as u32}),
        Cell::Nil => json!({"t":"nil"}),
        Cell::Number(n) => num(n),
        Cell::String(s) => json!({"t":"str","v":cps(s)}),
        Cell::Symbol(s) => json!({"t":"sym","n":cps(&symbol_name(s))}),
        Cell::Pair(_, _) => {
            let (items, tail) = list_parts(c);
            let v: Vec<Value> = items.iter().map(|i| obs_datum(i)).collect();
            json!({"t":"list","v":v,"tl":obs_datum(tail)})
        }
        Cell::Vector(v) => {
            let v: Vec<Value> = v.iter().map(obs_datum).collect();
            json!({"t":"vec","v":v})
        }
        Cell::Continuation => json!({"t":"kont"}),
        Cell::Macro => json!({"t":"macro"}),
        Cell::Procedure(_) => json!({"t":"proc"}),
        Cell::Undefined => json!({"t":"undef"}),
        Cell::Void => json!({"t":"void"}),
    }
}

/// Parse a text holding any number of data into cells (generator texts are ours and valid).
pub fn parse_all(text: &str) -> Result<Vec<Cell>, String> {
    let mut out = vec![];
    let mut rest: Option<&str> = Some(text);
    while let Some(t) = rest {
        if t.trim().is_empty() {
            break;
        }
        match marwood::parse::parse_text(t) {
            Ok((cell, r)) => {
                out.push(cell);
                rest = r;
            }
            Err(e) => return Err(format!("{:?} in {:?}", e, t)),
        }
    }
    Ok(out)
}
