//! Replay of TLC-generated behaviours of the pool state machines (spec/Store.tla for C14,
//! spec/Strings.tla for C15) on a real `Vm` (specification -> implementation direction).
//! Each REPLAY line is one behaviour: a sequence of operations with arguments (pool slots,
//! integers, literals), the outcome the specification requires and the rendering of every
//! pool object after the step.  Pool slots are the globals o1..oN of the VM.
use crate::enc::obs_datum;
use crate::sess::{Outcome, RunCfg, Session};
use serde_json::{json, Value};
use std::io::{BufRead, Write};

fn sym_name(id: i64) -> String {
    match id {
        1001 => "a".into(),
        1002 => "b".into(),
        1003 => "c".into(),
        n => format!("s{}", n),
    }
}

/// Scheme text constructing the value of a (scalar) specification datum.
fn lit_text(d: &Value) -> String {
    match d["t"].as_str().unwrap_or("") {
        "int" => format!("{}", d["v"].as_i64().unwrap_or(0)),
        "bool" => (if d["v"].as_bool().unwrap_or(false) { "#t" } else { "#f" }).into(),
        "nil" => "'()".into(),
        "char" => format!("(integer->char {})", d["v"].as_i64().unwrap_or(0)),
        "sym" => format!("'{}", sym_name(d["v"].as_i64().unwrap_or(0))),
        _ => "'unsupported-literal".into(),
    }
}

/// exact integers beyond the 32-bit integers of TLC (spec/Strings.tla B(i))
const BIG: [&str; 5] = ["4294967393", "-4294967199", "1099511627873", "9223372036854775905", "4295095350"];

fn arg_text(a: &Value, lits: &[Value]) -> String {
    let n = a["n"].as_i64().unwrap_or(0);
    match a["k"].as_str().unwrap_or("") {
        "p" => format!("o{}", n),
        "int" => format!("{}", n),
        "chr" => format!("(integer->char {})", n),
        "rep" => ["(/ 4 2)", "(- 100000000000000000000 99999999999999999998)", "(/ 3 3)"].get((n - 1) as usize).map(|s| s.to_string()).unwrap_or("'bad-rep".into()),
        "big" => BIG.get((n - 1) as usize).map(|s| s.to_string()).unwrap_or("'bad-big".into()),
        "lit" => lits.get((n - 1) as usize).map(lit_text).unwrap_or("'bad-literal".into()),
        _ => "'bad-argument".into(),
    }
}

fn op_text(op: &str, args: &[String]) -> String {
    let a = |i: usize| args.get(i).cloned().unwrap_or_default();
    match op {
        "map-id" => format!("(map (lambda (e) e) {})", a(0)),
        "for-each-collect" => format!("(let ((acc '())) (for-each (lambda (e) (set! acc (cons e acc))) {}) acc)", a(0)),
        "map-cons" => format!("(map cons {} {})", a(0), a(1)),
        "for-each-cons" => format!("(let ((acc '())) (for-each (lambda (a b) (set! acc (cons (cons a b) acc))) {} {}) acc)", a(0), a(1)),
        "vector-copy0" => format!("(vector-copy {})", a(0)),
        "string-copy0" => format!("(string-copy {})", a(0)),
        _ => format!("({} {})", op, args.join(" ")).replace(" )", ")"),
    }
}

/// expected datum (specification) against observed datum (implementation)
pub fn matches(e: &Value, g: &Value) -> bool {
    let et = e["t"].as_str().unwrap_or("");
    if et == "void" || et == "opaque" || et == "undef" {
        return true;
    }
    let gt = g["t"].as_str().unwrap_or("");
    if et == "proc" {
        return gt == "proc" || gt == "kont";
    }
    if et != gt {
        return false;
    }
    match et {
        "int" | "bool" | "char" | "str" => e["v"] == g["v"],
        "nil" => true,
        "sym" => {
            let name = sym_name(e["v"].as_i64().unwrap_or(-1));
            let cps: Vec<Value> = name.chars().map(|c| json!(c as u32)).collect();
            g["n"] == Value::Array(cps)
        }
        "list" => {
            let (ev, gv) = (e["v"].as_array(), g["v"].as_array());
            match (ev, gv) {
                (Some(ev), Some(gv)) => ev.len() == gv.len() && ev.iter().zip(gv).all(|(x, y)| matches(x, y)) && matches(&e["tl"], &g["tl"]),
                _ => false,
            }
        }
        "vec" => {
            let (ev, gv) = (e["v"].as_array(), g["v"].as_array());
            match (ev, gv) {
                (Some(ev), Some(gv)) => ev.len() == gv.len() && ev.iter().zip(gv).all(|(x, y)| matches(x, y)),
                _ => false,
            }
        }
        _ => false,
    }
}

/// global-environment slot of each pool variable o1..oN
fn pool_slots(vm: &marwood::vm::Vm, npool: usize) -> Vec<Option<usize>> {
    let ge = vm.verif_globenv();
    let st = vm.verif_heap().verif_symbol_table();
    let nslots = ge.iter_slots().len();
    (1..=npool)
        .map(|k| {
            let sym = *st.get(&format!("o{}", k))?;
            (0..nslots).find(|sl| ge.get_symbol(*sl) == Some(sym))
        })
        .collect()
}

#[derive(Clone)]
enum Ident {
    Pair(usize),
    Payload(usize, bool), // address of the shared vector / string payload, non-empty
    None,
}

fn ident_of(cells: &[marwood::vm::vcell::VCell], v: &marwood::vm::vcell::VCell) -> Ident {
    use marwood::vm::vcell::VCell;
    match v {
        VCell::Ptr(p) => match cells.get(*p) {
            Some(VCell::Pair(_, _)) => Ident::Pair(*p),
            Some(VCell::Vector(rc)) => Ident::Payload(std::rc::Rc::as_ptr(rc) as *const u8 as usize, rc.len() > 0),
            Some(VCell::String(rc)) => Ident::Payload(std::rc::Rc::as_ptr(rc) as *const u8 as usize, !rc.borrow().is_empty()),
            _ => Ident::None,
        },
        VCell::Vector(rc) => Ident::Payload(std::rc::Rc::as_ptr(rc) as *const u8 as usize, rc.len() > 0),
        VCell::String(rc) => Ident::Payload(std::rc::Rc::as_ptr(rc) as *const u8 as usize, !rc.borrow().is_empty()),
        // a pair held by value is a copy: it is no object at all
        _ => Ident::None,
    }
}

fn same(a: &Ident, b: &Ident) -> bool {
    match (a, b) {
        (Ident::Pair(x), Ident::Pair(y)) => x == y,
        (Ident::Payload(x, ne), Ident::Payload(y, _)) => x == y && *ne,
        _ => false,
    }
}

/// m[i][j]: pool object j is the very object stored as an element of the list / vector i
fn elem_matrix(vm: &marwood::vm::Vm, slots: &[Option<usize>]) -> Vec<Vec<bool>> {
    use marwood::vm::vcell::VCell;
    let cells = vm.verif_heap().verif_cells();
    let ge = vm.verif_globenv();
    let vals: Vec<VCell> = slots.iter().map(|s| s.map(|sl| ge.get_slot(sl)).unwrap_or(VCell::Undefined)).collect();
    let ids: Vec<Ident> = vals.iter().map(|v| ident_of(cells, v)).collect();
    let n = vals.len();
    let mut m = vec![vec![false; n]; n];
    for i in 0..n {
        let mut elems: Vec<Ident> = vec![];
        let top = match &vals[i] {
            VCell::Ptr(p) => cells.get(*p).cloned().unwrap_or(VCell::Undefined),
            o => o.clone(),
        };
        match &top {
            VCell::Vector(rc) => {
                for q in 0..rc.len() {
                    if let Some(e) = rc.get(q) {
                        elems.push(ident_of(cells, &e));
                    }
                }
            }
            VCell::Pair(_, _) => {
                let mut cur = vals[i].clone();
                let mut fuel = 100_000;
                loop {
                    fuel -= 1;
                    match (ident_of(cells, &cur), fuel > 0) {
                        (Ident::Pair(p), true) => match cells.get(p) {
                            Some(VCell::Pair(a, d)) => {
                                elems.push(ident_of(cells, &VCell::Ptr(*a)));
                                cur = VCell::Ptr(*d);
                            }
                            _ => break,
                        },
                        _ => break,
                    }
                }
            }
            _ => {}
        }
        for j in 0..n {
            m[i][j] = elems.iter().any(|c| same(c, &ids[j]));
        }
    }
    m
}

/// m[i][j]: pool object j is the very object i, or the object reached from the list i by following cdrs
fn share_matrix(vm: &marwood::vm::Vm, slots: &[Option<usize>]) -> Vec<Vec<bool>> {
    use marwood::vm::vcell::VCell;
    let cells = vm.verif_heap().verif_cells();
    let ge = vm.verif_globenv();
    let vals: Vec<VCell> = slots.iter().map(|s| s.map(|sl| ge.get_slot(sl)).unwrap_or(VCell::Undefined)).collect();
    let ids: Vec<Ident> = vals.iter().map(|v| ident_of(cells, v)).collect();
    let n = vals.len();
    let mut m = vec![vec![false; n]; n];
    for i in 0..n {
        // the chain of objects reached from i by cdr
        let mut chain: Vec<Ident> = vec![];
        let mut cur = vals[i].clone();
        let mut fuel = 100_000;
        loop {
            let id = ident_of(cells, &cur);
            chain.push(id.clone());
            fuel -= 1;
            match (&id, fuel > 0) {
                (Ident::Pair(p), true) => match cells.get(*p) {
                    Some(VCell::Pair(_, d)) => cur = VCell::Ptr(*d),
                    _ => break,
                },
                _ => break,
            }
        }
        for j in 0..n {
            m[i][j] = chain.iter().any(|c| same(c, &ids[j]));
        }
    }
    m
}

fn parse_line(line: &str) -> Option<Value> {
    let s = line.trim();
    if s.starts_with('{') {
        return serde_json::from_str(s).ok();
    }
    // raw TLC line: <<"REPLAY", "escaped json">>
    let s = s.strip_prefix("<<\"REPLAY\", ")?.strip_suffix(">>")?;
    let inner: String = serde_json::from_str(s).ok()?;
    serde_json::from_str(&inner).ok()
}

pub struct Stats {
    pub behaviours: u64,
    pub ops: u64,
    pub state_checks: u64,
    pub mismatches: u64,
    pub by_op: std::collections::BTreeMap<String, u64>,
    pub outcomes: std::collections::BTreeMap<String, u64>,
}

/// Replay one behaviour; returns mismatch records.
fn replay_one(b: &Value, npool: usize, stats: &mut Stats) -> Vec<Value> {
    let cfg = RunCfg::plain();
    let mut s = Session::new(&cfg);
    s.install_sched(&cfg.sched);
    let mut out = vec![];
    let lits: Vec<Value> = b["lits"].as_array().cloned().unwrap_or_default();
    let eval = |s: &mut Session, text: &str| -> Outcome {
        match crate::enc::parse_all(text) {
            Ok(c) if c.len() == 1 => s.eval(&c[0], &cfg).0,
            _ => Outcome::Panic(format!("harness: unreadable text {}", text)),
        }
    };
    for k in 1..=npool {
        let _ = eval(&mut s, &format!("(define o{} '())", k));
    }
    // object identity is read from the VM itself (pool slot -> heap cell / shared payload): eq? cannot be used,
    // the pinned suite fixes (eq? (cons a b) (cons a b)) => #t
    let slots = pool_slots(&s.vm, npool);
    let ops = b["ops"].as_array().cloned().unwrap_or_default();
    let mut done_texts = vec![];
    for (i, o) in ops.iter().enumerate() {
        let op = o["op"].as_str().unwrap_or("");
        let args: Vec<String> = o["a"].as_array().map(|a| a.iter().map(|x| arg_text(x, &lits)).collect()).unwrap_or_default();
        let text = op_text(op, &args);
        done_texts.push(text.clone());
        stats.ops += 1;
        *stats.by_op.entry(op.to_string()).or_insert(0) += 1;
        // the operation sits in operand position behind a marker: a procedure that pops too few or too many of its
        // arguments shifts the operands of the enclosing application
        let mut r = eval(&mut s, &format!("(define zz-wrapped (cons 'zz-mark {}))", text));
        if let Outcome::Ok(_) = r {
            let mark_ok = matches!(eval(&mut s, "(car zz-wrapped)"), Outcome::Ok(marwood::cell::Cell::Symbol(ref m)) if m == "zz-mark");
            if !mark_ok {
                out.push(json!({"step": i + 1, "op": op, "text": text, "what": "the operation shifted the operands of the enclosing application (it did not pop exactly its arguments)",
                                "exp": o["exp"], "got": null, "history": done_texts}));
                stats.mismatches += 1;
                return out;
            }
            r = eval(&mut s, "(define zz-result (cdr zz-wrapped))");
        }
        let exp = &o["exp"];
        let er = exp["r"].as_str().unwrap_or("");
        *stats.outcomes.entry(er.to_string()).or_insert(0) += 1;
        let mut bad: Option<(String, Value)> = None;
        match (&r, er) {
            (Outcome::Panic(m), _) => bad = Some(("panic".into(), json!(m))),
            (Outcome::Timeout, _) | (Outcome::StackLimit, _) => bad = Some(("no termination".into(), json!(null))),
            (Outcome::Ok(_), "err") => {
                let v = match eval(&mut s, "zz-result") {
                    Outcome::Ok(c) => obs_datum(&c),
                    _ => json!(null),
                };
                bad = Some(("a value where an error is required".into(), v));
            }
            (Outcome::Err(e), "ok") => bad = Some(("an error where a value is required".into(), json!(format!("{:?}", e)))),
            (Outcome::Ok(_), "ok") => {
                match eval(&mut s, "zz-result") {
                    Outcome::Ok(c) => {
                        let g = obs_datum(&c);
                        if !matches(&exp["v"], &g) {
                            bad = Some(("wrong result".into(), g));
                        }
                    }
                    _ => bad = Some(("result cannot be read back".into(), json!(null))),
                }
                let dst = o["dst"].as_i64().unwrap_or(0);
                if dst > 0 {
                    let _ = eval(&mut s, &format!("(define o{} zz-result)", dst));
                }
            }
            _ => {}
        }
        if s.dead {
            if bad.is_none() {
                bad = Some(("implementation died".into(), json!(null)));
            }
        } else if bad.is_none() && s.vm.verif_stack().get_sp() != 0 {
            // a procedure implemented in Rust pops exactly its arguments: between evaluations the stack is empty
            bad = Some(("the evaluation leaves values on the stack".into(), json!(s.vm.verif_stack().get_sp())));
        }
        if let Some((what, got)) = bad {
            out.push(json!({"step": i + 1, "op": op, "text": text, "what": what, "exp": exp, "got": got, "history": done_texts}));
            stats.mismatches += 1;
            return out;
        }
        if er == "any" {
            return out; // unspecified outcome: the behaviour ends here
        }
        // the rendering of every pool object after the step
        if let Some(st) = o["state"].as_array() {
            for (k, e) in st.iter().enumerate() {
                stats.state_checks += 1;
                match eval(&mut s, &format!("o{}", k + 1)) {
                    Outcome::Ok(c) => {
                        let g = obs_datum(&c);
                        if !matches(e, &g) {
                            out.push(json!({"step": i + 1, "op": op, "text": text, "what": format!("pool object o{} differs after the step", k + 1),
                                            "exp": e, "got": g, "history": done_texts}));
                            stats.mismatches += 1;
                            return out;
                        }
                    }
                    _ => {
                        out.push(json!({"step": i + 1, "op": op, "text": text, "what": format!("pool object o{} cannot be read", k + 1),
                                        "exp": e, "got": null, "history": done_texts}));
                        stats.mismatches += 1;
                        return out;
                    }
                }
            }
        }
        // which pool objects are stored in which (element identity)
        if let Some(sh) = o["elem"].as_array() {
            stats.state_checks += 1;
            let got_m: Vec<Vec<bool>> = elem_matrix(&s.vm, &slots);
            let exp_m: Vec<Vec<bool>> = sh.iter().map(|r| r.as_array().map(|x| x.iter().map(|b| b.as_bool().unwrap_or(false)).collect()).unwrap_or_default()).collect();
            if got_m != exp_m {
                out.push(json!({"step": i + 1, "op": op, "text": text,
                                "what": "element identity: which pool objects are the very objects stored in which list or vector differs after the step",
                                "exp": exp_m, "got": got_m, "history": done_texts}));
                stats.mismatches += 1;
                return out;
            }
        }
        // which pool objects are the same object / share a tail
        if let Some(sh) = o["share"].as_array() {
            stats.state_checks += 1;
            let got_m: Vec<Vec<bool>> = share_matrix(&s.vm, &slots);
            let exp_m: Vec<Vec<bool>> = sh.iter().map(|r| r.as_array().map(|x| x.iter().map(|b| b.as_bool().unwrap_or(false)).collect()).unwrap_or_default()).collect();
            if got_m != exp_m {
                out.push(json!({"step": i + 1, "op": op, "text": text,
                                "what": "object identity: which pool objects are the same object or share a tail differs after the step",
                                "exp": exp_m, "got": got_m, "history": done_texts}));
                stats.mismatches += 1;
                return out;
            }
        }
    }
    out
}

/// `mwverif pool replay in=<file|-> out=<file> n=<pool size>`
pub fn main(args: &[String]) -> Result<(), String> {
    let m = crate::gen_cmd::kv(args);
    let inp = m.get("in").cloned().unwrap_or("-".into());
    let out = m.get("out").cloned().ok_or("out=<file> required")?;
    let npool: usize = crate::gen_cmd::get(&m, "n", 4);
    let reader: Box<dyn BufRead> = if inp == "-" {
        Box::new(std::io::BufReader::new(std::io::stdin()))
    } else {
        Box::new(std::io::BufReader::new(std::fs::File::open(&inp).map_err(|e| e.to_string())?))
    };
    let mut f = std::io::BufWriter::new(std::fs::File::create(&out).map_err(|e| e.to_string())?);
    let mut stats = Stats { behaviours: 0, ops: 0, state_checks: 0, mismatches: 0, by_op: Default::default(), outcomes: Default::default() };
    let mut samples = vec![];
    for line in reader.lines() {
        let line = line.map_err(|e| e.to_string())?;
        if !(line.starts_with("<<\"REPLAY\"") || line.starts_with('{')) {
            continue;
        }
        let b = match parse_line(&line) {
            Some(b) => b,
            None => return Err(format!("unreadable REPLAY line: {}", &line[..line.len().min(200)])),
        };
        stats.behaviours += 1;
        if samples.len() < 3 && stats.behaviours % 97 == 1 {
            let texts: Vec<String> = b["ops"]
                .as_array()
                .map(|ops| {
                    ops.iter()
                        .map(|o| {
                            let lits: Vec<Value> = b["lits"].as_array().cloned().unwrap_or_default();
                            let a: Vec<String> = o["a"].as_array().map(|a| a.iter().map(|x| arg_text(x, &lits)).collect()).unwrap_or_default();
                            op_text(o["op"].as_str().unwrap_or(""), &a)
                        })
                        .collect()
                })
                .unwrap_or_default();
            samples.push(json!(texts));
        }
        for mm in replay_one(&b, npool, &mut stats) {
            let mut mm = mm;
            mm["variant"] = b["variant"].clone();
            writeln!(f, "{}", json!({"mismatch": mm})).map_err(|e| e.to_string())?;
        }
    }
    writeln!(
        f,
        "{}",
        json!({"summary": {"behaviours": stats.behaviours, "ops": stats.ops, "state_checks": stats.state_checks,
                           "mismatches": stats.mismatches, "by_op": stats.by_op, "outcomes": stats.outcomes, "samples": samples}})
    )
    .map_err(|e| e.to_string())?;
    Ok(())
}
