//! Heap snapshots for the collector checks (C03 structural half, C12, C18 intern table).
//! The projection of a raw cell to its out-edges is written here, from the meaning of the
//! cell kinds, independently of heap.rs's marking code: it is the harness's own notion of
//! "what this cell refers to".
use marwood::vm::continuation::Continuation;
use marwood::vm::gc::State;
use marwood::vm::lambda::Lambda;
use marwood::vm::vcell::VCell;
use marwood::vm::Vm;
use serde_json::{json, Value};

const NOPTR: usize = usize::MAX;

fn push(out: &mut Vec<usize>, p: usize) {
    if p != NOPTR {
        out.push(p);
    }
}

fn lambda_edges(l: &Lambda, out: &mut Vec<usize>) {
    for c in &l.bc {
        value_edges(c, out);
    }
    for a in &l.args {
        value_edges(a, out);
    }
    for (sym, _) in l.envmap.get_map() {
        value_edges(sym, out);
    }
}

fn continuation_edges(c: &Continuation, out: &mut Vec<usize>) {
    for v in c.stack().iter() {
        value_edges(v, out);
    }
    push(out, c.ip().0);
    push(out, c.ep());
}

/// Heap cells referred to by a value (as found in a heap cell, stack slot, register,
/// environment slot, vector element or bytecode operand).
pub fn value_edges(v: &VCell, out: &mut Vec<usize>) {
    match v {
        VCell::Ptr(p) => push(out, *p),
        VCell::Pair(a, d) => {
            push(out, *a);
            push(out, *d);
        }
        VCell::Closure(l, e) => {
            push(out, *l);
            push(out, *e);
        }
        VCell::Lambda(l) => lambda_edges(l, out),
        VCell::Continuation(c) => continuation_edges(c, out),
        VCell::Vector(vec) => {
            for i in 0..vec.len() {
                if let Some(e) = vec.get(i) {
                    value_edges(&e, out);
                }
            }
        }
        VCell::LexicalEnv(env) => {
            for i in 0..env.slot_len() {
                value_edges(&env.get(i), out);
            }
        }
        VCell::LexicalEnvPtr(p, _) => push(out, *p),
        VCell::EnvironmentPointer(p) => push(out, *p),
        VCell::InstructionPointer(l, _) => push(out, *l),
        _ => {}
    }
}

fn kind(v: &VCell) -> &'static str {
    match v {
        VCell::Bool(_) => "bool",
        VCell::Char(_) => "char",
        VCell::Nil => "nil",
        VCell::Number(_) => "number",
        VCell::Pair(_, _) => "pair",
        VCell::Symbol(_) => "symbol",
        VCell::String(_) => "string",
        VCell::Vector(_) => "vector",
        VCell::Undefined => "undefined",
        VCell::Void => "void",
        VCell::Continuation(_) => "continuation",
        VCell::Closure(_, _) => "closure",
        VCell::Lambda(_) => "lambda",
        VCell::LexicalEnv(_) => "env",
        VCell::Macro(_) => "macro",
        VCell::BuiltInProc(_) => "builtin",
        VCell::Ptr(_) => "ptr",
        _ => "internal",
    }
}

fn fnv(h: &mut u32, s: &str) {
    for b in s.bytes() {
        *h ^= b as u32;
        *h = h.wrapping_mul(16777619);
    }
}

/// A shallow content digest (31 bit) of a cell: changes iff the cell's own content changes.
fn digest(v: &VCell, edges: &[usize]) -> u32 {
    let mut h: u32 = 2166136261;
    fnv(&mut h, kind(v));
    match v {
        VCell::Bool(b) => fnv(&mut h, if *b { "t" } else { "f" }),
        VCell::Char(c) => fnv(&mut h, &format!("{}", *c as u32)),
        VCell::Number(n) => fnv(&mut h, &format!("{}", n)),
        VCell::Symbol(s) => fnv(&mut h, s),
        VCell::String(s) => fnv(&mut h, &s.borrow()),
        VCell::Vector(vec) => {
            for i in 0..vec.len() {
                if let Some(e) = vec.get(i) {
                    fnv(&mut h, &format!("{};", e));
                }
            }
        }
        VCell::LexicalEnv(env) => {
            for i in 0..env.slot_len() {
                fnv(&mut h, &format!("{};", env.get(i)));
            }
        }
        VCell::Lambda(l) => fnv(&mut h, &format!("{}:{}", l.bc.len(), l.args.len())),
        VCell::Continuation(c) => fnv(&mut h, &format!("{}:{}:{}", c.stack().get_sp(), c.ip().1, c.bp())),
        _ => {}
    }
    for e in edges {
        fnv(&mut h, &format!("{},", e));
    }
    h & 0x7fff_ffff
}

/// The root set as run_gc should see it: global binding symbols and slot values, the stack up
/// to sp, acc, the running lambda and the environment pointer.
pub fn roots(vm: &Vm) -> Vec<usize> {
    let mut out = vec![];
    let g = vm.verif_globenv();
    for b in g.iter_bindings() {
        push(&mut out, *b);
    }
    for s in g.iter_slots() {
        value_edges(s, &mut out);
    }
    let st = vm.verif_stack();
    for (i, v) in st.iter().enumerate() {
        if i > st.get_sp() {
            break;
        }
        value_edges(v, &mut out);
    }
    value_edges(vm.verif_acc(), &mut out);
    push(&mut out, vm.verif_ip().0);
    push(&mut out, vm.verif_ep());
    out.sort_unstable();
    out.dedup();
    out
}

/// Snapshot of the heap: every non-free cell with collector state, kind, digest and out-edges;
/// the free list; the intern table; the roots; capacity.
pub fn snapshot(vm: &Vm) -> Value {
    snapshot_x(vm, true)
}

fn name_hash(s: &str) -> u32 {
    let mut h: u32 = 2166136261;
    fnv(&mut h, s);
    h & 0x7fff_ffff
}

/// full = false: without the out-edges (enough for the post-sweep side).
/// Dense encoding, indexed by cell number: st (0 free, 1 allocated, 2 used/marked, 3 outside the
/// collector map), dig (content digest, 0 for free cells), out (out-edges); syms lists the
/// symbol cells with the hash of their name.
pub fn snapshot_x(vm: &Vm, full: bool) -> Value {
    let heap = vm.verif_heap();
    let cells = heap.verif_cells();
    let cap = cells.len();
    let mut st = Vec::with_capacity(cap);
    let mut dig = Vec::with_capacity(cap);
    let mut out: Vec<Value> = Vec::with_capacity(if full { cap } else { 0 });
    let mut syms = vec![];
    let mut kinds: std::collections::BTreeMap<&'static str, usize> = std::collections::BTreeMap::new();
    let mut ncells = 0;
    for (i, c) in cells.iter().enumerate() {
        let stn = match heap.verif_cell_state(i) {
            Some(State::Free) => 0,
            Some(State::Allocated) => 1,
            Some(State::Used) => 2,
            None => 3,
        };
        st.push(stn);
        if stn == 0 {
            dig.push(0);
            if full {
                out.push(json!([]));
            }
            continue;
        }
        ncells += 1;
        let mut e = vec![];
        value_edges(c, &mut e);
        let e: Vec<usize> = e.into_iter().filter(|p| *p < cap).collect();
        dig.push(digest(c, &e) | 1);
        *kinds.entry(kind(c)).or_insert(0) += 1;
        if full {
            out.push(json!(e));
        }
        if let VCell::Symbol(s) = c {
            syms.push(json!({"i": i, "nh": name_hash(s)}));
        }
    }
    let mut symtab: Vec<(String, usize)> = heap.verif_symbol_table().iter().map(|(k, v)| (k.clone(), *v)).collect();
    symtab.sort();
    let symtab: Vec<Value> = symtab.iter().map(|(k, v)| json!({"nh": name_hash(k), "i": v})).collect();
    let r: Vec<usize> = roots(vm).into_iter().filter(|p| *p < cap).collect();
    let mut j = json!({
        "st": st,
        "dig": dig,
        "syms": syms,
        "free": free_ranges(heap.verif_free_list()),
        "symtab": symtab,
        "roots": r,
        "cap": cap,
        "used": heap.used_size(),
        "ncells": ncells,
        "kinds": kinds,
    });
    if full {
        j["out"] = json!(out);
    }
    j
}

/// The free list as its number of entries and the maximal runs [first, last] of the distinct
/// indices it holds (the list itself has thousands of entries).
fn free_ranges(list: &[usize]) -> Value {
    let mut v: Vec<usize> = list.to_vec();
    v.sort_unstable();
    v.dedup();
    let mut ranges: Vec<Value> = vec![];
    let mut i = 0;
    while i < v.len() {
        let mut j = i;
        while j + 1 < v.len() && v[j + 1] == v[j] + 1 {
            j += 1;
        }
        ranges.push(json!([v[i], v[j]]));
        i = j + 1;
    }
    json!({"n": list.len(), "ranges": ranges})
}
