//! C06: replay of TLC-generated call descriptors (spec/Builtins.tla) on a real VM, and totality
//! of the text entry points.
//!   mwverif builtins names out=<file>          the global procedures of a fresh VM (input of the spec)
//!   mwverif builtins run in=<lines> out=<file> from=<k>
//!       executes call k, k+1, ... ; before each call a line "S <k>" is written and flushed, after it the
//!       result line, so that a crash or hang of the process identifies the call that caused it
//!   mwverif builtins texts seed= count= out=   random texts through scan / parse / eval_text / sliced eval
use crate::gen_cmd::{get, kv};
use crate::rng::Rng;
use crate::sess::{outcome_json, Outcome, RunCfg, Session};
use marwood::cell::Cell;
use marwood::number::Number;
use serde_json::{json, Value};
use std::io::{BufRead, Write};
use std::panic::{catch_unwind, AssertUnwindSafe};

/// Scheme text (or a quoted cell) for each palette entry, in the order of Builtins.tla
fn palette_forms() -> Vec<Result<String, Cell>> {
    let q = |n: Number| -> Result<String, Cell> { Err(Cell::Number(n)) };
    vec![
        Ok("'()".into()),
        Ok("(list 1)".into()),
        Ok("(let ((t (list 1 2))) (list t t))".into()),
        Ok("(cons 1 2)".into()),
        Ok("(let ((l (list 1 2 3))) (set-cdr! (cdr (cdr l)) l) l)".into()),
        Ok("(vector)".into()),
        Ok("(vector 1 2 3)".into()),
        Ok("(let ((v (vector 1 2))) (vector-set! v 1 v) v)".into()),
        Ok("(make-string 0 #\\a)".into()),
        Ok("(list->string (map integer->char '(97 241 128512 133 155 7 92 34)))".into()),
        Ok("#\\a".into()),
        Ok("(integer->char 128512)".into()),
        Ok("0".into()),
        Ok("-1".into()),
        Ok("2147483648".into()),
        Ok("-9223372036854775808".into()),
        Ok("9223372036854775807".into()),
        Ok("(expt 2 200)".into()),
        Ok("1/2".into()),
        Ok("-7/3".into()),
        q(Number::Float(f64::INFINITY)),
        q(Number::Float(f64::NAN)),
        q(Number::Float(-0.0)),
        q(Number::Float(1.5)),
        Ok("'some-symbol".into()),
        Ok("(lambda (x) x)".into()),
        Ok("car".into()),
        Ok("(call/cc (lambda (k) k))".into()),
        Ok("let".into()),
        Ok("(if #f #f)".into()),
        Ok("100000".into()),
        Ok("#t".into()),
        Ok("(- 1/2 1/2)".into()),
        Ok("(- (expt 2 64) (expt 2 64))".into()),
        Ok("(list 'quote car)".into()),
        Ok("(list let (call/cc (lambda (k) k)) (lambda (x) x))".into()),
        Ok("(vector 1 car)".into()),
        Ok("(integer->char 1636)".into()),
        Ok("2".into()),
        Ok("16".into()),
        Ok("(- (- (expt 2 64) (expt 2 64)) 1)".into()),
        Ok("(make-string 2 #\\a)".into()),
    ]
}

fn define_palette(s: &mut Session, cfg: &RunCfg) -> bool {
    for (i, f) in palette_forms().into_iter().enumerate() {
        let cell = match f {
            Ok(text) => match crate::enc::parse_all(&format!("(define zp{} {})", i + 1, text)) {
                Ok(c) => c[0].clone(),
                Err(_) => return false,
            },
            Err(c) => Cell::new_list(vec![
                Cell::new_symbol("define"),
                Cell::new_symbol(&format!("zp{}", i + 1)),
                Cell::new_list(vec![Cell::new_symbol("quote"), c]),
            ]),
        };
        match s.eval(&cell, cfg).0 {
            Outcome::Ok(_) => {}
            _ => return false,
        }
    }
    true
}

fn fresh(cfg: &RunCfg) -> Session {
    let mut s = Session::new(cfg);
    s.install_sched(&cfg.sched);
    s.instr_limit.set(3_000_000);
    define_palette(&mut s, cfg);
    s
}

fn mutates(name: &str) -> bool {
    name.contains('!') || matches!(name, "apply" | "map" | "for-each" | "call/cc" | "call-with-current-continuation" | "eval" | "force" | "any?" | "map1")
}

pub fn main(args: &[String]) -> Result<(), String> {
    if args.is_empty() {
        return Err("builtins names|run|texts ...".into());
    }
    let m = kv(&args[1..]);
    let out = m.get("out").cloned().ok_or("out=<file> required")?;
    let cfg = RunCfg::plain();
    match args[0].as_str() {
        "names" => {
            let mut s = Session::new(&cfg);
            s.install_sched(&cfg.sched);
            let mut names: Vec<String> = s.vm.global_symbols().iter().map(|x| x.to_string()).collect();
            names.sort();
            let mut procs = vec![];
            for n in names {
                // keep the names bound to procedures; names that cannot be written as an identifier are skipped
                if let Ok(c) = crate::enc::parse_all(&format!("(procedure? {})", n)) {
                    if c.len() == 1 {
                        if let Outcome::Ok(Cell::Bool(true)) = s.eval(&c[0], &cfg).0 {
                            procs.push(n);
                        }
                    }
                }
            }
            std::fs::write(&out, json!({"names": procs}).to_string() + "\n").map_err(|e| e.to_string())?;
            Ok(())
        }
        "run" => {
            let inp = m.get("in").cloned().ok_or("in=<file> required")?;
            let from: usize = get(&m, "from", 0);
            let f = std::fs::File::open(&inp).map_err(|e| e.to_string())?;
            let mut o = std::fs::OpenOptions::new().create(true).append(true).open(&out).map_err(|e| e.to_string())?;
            let mut s = fresh(&cfg);
            for (k, line) in std::io::BufReader::new(f).lines().enumerate() {
                if k < from {
                    continue;
                }
                let line = line.map_err(|e| e.to_string())?;
                let c: Value = serde_json::from_str(&line).map_err(|e| e.to_string())?;
                let name = c["name"].as_str().unwrap_or("");
                let a: Vec<String> = c["a"].as_array().map(|a| a.iter().map(|x| format!("zp{}", x.as_i64().unwrap_or(0))).collect()).unwrap_or_default();
                let text = format!("({} {})", name, a.join(" ")).replace(" )", ")");
                writeln!(o, "S {}", k).map_err(|e| e.to_string())?;
                o.flush().map_err(|e| e.to_string())?;
                let cell = crate::enc::parse_all(&format!("(cons 'zz-mark {})", text)).map_err(|e| format!("unreadable call {}: {}", text, e))?;
                let (oc, _) = s.eval(&cell[0], &cfg);
                let mut shifted = false;
                let oc = match oc {
                    Outcome::Ok(Cell::Pair(car, cdr)) => {
                        shifted = !matches!(car.as_ref(), Cell::Symbol(m) if m == "zz-mark");
                        Outcome::Ok(*cdr)
                    }
                    // not a pair: the call invoked a continuation of the palette and the evaluation ended elsewhere
                    Outcome::Ok(_) => oc,
                    other => other,
                };
                let mut j = outcome_json(&oc);
                if shifted {
                    j["operands_shifted"] = json!(true);
                }
                // a value must be convertible to text as well
                if let Outcome::Ok(v) = &oc {
                    if catch_unwind(AssertUnwindSafe(|| format!("{:#}", v))).is_err() {
                        j["render_panic"] = json!(true);
                    }
                }
                let class = match &oc {
                    Outcome::Ok(_) => "ok",
                    Outcome::Err(_) => "err",
                    Outcome::Panic(_) => "panic",
                    _ => "timeout",
                };
                let mut rebuilt = false;
                if s.dead {
                    s = fresh(&cfg);
                    rebuilt = true;
                }
                // the same VM accepts further input: nothing of the call is left on the stack, and a probe evaluates
                let sp_left = if rebuilt { 0 } else { s.vm.verif_stack().get_sp() };
                let probe = crate::enc::parse_all("(car (cons (+ 20 22) '()))").unwrap();
                let pr = match s.eval(&probe[0], &cfg).0 {
                    Outcome::Ok(Cell::Number(Number::Fixnum(42))) if sp_left == 0 && !shifted => "ok",
                    Outcome::Ok(Cell::Number(Number::Fixnum(42))) if shifted => "the-call-shifted-the-operands-of-the-enclosing-application",
                    Outcome::Ok(Cell::Number(Number::Fixnum(42))) => "stack-not-empty-after-the-call",
                    _ => "bad",
                };
                if pr != "ok" || s.dead {
                    s = fresh(&cfg);
                    rebuilt = true;
                }
                if !rebuilt && mutates(name) {
                    define_palette(&mut s, &cfg);
                }
                let allowed = c["allow"].as_array().map(|a| a.iter().any(|x| x == class)).unwrap_or(false);
                let res = json!({"k": k, "call": text, "class": class, "allow": c["allow"], "fit": allowed && pr == "ok" && j.get("render_panic").is_none(),
                                 "probe": pr, "detail": j});
                writeln!(o, "{}", res).map_err(|e| e.to_string())?;
                o.flush().map_err(|e| e.to_string())?;
            }
            Ok(())
        }
        "texts" => {
            let seed: u64 = get(&m, "seed", 0);
            let count: usize = get(&m, "count", 1000);
            let mut o = std::io::BufWriter::new(std::fs::File::create(&out).map_err(|e| e.to_string())?);
            let mut s = fresh(&cfg);
            for i in 0..count {
                let mut rng = Rng::new(seed.wrapping_mul(9_000_011).wrapping_add(i as u64));
                let text = random_text(&mut rng);
                let mut rec = json!({"id": i + 1, "text": crate::enc::cps(&text), "shown": text.chars().take(80).collect::<String>()});
                rec["scan"] = json!(class_of(catch_unwind(AssertUnwindSafe(|| marwood::lex::scan(&text).map(|_| ())))));
                rec["parse"] = json!(class_of(catch_unwind(AssertUnwindSafe(|| marwood::parse::parse_text(&text).map(|_| ())))));
                // eval_text
                let r = catch_unwind(AssertUnwindSafe(|| s.vm.eval_text(&text).map(|_| ())));
                rec["eval"] = json!(match &r {
                    Ok(Ok(_)) => "ok".to_string(),
                    Ok(Err(e)) => {
                        if catch_unwind(AssertUnwindSafe(|| format!("{}", e))).is_err() {
                            "error-cannot-be-rendered".to_string()
                        } else {
                            "err".to_string()
                        }
                    }
                    Err(p) => {
                        let msg = p.downcast_ref::<&str>().map(|x| x.to_string()).or(p.downcast_ref::<String>().cloned()).unwrap_or_default();
                        if msg.starts_with("verif-") {
                            "ok".to_string() // a program that runs long is not a fault of the entry point
                        } else {
                            format!("panic: {}", msg.chars().take(80).collect::<String>())
                        }
                    }
                });
                if r.is_err() {
                    s = fresh(&cfg);
                }
                // sliced evaluation of the first datum
                let r2 = catch_unwind(AssertUnwindSafe(|| -> Result<(), marwood::error::Error> {
                    let (cell, _) = marwood::parse::parse_text(&text)?;
                    s.vm.prepare_eval(&cell)?;
                    for _ in 0..2000 {
                        if s.vm.run_count(50)?.is_some() {
                            break;
                        }
                    }
                    Ok(())
                }));
                rec["sliced"] = json!(match &r2 {
                    Ok(_) => "ok".to_string(),
                    Err(p) => {
                        let msg = p.downcast_ref::<&str>().map(|x| x.to_string()).or(p.downcast_ref::<String>().cloned()).unwrap_or_default();
                        if msg.starts_with("verif-") { "ok".to_string() } else { format!("panic: {}", msg.chars().take(80).collect::<String>()) }
                    }
                });
                // the highlighter at every byte position of the text and two positions beyond it
                let hl = marwood::syntax::ReplHighlighter::new();
                let mut hres = "ok".to_string();
                for cur in 0..=text.len() + 2 {
                    let r1 = catch_unwind(AssertUnwindSafe(|| hl.highlight(&text, cur).len()));
                    let r2 = catch_unwind(AssertUnwindSafe(|| hl.highlight_check(&text, cur)));
                    for p in [r1.err(), r2.err()].into_iter().flatten() {
                        let msg = p.downcast_ref::<&str>().map(|x| x.to_string()).or(p.downcast_ref::<String>().cloned()).unwrap_or_default();
                        hres = format!("panic at cursor {}: {}", cur, msg.chars().take(60).collect::<String>());
                    }
                    if hres != "ok" {
                        break;
                    }
                }
                rec["highlight"] = json!(hres);
                // the sliced evaluation may have been left unfinished: start from a fresh VM
                s = fresh(&cfg);
                writeln!(o, "{}", rec).map_err(|e| e.to_string())?;
            }
            Ok(())
        }
        other => Err(format!("builtins: unknown mode {}", other)),
    }
}

fn class_of<E>(r: std::thread::Result<Result<(), E>>) -> String {
    match r {
        Ok(Ok(_)) => "ok".into(),
        Ok(Err(_)) => "err".into(),
        Err(p) => {
            let msg = p.downcast_ref::<&str>().map(|x| x.to_string()).or(p.downcast_ref::<String>().cloned()).unwrap_or_default();
            format!("panic: {}", msg.chars().take(80).collect::<String>())
        }
    }
}

const PROGRAMS: &[&str] = &[
    "(define (f x) (if (< x 2) x (+ (f (- x 1)) (f (- x 2)))))",
    "(let loop ((i 0) (acc '())) (if (= i 5) acc (loop (+ i 1) (cons i acc))))",
    "`(a ,(+ 1 2) #(1 ,@x) . b)",
    "(define-syntax m (syntax-rules () ((_ a ...) '(a ...))))",
    "(string-append \"a\\x41;\\n\" (number->string #xFF 2))",
    "(call/cc (lambda (k) (vector-ref #(1 2 3) (k 1))))",
    "#\\space #\\x41 #t #f 1/2 -1.5e10 #e1.5 #b101",
];
const TOKENS: &[&str] = &[
    "(", ")", "[", "]", "{", "}", "#(", "'", "`", ",", ",@", ".", "...", "#t", "#f", "#\\a", "#\\", "#\\x", "#\\space", "\"", "\"a\"", "\\", ";", "#|", "|#", "#;",
    "1", "-", "+", "1/2", "1/0", "#x", "#e1.5", "#i1/3", "1e400", "-0.0", "lambda", "define", "if", "quote", "let", "cond", "else", "=>", "set!", "x", "λ",
    "-2147483648/-1", "1/-2147483648", "1/-2", "#e1/-3", "2147483648/2147483647", "-2147483648/2147483647", "#x-80000000/-1", "1/+2",
    "#\\x100000000", "#\\xFFFFFFFFFFFF", "#\\x0000000041", "\"\\x100000000;\"", "a\\x100000000;b", "#xFFFFFFFFFFFFFFFFFFFFFFFF", "-1e400", "1e-400",
    "#e1e39", "#e-1e39", "#e1e400", "#x#e10", "#b#i101", "#d#d1", "#X1F", "#E1.5", "#e#X10", "#T", "#F", "#e+inf.0", "#e-nan.0", "+nan.0", "1/2/3", "#e1/0",
    "99999999999999999999999999999999999999999", "#o777777777777777777777777", "#x-FF", "a\\x41;", "\\x;", "\\x41", "#\\x-1", "#\\xD800", "#\\x110000",
    "#!eof", "#0=", "|a b|", "\n", "\t", " ", "\u{a0}", "\u{2028}", "\u{feff}", "😀",
];

/// special forms with a hole in a binding position (formals, definition and assignment targets, binding lists,
/// literals lists), also in definitions nested in a body that is never executed
const BINDING_HOLES: &[&str] = &[
    "(lambda ({}) 1)", "(lambda (x {}) x)", "(lambda (x . {}) x)", "(define (zf {}) 1)", "(define (zg) (define (zf {}) 1) 2)",
    "(lambda (x) (define (zf a {}) 1) 2)", "(define (zg) (define (zf a . {}) 1) 2)", "(define (zg) (lambda ({}) 1))",
    "(lambda (x) (lambda (y {}) y))", "(lambda (x) (set! {} x))", "(define {} 2)", "(let (({} 1)) 2)", "(let loop (({} 1)) 2)",
    "(let* (({} 1)) 2)", "(letrec (({} 1)) 2)", "(do (({} 0 1)) (#t))", "(define (zg) (let (({} 1)) 2))",
    "(define-syntax {} (syntax-rules () ((_) 1)))", "(define-syntax zm (syntax-rules ({}) ((_) 1)))",
    "(define-syntax zm (syntax-rules () (({}) 1)))", "(define (zg) (case 1 (({}) 1) (else 2)))", "(define ((zf {}) y) 1)",
    "(define (zg) (define ({} a) 1) 2)", "(lambda {} 1)", "(define (zg) (lambda {} 1))",
];
const ODD_DATA: &[&str] = &["1.5", ".5", "1e300", "-0.0", "+inf.0", "+nan.0", "#(2.5)", "#(a)", "\"s\"", "#\\a", "(a)", "()", "#t", "1/2",
                            "100000000000000000000", "'x", "`x", ",x", "(a . 1.5)", "#()", "5"];

fn random_text(rng: &mut Rng) -> String {
    match rng.below(5) {
        4 => {
            let h: &str = BINDING_HOLES[rng.below(BINDING_HOLES.len())];
            let d: &str = ODD_DATA[rng.below(ODD_DATA.len())];
            h.replace("{}", d)
        }
        0 => {
            // random Unicode
            let n = rng.below(20);
            (0..n)
                .map(|_| loop {
                    let c = match rng.below(5) {
                        0 => rng.range(0, 127) as u32,
                        1 => rng.range(128, 0x7ff) as u32,
                        2 => rng.range(0x800, 0xffff) as u32,
                        3 => rng.range(0x10000, 0x10ffff) as u32,
                        _ => *rng.pick(&[40u32, 41, 34, 59, 35, 92, 39, 96, 44, 46, 10]),
                    };
                    if let Some(ch) = char::from_u32(c) {
                        break ch;
                    }
                })
                .collect()
        }
        1 => {
            // token soup
            let n = 1 + rng.below(12);
            let mut s = String::new();
            for _ in 0..n {
                let tk: &str = TOKENS[rng.below(TOKENS.len())];
                s.push_str(tk);
                if rng.chance(2, 3) {
                    s.push(' ');
                }
            }
            s
        }
        2 => {
            // mutation of a valid program: delete / duplicate / replace a character
            let mut cs: Vec<char> = rng.pick(PROGRAMS).chars().collect();
            for _ in 0..1 + rng.below(3) {
                if cs.is_empty() {
                    break;
                }
                let i = rng.below(cs.len());
                match rng.below(3) {
                    0 => {
                        cs.remove(i);
                    }
                    1 => {
                        let c = cs[i];
                        cs.insert(i, c);
                    }
                    _ => cs[i] = *rng.pick(&['(', ')', '"', '#', '\\', '.', ',', '\'', ';', '0', 'x', ' ']),
                }
            }
            cs.into_iter().collect()
        }
        _ => {
            // deep nesting up to 64
            let d = 1 + rng.below(64);
            let open = *rng.pick(&["(", "#(", "'", "(quote ", "(list ", "`(", "(+ 1 "]);
            let close = if open == "'" { "" } else { ")" };
            format!("{}{}{}", open.repeat(d), rng.pick(&["x", "1", "", "\"s\""]), close.repeat(d))
        }
    }
}
