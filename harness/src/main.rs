#![allow(dead_code, unused_mut, unused_variables)]
mod enc;
mod names;
mod sess;
mod snap;
mod builtins;
mod codec;
mod corpus;
mod highlight;
mod numtower;
mod pool;
mod reader;
mod synrules;
mod vmtrace;
mod machine;
mod gen_cmd;
mod gcsnap;
mod gen_alloc;
mod gen_cont;
mod gen_fail;
mod gen_lang;
mod gen_scope;
mod gen_sym;
mod gen_tail;
mod rng;

fn main() {
    let args: Vec<String> = std::env::args().collect();
    if args.len() < 2 {
        eprintln!("usage: mwverif <command> ...");
        std::process::exit(2);
    }
    sess::silence_panics();
    let r = match args[1].as_str() {
        "corpus" => corpus::main(&args[2..]),
        "gen" => gen_cmd::main(&args[2..]),
        "eval" => eval_file(&args[2..]),
        "gcsnap" => gcsnap::main(&args[2..]),
        "codec" => codec::main(&args[2..]),
        "vmtrace" => vmtrace::main(&args[2..]),
        "machine" => machine::main(&args[2..]),
        "builtins" => builtins::main(&args[2..]),
        "pool" => pool::main(&args[2..]),
        "garbage" => gcsnap::garbage_main(&args[2..]),
        "highlight" => highlight::main(&args[2..]),
        "reader" => reader::main(&args[2..]),
        "numtower" => numtower::main(&args[2..]),
        "synrules" => synrules::main(&args[2..]),
        other => Err(format!("unknown command {}", other)),
    };
    if let Err(e) = r {
        eprintln!("mwverif: {}", e);
        std::process::exit(2);
    }
}

/// `mwverif eval <file>`: evaluate every datum of the file in one VM and print the outcomes.
fn eval_file(args: &[String]) -> Result<(), String> {
    let text = std::fs::read_to_string(&args[0]).map_err(|e| e.to_string())?;
    let cfg = sess::RunCfg::plain();
    let mut s = sess::Session::new(&cfg);
    s.install_sched(&cfg.sched);
    for c in enc::parse_all(&text)? {
        let (o, _) = s.eval(&c, &cfg);
        let d = match o {
            sess::Outcome::Ok(v) => format!("{:#}", v),
            sess::Outcome::Err(e) => format!("ERROR {:?}", e),
            sess::Outcome::Panic(m) => format!("PANIC {}", m),
            sess::Outcome::Timeout => "TIMEOUT".to_string(),
            sess::Outcome::StackLimit => "STACKLIMIT".to_string(),
        };
        println!("{:#}  =>  {}   [sp={}]", c, d, s.vm.verif_stack().get_sp());
    }
    Ok(())
}
