//! Allocation-heavy session templates (C03, C12, C18): builders of lists, vectors,
//! strings, closures, continuations, code (eval) and fresh symbols, with part of the
//! data kept live in globals and re-read after further allocation.
use crate::rng::Rng;

pub fn session(rng: &mut Rng) -> (Vec<String>, Vec<String>) {
    let n = 2 + rng.below(9);
    let m = 1 + rng.below(6);
    let mut tags = vec![];
    let mut f: Vec<String> = vec![
        "(define (build-list n) (let loop ((i 0) (acc '())) (if (= i n) acc (loop (+ i 1) (cons i acc)))))".into(),
    ];
    let nb = 2 + rng.below(4);
    for b in 0..nb {
        let t = rng.below(12);
        tags.push(format!("alloc-t{}", t));
        let u = b + 1;
        match t {
            0 => {
                f.push(format!("(define l{u} (build-list {n}))", u = u, n = n));
                f.push(format!("(build-list {})", n * 3));
                f.push(format!("(list (apply + l{u}) (length l{u}) (reverse l{u}))", u = u));
            }
            1 => {
                f.push(format!(
                    "(define (build-vec{u} n) (let ((v (make-vector n 0))) (let loop ((i 0)) (if (< i n) (begin (vector-set! v i (list i (* i i))) (loop (+ i 1))) v))))",
                    u = u
                ));
                f.push(format!("(define v{u} (build-vec{u} {}))", n, u = u));
                f.push(format!("(vector-length (build-vec{u} {}))", n + m, u = u));
                f.push(format!("v{u}", u = u));
            }
            2 => {
                f.push(format!("(define adders{u} (map (lambda (i) (lambda (x) (+ x i))) (build-list {})))", n, u = u));
                f.push(format!("(map (lambda (i) (lambda (x) (* x i))) (build-list {}))", m));
                f.push(format!("(map (lambda (f) (f 100)) adders{u})", u = u));
            }
            3 => {
                f.push(format!(
                    "(define s{u} (let loop ((i 0) (s \"\")) (if (= i {n}) s (loop (+ i 1) (string-append s (make-string 1 (integer->char (+ 65 i))))))))",
                    u = u, n = n
                ));
                f.push(format!("(string-length (make-string {} #\\z))", n * m));
                f.push(format!("(list s{u} (string-length s{u}))", u = u));
            }
            4 => {
                f.push(format!(
                    "(define syms{u} (let loop ((i 0) (acc '())) (if (= i {n}) acc (loop (+ i 1) (cons (string->symbol (string-append \"sym{u}-\" (make-string i #\\x))) acc)))))",
                    u = u, n = n
                ));
                f.push(format!("(let loop ((i 0)) (if (< i {m}) (begin (string->symbol (string-append \"tmp-\" (make-string i #\\y))) (loop (+ i 1))) 'dropped))", m = m + 2));
                f.push(format!("(map (lambda (s) (eq? s (string->symbol (symbol->string s)))) syms{u})", u = u));
                f.push(format!("(eq? (car syms{u}) (string->symbol (string-append \"sym{u}-\" (make-string {} #\\x))))", n - 1, u = u));
                f.push(format!("syms{u}", u = u));
            }
            5 => {
                f.push(format!("(let loop ((i 0) (acc 0)) (if (= i {n}) acc (loop (+ i 1) (+ acc (eval (list '* i 2))))))", n = n));
                f.push(format!("(define ev{u} (eval '(lambda (a b) (list a b (+ a b)))))", u = u));
                f.push(format!("(ev{u} {} {})", n, m, u = u));
            }
            6 => {
                f.push(format!(
                    "(define ks{u} (let loop ((i 0) (ks '())) (if (= i {m}) ks (loop (+ i 1) (cons (call/cc (lambda (k) (lambda (v) v))) ks)))))",
                    u = u, m = m
                ));
                f.push(format!("(let loop ((i 0) (n 0)) (if (= i {n}) n (loop (+ i 1) (+ n (call/cc (lambda (k) (k 1)))))))", n = n));
                f.push(format!("(map (lambda (k) (k 5)) ks{u})", u = u));
            }
            7 => {
                // a continuation kept live across allocation, re-entered later
                f.push(format!("(define k{u} #f)", u = u));
                f.push(format!("(define c{u} 0)", u = u));
                f.push(format!("(list 'r (call/cc (lambda (c) (set! k{u} c) 0)) (build-list {}))", m, u = u));
                f.push(format!("(build-list {})", n * 2));
                f.push(format!("(if (< c{u} 2) (begin (set! c{u} (+ c{u} 1)) (k{u} c{u})) 'done)", u = u));
                f.push(format!("(if (< c{u} 2) (begin (set! c{u} (+ c{u} 1)) (k{u} c{u})) 'done)", u = u));
            }
            9 => {
                // constants that only the code refers to: the symbol / string tail of an improper quasiquote
                // template, a quoted list, a string literal; used again after allocation
                f.push(format!("(define (tpl{u} x) `(,x . marker{u}))", u = u));
                f.push(format!("(define (tps{u} x) `(,x ,(+ x 1) . \"tail{u}\"))", u = u));
                f.push(format!("(define (tpq{u}) '(q{u} (r{u} . s{u}) #(v{u})))", u = u));
                f.push(format!("(tpl{u} {n})", u = u, n = n));
                f.push(format!("(build-list {})", n * 3));
                f.push(format!("(list (tpl{u} {m}) (tps{u} {m}) (tpq{u}))", u = u, m = m));
                f.push(format!("(build-list {})", n * 2));
                f.push(format!("(list (cdr (tpl{u} 1)) (cdr (cdr (tps{u} 2))) (eq? (car (tpq{u})) 'q{u}))", u = u));
            }
            10 => {
                // rest-argument lists: every variadic call builds its own list, ended by the empty list
                f.push(format!("(define (rest{u} . r) r)", u = u));
                f.push(format!("(define (first-rest{u} a . r) (list a r))", u = u));
                f.push(format!("(rest{u})", u = u));
                f.push(format!("(build-list {})", n * 2));
                f.push(format!("(list (rest{u}) (rest{u} 1) (rest{u} 1 2 3) (first-rest{u} 1) (first-rest{u} 1 2) (list) (list 1))", u = u));
                f.push(format!("(build-list {})", n));
                f.push(format!("(list (null? (rest{u})) (cdr (rest{u} 1)) (cdr (cdr (cdr (rest{u} 1 2 3)))) (apply rest{u} '(7 8)))", u = u));
            }
            11 => {
                // code compiled by eval runs deep in the stack, calls a closure (its return address goes on the stack),
                // returns and becomes garbage; the same evaluation goes on at a shallower depth, allocates, and fails:
                // reporting the failure must not touch the dead part of the stack
                f.push(format!("(define (zid{u} x) x)", u = u));
                f.push(format!("(define (deep{u} n) (if (= n 0) (eval '(car (list (zid{u} {m})))) (+ 0 (deep{u} (- n 1)))))", u = u, m = m));
                f.push(format!("(define (run{u}) (deep{u} {d}) (build-list {n}) (car {m}))", u = u, d = 3 + n * 3, n = n * 2, m = m));
                f.push(format!("(run{u})", u = u));
                f.push(format!("(begin (deep{u} {d}) (build-list {n}) (vector-ref (vector) (deep{u} 1)))", u = u, d = 2 + n, n = n));
                f.push(format!("(deep{u} 2)", u = u));
            }
            _ => {
                // nested data with sharing, partially dropped
                f.push(format!("(define t{u} (let ((shared (build-list {m}))) (list shared (vector shared shared) (cons shared '()))))", u = u, m = m));
                f.push(format!("(set-car! (car t{u}) 'mutated)", u = u));
                f.push(format!("(build-list {})", n));
                f.push(format!("t{u}", u = u));
                f.push(format!("(set! t{u} (cdr t{u}))", u = u));
                f.push(format!("(build-list {})", n));
                f.push(format!("t{u}", u = u));
            }
        }
    }
    (f, tags)
}

/// One top-level form that builds live data beyond one heap chunk, lets an old object refer to a young one and reads
/// everything back -- in fewer than 8192 instructions, so that an uninterrupted run meets no periodic collection
/// while a sliced run collects at slice ends (C13).
pub fn big_form(rng: &mut Rng) -> (Vec<String>, Vec<String>) {
    let n = 2600 + rng.below(1200);
    let h = 300 + rng.below(600);
    let m = 300 + rng.below(500);
    let k = n + 10 + rng.below(100);
    let f = vec![
        format!(
            "(let ((keep (append (vector->list (make-vector {n} 1)) (vector->list (make-vector {n} 1)) (vector->list (make-vector {n} 1)) (vector->list (make-vector {h} 2))))) \
               (let ((old (list-tail keep {k}))) \
                 (length (vector->list (make-vector {m} 0))) \
                 (set-cdr! old (list 5 6 7)) \
                 (length (vector->list (make-vector {m2} 0))) \
                 (length (vector->list (make-vector {m2} 0))) \
                 (length (vector->list (make-vector {m2} 0))) \
                 (let ((box (vector (list 'young (car old))))) \
                   (length (vector->list (make-vector {m} 0))) \
                   (list (apply + keep) (length keep) (vector-ref box 0)))))",
            n = n, h = h, k = k, m = m, m2 = m * 2
        ),
        "(+ 1 2)".to_string(),
    ];
    (f, vec!["alloc-bigform".into()])
}

/// Live data larger than one heap chunk (8192 cells): the heap has to grow, collections run over several chunks,
/// and structures straddle the chunk boundary.  Built, churned and observed with single builtin calls (bulk
/// allocation by vector->list / append / make-vector) so that the reference machine needs few steps.
pub fn big_session(rng: &mut Rng) -> (Vec<String>, Vec<String>) {
    let n = 2500 + rng.below(1500);
    let m = 100 + rng.below(200);
    let which = rng.below(3);
    let churn = |k: usize| format!("(length (vector->list (make-vector {} 0)))", k);
    let mut f: Vec<String> = vec![
        format!("(define keep (append (vector->list (make-vector {} 1)) (vector->list (make-vector {} 2))))", n, n / 2),
        churn(m),
        "(apply + keep)".into(),
    ];
    match which {
        0 => {
            // an old object in the grown part mutated to refer to a young one
            f.push(format!("(define old (list-tail keep {}))", n + 10));
            f.push(churn(m));
            f.push("(set-car! old (list 'young 1 2))".into());
            f.push(churn(m * 2));
            f.push("(car old)".into());
            f.push("(set-car! old 5)".into());
        }
        1 => {
            // a second big structure sharing the tail of the first
            f.push(format!("(define keep2 (append (vector->list (make-vector {} 3)) keep))", 1000 + rng.below(2000)));
            f.push(churn(m));
            f.push("(apply + keep2)".into());
            f.push("(set! keep (list-tail keep 50))".into());
            f.push(churn(m * 2));
            f.push("(apply + keep2)".into());
            f.push("(set! keep2 '())".into());
        }
        _ => {
            // a big vector whose elements are one shared young list; most of the old list dropped
            f.push(format!("(define vv (make-vector {} '()))", 2000 + rng.below(2000)));
            f.push("(vector-fill! vv (list 1 2 3))".into());
            f.push(churn(m));
            f.push("(vector-ref vv 7)".into());
            f.push(format!("(set! keep (list-tail keep {}))", n - 20));
            f.push(churn(m * 2));
        }
    }
    for _ in 0..2 {
        f.push(churn(m * 2));
        f.push("(apply + keep)".into());
    }
    f.push("(length keep)".into());
    (f, vec![format!("alloc-big{}", which)])
}
