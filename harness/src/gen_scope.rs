//! C02: scope skeletons.  L nested procedures over the names a, b, c; per level and
//! name one of {parameter, rest parameter, internal definition, free}; every read is
//! logged and the session returns the log, so a wrong slot shows at the first wrong read.
use crate::rng::Rng;

pub const NAMES: [&str; 3] = ["a", "b", "c"];
/// the same skeletons over names that are bound to builtin procedures in the global environment: a lexical
/// binding must win over the builtin at every level
pub const BUILTIN_NAMES: [&str; 3] = ["max", "vector", "string"];

#[derive(Clone, Copy, PartialEq, Eq, Debug)]
pub enum Kind {
    Param,
    Rest,
    Define,
    Free,
}

/// All valid kind assignments of one level (at most one rest parameter): 54.
pub fn level_kinds() -> Vec<[Kind; 3]> {
    let ks = [Kind::Param, Kind::Rest, Kind::Define, Kind::Free];
    let mut out = vec![];
    for a in ks {
        for b in ks {
            for c in ks {
                let rests = [a, b, c].iter().filter(|k| **k == Kind::Rest).count();
                if rests <= 1 {
                    out.push([a, b, c]);
                }
            }
        }
    }
    out
}

pub struct Skeleton {
    pub levels: Vec<[Kind; 3]>,
    /// 0: no assignment; 1: a assigned before closure creation; 2: b assigned after closure
    /// creation; 3: every name assigned after closure creation; the leaf always assigns c
    pub setv: usize,
    /// how a level creates the closure of the next level: 0 = (let ((g (lambda ...))) ...),
    /// 1 = internal procedure-form definition (define (g formals...) ...) at the head of the body
    pub childform: usize,
    /// the three variable names
    pub names: [&'static str; 3],
}

fn formals(k: &[Kind; 3], nm: &[&'static str; 3]) -> String {
    let ps: Vec<&str> = (0..3).filter(|n| k[*n] == Kind::Param).map(|n| nm[n]).collect();
    let r: Vec<&str> = (0..3).filter(|n| k[*n] == Kind::Rest).map(|n| nm[n]).collect();
    match (ps.is_empty(), r.first()) {
        (true, None) => "()".into(),
        (false, None) => format!("({})", ps.join(" ")),
        (true, Some(r)) => r.to_string(),
        (false, Some(r)) => format!("({} . {})", ps.join(" "), r),
    }
}

/// arguments for a call of a level with kinds k from call site `site`
fn args(k: &[Kind; 3], level: usize, site: usize) -> String {
    let mut v = vec![];
    for n in 0..3 {
        if k[n] == Kind::Param {
            v.push(format!("{}", site * 1000 + level * 100 + n));
        }
    }
    if k.iter().any(|x| *x == Kind::Rest) {
        v.push(format!("{}", site * 1000 + level * 100 + 50));
        v.push(format!("{}", site * 1000 + level * 100 + 51));
    }
    v.join(" ")
}

fn reads(level: usize, phase: &str, nm: &[&'static str; 3]) -> String {
    (0..3).map(|n| format!("(note 'L{}-{}-{} {})", level, phase, NAMES[n], nm[n])).collect::<Vec<_>>().join(" ")
}

fn assign(n: usize, level: usize, phase: &str, nm: &[&'static str; 3]) -> String {
    format!("(set! {n} (list 'set{l}{p} {n}))", n = nm[n], l = level, p = phase)
}

impl Skeleton {
    fn define_formals(k: &[Kind; 3], nm: &[&'static str; 3]) -> String {
        // formals of (define (g . formals) ...): items after the procedure name
        let f = formals(k, nm);
        if f == "()" {
            "".into()
        } else if f.starts_with('(') {
            format!(" {}", &f[1..f.len() - 1])
        } else {
            format!(" . {}", f)
        }
    }

    /// body of level i (0-based) without the enclosing (lambda formals ...)
    fn body(&self, i: usize) -> String {
        let k = &self.levels[i];
        let level = i + 1;
        let mut s = String::new();
        for n in 0..3 {
            if k[n] == Kind::Define {
                s.push_str(&format!("(define {} (list 'd{} {})) ", self.names[n], level, n));
            }
        }
        let has_child = i + 1 < self.levels.len();
        if has_child && self.childform == 1 {
            s.push_str(&format!("(define (g{}) {}) ", Self::define_formals(&self.levels[i + 1], &self.names), self.body(i + 1)));
        }
        s.push_str(&reads(level, "pre", &self.names));
        s.push(' ');
        if self.setv == 1 {
            s.push_str(&assign(0, level, "pre", &self.names));
            s.push(' ');
        }
        if has_child {
            if self.childform == 0 {
                s.push_str(&format!("(let ((g (lambda {} {}))) ", formals(&self.levels[i + 1], &self.names), self.body(i + 1)));
            }
            if self.setv == 2 {
                s.push_str(&assign(1, level, "post", &self.names));
                s.push(' ');
            }
            if self.setv == 3 {
                for n in 0..3 {
                    s.push_str(&assign(n, level, "post", &self.names));
                    s.push(' ');
                }
            }
            s.push_str(&reads(level, "mid", &self.names));
            // the closure is invoked inside its creator ...
            s.push_str(&format!(" (g {}) ", args(&self.levels[i + 1], level + 1, 1)));
            s.push_str(&reads(level, "post", &self.names));
            // ... and returned, to be invoked after the creator has returned
            s.push_str(" g");
            if self.childform == 0 {
                s.push(')');
            }
        } else {
            // leaf: assign c, read again; repeated invocations see the previous assignment
            s.push_str(&assign(2, level, "leaf", &self.names));
            s.push(' ');
            s.push_str(&reads(level, "post", &self.names));
            s.push_str(" 'leaf");
        }
        s
    }

    fn lambda(&self, i: usize) -> String {
        format!("(lambda {} {})", formals(&self.levels[i], &self.names), self.body(i))
    }

    pub fn forms(&self) -> Vec<String> {
        let l = self.levels.len();
        let mut f = vec![
            "(define log '())".to_string(),
            "(define (note tag v) (set! log (cons (list tag v) log)) v)".to_string(),
        ];
        // over builtin names the globals stay what they are: builtin procedures (a free reference reads the
        // builtin, every lexical binding of the name must win over it)
        if self.names[0] == "a" {
            f.push(format!("(define {} 'ga)", self.names[0]));
            f.push(format!("(define {} 'gb)", self.names[1]));
            f.push(format!("(define {} 'gc)", self.names[2]));
        }
        f.push(format!("(define f1 {})", self.lambda(0)));
        if l == 1 {
            f.push(format!("(f1 {})", args(&self.levels[0], 1, 2)));
            f.push(format!("(f1 {})", args(&self.levels[0], 1, 3)));
        } else {
            f.push(format!("(define h2 (f1 {}))", args(&self.levels[0], 1, 2)));
            // invoked after the creator returned, twice: separate activations
            let mut prev = "h2".to_string();
            for lev in 2..=l {
                let k = &self.levels[lev - 1];
                if lev == l {
                    f.push(format!("({} {})", prev, args(k, lev, 3)));
                    f.push(format!("({} {})", prev, args(k, lev, 4)));
                } else {
                    let x = format!("h{}x", lev + 1);
                    let y = format!("h{}y", lev + 1);
                    f.push(format!("(define {} ({} {}))", x, prev, args(k, lev, 3)));
                    f.push(format!("(define {} ({} {}))", y, prev, args(k, lev, 4)));
                    // the second activation's closure is exercised once as well
                    if lev + 1 == l {
                        f.push(format!("({} {})", y, args(&self.levels[lev], lev + 1, 5)));
                    }
                    prev = x;
                }
            }
        }
        f.push(format!("(list {} {} {})", self.names[0], self.names[1], self.names[2]));
        f.push("(reverse log)".to_string());
        f
    }

    pub fn describe(&self) -> String {
        let lv: Vec<String> = self
            .levels
            .iter()
            .map(|k| {
                k.iter()
                    .map(|x| match x {
                        Kind::Param => 'P',
                        Kind::Rest => 'R',
                        Kind::Define => 'D',
                        Kind::Free => 'F',
                    })
                    .collect::<String>()
            })
            .collect();
        format!("{}/set{}/child{}{}", lv.join("-"), self.setv, self.childform, if self.names[0] == "a" { "" } else { "/builtin-names" })
    }
}

/// Number of skeletons with `l` levels.
pub fn space(l: usize) -> usize {
    54usize.pow(l as u32) * 8
}

/// The idx-th skeleton with `l` levels.
pub fn nth(l: usize, idx: usize) -> Skeleton {
    let lk = level_kinds();
    let mut i = idx;
    let setv = i % 4;
    i /= 4;
    let childform = i % 2;
    i /= 2;
    let mut levels = vec![];
    for _ in 0..l {
        levels.push(lk[i % 54]);
        i /= 54;
    }
    Skeleton { levels, setv, childform, names: NAMES }
}

pub fn random(l: usize, rng: &mut Rng) -> Skeleton {
    let mut sk = nth(l, rng.below(space(l)));
    if rng.below(4) == 0 {
        sk.names = BUILTIN_NAMES;
    }
    sk
}

/// Closures created in loops: each iteration is a separate activation of the loop variable.
pub fn loop_sessions(rng: &mut Rng) -> Vec<String> {
    let n = 2 + rng.below(3);
    let step = 1 + rng.below(9);
    let which = rng.below(3);
    let mut f = vec![
        "(define log '())".to_string(),
        "(define (note tag v) (set! log (cons (list tag v) log)) v)".to_string(),
    ];
    match which {
        0 => {
            f.push(format!(
                "(define (mk n) (let loop ((i 0) (acc '())) (if (= i n) (reverse acc) (loop (+ i 1) (cons (lambda () (set! i (+ i {})) (note 'i i)) acc)))))",
                step
            ));
            f.push(format!("(define ks (mk {}))", n));
            f.push("(map (lambda (k) (k)) ks)".into());
            f.push("((car ks))".into());
            f.push("((cadr ks))".into());
            f.push("((car ks))".into());
        }
        1 => {
            // two closures per iteration share the iteration's location
            f.push(format!(
                "(define (mk n) (let loop ((i 0) (acc '())) (if (= i n) (reverse acc) (let ((x (* i {s}))) (loop (+ i 1) (cons (cons (lambda () (set! x (+ x 1)) x) (lambda () (note 'x x))) acc))))))",
                s = step
            ));
            f.push(format!("(define ps (mk {}))", n));
            f.push("((car (car ps)))".into());
            f.push("((car (car ps)))".into());
            f.push("((cdr (car ps)))".into());
            f.push("((cdr (cadr ps)))".into());
            f.push("((car (cadr ps)))".into());
            f.push("((cdr (cadr ps)))".into());
        }
        _ => {
            // closures made by for-each over a list, captured parameter per call
            f.push("(define ks '())".into());
            f.push(format!(
                "(for-each (lambda (v) (set! ks (cons (lambda (d) (set! v (+ v d)) (note 'v v)) ks))) '({}))",
                (0..n).map(|i| format!("{}", i * step)).collect::<Vec<_>>().join(" ")
            ));
            f.push("(map (lambda (k) (k 100)) ks)".into());
            f.push("((car ks) 1)".into());
            f.push("((car ks) 1)".into());
            f.push("(map (lambda (k) (k 0)) ks)".into());
        }
    }
    f.push("(reverse log)".into());
    f
}
