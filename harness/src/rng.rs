//! Small deterministic RNG (splitmix64) so that generated cases depend only on the seed.
#[derive(Clone)]
pub struct Rng(pub u64);

impl Rng {
    pub fn new(seed: u64) -> Rng {
        Rng(seed.wrapping_mul(0x9E3779B97F4A7C15) ^ 0xD1B54A32D192ED03)
    }
    pub fn next(&mut self) -> u64 {
        self.0 = self.0.wrapping_add(0x9E3779B97F4A7C15);
        let mut z = self.0;
        z = (z ^ (z >> 30)).wrapping_mul(0xBF58476D1CE4E5B9);
        z = (z ^ (z >> 27)).wrapping_mul(0x94D049BB133111EB);
        z ^ (z >> 31)
    }
    /// uniform in 0..n (n > 0)
    pub fn below(&mut self, n: usize) -> usize {
        (self.next() % n as u64) as usize
    }
    /// uniform in lo..=hi
    pub fn range(&mut self, lo: i64, hi: i64) -> i64 {
        lo + (self.next() % ((hi - lo + 1) as u64)) as i64
    }
    pub fn chance(&mut self, num: u32, den: u32) -> bool {
        (self.next() % den as u64) < num as u64
    }
    pub fn pick<'a, T>(&mut self, xs: &'a [T]) -> &'a T {
        &xs[self.below(xs.len())]
    }
    /// index chosen with the given weights
    pub fn weighted(&mut self, ws: &[u32]) -> usize {
        let total: u32 = ws.iter().sum();
        let mut x = (self.next() % total as u64) as u32;
        for (i, w) in ws.iter().enumerate() {
            if x < *w {
                return i;
            }
            x -= w;
        }
        ws.len() - 1
    }
    pub fn fork(&mut self) -> Rng {
        Rng::new(self.next())
    }
}
