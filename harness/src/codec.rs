//! C10: `mwverif codec gen seed= count= out=`: generate data, write them ({:#}), read the text
//! back, write again, and evaluate the quoted datum; one ndjson record per datum, sorted by the
//! written text so that the injectivity of `write` can be checked on adjacent records.
use crate::gen_cmd::{get, kv};
use crate::rng::Rng;
use crate::sess::{Outcome, RunCfg, Session};
use marwood::cell::Cell;
use marwood::number::Number;
use num::bigint::BigInt;
use num::Rational32;
use serde_json::{json, Value};
use std::io::Write;
use std::panic::{catch_unwind, AssertUnwindSafe};

/// Faithful structural encoding: numbers by value and exactness (not by representation)
pub fn enc(c: &Cell) -> Value {
    match c {
        Cell::Bool(b) => json!({"t":"bool","v":b}),
        Cell::Char(ch) => json!({"t":"char","v":*ch as u32}),
        Cell::Nil => json!({"t":"nil"}),
        Cell::Number(n) => match n {
            Number::Fixnum(i) => json!({"t":"exact","v":format!("{}", i)}),
            Number::BigInt(b) => json!({"t":"exact","v":format!("{}", b)}),
            Number::Rational(r) => {
                if *r.denom() == 1 {
                    json!({"t":"exact","v":format!("{}", r.numer())})
                } else {
                    json!({"t":"exact","v":format!("{}/{}", r.numer(), r.denom())})
                }
            }
            Number::Float(f) => json!({"t":"inexact","v":format!("{:016x}", f.to_bits())}),
        },
        Cell::String(s) => json!({"t":"str","v":crate::enc::cps(s)}),
        Cell::Symbol(s) => json!({"t":"sym","v":crate::enc::cps(s)}),
        Cell::Pair(_, _) => {
            let mut items = vec![];
            let mut rest = c;
            while let Cell::Pair(a, d) = rest {
                items.push(enc(a));
                rest = d;
            }
            json!({"t":"list","v":items,"tl":enc(rest)})
        }
        Cell::Vector(v) => json!({"t":"vec","v":v.iter().map(enc).collect::<Vec<_>>()}),
        Cell::Continuation => json!({"t":"kont"}),
        Cell::Macro => json!({"t":"macro"}),
        Cell::Procedure(_) => json!({"t":"proc"}),
        Cell::Undefined => json!({"t":"undef"}),
        Cell::Void => json!({"t":"void"}),
    }
}

fn rand_char(rng: &mut Rng) -> char {
    loop {
        let c = match rng.below(10) {
            0 => rng.range(0, 31) as u32,
            1 => *rng.pick(&[0x7f, 0x80, 0x85, 0xa0, 0x1b, 0x7, 0x8, 0x9, 0xa, 0xd, 0x20, 0x22, 0x5c, 0x28, 0x29, 0x3b, 0x27, 0x23, 0x7c]),
            2 | 3 | 4 => rng.range(0x21, 0x7e) as u32,
            5 => rng.range(0x80, 0x7ff) as u32,
            6 => rng.range(0x800, 0xffff) as u32,
            7 => rng.range(0x10000, 0x10ffff) as u32,
            8 => *rng.pick(&[0x2028, 0x2029, 0xfeff, 0xfffe, 0xffff, 0x10ffff, 0xd7ff, 0xe000, 0x3000, 0x200b]),
            _ => rng.range(0x61, 0x7a) as u32,
        };
        if let Some(ch) = char::from_u32(c) {
            return ch;
        }
    }
}

fn rand_number(rng: &mut Rng) -> Number {
    match rng.below(12) {
        0 => Number::Fixnum(rng.range(-10, 10)),
        1 => Number::Fixnum(*rng.pick(&[i64::MAX, i64::MIN, i64::MAX - 1, i64::MIN + 1, 1 << 31, -(1 << 31), (1 << 53) + 1, 0])),
        2 => Number::Fixnum(rng.next() as i64),
        3 => {
            // across the fixnum / bignum boundary
            let base = BigInt::from(i64::MAX);
            let d = BigInt::from(rng.range(-3, 3));
            let v = if rng.chance(1, 2) { base + d + 1 } else { -(BigInt::from(i64::MAX)) - 2 + d };
            Number::new_bigint(v)
        }
        4 => {
            let mut v = BigInt::from(rng.next());
            for _ in 0..rng.below(5) {
                v = v * BigInt::from(rng.next()) + BigInt::from(rng.next() % 1000);
            }
            Number::new_bigint(if rng.chance(1, 2) { -v } else { v })
        }
        5 if rng.chance(1, 3) => {
            // the extremes of the 32-bit components
            let n = *rng.pick(&[i32::MIN, i32::MIN + 1, i32::MAX, i32::MAX - 1, 1, -1]);
            let d = *rng.pick(&[3, 7, i32::MAX, i32::MAX - 2, 2147483629, 5]);
            let r = Rational32::new(n, d);
            if r.is_integer() {
                Number::Fixnum(*r.numer() as i64)
            } else {
                Number::Rational(r)
            }
        }
        5 | 6 => {
            let d = rng.range(2, i32::MAX as i64) as i32;
            let n = rng.range(i32::MIN as i64 + 1, i32::MAX as i64) as i32;
            let r = Rational32::new(n, d);
            if r.is_integer() {
                Number::Fixnum(*r.numer() as i64)
            } else {
                Number::Rational(r)
            }
        }
        7 => {
            // every finite double, by bit pattern (the property covers finite doubles only)
            let f = f64::from_bits(rng.next());
            if f.is_finite() {
                Number::Float(f)
            } else {
                Number::Float(f64::from_bits(rng.next() >> 2))
            }
        }
        8 => Number::Float(*rng.pick(&[0.0, -0.0, 1.0, -1.0, 0.1, 1e21, 1e-7, 1e22, 123456789012345680.0, f64::MAX, f64::MIN_POSITIVE, 5e-324, 9007199254740993.0, 0.5, 1e100, 2.5e-300])),
        9 => Number::Float(f64::from_bits(rng.next() & 0x800f_ffff_ffff_ffff)), // subnormals
        10 => Number::Float((rng.range(-1000000, 1000000) as f64) / 64.0),
        _ => Number::Float(rng.range(-1000, 1000) as f64),
    }
}

const SYMBOL_TEXTS: &[&str] = &[
    "a", "foo", "foo-bar", "list->vector", "+", "-", "...", "<=?", "a1", "!x", "$", "%tmp", "&k", "*", "/", "x/y", ":key", "<", "=", ">",
    "?", "^", "_", "~", "a.b", "a+b", "a@b", "lambda", "quote", "x->y!", "CamelCase", "λ", "日本語", "é", "a\\x41;b", "->", "-a", "+a",
    "\\x3000;a", "\\x2003;b", "a\\x3000;", "\\x2028;", "\\xa0;x", "\\x1680;", "x\\x205f;y", "unquote", "quasiquote", "unquote-splicing",
    "..a", ".a", "a\\x2c;b", "x\\x3b;y", "\\x5b;", "p\\x7c;q", "\\x5c;", "a\\xa;b", "n\\x3bb;", "\\x1F600;", "z\\xe9;",
];

/// symbols are taken from the reader: the property speaks of symbols the reader can produce
fn rand_symbol(rng: &mut Rng) -> Option<Cell> {
    let t = rng.pick(SYMBOL_TEXTS);
    match catch_unwind(|| marwood::parse::parse_text(t)) {
        Ok(Ok((c @ Cell::Symbol(_), None))) => Some(c),
        _ => None,
    }
}

/// names turned into symbols by string->symbol in a real VM (symbols whose written form needs escapes)
const SYMBOL_NAMES: &[&str] = &[
    "a,b", "x;y", "[", "p|q", "\\", "a\nb", "n;b", "two words", "(", ")", "a(b)c", "\"", "'", "`", "1abc", "42", "-", "+5", ".",
    "#foo", "a\tb", "tab\t", "é", "😀", "\u{7f}", "A", "a", "{x}", "x]",
];

pub fn symbol_pool(s: &mut Session, cfg: &RunCfg) -> Vec<Cell> {
    let mut pool = vec![];
    for n in SYMBOL_NAMES {
        let cps: Vec<String> = n.chars().map(|c| (c as u32).to_string()).collect();
        let text = format!("(string->symbol (list->string (map integer->char '({}))))", cps.join(" "));
        if let Ok(c) = crate::enc::parse_all(&text) {
            if let Outcome::Ok(sym @ Cell::Symbol(_)) = s.eval(&c[0], cfg).0 {
                pool.push(sym);
            }
        }
    }
    pool
}

thread_local! {
    static POOL: std::cell::RefCell<Vec<Cell>> = std::cell::RefCell::new(vec![]);
}

pub fn rand_datum(rng: &mut Rng, depth: usize) -> Cell {
    let k = if depth == 0 { rng.below(7) } else { rng.below(12) };
    match k {
        0 => Cell::Bool(rng.chance(1, 2)),
        1 | 2 => Cell::Number(rand_number(rng)),
        3 => Cell::Char(rand_char(rng)),
        4 => {
            let n = rng.below(6);
            Cell::String((0..n).map(|_| rand_char(rng)).collect())
        }
        5 => {
            let from_pool = POOL.with(|p| {
                let p = p.borrow();
                if !p.is_empty() && rng.chance(1, 2) {
                    Some(p[rng.below(p.len())].clone())
                } else {
                    None
                }
            });
            from_pool.or_else(|| rand_symbol(rng)).unwrap_or(Cell::Nil)
        }
        6 => Cell::Nil,
        7 | 8 => {
            let n = 1 + rng.below(4);
            Cell::new_list((0..n).map(|_| rand_datum(rng, depth - 1)).collect::<Vec<_>>())
        }
        9 => {
            let n = 1 + rng.below(3);
            let tail = loop {
                let t = rand_datum(rng, 0);
                if !t.is_nil() {
                    break t;
                }
            };
            Cell::new_improper_list((0..n).map(|_| rand_datum(rng, depth - 1)).collect::<Vec<_>>(), tail)
        }
        10 => {
            let n = rng.below(4);
            let mut v: Vec<Cell> = (0..n).map(|_| rand_datum(rng, depth - 1)).collect();
            // vectors (like lists) whose first element is one of the abbreviation keywords
            if n > 0 && rng.chance(1, 4) {
                v[0] = Cell::new_symbol(*rng.pick(&["quote", "quasiquote", "unquote"]));
            }
            Cell::Vector(v)
        }
        _ => {
            // (quote d), and the other shapes around the abbreviation keywords: other keywords, other lengths, dotted
            let kw = *rng.pick(&["quote", "quote", "quasiquote", "unquote"]);
            match rng.below(7) {
                0 => Cell::new_list(vec![Cell::new_symbol(kw)]),
                1 => Cell::new_list(vec![Cell::new_symbol(kw), rand_datum(rng, depth - 1), rand_datum(rng, depth - 1)]),
                2 => Cell::new_improper_list(vec![Cell::new_symbol(kw)], Cell::new_symbol("tail")),
                3 => Cell::new_improper_list(vec![Cell::new_symbol(kw), rand_datum(rng, depth - 1)], Cell::new_symbol("tail")),
                _ => Cell::new_list(vec![Cell::new_symbol(kw), rand_datum(rng, depth - 1)]),
            }
        }
    }
}

pub fn main(args: &[String]) -> Result<(), String> {
    let m = kv(args);
    let seed: u64 = get(&m, "seed", 0);
    let count: usize = get(&m, "count", 1000);
    let out = m.get("out").cloned().ok_or("out=<file> required")?;
    let cfg = RunCfg::plain();
    let mut s = Session::new(&cfg);
    s.install_sched(&cfg.sched);
    let pool = symbol_pool(&mut s, &cfg);
    POOL.with(|p| *p.borrow_mut() = pool);
    let mut recs: Vec<(String, Value)> = vec![];
    for i in 0..count {
        let mut rng = Rng::new(seed.wrapping_mul(7_000_003).wrapping_add(i as u64));
        let depth = rng.below(7);
        let d = rand_datum(&mut rng, depth);
        let mut rec = json!({"id": i + 1, "d": enc(&d)});
        let t = match catch_unwind(AssertUnwindSafe(|| format!("{:#}", d))) {
            Ok(t) => t,
            Err(_) => {
                rec["write"] = json!("panic");
                recs.push((format!("\u{10ffff}panic{}", i), rec));
                continue;
            }
        };
        rec["write"] = json!("ok");
        rec["t"] = crate::enc::cps(&t);
        rec["text"] = json!(t.chars().take(120).collect::<String>());
        match catch_unwind(AssertUnwindSafe(|| marwood::parse::parse_text(&t).map(|(c, r)| (c, r.map(|x| x.len()))))) {
            Ok(Ok((d2, rest))) => {
                rec["read"] = json!("ok");
                rec["rest"] = json!(rest.unwrap_or(0));
                rec["d2"] = enc(&d2);
                match catch_unwind(AssertUnwindSafe(|| format!("{:#}", d2))) {
                    Ok(t2) => rec["t2"] = crate::enc::cps(&t2),
                    Err(_) => rec["t2"] = json!("panic"),
                }
            }
            Ok(Err(e)) => {
                rec["read"] = json!("err");
                rec["readerr"] = json!(format!("{:?}", e));
            }
            Err(_) => rec["read"] = json!("panic"),
        }
        // (quote d) evaluated: source -> heap -> result
        let q = Cell::new_list(vec![Cell::new_symbol("quote"), d.clone()]);
        let (o, _) = s.eval(&q, &cfg);
        rec["ev"] = match o {
            Outcome::Ok(d3) => json!({"r":"ok","d":enc(&d3)}),
            Outcome::Err(e) => json!({"r":"err","e":format!("{:?}", e)}),
            Outcome::Panic(msg) => json!({"r":"panic","e":msg}),
            _ => json!({"r":"timeout"}),
        };
        if s.dead {
            s = Session::new(&cfg);
            s.install_sched(&cfg.sched);
        }
        recs.push((t, rec));
    }
    recs.sort_by(|a, b| a.0.cmp(&b.0));
    let mut f = std::io::BufWriter::new(std::fs::File::create(&out).map_err(|e| e.to_string())?);
    for (_, r) in recs {
        writeln!(f, "{}", r).map_err(|e| e.to_string())?;
    }
    Ok(())
}
