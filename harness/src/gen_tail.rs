//! C04: loops of calls in tail position.  A program is a cycle of 1-3 procedures with
//! arities 0..4 (with or without a rest parameter); each procedure decrements a global
//! counter and calls the next one from inside a composition of tail contexts.  The twin
//! program wraps the call in an operand position, making it a non-tail call.
use crate::rng::Rng;

pub struct Proc {
    pub name: String,
    pub nargs: usize,
    pub rest: bool,
}

pub const CONTEXTS: &[&str] = &[
    "if-alt", "if-cons", "cond-else", "cond-clause", "cond-arrow", "case", "and", "or", "when", "unless", "let", "let*",
    "letrec", "named-let", "begin", "lambda-body", "apply", "call/cc", "eval", "immediate-lambda", "internal-define",
];

fn wrap(ctx: &str, call: &str, u: usize) -> String {
    match ctx {
        "if-alt" => format!("(if #f 0 {})", call),
        "if-cons" => format!("(if #t {} 0)", call),
        "cond-else" => format!("(cond (#f 1) (else {}))", call),
        "cond-clause" => format!("(cond (#f 1) ((= 1 1) 2 {}) (else 3))", call),
        "cond-arrow" => format!("(cond (1 => (lambda (x{u}) {})) (else 0))", call, u = u),
        "case" => format!("(case 1 ((2 3) 0) ((1) {}) (else 0))", call),
        "and" => format!("(and #t 1 {})", call),
        "or" => format!("(or #f #f {})", call),
        "when" => format!("(when #t 1 {})", call),
        "unless" => format!("(unless #f 1 {})", call),
        "let" => format!("(let ((t{u} 1)) {})", call, u = u),
        "let*" => format!("(let* ((t{u} 1) (s{u} t{u})) {})", call, u = u),
        "letrec" => format!("(letrec ((h{u} (lambda () 1))) {})", call, u = u),
        "named-let" => format!("(let lp{u} ((i{u} 0)) (if (< i{u} 1) (lp{u} (+ i{u} 1)) {}))", call, u = u),
        "begin" => format!("(begin 1 2 {})", call),
        "lambda-body" => format!("((lambda () 1 {}))", call),
        "immediate-lambda" => format!("((lambda (z{u}) {}) 1)", call, u = u),
        "internal-define" => format!("((lambda () (define d{u} 1) {}))", call, u = u),
        "call/cc" => format!("(call/cc (lambda (k{u}) {}))", call, u = u),
        _ => call.to_string(),
    }
}

pub struct TailProgram {
    pub defs_tail: Vec<String>,
    pub defs_twin: Vec<String>,
    pub start_tail: String,
    pub start_twin: String,
    pub desc: String,
}

/// ctxs: contexts from the outside in; the call form depends on the innermost being apply/eval
pub fn program(procs: &[Proc], ctxs: &[Vec<&str>]) -> TailProgram {
    let m = procs.len();
    let mut defs = [vec![], vec![]];
    for (i, p) in procs.iter().enumerate() {
        let next = &procs[(i + 1) % m];
        let params: Vec<String> = (0..p.nargs).map(|j| format!("a{}", j)).collect();
        let formals = match (p.rest, params.is_empty()) {
            (false, _) => format!("({})", vec![vec![p.name.clone()], params.clone()].concat().join(" ")),
            (true, true) => format!("({} . r)", p.name),
            (true, false) => format!("({} {} . r)", p.name, params.join(" ")),
        };
        // arguments for the next procedure: own parameters, then constants
        let mut args: Vec<String> = vec![];
        for j in 0..next.nargs + if next.rest { (i + 1) % 3 } else { 0 } {
            args.push(if j < params.len() { params[j].clone() } else { format!("{}", j + 1) });
        }
        for twin in 0..2 {
            let (name, nextname) = if twin == 0 { (p.name.clone(), next.name.clone()) } else { (format!("{}n", p.name), format!("{}n", next.name)) };
            let inner = ctxs[i].last().copied().unwrap_or("plain");
            let mut call = match inner {
                "apply" => format!("(apply {} (list {}))", nextname, args.join(" ")),
                "eval" => format!("(eval (list '{} {}))", nextname, args.join(" ")),
                _ => format!("({} {})", nextname, args.join(" ")).replace(" )", ")"),
            };
            if twin == 1 {
                call = format!("(+ 0 {})", call);
            }
            let mut e = call;
            for (d, c) in ctxs[i].iter().enumerate().rev() {
                e = wrap(c, &e, 10 * i + d);
            }
            let formals_t = formals.replacen(&p.name, &name, 1);
            let bump = if p.nargs > 0 { "(+ acc 1 (- a0 a0))".to_string() } else { "(+ acc 1)".to_string() };
            defs[twin].push(format!(
                "(define {} (set! cnt (- cnt 1)) (set! acc {}) (if (<= cnt 0) acc {}))",
                formals_t, bump, e
            ));
        }
    }
    let first = &procs[0];
    let args: Vec<String> = (0..first.nargs + if first.rest { 2 } else { 0 }).map(|j| format!("{}", j + 1)).collect();
    let desc = format!(
        "cycle{} arities[{}] ctx[{}]",
        m,
        procs.iter().map(|p| format!("{}{}", p.nargs, if p.rest { "+" } else { "" })).collect::<Vec<_>>().join(","),
        ctxs.iter().map(|c| c.join(">")).collect::<Vec<_>>().join(" | ")
    );
    TailProgram {
        defs_tail: defs[0].clone(),
        defs_twin: defs[1].clone(),
        start_tail: format!("({} {})", first.name, args.join(" ")).replace(" )", ")"),
        start_twin: format!("({}n {})", first.name, args.join(" ")).replace(" )", ")"),
        desc,
    }
}

/// The idx-th program of the systematic family: single contexts x arity pairs x cycle length,
/// then seeded compositions of depth 2-3.
pub fn nth(idx: usize, rng: &mut Rng) -> TailProgram {
    let nctx = CONTEXTS.len();
    let single_space = nctx * 10 * 10 * 3;
    let (m, ars, ctxs): (usize, Vec<(usize, bool)>, Vec<Vec<&str>>) = if idx < single_space {
        let c = idx % nctx;
        let a = (idx / nctx) % 10;
        let b = (idx / nctx / 10) % 10;
        let m = 1 + (idx / nctx / 100) % 3;
        let ar = |x: usize| (x % 5, x >= 5);
        let mut ars = vec![ar(a)];
        let mut ctxs = vec![vec![CONTEXTS[c]]];
        for j in 1..m {
            ars.push(if j == 1 { ar(b) } else { ar((a + b + 3) % 10) });
            ctxs.push(vec![CONTEXTS[(c + 7 * j) % nctx]]);
        }
        (m, ars, ctxs)
    } else {
        let m = 1 + rng.below(3);
        let ars = (0..m).map(|_| (rng.below(5), rng.chance(1, 3))).collect();
        let ctxs = (0..m)
            .map(|_| {
                let d = 2 + rng.below(2);
                let mut v: Vec<&str> = (0..d).map(|_| *rng.pick(&CONTEXTS[..18])).collect();
                // apply / eval change the call form itself and so can only be innermost
                for x in v.iter_mut() {
                    if *x == "apply" || *x == "eval" {
                        *x = "begin";
                    }
                }
                match rng.below(6) {
                    0 => v.push("apply"),
                    1 => v.push("eval"),
                    _ => {}
                }
                v
            })
            .collect();
        (m, ars, ctxs)
    };
    let procs: Vec<Proc> = (0..m).map(|i| Proc { name: format!("f{}", i + 1), nargs: ars[i].0, rest: ars[i].1 }).collect();
    program(&procs, &ctxs)
}

pub fn single_space() -> usize {
    CONTEXTS.len() * 10 * 10 * 3
}
