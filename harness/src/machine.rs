//! `mwverif machine kind=<generator> seed= count= out= [maxsteps=]`: records for Trace_Machine.
//!
//! One ndjson record per session.  A session evaluates, in a fresh VM, first every form of
//! marwood's prelude.scm again (so that the library procedures written in Scheme are compiled
//! and executed under observation) and then the generated forms.  Per form the record holds
//!   core     the form after macro expansion (`Vm::transform`), as program datum
//!   listing  the compiler's output: the top-level lambda with every nested lambda inline,
//!            operands rendered by meaning (variable names instead of slot numbers)
//!   steps    the register trace: before every instruction [op, flat offset, sp, bp, acc]
//!   r, v     the outcome
//! The TLA+ module Machine compiles `core` itself and executes it instruction by instruction.
use crate::enc::{cps, obs_datum, parse_all, prog_datum, symbol_name, SymTab, INT_LIMIT};
use crate::gen_cmd::{get, kv};
use crate::sess::{Outcome, RunCfg, Session};
use marwood::cell::Cell;
use marwood::number::Number;
use marwood::vm::environment::BindingSource;
use marwood::vm::lambda::Lambda;
use marwood::vm::opcode::OpCode;
use marwood::vm::vcell::VCell;
use marwood::vm::verif::VerifEvent;
use marwood::vm::Vm;
use serde_json::{json, Value};
use std::cell::RefCell;
use std::io::Write;
use std::rc::Rc;

/// prelude.scm of the marwood tree this harness is built against (path taken from Cargo.toml)
pub fn prelude_text() -> Result<String, String> {
    let manifest = concat!(env!("CARGO_MANIFEST_DIR"), "/Cargo.toml");
    let toml = std::fs::read_to_string(manifest).map_err(|e| format!("{}: {}", manifest, e))?;
    let line = toml.lines().find(|l| l.trim_start().starts_with("marwood")).ok_or("no marwood dependency")?;
    let start = line.find("path = \"").ok_or("no path in marwood dependency")? + 8;
    let end = line[start..].find('"').ok_or("bad path")? + start;
    let p = format!("{}/prelude.scm", &line[start..end]);
    std::fs::read_to_string(&p).map_err(|e| format!("{}: {}", p, e))
}

fn sym_id(vm: &Vm, v: &VCell, st: &mut SymTab) -> usize {
    let cells = vm.verif_heap().verif_cells();
    match v {
        VCell::Ptr(p) => match cells.get(*p) {
            Some(VCell::Symbol(s)) => st.id(&symbol_name(s)),
            _ => 0,
        },
        VCell::Symbol(s) => st.id(&symbol_name(s)),
        _ => 0,
    }
}

fn operand(vm: &Vm, lam: &Lambda, v: &VCell, st: &mut SymTab) -> Value {
    match v {
        VCell::Acc => json!({"k":"acc"}),
        VCell::GlobalEnvSlot(slot) => {
            let id = match vm.verif_globenv().get_symbol(*slot) {
                Some(p) => sym_id(vm, &VCell::Ptr(p), st),
                None => 0,
            };
            json!({"k":"g","n":id})
        }
        VCell::LexicalEnvSlot(n) => {
            let id = match lam.envmap.get_map().get(*n) {
                Some((s, _)) => sym_id(vm, s, st),
                None => 0,
            };
            json!({"k":"e","n":id})
        }
        VCell::BasePointerOffset(o) => json!({"k":"b","o":o}),
        other => json!({"k":"?","d":format!("{:?}", other).chars().take(40).collect::<String>()}),
    }
}

fn immediate(vm: &Vm, lam: &Lambda, v: &VCell, st: &mut SymTab, depth: usize) -> Value {
    let cells = vm.verif_heap().verif_cells();
    let target = match v {
        VCell::Ptr(p) => cells.get(*p).cloned().unwrap_or(VCell::Undefined),
        o => o.clone(),
    };
    match &target {
        VCell::ArgumentCount(n) => json!({"k":"argc","n":n}),
        VCell::Lambda(l) => json!({"k":"lam","lam":listing(vm, l, Some(lam), st, depth + 1)}),
        VCell::Macro(_) => json!({"k":"macro"}),
        VCell::Void => json!({"k":"void"}),
        VCell::BuiltInProc(b) => json!({"k": if b.desc() == "vector" { "vecctor".to_string() } else { format!("builtin:{}", b.desc()) }}),
        _ => json!({"k":"val","v":prog_datum(&vm.verif_heap().get_as_cell(v), st)}),
    }
}

/// The compiled lambda with nested lambdas inline.
pub fn listing(vm: &Vm, lam: &Lambda, parent: Option<&Lambda>, st: &mut SymTab, depth: usize) -> Value {
    let mut args = vec![];
    for a in lam.args.iter() {
        args.push(json!(sym_id(vm, a, st)));
    }
    let mut idefs = vec![];
    let mut capt = vec![];
    let mut argmap = vec![];
    for (s, src) in lam.envmap.get_map() {
        let id = sym_id(vm, s, st);
        match src {
            BindingSource::Argument(n) => argmap.push(json!([id, n])),
            BindingSource::InternalDefinition => idefs.push(json!(id)),
            BindingSource::IofArgument(n) => {
                let from = parent.and_then(|p| p.args.get(*n)).map(|a| sym_id(vm, a, st)).unwrap_or(0);
                capt.push(json!([id, "iofarg", from]));
            }
            BindingSource::IofEnvironment(slot) => {
                let from = parent.and_then(|p| p.envmap.get_map().get(*slot)).map(|e| sym_id(vm, &e.0, st)).unwrap_or(0);
                capt.push(json!([id, "iofenv", from]));
            }
            BindingSource::Global => capt.push(json!([id, "global", 0])),
        }
    }
    let mut bc = vec![];
    let mut i = 0;
    if depth < 64 {
        while i < lam.bc.len() {
            let at = i;
            let op = match &lam.bc[i] {
                VCell::OpCode(o) => o.clone(),
                other => {
                    bc.push(json!({"op":"?","at":at}));
                    i += 1;
                    continue;
                }
            };
            i += 1;
            let mut ins = json!({"op": format!("{:?}", op), "at": at});
            let undef = VCell::Undefined;
            match op {
                OpCode::Mov => {
                    ins["s"] = operand(vm, lam, lam.bc.get(i).unwrap_or(&undef), st);
                    ins["d"] = operand(vm, lam, lam.bc.get(i + 1).unwrap_or(&undef), st);
                    i += 2;
                }
                OpCode::MovImmediate => {
                    ins["x"] = immediate(vm, lam, lam.bc.get(i).unwrap_or(&undef), st, depth);
                    ins["d"] = operand(vm, lam, lam.bc.get(i + 1).unwrap_or(&undef), st);
                    i += 2;
                }
                OpCode::PushImmediate => {
                    ins["x"] = immediate(vm, lam, lam.bc.get(i).unwrap_or(&undef), st, depth);
                    i += 1;
                }
                OpCode::Push => {
                    ins["s"] = operand(vm, lam, lam.bc.get(i).unwrap_or(&undef), st);
                    i += 1;
                }
                OpCode::Jmp | OpCode::Jnt => {
                    ins["to"] = match lam.bc.get(i) {
                        Some(VCell::Ptr(t)) => json!(t),
                        _ => json!(-1),
                    };
                    i += 1;
                }
                _ => {}
            }
            bc.push(ins);
        }
    }
    json!({"args": args, "vararg": lam.is_vararg, "idefs": idefs, "capt": capt, "argmap": argmap,
           "top": lam.top_level, "bc": bc, "size": lam.bc.len()})
}

fn scalar(v: &VCell) -> Option<Value> {
    Some(match v {
        VCell::Bool(b) => json!(["bool", b]),
        VCell::Char(c) => json!(["char", *c as u32]),
        VCell::Nil => json!(["nil"]),
        VCell::Number(Number::Fixnum(i)) if *i <= INT_LIMIT && *i >= -INT_LIMIT => json!(["int", i]),
        VCell::Number(_) => json!(["num"]),
        VCell::Symbol(s) => json!(["sym", cps(&symbol_name(s))]),
        VCell::Undefined => json!(["undef"]),
        VCell::Void => json!(["void"]),
        _ => return None,
    })
}

fn shallow(cells: &[VCell], v: &VCell) -> Value {
    let t = match v {
        VCell::Ptr(p) => cells.get(*p).cloned().unwrap_or(VCell::Undefined),
        o => o.clone(),
    };
    if let Some(s) = scalar(&t) {
        return s;
    }
    match &t {
        VCell::Pair(_, _) => json!(["pair"]),
        VCell::String(_) => json!(["str"]),
        VCell::Vector(_) => json!(["vec"]),
        VCell::Closure(_, _) | VCell::Lambda(_) | VCell::BuiltInProc(_) | VCell::Continuation(_) => json!(["proc"]),
        _ => json!(["other"]),
    }
}

/// abstraction of the value in acc (constant cost)
fn acc_abs(vm: &Vm) -> Value {
    let cells = vm.verif_heap().verif_cells();
    let t = match vm.verif_acc() {
        VCell::Ptr(p) => cells.get(*p).cloned().unwrap_or(VCell::Undefined),
        o => o.clone(),
    };
    if let Some(s) = scalar(&t) {
        return s;
    }
    match &t {
        VCell::Pair(a, d) => json!(["pair", shallow(cells, &VCell::Ptr(*a)), shallow(cells, &VCell::Ptr(*d))]),
        VCell::String(s) => json!(["str", cps(&s.borrow())]),
        VCell::Vector(v) => json!(["vec", v.len()]),
        VCell::Closure(l, _) => match cells.get(*l) {
            Some(VCell::Lambda(lam)) => json!(["clo", lam.args.len()]),
            _ => json!(["clo", -1]),
        },
        VCell::Lambda(_) => json!(["lam"]),
        VCell::BuiltInProc(b) => json!(["prim", b.desc()]),
        VCell::Continuation(k) => json!(["kont", k.stack().get_sp()]),
        VCell::Macro(_) => json!(["macro"]),
        _ => json!(["other"]),
    }
}

fn step_record(vm: &Vm) -> Value {
    let (ipl, ipo) = vm.verif_ip();
    let cells = vm.verif_heap().verif_cells();
    let op = match cells.get(ipl) {
        Some(VCell::Lambda(l)) => match l.bc.get(ipo) {
            Some(VCell::OpCode(o)) => format!("{:?}", o),
            _ => "?".to_string(),
        },
        _ => "?".to_string(),
    };
    json!([op, ipo, vm.verif_stack().get_sp(), vm.verif_bp(), acc_abs(vm), top_abs(vm)])
}

/// abstraction of the slot on top of the control stack
fn top_abs(vm: &Vm) -> Value {
    let st = vm.verif_stack();
    let sp = st.get_sp();
    if sp == 0 {
        return json!(["none"]);
    }
    match st.get(sp) {
        Ok(VCell::ArgumentCount(n)) => json!(["argc", n]),
        Ok(VCell::BasePointer(b)) => json!(["bp", b]),
        Ok(VCell::EnvironmentPointer(_)) => json!(["ep"]),
        Ok(VCell::InstructionPointer(_, _)) => json!(["ip"]),
        Ok(v) => shallow(vm.verif_heap().verif_cells(), v),
        Err(_) => json!(["unreadable"]),
    }
}

/// generated forms of one session
fn forms_of(kind: &str, seed: u64) -> Result<Vec<String>, String> {
    let mut rng = crate::rng::Rng::new(seed);
    Ok(match kind {
        "scope1" => crate::gen_scope::random(1, &mut rng).forms(),
        "scope2" => crate::gen_scope::random(2, &mut rng).forms(),
        "scope3" | "scope" => crate::gen_scope::random(3, &mut rng).forms(),
        "scopeloop" => crate::gen_scope::loop_sessions(&mut rng),
        "fail" => crate::gen_fail::session(&mut rng, 6).0.iter().map(|it| it.a.clone()).collect(),
        "tail" => {
            let p = crate::gen_tail::nth(rng.below(1 << 30), &mut rng);
            let mut v: Vec<String> = vec!["(define cnt 0)".into(), "(define acc 0)".into()];
            v.extend(p.defs_tail.iter().cloned());
            v.push(format!("(begin (set! cnt 7) (set! acc 0) {})", p.start_tail));
            v
        }
        other => crate::gcsnap::forms_of(other, seed)?,
    })
}

pub fn main(args: &[String]) -> Result<(), String> {
    let m = kv(args);
    let kind = m.get("kind").cloned().unwrap_or("scope".into());
    let seed: u64 = get(&m, "seed", 0);
    let count: usize = get(&m, "count", 10);
    let maxsteps: usize = get(&m, "maxsteps", 3000);
    let maxtotal: usize = get(&m, "maxtotal", 12000);
    let with_prelude: usize = get(&m, "prelude", 1);
    // force a collection before every gc-th instruction (0: never); run in slices of `budget` instructions (0: unsliced)
    let gc: u64 = get(&m, "gc", 0);
    let budget: usize = get(&m, "budget", 0);
    let out = m.get("out").cloned().ok_or("out=<file> required")?;
    let mut f = std::io::BufWriter::new(std::fs::File::create(&out).map_err(|e| e.to_string())?);
    let prelude: Vec<Cell> = if with_prelude == 1 { parse_all(&prelude_text()?)? } else { vec![] };
    let mut nforms = 0;
    let mut nsteps = 0;
    for i in 0..count {
        let sseed = seed.wrapping_mul(1_000_003).wrapping_add(i as u64);
        let texts = forms_of(&kind, sseed)?;
        let mut cells: Vec<(String, Cell, bool)> = prelude.iter().map(|c| (String::new(), c.clone(), true)).collect();
        for t in texts.iter() {
            for c in parse_all(t)? {
                cells.push((t.chars().take(300).collect(), c, false));
            }
        }
        let mut cfg = RunCfg::plain();
        if budget > 0 {
            cfg.budgets = Some(vec![budget, budget + 1, 1]);
        }
        let mut s = Session::new(&cfg);
        let st_rc: Rc<RefCell<SymTab>> = Rc::new(RefCell::new(SymTab::new()));
        // the procedures implemented in Rust, by name
        let mut builtins = vec![];
        {
            let vm = &s.vm;
            let cells_h = vm.verif_heap().verif_cells();
            let ge = vm.verif_globenv();
            let mut names: Vec<(String, String)> = vec![];
            for symp in ge.iter_bindings() {
                if let Some(VCell::Symbol(name)) = cells_h.get(*symp) {
                    // a binding's slot: look the value up through the symbol table of the VM
                    let mut slot = None;
                    for sl in 0..ge.iter_slots().len() {
                        if ge.get_symbol(sl) == Some(*symp) {
                            slot = Some(sl);
                            break;
                        }
                    }
                    if let Some(sl) = slot {
                        let v = match ge.get_slot(sl) {
                            VCell::Ptr(p) => cells_h.get(p).cloned().unwrap_or(VCell::Undefined),
                            o => o,
                        };
                        if let VCell::BuiltInProc(b) = v {
                            names.push((name.to_string(), b.desc().to_string()));
                        }
                    }
                }
            }
            names.sort();
            for (n, d) in names {
                builtins.push(json!({"id": st_rc.borrow_mut().id(&n), "name": d}));
            }
        }
        let steps: Rc<RefCell<Vec<Value>>> = Rc::new(RefCell::new(vec![]));
        // the compiler's output, taken at the first instruction of the evaluation (later the entry stub may be
        // collected): the entry stub is the lambda the first instruction belongs to, its MOVI operand the top-level lambda
        let first: Rc<RefCell<Option<Value>>> = Rc::new(RefCell::new(None));
        let stc = steps.clone();
        let fc = first.clone();
        let sth = st_rc.clone();
        let mut n: u64 = 0;
        s.vm.verif.hook = Some(Box::new(move |vm: &Vm, ev: VerifEvent| -> bool {
            if ev == VerifEvent::Step {
                n += 1;
                if n > 5_000_000 {
                    n = 0;
                    panic!("verif-timeout");
                }
                let mut v = stc.borrow_mut();
                if v.is_empty() {
                    let (ipl, _) = vm.verif_ip();
                    let cells_h = vm.verif_heap().verif_cells();
                    if let Some(VCell::Lambda(entry)) = cells_h.get(ipl) {
                        if let Some(VCell::Ptr(mp)) = entry.bc.get(3) {
                            if let Some(VCell::Lambda(main)) = cells_h.get(*mp) {
                                *fc.borrow_mut() = Some(listing(vm, main, None, &mut sth.borrow_mut(), 0));
                            }
                        }
                    }
                }
                if v.len() <= maxsteps {
                    v.push(step_record(vm));
                }
                return gc > 0 && n % gc == 0;
            }
            false
        }));
        let mut forms = vec![];
        let mut total = 0;
        for (text, c, is_prelude) in cells.iter() {
            // the form after macro expansion, with the macro table as it is now
            let core = match std::panic::catch_unwind(std::panic::AssertUnwindSafe(|| s.vm.transform(c))) {
                Ok(Ok(x)) => Some(x),
                _ => None,
            };
            steps.borrow_mut().clear();
            *first.borrow_mut() = None;
            let (o, _) = s.eval(c, &cfg);
            let mut v: Vec<Value> = steps.borrow_mut().drain(..).collect();
            let mut rec = json!({"text": text, "prelude": is_prelude});
            let (r, val) = match &o {
                Outcome::Ok(x) => ("ok", obs_datum(x)),
                Outcome::Err(_) => ("err", json!({"t":"void"})),
                _ => ("dead", json!({"t":"void"})),
            };
            let truncated = v.len() > maxsteps;
            if truncated {
                v.truncate(maxsteps);
            }
            rec["r"] = json!(if core.is_none() { "xerr" } else if truncated { "trunc" } else { r });
            rec["v"] = val;
            rec["core"] = match &core {
                Some(x) => prog_datum(x, &mut st_rc.borrow_mut()),
                None => json!({"t":"void"}),
            };
            rec["listing"] = first.borrow_mut().take().unwrap_or(json!({"none": true}));
            total += v.len();
            nsteps += v.len();
            rec["steps"] = Value::Array(v);
            forms.push(rec);
            nforms += 1;
            if s.dead || truncated || total > maxtotal {
                break;
            }
        }
        let rec = json!({"id": i + 1, "kind": kind, "sy": st_rc.borrow().to_json(), "builtins": builtins, "forms": forms});
        writeln!(f, "{}", rec).map_err(|e| e.to_string())?;
    }
    eprintln!("machine {}: {} sessions, {} forms, {} steps", kind, count, nforms, nsteps);
    Ok(())
}
