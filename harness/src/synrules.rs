//! `mwverif synrules ...` -- see DESIGN.md; implemented by the check of the corresponding property.
pub fn main(_args: &[String]) -> Result<(), String> {
    Err("synrules: not implemented yet".into())
}
