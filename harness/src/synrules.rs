//! `mwverif synrules ...` -- C17: syntax-rules transformers and uses, evaluated in a real Vm.
//!
//!   synrules gen seed=S count=N out=F [uses=5] [timeout_ms=10000] [mem_mb=160]
//!       generate transformers and use forms, run them, write one ndjson record per
//!       (transformer, use) pair
//!   synrules corpus in=corpus/synrules.scm out=F
//!       hand-stated transformers with expected expansions (`;=> datum`, `;=> !` = no rule matches)
//!   synrules run in=jobs.ndjson out=F        jobs: {"def": text, "uses": [text...]}
//!   synrules worker                          (internal) evaluates jobs read from stdin
//!
//! Every rule template T is wrapped as (quote T), so evaluating a use yields the expansion
//! as a datum without evaluating it.  Macro expansion is a Rust-level loop inside the
//! compiler which the instruction-count watchdog cannot interrupt, so the evaluation runs in
//! a child process with an address-space cap and a wall-clock limit: exceeding either is
//! recorded as `timeout` (with `how`), the child is replaced and the run continues.
use crate::enc::{parse_all, prog_datum, SymTab};
use crate::gen_cmd::{get, kv};
use crate::rng::Rng;
use crate::sess::{Outcome, RunCfg, Session};
use marwood::cell::Cell;
use serde_json::{json, Value};
use std::io::{BufRead, BufReader, Write};
use std::process::{Child, ChildStdin, Command, Stdio};
use std::sync::mpsc::{channel, Receiver, RecvTimeoutError};
use std::time::Duration;

pub fn main(args: &[String]) -> Result<(), String> {
    if args.is_empty() {
        return Err("synrules gen|corpus|run|worker ...".into());
    }
    let m = kv(&args[1..]);
    match args[0].as_str() {
        "worker" => worker(),
        "gen" => {
            let seed: u64 = get(&m, "seed", 0);
            let count: usize = get(&m, "count", 100);
            let uses: usize = get(&m, "uses", 5);
            let out = m.get("out").cloned().ok_or("out=<file> required")?;
            let mut jobs = vec![];
            let nt = (count + uses - 1) / uses;
            let mut left = count;
            for t in 0..nt {
                let mut g = Gen::new(seed.wrapping_mul(1_000_003).wrapping_add(t as u64));
                let mut job = g.job(uses.min(left));
                job.tid = t + 1;
                left -= job.uses.len();
                jobs.push(job);
            }
            run_jobs(&jobs, &out, &m)
        }
        "corpus" => {
            let inp = m.get("in").cloned().ok_or("in=<file> required")?;
            let out = m.get("out").cloned().ok_or("out=<file> required")?;
            let text = std::fs::read_to_string(&inp).map_err(|e| e.to_string())?;
            let jobs = corpus_jobs(&text)?;
            run_jobs(&jobs, &out, &m)
        }
        "run" => {
            let inp = m.get("in").cloned().ok_or("in=<file> required")?;
            let out = m.get("out").cloned().ok_or("out=<file> required")?;
            let text = std::fs::read_to_string(&inp).map_err(|e| e.to_string())?;
            let mut jobs = vec![];
            for (i, line) in text.lines().enumerate() {
                if line.trim().is_empty() {
                    continue;
                }
                let j: Value = serde_json::from_str(line).map_err(|e| e.to_string())?;
                let def = j["def"].as_str().ok_or("def")?.to_string();
                let uses: Vec<String> =
                    j["uses"].as_array().ok_or("uses")?.iter().map(|u| u.as_str().unwrap_or("").to_string()).collect();
                let n = uses.len();
                jobs.push(Job { tid: i + 1, def, rawdef: None, uses, expect: vec![None; n], feat: vec![] });
            }
            run_jobs(&jobs, &out, &m)
        }
        other => Err(format!("synrules: unknown sub-command {}", other)),
    }
}

// ------------------------------------------------------------------------------------------
// jobs, records

pub struct Job {
    pub tid: usize,
    /// (define-syntax m (syntax-rules ...)) with quoted templates
    pub def: String,
    /// the definition as written (corpus only)
    pub rawdef: Option<String>,
    pub uses: Vec<String>,
    /// corpus only: Some("!") = no rule matches, Some(text) = the expansion
    pub expect: Vec<Option<String>>,
    pub feat: Vec<String>,
}

fn parse_one(text: &str) -> Result<Cell, String> {
    let v = parse_all(text)?;
    if v.len() != 1 {
        return Err(format!("expected one datum in {:?}", text));
    }
    Ok(v.into_iter().next().unwrap())
}

/// The record of one (transformer, use) pair.  `dr`: outcome of the definition,
/// `ur`: outcome of the use (JSON object with field r).
fn record(def: &Cell, use_: &Cell, dr: &Value, ur: &Value, value: Option<&Cell>) -> Value {
    let mut st = SymTab::new();
    let d = prog_datum(def, &mut st);
    let u = prog_datum(use_, &mut st);
    let mut ur = ur.clone();
    if let Some(v) = value {
        ur["v"] = prog_datum(v, &mut st);
    }
    json!({"def": d, "use": u, "dr": dr, "ur": ur, "syms": extra_syms(&st),
           "text": [format!("{:#}", def), format!("{:#}", use_)]})
}

/// The names of the record's symbol table beyond the fixed ones (ids FIXED.len()+1 ...): the
/// fixed names are the same in every record (spec/CEKNames.tla) and are not repeated.
fn extra_syms(st: &SymTab) -> Value {
    Value::Array(st.names[crate::names::FIXED.len()..].iter().map(|n| crate::enc::cps(n)).collect())
}

fn outcome_short(o: &Outcome) -> Value {
    match o {
        Outcome::Ok(_) => json!({"r":"ok"}),
        Outcome::Err(e) => {
            let msg = std::panic::catch_unwind(std::panic::AssertUnwindSafe(|| format!("{}", e))).unwrap_or_else(|_| "<error cannot be rendered>".into());
            json!({"r":"err","k":crate::sess::error_variant(e),"msg":msg})
        }
        Outcome::Panic(m) => json!({"r":"panic","msg":m}),
        Outcome::Timeout => json!({"r":"timeout","how":"instruction budget"}),
        Outcome::StackLimit => json!({"r":"timeout","how":"stack limit"}),
    }
}

// ------------------------------------------------------------------------------------------
// worker: reads one job per line {"def": text, "uses": [text...], "skipdef": bool}, answers
// {"dr": ...} after the definition and one full record per use, flushing each line.

fn worker() -> Result<(), String> {
    let stdin = std::io::stdin();
    let stdout = std::io::stdout();
    for line in stdin.lock().lines() {
        let line = line.map_err(|e| e.to_string())?;
        if line.trim().is_empty() {
            continue;
        }
        let j: Value = serde_json::from_str(&line).map_err(|e| e.to_string())?;
        let def = parse_one(j["def"].as_str().unwrap_or(""))?;
        let cfg = RunCfg::plain();
        let mut s = Session::new(&cfg);
        s.install_sched(&cfg.sched);
        let (o, _) = s.eval(&def, &cfg);
        let dr = outcome_short(&o);
        {
            let mut w = stdout.lock();
            writeln!(w, "{}", json!({"dr": dr})).map_err(|e| e.to_string())?;
            w.flush().map_err(|e| e.to_string())?;
        }
        if dr["r"] != "ok" {
            continue;
        }
        let probes = probe_defs(&def);
        // decoys: definitions of the same keyword that are compiled but never evaluated (an untaken branch, the
        // body of a procedure that is never called, a form rejected by the compiler after the definition) must
        // not replace the transformer
        let decoys: Vec<Cell> = match def.collect_vec().get(1) {
            Some(Cell::Symbol(kw)) => [
                format!("(if #f (define-syntax {} (syntax-rules () ((_ . r) 'decoy-branch))) 0)", kw),
                format!("(define (zz-never-called) (define-syntax {} (syntax-rules () ((_ . r) 'decoy-body))) 0)", kw),
                format!("((lambda () (define-syntax {} (syntax-rules () ((_ . r) 'decoy-rejected))) (if)))", kw),
            ]
            .iter()
            .filter_map(|t| parse_one(t).ok())
            .collect(),
            _ => vec![],
        };
        let mut install = |s: &mut Session| {
            for p in &probes {
                let _ = s.eval(p, &cfg);
            }
            for d in &decoys {
                let _ = s.eval(d, &cfg);
            }
        };
        install(&mut s);
        for u in j["uses"].as_array().cloned().unwrap_or_default() {
            let use_ = parse_one(u.as_str().unwrap_or(""))?;
            if s.dead {
                // the Vm is unusable after a panic: a fresh one with the same definitions
                s = Session::new(&cfg);
                s.install_sched(&cfg.sched);
                let _ = s.eval(&def, &cfg);
                install(&mut s);
            }
            // which rule does the implementation's matcher select?  (the first single-rule
            // transformer with the same pattern and a constant template that accepts the use)
            let mut mrule = 0;
            for k in 0..probes.len() {
                let probe_use = Cell::new_pair(Cell::new_symbol(&format!("m{}", k + 1)), use_.cdr().cloned().unwrap_or(Cell::Nil));
                let (o, _) = s.eval(&probe_use, &cfg);
                if let Outcome::Ok(_) = o {
                    mrule = k + 1;
                    break;
                }
                if s.dead {
                    s = Session::new(&cfg);
                    s.install_sched(&cfg.sched);
                    let _ = s.eval(&def, &cfg);
                    install(&mut s);
                }
            }
            {
                let mut w = stdout.lock();
                writeln!(w, "{}", json!({"mrule": mrule})).map_err(|e| e.to_string())?;
                w.flush().map_err(|e| e.to_string())?;
            }
            let mut rec = eval_use(&mut s, &cfg, &def, &use_, &dr);
            rec["mrule"] = json!(mrule);
            let mut w = stdout.lock();
            writeln!(w, "{}", rec).map_err(|e| e.to_string())?;
            w.flush().map_err(|e| e.to_string())?;
        }
    }
    Ok(())
}

/// For rule k of the transformer: (define-syntax m<k> (syntax-rules [ell] (lits) (pattern_k 'k))).
fn probe_defs(def: &Cell) -> Vec<Cell> {
    let parts = def.collect_vec();
    if parts.len() != 3 {
        return vec![];
    }
    let sr = parts[2].collect_vec();
    let mut head = vec![];
    let mut i = 0;
    if sr.len() < 2 {
        return vec![];
    }
    head.push(sr[0].clone());
    i += 1;
    if sr[i].is_symbol() {
        head.push(sr[i].clone());
        i += 1;
    }
    if i >= sr.len() {
        return vec![];
    }
    head.push(sr[i].clone());
    i += 1;
    let mut out = vec![];
    for (k, r) in sr[i..].iter().enumerate() {
        let pat = match r.car() {
            Some(p) => p.clone(),
            None => continue,
        };
        let tmpl = Cell::new_list(vec![Cell::new_symbol("quote"), Cell::from((k + 1) as i64)]);
        let mut srk = head.clone();
        srk.push(Cell::new_list(vec![pat, tmpl]));
        out.push(Cell::new_list(vec![
            Cell::new_symbol("define-syntax"),
            Cell::new_symbol(&format!("m{}", k + 1)),
            Cell::new_list(srk),
        ]));
    }
    out
}

fn eval_use(s: &mut Session, cfg: &RunCfg, def: &Cell, use_: &Cell, dr: &Value) -> Value {
    let (o, _) = s.eval(use_, cfg);
    let ur = outcome_short(&o);
    match &o {
        Outcome::Ok(v) => record(def, use_, dr, &ur, Some(v)),
        _ => record(def, use_, dr, &ur, None),
    }
}

// ------------------------------------------------------------------------------------------
// parent side: a child worker with limits

struct Worker {
    child: Child,
    stdin: ChildStdin,
    rx: Receiver<String>,
}

impl Worker {
    fn spawn(mem_mb: usize) -> Result<Worker, String> {
        let exe = std::env::current_exe().map_err(|e| e.to_string())?;
        let script = format!("ulimit -v {}; exec \"$0\" synrules worker", mem_mb * 1024);
        let mut child = Command::new("sh")
            .arg("-c")
            .arg(script)
            .arg(exe)
            .stdin(Stdio::piped())
            .stdout(Stdio::piped())
            .stderr(Stdio::null())
            .spawn()
            .map_err(|e| e.to_string())?;
        let stdin = child.stdin.take().unwrap();
        let stdout = child.stdout.take().unwrap();
        let (tx, rx) = channel();
        std::thread::spawn(move || {
            for line in BufReader::new(stdout).lines() {
                match line {
                    Ok(l) => {
                        if tx.send(l).is_err() {
                            break;
                        }
                    }
                    Err(_) => break,
                }
            }
        });
        Ok(Worker { child, stdin, rx })
    }

    /// Next answer line, or the reason there is none.
    fn recv(&mut self, limit: Duration) -> Result<Value, Value> {
        match self.rx.recv_timeout(limit) {
            Ok(l) => serde_json::from_str(&l).map_err(|_| json!({"r":"panic","msg":"unreadable answer of the worker"})),
            Err(RecvTimeoutError::Timeout) => {
                let _ = self.child.kill();
                let _ = self.child.wait();
                Err(json!({"r":"timeout","how":format!("no answer within {} ms (Rust-level loop)", limit.as_millis())}))
            }
            Err(RecvTimeoutError::Disconnected) => {
                let st = self.child.wait().ok();
                use std::os::unix::process::ExitStatusExt;
                let sig = st.and_then(|s| s.signal());
                match sig {
                    // allocation failure under the address-space cap aborts the process
                    Some(6) => Err(json!({"r":"timeout","how":"address-space cap exhausted (unbounded allocation in a Rust-level loop)"})),
                    Some(n) => Err(json!({"r":"panic","msg":format!("process killed by signal {}", n)})),
                    None => Err(json!({"r":"panic","msg":format!("worker exited: {:?}", st)})),
                }
            }
        }
    }
}

impl Drop for Worker {
    fn drop(&mut self) {
        let _ = self.child.kill();
        let _ = self.child.wait();
    }
}

fn run_jobs(jobs: &[Job], out: &str, m: &std::collections::HashMap<String, String>) -> Result<(), String> {
    let timeout = Duration::from_millis(get(m, "timeout_ms", 10_000u64));
    let mem_mb: usize = get(m, "mem_mb", 160);
    let mut f = std::io::BufWriter::new(std::fs::File::create(out).map_err(|e| e.to_string())?);
    let mut w = Worker::spawn(mem_mb)?;
    let mut id = 0usize;
    let mut restarts = 0usize;
    for job in jobs {
        let def = parse_one(&job.def)?;
        let mut emit = |rec: &mut Value, k: usize, f: &mut std::io::BufWriter<std::fs::File>, id: &mut usize| -> Result<(), String> {
            *id += 1;
            rec["id"] = json!(*id);
            rec["tid"] = json!(job.tid);
            if !job.feat.is_empty() {
                rec["feat"] = json!(job.feat);
            }
            if let Some(raw) = &job.rawdef {
                // corpus: the definition as written and the stated expansion, encoded with the
                // record's symbol table (extended by the names only they contain)
                let mut st = SymTab::new();
                if let Some(names) = rec["syms"].as_array() {
                    for n in names {
                        let s: String = n
                            .as_array()
                            .map(|cs| cs.iter().filter_map(|c| c.as_u64().and_then(|c| char::from_u32(c as u32))).collect())
                            .unwrap_or_default();
                        st.id(&s);
                    }
                }
                rec["rawdef"] = prog_datum(&parse_one(raw)?, &mut st);
                rec["expect"] = match &job.expect[k] {
                    None => json!({"k":"none"}),
                    Some(e) if e == "!" => json!({"k":"nomatch"}),
                    Some(e) => json!({"k":"exp","d":prog_datum(&parse_one(e)?, &mut st)}),
                };
                rec["syms"] = extra_syms(&st);
            }
            writeln!(f, "{}", rec).map_err(|e| e.to_string())
        };
        let mut next = 0usize; // next use to evaluate
        loop {
            // (re)send the job with the uses that are left
            let msg = json!({"def": job.def, "uses": &job.uses[next..]});
            writeln!(w.stdin, "{}", msg).map_err(|e| e.to_string())?;
            w.stdin.flush().map_err(|e| e.to_string())?;
            let dr = match w.recv(timeout) {
                Ok(v) => v["dr"].clone(),
                Err(why) => {
                    w = Worker::spawn(mem_mb)?;
                    restarts += 1;
                    why
                }
            };
            if dr["r"] != "ok" {
                // the definition was not accepted: one record for the transformer
                let use_ = parse_one(&job.uses[next])?;
                let mut rec = record(&def, &use_, &dr, &json!({"r":"skip"}), None);
                emit(&mut rec, next, &mut f, &mut id)?;
                break;
            }
            let mut failed = false;
            while next < job.uses.len() {
                let mrule = match w.recv(timeout) {
                    Ok(v) => v["mrule"].as_i64().unwrap_or(-1),
                    Err(_) => -1,
                };
                let answer = if mrule < 0 { Err(json!({"r":"panic","msg":"matcher probe failed"})) } else { w.recv(timeout) };
                match answer {
                    Ok(mut rec) => {
                        emit(&mut rec, next, &mut f, &mut id)?;
                        next += 1;
                    }
                    Err(why) => {
                        let use_ = parse_one(&job.uses[next])?;
                        let mut rec = record(&def, &use_, &dr, &why, None);
                        rec["mrule"] = json!(mrule);
                        emit(&mut rec, next, &mut f, &mut id)?;
                        next += 1;
                        w = Worker::spawn(mem_mb)?;
                        restarts += 1;
                        failed = true;
                        break;
                    }
                }
            }
            if !failed || next >= job.uses.len() {
                break;
            }
        }
    }
    f.flush().map_err(|e| e.to_string())?;
    eprintln!("synrules: {} transformers, {} records, {} worker restarts", jobs.len(), id, restarts);
    Ok(())
}

// ------------------------------------------------------------------------------------------
// corpus: sessions separated by `===`; first datum the definition, then uses, each followed
// by `;=> expansion` or `;=> !`

fn wrap_templates(def: &Cell) -> Result<Cell, String> {
    let parts = def.collect_vec();
    if parts.len() != 3 {
        return Err(format!("corpus: not a define-syntax form: {:#}", def));
    }
    let sr = parts[2].collect_vec();
    let mut out = vec![];
    let mut i = 0;
    out.push(sr[0].clone());
    i += 1;
    if sr[i].is_symbol() {
        out.push(sr[i].clone());
        i += 1;
    }
    out.push(sr[i].clone());
    i += 1;
    for r in &sr[i..] {
        let rv = r.collect_vec();
        if rv.len() != 2 {
            return Err(format!("corpus: bad rule {:#}", r));
        }
        let q = Cell::new_list(vec![Cell::new_symbol("quote"), rv[1].clone()]);
        out.push(Cell::new_list(vec![rv[0].clone(), q]));
    }
    Ok(Cell::new_list(vec![parts[0].clone(), parts[1].clone(), Cell::new_list(out)]))
}

fn corpus_jobs(text: &str) -> Result<Vec<Job>, String> {
    let sessions = crate::corpus::read_corpus(text)?;
    let mut jobs = vec![];
    for (i, s) in sessions.iter().enumerate() {
        if s.forms.len() < 2 {
            return Err(format!("corpus session {}: definition and at least one use expected", i + 1));
        }
        let raw = &s.forms[0];
        let def = wrap_templates(raw)?;
        let uses: Vec<String> = s.forms[1..].iter().map(|c| format!("{:#}", c)).collect();
        let expect: Vec<Option<String>> = s.expect[1..].to_vec();
        jobs.push(Job {
            tid: i + 1,
            def: format!("{:#}", def),
            rawdef: Some(format!("{:#}", raw)),
            uses,
            expect,
            feat: vec!["corpus".into()],
        });
    }
    Ok(jobs)
}

// ------------------------------------------------------------------------------------------
// generator

#[derive(Clone, Debug, PartialEq)]
enum D {
    Sym(String),
    Int(i64),
    Bool(bool),
    Str(String),
    Char(char),
    /// items and optional dotted tail; no items and no tail = ()
    List(Vec<D>, Option<Box<D>>),
    Vector(Vec<D>),
}

fn sym(s: &str) -> D {
    D::Sym(s.to_string())
}
fn list(v: Vec<D>) -> D {
    D::List(v, None)
}

impl D {
    fn text(&self, out: &mut String) {
        match self {
            D::Sym(s) => out.push_str(s),
            D::Int(i) => out.push_str(&i.to_string()),
            D::Bool(b) => out.push_str(if *b { "#t" } else { "#f" }),
            D::Str(s) => {
                out.push('"');
                out.push_str(s);
                out.push('"');
            }
            D::Char(c) => {
                out.push_str("#\\");
                out.push(*c);
            }
            D::List(v, tl) => {
                out.push('(');
                for (i, d) in v.iter().enumerate() {
                    if i > 0 {
                        out.push(' ');
                    }
                    d.text(out);
                }
                if let Some(t) = tl {
                    if !v.is_empty() {
                        out.push_str(" . ");
                        t.text(out);
                    }
                }
                out.push(')');
            }
            D::Vector(v) => {
                out.push_str("#(");
                for (i, d) in v.iter().enumerate() {
                    if i > 0 {
                        out.push(' ');
                    }
                    d.text(out);
                }
                out.push(')');
            }
        }
    }
    fn to_text(&self) -> String {
        let mut s = String::new();
        self.text(&mut s);
        s
    }
}

const LIT_POOL: &[&str] = &["else", "=>", "to", "by", "in"];
const FREE_SYMS: &[&str] = &["foo", "bar", "list", "+", "if", "k", "tmp"];
const DATA_SYMS: &[&str] = &["x", "y", "z", "p", "q", "else", "=>", "to", "a", "b", "foo", "m", "quux"];
const VAR_NAMES: &[&str] = &["a", "b", "c", "d", "e", "f", "g", "h", "i", "j", "n", "r", "s", "t", "u", "v", "w"];

struct Gen {
    rng: Rng,
    ell: String,
    lits: Vec<String>,
    feat: Vec<String>,
    // per rule
    vars: Vec<(String, usize)>,
    nvar: usize,
}

impl Gen {
    fn new(seed: u64) -> Gen {
        Gen { rng: Rng::new(seed), ell: "...".into(), lits: vec![], feat: vec![], vars: vec![], nvar: 0 }
    }

    fn tag(&mut self, t: &str) {
        if !self.feat.iter().any(|x| x == t) {
            self.feat.push(t.to_string());
        }
    }

    fn job(&mut self, nuses: usize) -> Job {
        // ellipsis identifier
        if self.rng.chance(1, 5) {
            self.ell = (*self.rng.pick(&[":::", "___", "etc"])).to_string();
            self.tag("custom-ellipsis");
        }
        // literals
        let nl = self.rng.weighted(&[40, 35, 20, 5]);
        let mut pool: Vec<&str> = LIT_POOL.to_vec();
        for _ in 0..nl {
            let i = self.rng.below(pool.len());
            self.lits.push(pool.remove(i).to_string());
        }
        if self.rng.chance(1, 40) {
            self.lits.push("_".into());
            self.tag("underscore-literal");
        }
        let nrules = 1 + self.rng.weighted(&[45, 35, 20]);
        let mut rules = vec![];
        for _ in 0..nrules {
            self.vars.clear();
            self.nvar = 0;
            let kw = match self.rng.weighted(&[60, 30, 10]) {
                0 => sym("_"),
                1 => sym("m"),
                _ => sym("kw"),
            };
            let (items, tail) = self.pat_items(1, 0, true);
            let mut v = vec![kw];
            v.extend(items);
            let pat = D::List(v, tail.map(Box::new));
            let tmpl = self.template();
            rules.push((pat, tmpl));
        }
        let mut sr = vec![sym("syntax-rules")];
        if self.ell != "..." {
            sr.push(sym(&self.ell));
        }
        sr.push(list(self.lits.iter().map(|l| sym(l)).collect()));
        for (p, t) in &rules {
            sr.push(list(vec![p.clone(), list(vec![sym("quote"), t.clone()])]));
        }
        let def = list(vec![sym("define-syntax"), sym("m"), list(sr)]);
        let mut uses = vec![];
        for _ in 0..nuses {
            let r = self.rng.below(rules.len());
            let u = self.use_for(&rules[r].0);
            uses.push(u.to_text());
        }
        Job { tid: 0, def: def.to_text(), rawdef: None, expect: vec![None; uses.len()], uses, feat: self.feat.clone() }
    }

    // ---------------------------------------------------------------- patterns
    fn fresh_var(&mut self, depth: usize) -> D {
        let name = if self.nvar < VAR_NAMES.len() {
            VAR_NAMES[self.nvar].to_string()
        } else {
            format!("v{}", self.nvar)
        };
        self.nvar += 1;
        self.vars.push((name.clone(), depth));
        D::Sym(name)
    }

    fn pat_atom(&mut self) -> D {
        match self.rng.weighted(&[30, 20, 20, 15, 15]) {
            0 => D::Int(self.rng.range(0, 9)),
            1 => D::Str((*self.rng.pick(&["s", "step", ""])).to_string()),
            2 => D::Bool(self.rng.chance(1, 2)),
            3 => D::Char(*self.rng.pick(&['a', 'z'])),
            _ => list(vec![]),
        }
    }

    /// one sub-pattern at list nesting `nest` (1 = arguments of the use) under `ed` ellipses
    fn pat(&mut self, nest: usize, ed: usize) -> D {
        let can_nest = nest < 3;
        let w_lit = if self.lits.is_empty() { 0 } else { 10 };
        match self.rng.weighted(&[45, w_lit, 8, 7, if can_nest { 24 } else { 0 }, if can_nest { 6 } else { 0 }]) {
            0 => self.fresh_var(ed),
            1 => {
                let l = self.rng.pick(&self.lits.clone()).clone();
                self.tag("literal");
                D::Sym(l)
            }
            2 => {
                self.tag("underscore");
                sym("_")
            }
            3 => {
                self.tag("pattern-datum");
                self.pat_atom()
            }
            4 => {
                let (items, tail) = self.pat_items(nest + 1, ed, false);
                if nest + 1 >= 3 {
                    self.tag("pattern-nesting-3");
                }
                D::List(items, tail.map(Box::new))
            }
            _ => {
                self.tag("vector-pattern");
                let (items, _) = self.pat_items(nest + 1, ed, false);
                D::Vector(items)
            }
        }
    }

    /// the items of a list pattern (and its dotted tail)
    fn pat_items(&mut self, nest: usize, ed: usize, top: bool) -> (Vec<D>, Option<D>) {
        let n = self.rng.weighted(&[if top { 4 } else { 8 }, 30, 34, 20, 8]);
        let with_ell = ed < 2 && self.rng.chance(if top { 55 } else { 40 }, 100);
        let mut items = vec![];
        let ell_at = if with_ell { Some(self.rng.below(n + 1)) } else { None };
        let mut after = 0;
        for i in 0..=n {
            if Some(i) == ell_at {
                // the repeated sub-pattern
                let pe = match self.rng.weighted(&[57, if nest < 3 { 36 } else { 0 }, if nest < 3 { 4 } else { 0 }, 1, 1]) {
                    0 => self.fresh_var(ed + 1),
                    1 => {
                        let (it, tl) = self.pat_items(nest + 1, ed + 1, false);
                        if it.is_empty() && tl.is_none() {
                            self.fresh_var(ed + 1)
                        } else {
                            if ed + 1 == 2 {
                                self.tag("pattern-ellipsis-depth-2");
                            }
                            D::List(it, tl.map(Box::new))
                        }
                    }
                    2 => {
                        self.tag("vector-pattern");
                        let (it, _) = self.pat_items(nest + 1, ed + 1, false);
                        D::Vector(it)
                    }
                    3 => {
                        self.tag("underscore-ellipsis");
                        sym("_")
                    }
                    _ => {
                        if self.lits.is_empty() {
                            self.fresh_var(ed + 1)
                        } else {
                            self.tag("literal-ellipsis");
                            D::Sym(self.rng.pick(&self.lits.clone()).clone())
                        }
                    }
                };
                if ed + 1 == 2 {
                    self.tag("pattern-ellipsis-depth-2");
                } else {
                    self.tag("pattern-ellipsis-depth-1");
                }
                items.push(pe);
                items.push(D::Sym(self.ell.clone()));
                after = n.saturating_sub(i + 1);
            } else if i < n {
                let p = self.pat(nest, ed);
                items.push(p);
            }
        }
        if with_ell && after > 0 {
            self.tag("tail-after-ellipsis");
        }
        // dotted tail
        let tail = if !items.is_empty() && self.rng.chance(14, 100) {
            self.tag("dotted-pattern");
            if self.rng.chance(85, 100) {
                Some(self.fresh_var(ed))
            } else {
                Some(D::Int(self.rng.range(0, 9)))
            }
        } else if items.is_empty() && top && self.rng.chance(1, 2) {
            // (_ . r)
            self.tag("dotted-pattern");
            Some(self.fresh_var(ed))
        } else {
            None
        };
        if items.is_empty() && tail.is_some() && !top {
            // `( . r)` is not a list: just r
            return (vec![tail.unwrap()], None);
        }
        (items, tail)
    }

    // ---------------------------------------------------------------- templates
    fn t_atom(&mut self) -> D {
        match self.rng.weighted(&[40, 25, 10, 10, 10, 5]) {
            0 => sym(*self.rng.pick(FREE_SYMS)),
            1 => D::Int(self.rng.range(0, 99)),
            2 => D::Str("str".into()),
            3 => D::Bool(self.rng.chance(1, 2)),
            4 => list(vec![]),
            _ => D::Char('c'),
        }
    }

    fn vars_at(&self, d: usize) -> Vec<String> {
        self.vars.iter().filter(|(_, vd)| *vd == d || *vd == 0).map(|(n, _)| n.clone()).collect()
    }
    fn vars_deeper(&self, d: usize) -> Vec<(String, usize)> {
        self.vars.iter().filter(|(_, vd)| *vd > d).cloned().collect()
    }

    fn template(&mut self) -> D {
        // rare deliberately erroneous templates: nothing is prescribed for them except termination
        if !self.vars.is_empty() && self.rng.chance(4, 100) {
            let (v, d) = self.rng.pick(&self.vars.clone()).clone();
            let e = D::Sym(self.ell.clone());
            let deep: Vec<(String, usize)> = self.vars.iter().filter(|(_, vd)| *vd == 1).cloned().collect();
            return match self.rng.below(4) {
                3 if !deep.is_empty() => {
                    // the ill-formed piece sits inside a repetition that is itself well driven
                    self.tag("erroneous:undriven-ellipsis-inside-a-repetition");
                    let w = self.rng.pick(&deep).0.clone();
                    let plain: Vec<String> = self.vars.iter().filter(|(_, vd)| *vd == 0).map(|(n, _)| n.clone()).collect();
                    let c = if !plain.is_empty() && self.rng.chance(1, 2) { D::Sym(self.rng.pick(&plain).clone()) } else { D::Int(5) };
                    let inner = match self.rng.below(3) {
                        0 => list(vec![D::Sym(w), list(vec![c, e.clone()])]),
                        1 => list(vec![list(vec![c, e.clone()]), D::Sym(w)]),
                        _ => list(vec![D::Sym(w.clone()), list(vec![sym("foo"), list(vec![c, e.clone()])]), D::Sym(w)]),
                    };
                    list(vec![inner, e])
                }
                0 => {
                    self.tag("erroneous:too-many-ellipses");
                    let mut items = vec![sym("foo"), D::Sym(v)];
                    for _ in 0..=d {
                        items.push(e.clone());
                    }
                    list(items)
                }
                1 if d > 0 => {
                    self.tag("erroneous:too-few-ellipses");
                    list(vec![sym("foo"), D::Sym(v)])
                }
                _ => {
                    self.tag("erroneous:ellipsis-after-constant");
                    list(vec![D::Sym(v), D::Int(1), e])
                }
            };
        }
        let budget = 3;
        match self.rng.weighted(&[8, 92]) {
            0 => self.t_any(0, 0, None),
            _ => self.t_compound(0, budget, None),
        }
    }

    /// a template under `d` ellipses; if `must` is given it contains that variable at its depth
    fn t_any(&mut self, d: usize, budget: usize, must: Option<&(String, usize)>) -> D {
        if let Some((v, vd)) = must {
            if *vd == d && (budget == 0 || self.rng.chance(50, 100)) {
                return D::Sym(v.clone());
            }
            return self.t_compound(d, budget.max(1), must);
        }
        let here = self.vars_at(d);
        let w_var = if here.is_empty() { 0 } else { 55 };
        let w_comp = if budget > 0 { 30 } else { 0 };
        match self.rng.weighted(&[w_var, 15, w_comp]) {
            0 => D::Sym(self.rng.pick(&here).clone()),
            1 => self.t_atom(),
            _ => self.t_compound(d, budget, None),
        }
    }

    fn t_compound(&mut self, d: usize, budget: usize, must: Option<&(String, usize)>) -> D {
        let budget = budget.saturating_sub(1);
        let n = 1 + self.rng.weighted(&[20, 35, 30, 15]);
        let must_pos = self.rng.below(n);
        let mut items = vec![];
        // marwood rejects a template list with two ellipses: keep most lists to one
        let mut had_ell = must.map(|(_, vd)| *vd > d).unwrap_or(false);
        for i in 0..n {
            let m = if i == must_pos { must } else { None };
            let deeper = self.vars_deeper(d);
            let force_ell = m.map(|(_, vd)| *vd > d).unwrap_or(false);
            let p_ell = if had_ell { 6 } else { 45 };
            if force_ell || (m.is_none() && !deeper.is_empty() && self.rng.chance(p_ell, 100)) {
                had_ell = true;
                // an element followed by an ellipsis, iterating over variable `it`
                let it = match m {
                    Some(x) => x.clone(),
                    None => self.rng.pick(&deeper).clone(),
                };
                // rarely: (x ... ...) for a variable of depth d+2
                if it.1 == d + 2 && self.rng.chance(1, 12) {
                    self.tag("template-consecutive-ellipses");
                    items.push(D::Sym(it.0.clone()));
                    items.push(D::Sym(self.ell.clone()));
                    items.push(D::Sym(self.ell.clone()));
                    continue;
                }
                let e = self.t_any(d + 1, budget, Some(&it));
                if d + 1 == 2 {
                    self.tag("template-ellipsis-depth-2");
                } else {
                    self.tag("template-ellipsis-depth-1");
                }
                items.push(e);
                items.push(D::Sym(self.ell.clone()));
            } else {
                let e = self.t_any(d, budget, m);
                items.push(e);
            }
        }
        // (... ...)
        if d == 0 && must.is_none() && self.rng.chance(2, 100) {
            self.tag("ellipsis-escape");
            items.push(list(vec![D::Sym(self.ell.clone()), D::Sym(self.ell.clone())]));
        }
        match self.rng.weighted(&[90, 5, 5]) {
            0 => list(items),
            1 => {
                self.tag("vector-template");
                D::Vector(items)
            }
            _ => {
                self.tag("dotted-template");
                let here = self.vars_at(d);
                let tl = if !here.is_empty() && self.rng.chance(70, 100) {
                    D::Sym(self.rng.pick(&here).clone())
                } else {
                    D::Int(self.rng.range(0, 9))
                };
                D::List(items, Some(Box::new(tl)))
            }
        }
    }

    // ---------------------------------------------------------------- uses
    fn datum(&mut self, depth: usize) -> D {
        let w_comp = if depth < 2 { 25 } else { 0 };
        match self.rng.weighted(&[30, 35, 5, 5, 3, 4, w_comp, if depth < 2 { 5 } else { 0 }]) {
            0 => D::Int(self.rng.range(0, 99)),
            1 => sym(*self.rng.pick(DATA_SYMS)),
            2 => D::Str((*self.rng.pick(&["s", "step", "hello"])).to_string()),
            3 => D::Bool(self.rng.chance(1, 2)),
            4 => D::Char(*self.rng.pick(&['a', 'z'])),
            5 => list(vec![]),
            6 => {
                let n = 1 + self.rng.below(3);
                let v: Vec<D> = (0..n).map(|_| self.datum(depth + 1)).collect();
                if self.rng.chance(1, 8) {
                    let tl = if self.rng.chance(1, 2) { D::Int(self.rng.range(0, 9)) } else { sym(*self.rng.pick(DATA_SYMS)) };
                    D::List(v, Some(Box::new(tl)))
                } else {
                    list(v)
                }
            }
            _ => {
                let n = self.rng.below(3);
                D::Vector((0..n).map(|_| self.datum(depth + 1)).collect())
            }
        }
    }

    fn is_ell(&self, d: &D) -> bool {
        matches!(d, D::Sym(s) if *s == self.ell)
    }

    /// A form matching pattern `p`.  counts: Some([n1, n2]) = every ellipsis of depth k repeats
    /// n_k times (so variables iterated together always have equal lengths).
    fn matching(&mut self, p: &D, ed: usize, counts: &Option<[usize; 2]>) -> D {
        match p {
            D::Sym(s) => {
                if self.lits.iter().any(|l| l == s) {
                    D::Sym(s.clone())
                } else {
                    self.datum(0)
                }
            }
            D::List(items, tl) => {
                let mut out = self.matching_items(items, ed, counts);
                let tail = match tl {
                    None => None,
                    Some(t) => match &**t {
                        D::Sym(s) if !self.lits.iter().any(|l| l == s) => match self.rng.weighted(&[35, 35, 30]) {
                            0 => None,
                            1 => Some(Box::new(if self.rng.chance(1, 2) { D::Int(self.rng.range(0, 9)) } else { sym(*self.rng.pick(DATA_SYMS)) })),
                            _ => {
                                let n = 1 + self.rng.below(2);
                                for _ in 0..n {
                                    let d = self.datum(1);
                                    out.push(d);
                                }
                                None
                            }
                        },
                        other => Some(Box::new(self.matching(other, ed, counts))),
                    },
                };
                if out.is_empty() {
                    return match tail {
                        Some(t) => *t,
                        None => list(vec![]),
                    };
                }
                D::List(out, tail)
            }
            D::Vector(items) => D::Vector(self.matching_items(items, ed, counts)),
            other => other.clone(),
        }
    }

    fn matching_items(&mut self, items: &[D], ed: usize, counts: &Option<[usize; 2]>) -> Vec<D> {
        let mut out = vec![];
        let mut i = 0;
        while i < items.len() {
            if i + 1 < items.len() && self.is_ell(&items[i + 1]) {
                let n = match counts {
                    Some(c) => c[ed.min(1)],
                    None => self.rng.weighted(&[20, 25, 30, 20, 5]),
                };
                for _ in 0..n {
                    let d = self.matching(&items[i], ed + 1, counts);
                    out.push(d);
                }
                i += 2;
            } else {
                let d = self.matching(&items[i], ed, counts);
                out.push(d);
                i += 1;
            }
        }
        out
    }

    fn mutate(&mut self, d: &D, top: bool) -> D {
        match d {
            D::List(items, tl) if !items.is_empty() => {
                let mut items = items.clone();
                let mut tl = tl.clone();
                let lo = if top { 1 } else { 0 };
                match self.rng.below(6) {
                    0 if items.len() > lo => {
                        let i = lo + self.rng.below(items.len() - lo);
                        items.remove(i);
                    }
                    1 => {
                        let i = lo + self.rng.below(items.len() - lo + 1);
                        let x = self.datum(1);
                        items.insert(i, x);
                    }
                    2 if items.len() > lo => {
                        let i = lo + self.rng.below(items.len() - lo);
                        items[i] = self.datum(0);
                    }
                    3 if items.len() > lo => {
                        let i = lo + self.rng.below(items.len() - lo);
                        items[i] = self.mutate(&items[i].clone(), false);
                    }
                    4 => {
                        tl = if tl.is_some() { None } else { Some(Box::new(D::Int(7))) };
                    }
                    _ => {
                        if items.len() > lo {
                            let i = lo + self.rng.below(items.len() - lo);
                            items[i] = self.mutate(&items[i].clone(), false);
                        } else {
                            let x = self.datum(1);
                            items.push(x);
                        }
                    }
                }
                if items.is_empty() {
                    return list(vec![]);
                }
                D::List(items, tl)
            }
            D::Vector(items) => {
                let mut items = items.clone();
                if !items.is_empty() && self.rng.chance(1, 2) {
                    items.pop();
                } else {
                    let x = self.datum(1);
                    items.push(x);
                }
                D::Vector(items)
            }
            D::Sym(s) => {
                if self.rng.chance(1, 2) {
                    sym(if s == "else" { "=>" } else { "else" })
                } else {
                    list(vec![D::Sym(s.clone())])
                }
            }
            // a datum of another kind that is displayed with the same characters
            D::Int(n) if self.rng.chance(1, 2) => {
                self.tag("look-alike-datum");
                D::Str(n.to_string())
            }
            D::Str(t) if self.rng.chance(1, 2) => {
                self.tag("look-alike-datum");
                if t.is_empty() || !t.chars().all(|c| c.is_ascii_lowercase()) { D::Char('"') } else if t.len() == 1 && self.rng.chance(1, 2) { D::Char(t.chars().next().unwrap()) } else { D::Sym(t.clone()) }
            }
            D::Bool(b) if self.rng.chance(1, 2) => {
                self.tag("look-alike-datum");
                D::Str(if *b { "#t" } else { "#f" }.to_string())
            }
            D::Char(c) if self.rng.chance(1, 2) => {
                self.tag("look-alike-datum");
                if self.rng.chance(1, 2) { D::Sym(c.to_string()) } else { D::Str(c.to_string()) }
            }
            D::List(items, None) if items.is_empty() && self.rng.chance(1, 2) => {
                self.tag("look-alike-datum");
                D::Str("()".to_string())
            }
            _ => self.datum(0),
        }
    }

    fn use_for(&mut self, pat: &D) -> D {
        let counts = if self.rng.chance(6, 100) {
            // an ellipsis absorbing a long run of forms (17 .. 40): bodies and binding lists of real programs
            self.tag("long-ellipsis-run");
            Some([17 + self.rng.below(24), self.rng.weighted(&[30, 40, 30])])
        } else if self.rng.chance(70, 100) {
            Some([self.rng.weighted(&[15, 25, 35, 20, 5]), self.rng.weighted(&[15, 30, 35, 20])])
        } else {
            None
        };
        let (items, tl) = match pat {
            D::List(items, tl) => (items.clone(), tl.clone()),
            _ => unreachable!(),
        };
        // match the pattern without its keyword, then put the keyword of the macro in front
        let body = D::List(items[1..].to_vec(), tl);
        let body = if items.len() == 1 {
            match &body {
                D::List(_, Some(t)) => self.matching(&t.clone(), 0, &counts),
                _ => list(vec![]),
            }
        } else {
            self.matching(&body, 0, &counts)
        };
        let mut u = match body {
            D::List(v, tl) => {
                let mut w = vec![sym("m")];
                w.extend(v);
                D::List(w, tl)
            }
            atom => D::List(vec![sym("m")], Some(Box::new(atom))),
        };
        // about a third of the uses are perturbed (most of them then match no rule or another one)
        let k = self.rng.weighted(&[68, 24, 8]);
        for _ in 0..k {
            u = self.mutate(&u, true);
        }
        u
    }
}
