//! Running a session (a sequence of top-level forms) in a real `Vm` under a
//! configuration (collection schedule, slice budgets, unrelated prefix) and
//! recording one observation per form.
use crate::enc::obs_datum;
use marwood::cell::Cell;
use marwood::error::Error;
use marwood::vm::verif::VerifEvent;
use marwood::vm::{SystemInterface, Vm};
use serde_json::{json, Value};
use std::cell::RefCell;
use std::panic::{catch_unwind, AssertUnwindSafe};
use std::rc::Rc;

pub const INSTR_LIMIT: u64 = 20_000_000;

#[derive(Clone, Debug)]
pub enum Sched {
    None,
    /// force a collection before every k-th instruction
    Every(u64),
    /// force a collection before an instruction with probability p/1024 (xorshift, seeded)
    Random(u64, u64),
}

#[derive(Clone, Debug)]
pub struct RunCfg {
    pub name: String,
    pub sched: Sched,
    /// Some(budgets): prepare_eval + run_count with these budgets, cycled
    pub budgets: Option<Vec<usize>>,
    /// evaluate unrelated definitions first
    pub prefix: bool,
    /// force a collection after every form and record the number of cells in use
    pub live: bool,
}

impl RunCfg {
    pub fn plain() -> RunCfg {
        RunCfg { name: "plain".into(), sched: Sched::None, budgets: None, prefix: false, live: false }
    }
    pub fn to_json(&self) -> Value {
        json!({"name": self.name, "sched": format!("{:?}", self.sched),
               "budgets": format!("{:?}", self.budgets), "prefix": self.prefix})
    }
}

#[derive(Debug)]
pub struct Capture {
    pub out: Rc<RefCell<Vec<(&'static str, Cell)>>>,
}
impl SystemInterface for Capture {
    fn display(&self, cell: &Cell) {
        self.out.borrow_mut().push(("display", cell.clone()));
    }
    fn write(&self, cell: &Cell) {
        self.out.borrow_mut().push(("write", cell.clone()));
    }
    fn terminal_dimensions(&self) -> (usize, usize) {
        (80, 24)
    }
    fn time_utc(&self) -> u64 {
        0
    }
}

pub const PREFIX_FORMS: &str = r#"
(define zz-unrelated-1 (lambda (a b) (cons b a)))
(define zz-unrelated-2 (list 1 2 3 (vector 4 5) "six"))
(define (zz-unrelated-3 . r) (if (null? r) 0 (+ 1 (apply zz-unrelated-3 (cdr r)))))
(zz-unrelated-3 1 2 3 4 5)
(define-syntax zz-unrelated-4 (syntax-rules () ((_ a) (list a a))))
(define zz-unrelated-5 (call/cc (lambda (k) k)))
"#;

pub fn error_variant(e: &Error) -> String {
    let s = format!("{:?}", e);
    s.split(|c: char| !c.is_alphanumeric()).next().unwrap_or("").to_string()
}

pub fn silence_panics() {
    std::panic::set_hook(Box::new(|info| {
        if std::env::var("MWVERIF_SHOW_PANICS").is_ok() {
            eprintln!("panic: {}", info);
            if std::env::var("MWVERIF_SHOW_PANICS").map(|v| v == "bt").unwrap_or(false) {
                eprintln!("{}", std::backtrace::Backtrace::force_capture());
            }
        }
    }));
}

/// Outcome of one evaluation
pub enum Outcome {
    Ok(Cell),
    Err(Error),
    Panic(String),
    Timeout,
    /// abandoned by the watchdog because the stack pointer exceeded the configured limit
    StackLimit,
}

pub struct Session {
    pub vm: Vm,
    pub out: Rc<RefCell<Vec<(&'static str, Cell)>>>,
    pub dead: bool,
    /// the watchdog abandons an evaluation whose stack pointer exceeds this (reported as "stacklimit")
    pub sp_limit: Rc<std::cell::Cell<usize>>,
    /// instruction budget of one evaluation (watchdog)
    pub instr_limit: Rc<std::cell::Cell<u64>>,
    /// instructions executed by the evaluation in progress (reset by `eval`)
    pub instr_used: Rc<std::cell::Cell<u64>>,
}

fn xorshift(s: &mut u64) -> u64 {
    let mut x = *s;
    x ^= x << 13;
    x ^= x >> 7;
    x ^= x << 17;
    *s = x;
    x
}

impl Session {
    pub fn new(cfg: &RunCfg) -> Session {
        let mut vm = Vm::new();
        let out = Rc::new(RefCell::new(vec![]));
        vm.set_system_interface(Box::new(Capture { out: out.clone() }));
        if cfg.prefix {
            for c in crate::enc::parse_all(PREFIX_FORMS).unwrap() {
                let _ = vm.eval(&c);
            }
            out.borrow_mut().clear();
        }
        Session { vm, out, dead: false, sp_limit: Rc::new(std::cell::Cell::new(usize::MAX)), instr_limit: Rc::new(std::cell::Cell::new(INSTR_LIMIT)), instr_used: Rc::new(std::cell::Cell::new(0)) }
    }

    pub fn install_sched(&mut self, sched: &Sched) {
        let limit = self.instr_limit.clone();
        let used = self.instr_used.clone();
        let mut count: u64 = 0;
        let sched = sched.clone();
        let sp_limit = self.sp_limit.clone();
        let mut rng = match sched {
            Sched::Random(seed, _) => seed | 1,
            _ => 1,
        };
        self.vm.verif.hook = Some(Box::new(move |_vm: &Vm, ev: VerifEvent| -> bool {
            if ev != VerifEvent::Step {
                return false;
            }
            count += 1;
            used.set(used.get() + 1);
            if used.get() > limit.get() {
                used.set(0);
                panic!("verif-timeout");
            }
            if _vm.verif_stack().get_sp() > sp_limit.get() {
                used.set(0);
                panic!("verif-stacklimit");
            }
            match sched {
                Sched::None => false,
                Sched::Every(k) => count % k == 0,
                Sched::Random(_, p) => xorshift(&mut rng) % 1024 < p,
            }
        }));
    }

    /// Evaluate one form under cfg.  Returns the outcome and the per-slice instruction counts.
    pub fn eval(&mut self, form: &Cell, cfg: &RunCfg) -> (Outcome, Vec<(usize, u64)>) {
        let mut slices = vec![];
        self.instr_used.set(0);
        let vm = &mut self.vm;
        let res = catch_unwind(AssertUnwindSafe(|| -> Result<Option<Cell>, Error> {
            match &cfg.budgets {
                None => vm.eval(form).map(Some),
                Some(bs) => {
                    vm.prepare_eval(form)?;
                    let mut i = 0;
                    let mut stalls = 0;
                    loop {
                        let b = bs[i % bs.len()];
                        i += 1;
                        let before = vm.verif.instr;
                        let r = vm.run_count(b);
                        let done = vm.verif.instr - before;
                        slices.push((b, done));
                        match r {
                            Ok(Some(c)) => return Ok(Some(c)),
                            Ok(None) => {
                                if done == 0 {
                                    stalls += 1;
                                    if stalls > 1000 {
                                        return Ok(None);
                                    }
                                } else {
                                    stalls = 0;
                                }
                                if i > 50_000_000 {
                                    return Ok(None);
                                }
                            }
                            Err(e) => return Err(e),
                        }
                    }
                }
            }
        }));
        let o = match res {
            Ok(Ok(Some(c))) => Outcome::Ok(c),
            Ok(Ok(None)) => {
                self.dead = true;
                Outcome::Timeout
            }
            Ok(Err(e)) => Outcome::Err(e),
            Err(p) => {
                self.dead = true;
                let msg = if let Some(s) = p.downcast_ref::<&str>() {
                    s.to_string()
                } else if let Some(s) = p.downcast_ref::<String>() {
                    s.clone()
                } else {
                    "?".to_string()
                };
                if msg == "verif-timeout" {
                    Outcome::Timeout
                } else if msg == "verif-stacklimit" {
                    Outcome::StackLimit
                } else {
                    Outcome::Panic(msg)
                }
            }
        };
        (o, slices)
    }
}

pub fn outcome_json(o: &Outcome) -> Value {
    match o {
        Outcome::Ok(c) => json!({"r":"ok","v":obs_datum(c)}),
        Outcome::Err(e) => {
            let mut j = json!({"r":"err","k":error_variant(e)});
            if let Error::ErrorSignal(cells) = e {
                j["u"] = Value::Array(cells.iter().map(obs_datum).collect());
            }
            // every returned error must be renderable as text
            let rendered = catch_unwind(AssertUnwindSafe(|| format!("{}", e)));
            if rendered.is_err() {
                j["render_panic"] = json!(true);
            }
            j
        }
        Outcome::Panic(msg) => json!({"r":"panic","msg":msg}),
        Outcome::Timeout => json!({"r":"timeout"}),
        Outcome::StackLimit => json!({"r":"stacklimit"}),
    }
}

/// Run all forms under cfg; one observation per form (stops after panic/timeout).
pub fn run_session(forms: &[Cell], cfg: &RunCfg) -> Vec<Value> {
    let mut s = Session::new(cfg);
    s.install_sched(&cfg.sched);
    let mut obs = vec![];
    for f in forms {
        s.out.borrow_mut().clear();
        let sp0 = s.vm.verif_stack().get_sp();
        s.vm.verif_reset_counters();
        let (o, slices) = s.eval(f, cfg);
        let mut j = outcome_json(&o);
        let out: Vec<Value> = s
            .out
            .borrow()
            .iter()
            .map(|(w, c)| json!({"w": w, "v": obs_datum(c)}))
            .collect();
        j["out"] = Value::Array(out);
        j["sp0"] = json!(sp0);
        j["sp1"] = json!(s.vm.verif_stack().get_sp());
        j["maxsp"] = json!(s.vm.verif.max_sp);
        j["instr"] = json!(s.vm.verif.instr);
        j["cap"] = json!(s.vm.verif_stack().len());
        if let Outcome::Ok(_) = &o {
            // the stack trace belongs to the last evaluation: after a success there is none
            if s.vm.last_stacktrace().is_some() {
                j["stale_tr"] = json!(true);
            }
        }
        if let Outcome::Err(_) = &o {
            if let Some(st) = s.vm.last_stacktrace() {
                let frames: Vec<String> = st
                    .frames
                    .iter()
                    .map(|f| match (&f.name, &f.desc) {
                        (Some(n), _) => n.clone(),
                        (None, Some(d)) => format!("{:#}", d),
                        (None, None) => "?".to_string(),
                    })
                    .collect();
                j["tr"] = json!(frames);
            }
        }
        if cfg.live && !s.dead {
            s.vm.verif_force_gc();
            j["live"] = json!(s.vm.verif_heap().used_size());
        }
        if !slices.is_empty() {
            let stalled = slices.iter().filter(|(_, d)| *d == 0).count();
            j["nslices"] = json!(slices.len());
            j["stalled"] = json!(stalled);
        }
        obs.push(j);
        if s.dead {
            break;
        }
    }
    obs
}
