//! `mwverif highlight ...` -- see DESIGN.md; implemented by the check of the corresponding property.
pub fn main(_args: &[String]) -> Result<(), String> {
    Err("highlight: not implemented yet".into())
}
