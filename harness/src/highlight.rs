//! `mwverif highlight ...` -- conformance of marwood's `ReplHighlighter` with spec/Highlight.tla (C20).
//!
//! `mwverif highlight replay <file|-> [maxper=N]`
//!     S -> I.  Reads the cases TLC generated from Gen_Highlight (one JSON object per line, or the raw
//!     TLC line `<<"REPLAY", "json">>`; other lines are ignored), calls the real
//!     `ReplHighlighter::highlight` and `highlight_check` under catch_unwind and compares the result with
//!     the outcome the specification requires.  Prints one JSON line per mismatch (at most `maxper` per
//!     class of structural tags; all are counted) and a final `{"summary":...}` line.
//!
//! `mwverif highlight unicode seed=S count=K out=FILE [maxlen=N]`
//!     I -> S.  Generates seeded random texts -- sequences of lexical items with multi-byte identifiers and
//!     character literals, and raw sequences of code points -- with random byte cursors (also past the end and
//!     inside multi-byte characters), runs the real methods and records what they did as ndjson for
//!     Trace_Highlight.tla, which decides.
//!
//! `mwverif highlight one <cursor> <text>`   prints what the implementation does (debugging aid).
use crate::gen_cmd::{get, kv};
use crate::rng::Rng;
use marwood::syntax::ReplHighlighter;
use serde_json::{json, Map, Value};
use std::collections::BTreeMap;
use std::io::{BufRead, Write};
use std::panic::{catch_unwind, AssertUnwindSafe};

/// The escape pair `highlight` emits (format constants, read off marwood/src/syntax.rs).
const ESC_ON: &str = "\x1b[4m";
const ESC_OFF: &str = "\x1b[0m";

#[derive(Debug, Clone, PartialEq)]
enum Hl {
    Same,
    /// the text with the escape pair around the byte span
    Wrap(usize, usize),
    Other(String),
    Panic(String),
}

fn panic_msg(e: Box<dyn std::any::Any + Send>) -> String {
    if let Some(s) = e.downcast_ref::<&str>() {
        s.to_string()
    } else if let Some(s) = e.downcast_ref::<String>() {
        s.clone()
    } else {
        "panic".into()
    }
}

fn wrapped(text: &str, s: usize, e: usize) -> Option<String> {
    if s <= e && e <= text.len() && text.is_char_boundary(s) && text.is_char_boundary(e) {
        Some(format!("{}{}{}{}{}", &text[..s], ESC_ON, &text[s..e], ESC_OFF, &text[e..]))
    } else {
        None
    }
}

/// Run `highlight` and describe the result relative to the input.
fn run_highlight(hl: &ReplHighlighter, text: &str, cursor: usize) -> (Hl, Option<String>) {
    let r = catch_unwind(AssertUnwindSafe(|| hl.highlight(text, cursor).into_owned()));
    match r {
        Err(e) => (Hl::Panic(panic_msg(e)), None),
        Ok(out) => {
            if out == text {
                return (Hl::Same, Some(out));
            }
            // is it the input with exactly one escape pair inserted?
            if out.len() == text.len() + ESC_ON.len() + ESC_OFF.len() {
                let ob = out.as_bytes();
                let tb = text.as_bytes();
                let mut s = 0;
                while s < tb.len() && ob[s] == tb[s] {
                    s += 1;
                }
                // the first difference is where ESC_ON starts (the text itself may contain ESC)
                for s0 in [s, s.saturating_sub(1), s.saturating_sub(2), s.saturating_sub(3)] {
                    if !out.is_char_boundary(s0) || !out[s0..].starts_with(ESC_ON) {
                        continue;
                    }
                    let rest = &out[s0 + ESC_ON.len()..];
                    let mut from = 0;
                    while let Some(i) = rest[from..].find(ESC_OFF) {
                        let e = s0 + from + i;
                        if let Some(w) = wrapped(text, s0, e) {
                            if w == out {
                                return (Hl::Wrap(s0, e), Some(out));
                            }
                        }
                        from += i + 1;
                        while from < rest.len() && !rest.is_char_boundary(from) {
                            from += 1;
                        }
                    }
                }
            }
            (Hl::Other(out.clone()), Some(out))
        }
    }
}

fn run_check(hl: &ReplHighlighter, text: &str, cursor: usize) -> Result<bool, String> {
    catch_unwind(AssertUnwindSafe(|| hl.highlight_check(text, cursor))).map_err(panic_msg)
}

fn cps_of(s: &str) -> Value {
    Value::Array(s.chars().map(|c| json!(c as u32)).collect())
}

fn hl_json(h: &Hl) -> Value {
    match h {
        Hl::Same => json!({"k": "same"}),
        Hl::Wrap(s, e) => json!({"k": "wrap", "bs": s, "be": e}),
        Hl::Other(o) => json!({"k": "other", "cps": cps_of(o)}),
        Hl::Panic(m) => json!({"k": "panic", "msg": m}),
    }
}

fn is_bracket_spelling(s: &str) -> bool {
    matches!(s, "(" | ")" | "[" | "]" | "{" | "}" | "#(")
}

/// the weak clauses: unchanged, or one escape pair around one bracket spelling
fn weak(text: &str, h: &Hl) -> bool {
    match h {
        Hl::Same => true,
        Hl::Wrap(s, e) => is_bracket_spelling(&text[*s..*e]),
        _ => false,
    }
}

fn text_of(case: &Value) -> Result<String, String> {
    let mut s = String::new();
    for c in case["cps"].as_array().ok_or("case without cps")? {
        let u = c.as_u64().ok_or("cps: not a number")? as u32;
        s.push(char::from_u32(u).ok_or("cps: not a scalar value")?);
    }
    Ok(s)
}

/// `<<"REPLAY", "json with \" and \\ escaped">>`  ->  json
fn unwrap_tlc_line(line: &str) -> Option<String> {
    let l = line.trim();
    if l.starts_with('{') {
        return Some(l.to_string());
    }
    let rest = l.strip_prefix("<<\"REPLAY\", \"")?;
    let body = rest.strip_suffix("\">>")?;
    let mut out = String::with_capacity(body.len());
    let mut it = body.chars();
    while let Some(c) = it.next() {
        if c == '\\' {
            match it.next() {
                Some('n') => out.push('\n'),
                Some('t') => out.push('\t'),
                Some(d) => out.push(d),
                None => {}
            }
        } else {
            out.push(c);
        }
    }
    Some(out)
}

struct Class {
    count: u64,
    printed: u64,
    min: Option<(usize, usize, Value)>,
}

fn replay(args: &[String]) -> Result<(), String> {
    if args.is_empty() {
        return Err("highlight replay <file|-> [maxper=N]".into());
    }
    let m = kv(&args[1..]);
    let maxper: u64 = get(&m, "maxper", 20);
    // echo=1: lines that are not cases (TLC's own output when TLC is piped in) are copied to stderr
    let echo: u32 = get(&m, "echo", 0);
    // ntout=<file>: one line `<cursor> <code points>` per distinct case whose required output differs from the input
    let mut ntout = match m.get("ntout") {
        Some(p) => Some(std::io::BufWriter::new(std::fs::File::create(p).map_err(|e| e.to_string())?)),
        None => None,
    };
    let mut nontrivial = std::collections::HashSet::new();
    let mut samples: Vec<Value> = vec![];
    let rd: Box<dyn BufRead> = if args[0] == "-" {
        Box::new(std::io::BufReader::new(std::io::stdin()))
    } else {
        Box::new(std::io::BufReader::new(std::fs::File::open(&args[0]).map_err(|e| format!("{}: {}", args[0], e))?))
    };
    let hl = ReplHighlighter::new();
    let out = std::io::stdout();
    let mut out = std::io::BufWriter::new(out.lock());
    let (mut cases, mut mism, mut panics) = (0u64, 0u64, 0u64);
    let mut by_req: BTreeMap<String, u64> = BTreeMap::new();
    let mut either_same = 0u64;
    let mut either_wrap = 0u64;
    let mut any_same = 0u64;
    let mut any_wrap = 0u64;
    let mut chk_required_false = 0u64;
    let mut chk_true = 0u64;
    let mut texts = std::collections::HashSet::new();
    let mut classes: BTreeMap<String, Class> = BTreeMap::new();
    for line in rd.lines() {
        let line = line.map_err(|e| e.to_string())?;
        let js = match unwrap_tlc_line(&line) {
            Some(j) => j,
            None => {
                if echo > 0 {
                    eprintln!("{}", line);
                }
                continue;
            }
        };
        let case: Value = serde_json::from_str(&js).map_err(|e| format!("bad case line: {}: {}", e, js))?;
        let text = text_of(&case)?;
        let p = case["p"].as_u64().ok_or("case without p")? as usize;
        let k = case["k"].as_str().ok_or("case without k")?.to_string();
        let bs = case["bs"].as_u64().unwrap_or(0) as usize;
        let be = case["be"].as_u64().unwrap_or(0) as usize;
        let chk_req = case["chk"].as_str().ok_or("case without chk")?;
        cases += 1;
        texts.insert(text.clone());
        *by_req.entry(k.clone()).or_insert(0) += 1;
        if (k == "wrap" || k == "either") && nontrivial.insert((text.clone(), p)) {
            if let Some(f) = ntout.as_mut() {
                writeln!(f, "{} {}", p, case["cps"]).map_err(|e| e.to_string())?;
            }
            if samples.len() < 2 && nontrivial.len() % 997 == 1 {
                samples.push(json!({"text": text, "cursor": p, "required": {"k": k, "underline_bytes": [bs, be]},
                                    "check_must_be": chk_req}));
            }
        }
        let (got, _) = run_highlight(&hl, &text, p);
        let chk = run_check(&hl, &text, p);
        if matches!(got, Hl::Panic(_)) {
            panics += 1;
        }
        if chk.is_err() {
            panics += 1;
        }
        let ok_hl = match k.as_str() {
            "same" => got == Hl::Same,
            "wrap" => got == Hl::Wrap(bs, be),
            "either" => {
                if got == Hl::Same {
                    either_same += 1;
                } else if got == Hl::Wrap(bs, be) {
                    either_wrap += 1;
                }
                got == Hl::Same || got == Hl::Wrap(bs, be)
            }
            "any" => {
                if got == Hl::Same {
                    any_same += 1;
                } else if let Hl::Wrap(_, _) = got {
                    any_wrap += 1;
                }
                weak(&text, &got)
            }
            other => return Err(format!("unknown requirement {}", other)),
        };
        if chk_req == "false" {
            chk_required_false += 1;
        }
        if chk == Ok(true) {
            chk_true += 1;
        }
        let ok_chk = match (&chk, chk_req) {
            (Err(_), _) => false,
            (Ok(true), "false") => false,
            _ => true,
        };
        for (what, ok) in [("highlight", ok_hl), ("check", ok_chk)] {
            if ok {
                continue;
            }
            mism += 1;
            let tags: Vec<String> = case["tags"]
                .as_array()
                .map(|a| a.iter().filter_map(|t| t.as_str().map(|s| s.to_string())).collect())
                .unwrap_or_default();
            let gotk = match (&got, what) {
                (_, "check") => match &chk {
                    Ok(b) => format!("{}", b),
                    Err(_) => "panic".into(),
                },
                (Hl::Same, _) => "same".into(),
                (Hl::Wrap(_, _), _) => "wrap".into(),
                (Hl::Other(_), _) => "other".into(),
                (Hl::Panic(_), _) => "panic".into(),
            };
            let key = format!("{}|req:{}|got:{}|{}", what, if what == "check" { chk_req } else { k.as_str() }, gotk, tags.join(","));
            let rec = json!({
                "mismatch": what, "class": key, "text": text, "case": case,
                "got": {"hl": hl_json(&got),
                        "chk": match &chk { Ok(b) => json!(b), Err(e) => json!({"panic": e}) }},
            });
            let c = classes.entry(key).or_insert(Class { count: 0, printed: 0, min: None });
            c.count += 1;
            let size = (text.chars().count(), p);
            if c.min.as_ref().map(|(a, b, _)| size < (*a, *b)).unwrap_or(true) {
                c.min = Some((size.0, size.1, rec.clone()));
            }
            if c.printed < maxper {
                c.printed += 1;
                writeln!(out, "{}", rec).map_err(|e| e.to_string())?;
            }
        }
    }
    let mut cl = Map::new();
    for (k, c) in &classes {
        cl.insert(k.clone(), json!({"count": c.count, "min": c.min.as_ref().map(|x| x.2.clone())}));
    }
    writeln!(
        out,
        "{}",
        json!({"summary": true, "cases": cases, "texts": texts.len(), "mismatches": mism, "panics": panics,
               "required": by_req, "either_resolved_same": either_same, "either_resolved_wrap": either_wrap,
               "any_resolved_same": any_same, "any_resolved_wrap": any_wrap,
               "check_required_false": chk_required_false, "check_returned_true": chk_true,
               "nontrivial_distinct": nontrivial.len(), "samples": samples,
               "classes": cl})
    )
    .map_err(|e| e.to_string())?;
    Ok(())
}

// ------------------------------------------------------------------------------------------ I -> S

struct ItemDef {
    k: &'static str,
    sh: &'static str,
    s: &'static str,
    w: u32,
}

const ITEMS: &[ItemDef] = &[
    ItemDef { k: "open", sh: "round", s: "(", w: 14 },
    ItemDef { k: "close", sh: "round", s: ")", w: 14 },
    ItemDef { k: "open", sh: "square", s: "[", w: 4 },
    ItemDef { k: "close", sh: "square", s: "]", w: 4 },
    ItemDef { k: "open", sh: "curly", s: "{", w: 2 },
    ItemDef { k: "close", sh: "curly", s: "}", w: 2 },
    ItemDef { k: "vopen", sh: "round", s: "#(", w: 6 },
    ItemDef { k: "quote", sh: "-", s: "\"", w: 3 },
    ItemDef { k: "semi", sh: "-", s: ";", w: 2 },
    ItemDef { k: "nl", sh: "-", s: "\n", w: 3 },
    ItemDef { k: "sp", sh: "-", s: " ", w: 8 },
    ItemDef { k: "atom", sh: "-", s: "a", w: 4 },
    ItemDef { k: "atom", sh: "-", s: "x", w: 2 },
    ItemDef { k: "atom", sh: "-", s: "\u{3bb}", w: 4 },
    ItemDef { k: "atom", sh: "-", s: "\u{e9}", w: 3 },
    ItemDef { k: "atom", sh: "-", s: "\u{65e5}", w: 4 },
    ItemDef { k: "atom", sh: "-", s: "\u{1f600}", w: 4 },
    ItemDef { k: "chr", sh: "-", s: "#\\(", w: 2 },
    ItemDef { k: "chr", sh: "-", s: "#\\)", w: 2 },
    ItemDef { k: "chr", sh: "-", s: "#\\[", w: 1 },
    ItemDef { k: "chr", sh: "-", s: "#\\\"", w: 1 },
    ItemDef { k: "chr", sh: "-", s: "#\\;", w: 1 },
    ItemDef { k: "chr", sh: "-", s: "#\\ ", w: 1 },
    ItemDef { k: "chr", sh: "-", s: "#\\\u{3bb}", w: 1 },
    ItemDef { k: "chr", sh: "-", s: "#\\\u{1f600}", w: 1 },
];

/// code points for raw texts: brackets, every character the lexer treats specially, and multi-byte ones
const RAW: &[char] = &[
    '(', ')', '[', ']', '{', '}', '#', '\\', '"', ';', '\n', ' ', '\t', '\'', '`', ',', '.', '|', '@', '+', '-', '0',
    '7', 'a', 'f', 't', 'x', 'e', 'Z', '!', '\r', '\u{0}', '\u{1b}', '\u{7f}', '\u{a0}', '\u{e9}', '\u{df}',
    '\u{3bb}', '\u{301}', '\u{2028}', '\u{3000}', '\u{65e5}', '\u{feff}', '\u{fffd}', '\u{1f600}', '\u{10ffff}',
];

fn pick_cursor(r: &mut Rng, text: &str) -> usize {
    let n = text.len();
    match r.below(8) {
        // anywhere, also past the end
        0..=3 => r.below(n + 3),
        // inside a multi-byte character, if there is one
        4 | 5 => {
            let inside: Vec<usize> = (0..n).filter(|i| !text.is_char_boundary(*i)).collect();
            if inside.is_empty() {
                r.below(n + 3)
            } else {
                *r.pick(&inside)
            }
        }
        // at or right after a bracket character
        _ => {
            let near: Vec<usize> = text
                .char_indices()
                .filter(|(_, c)| "()[]{}".contains(*c))
                .flat_map(|(i, _)| [i, i + 1])
                .collect();
            if near.is_empty() {
                r.below(n + 3)
            } else {
                *r.pick(&near)
            }
        }
    }
}

fn observe(hl: &ReplHighlighter, text: &str, p: usize) -> (Value, Value) {
    let (got, out) = run_highlight(hl, text, p);
    let o = match (&got, out) {
        (Hl::Panic(m), _) => json!({"k": "panic", "msg": m}),
        (Hl::Same, _) => json!({"k": "same"}),
        (_, Some(o)) => json!({"k": "text", "cps": cps_of(&o)}),
        _ => json!({"k": "panic", "msg": "no output"}),
    };
    let c = match run_check(hl, text, p) {
        Ok(true) => json!("true"),
        Ok(false) => json!("false"),
        Err(_) => json!("panic"),
    };
    (o, c)
}

fn unicode(args: &[String]) -> Result<(), String> {
    let m = kv(args);
    let seed: u64 = get(&m, "seed", 0);
    let count: usize = get(&m, "count", 1000);
    let maxlen: usize = get(&m, "maxlen", 24);
    let out = m.get("out").cloned().ok_or("out=<file> required")?;
    let mut f = std::io::BufWriter::new(std::fs::File::create(&out).map_err(|e| e.to_string())?);
    let hl = ReplHighlighter::new();
    let mut r = Rng::new(seed ^ 0xC20);
    let weights: Vec<u32> = ITEMS.iter().map(|i| i.w).collect();
    let (mut changed, mut inside, mut past, mut multibyte) = (0u64, 0u64, 0u64, 0u64);
    for id in 1..=count {
        let structured = id % 4 != 0;
        let (text, items) = if structured {
            let n = 1 + r.below(maxlen);
            // some texts without strings and comments, so that long bracket structures occur
            let plain = r.chance(1, 2);
            let mut s = String::new();
            let mut items = vec![];
            while items.len() < n {
                let it = &ITEMS[r.weighted(&weights)];
                if plain && (it.k == "quote" || it.k == "semi") {
                    continue;
                }
                s.push_str(it.s);
                items.push(json!({"k": it.k, "sh": it.sh, "cp": cps_of(it.s)}));
            }
            (s, Some(items))
        } else {
            let n = 1 + r.below(maxlen + 6);
            let s: String = (0..n).map(|_| *r.pick(RAW)).collect();
            (s, None)
        };
        let p = pick_cursor(&mut r, &text);
        if p > text.len() {
            past += 1;
        } else if !text.is_char_boundary(p) {
            inside += 1;
        }
        if text.len() != text.chars().count() {
            multibyte += 1;
        }
        let (o, c) = observe(&hl, &text, p);
        if o["k"] == "text" {
            changed += 1;
        }
        let mut rec = Map::new();
        rec.insert("id".into(), json!(id));
        rec.insert("kind".into(), json!(if structured { "struct" } else { "raw" }));
        if let Some(items) = items {
            rec.insert("items".into(), Value::Array(items));
        }
        rec.insert("cps".into(), cps_of(&text));
        rec.insert("p".into(), json!(p));
        rec.insert("out".into(), o);
        rec.insert("chk".into(), c);
        writeln!(f, "{}", Value::Object(rec)).map_err(|e| e.to_string())?;
    }
    println!(
        "{}",
        json!({"records": count, "output_changed": changed, "cursor_inside_multibyte_char": inside,
               "cursor_past_end": past, "texts_with_multibyte_chars": multibyte})
    );
    Ok(())
}

fn one(args: &[String]) -> Result<(), String> {
    if args.len() < 2 {
        return Err("highlight one <cursor> <text>".into());
    }
    let p: usize = args[0].parse().map_err(|_| "cursor")?;
    let text = args[1].replace("\\n", "\n");
    let hl = ReplHighlighter::new();
    let (got, out) = run_highlight(&hl, &text, p);
    println!("highlight: {}   {:?}", hl_json(&got), out);
    println!("highlight_check: {:?}", run_check(&hl, &text, p));
    Ok(())
}

pub fn main(args: &[String]) -> Result<(), String> {
    match args.first().map(|s| s.as_str()) {
        Some("replay") => replay(&args[1..]),
        Some("unicode") => unicode(&args[1..]),
        Some("one") => one(&args[1..]),
        _ => Err("highlight replay <file|-> | unicode seed=S count=K out=FILE | one <cursor> <text>".into()),
    }
}
