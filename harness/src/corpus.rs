//! `mwverif corpus <in.scm> <out.ndjson> [cfgs]`: sessions written by hand.
//! File format: sessions separated by lines starting with `===`; every datum of a
//! session is one form; a line `;=> datum` after a form states the value R7RS
//! prescribes for it, `;=> !` states that it must fail.
use crate::enc::{parse_all, prog_datum, SymTab};
use crate::sess::{run_session, RunCfg, Sched};
use marwood::cell::Cell;
use serde_json::{json, Value};
use std::io::Write;

pub struct SessionSrc {
    pub forms: Vec<Cell>,
    pub expect: Vec<Option<String>>,
}

pub fn read_corpus(text: &str) -> Result<Vec<SessionSrc>, String> {
    let mut out = vec![];
    let mut cur = String::new();
    let mut flush = |cur: &mut String, out: &mut Vec<SessionSrc>| -> Result<(), String> {
        if cur.trim().is_empty() {
            cur.clear();
            return Ok(());
        }
        // split on ";=>" lines: each chunk of text before an expectation ends with the form it describes
        let mut forms = vec![];
        let mut expect = vec![];
        let mut chunk = String::new();
        for line in cur.lines() {
            if let Some(e) = line.trim_start().strip_prefix(";=>") {
                let cs = parse_all(&chunk)?;
                for c in cs {
                    forms.push(c);
                    expect.push(None);
                }
                if let Some(l) = expect.last_mut() {
                    *l = Some(e.trim().to_string());
                }
                chunk.clear();
            } else {
                chunk.push_str(line);
                chunk.push('\n');
            }
        }
        for c in parse_all(&chunk)? {
            forms.push(c);
            expect.push(None);
        }
        out.push(SessionSrc { forms, expect });
        cur.clear();
        Ok(())
    };
    for line in text.lines() {
        if line.starts_with("===") {
            flush(&mut cur, &mut out)?;
        } else {
            cur.push_str(line);
            cur.push('\n');
        }
    }
    flush(&mut cur, &mut out)?;
    Ok(out)
}

pub fn standard_cfgs(level: &str) -> Vec<RunCfg> {
    let mut v = vec![RunCfg::plain()];
    if level == "plain" {
        return v;
    }
    v.push(RunCfg { name: "prefix".into(), sched: Sched::None, budgets: None, prefix: true, live: false });
    if level == "basic" {
        return v;
    }
    v.push(RunCfg { name: "gc1".into(), sched: Sched::Every(1), budgets: None, prefix: false, live: false });
    v.push(RunCfg { name: "gc3".into(), sched: Sched::Every(3), budgets: None, prefix: false, live: false });
    v.push(RunCfg { name: "gcr".into(), sched: Sched::Random(12345, 100), budgets: None, prefix: false, live: false });
    v.push(RunCfg { name: "slice2".into(), sched: Sched::None, budgets: Some(vec![2]), prefix: false, live: false });
    v.push(RunCfg { name: "slice7".into(), sched: Sched::None, budgets: Some(vec![7, 3, 50]), prefix: false, live: false });
    v
}

pub fn session_json(id: usize, forms: &[Cell], expect: Option<&[Option<String>]>, cfgs: &[RunCfg]) -> Value {
    session_json_x(id, forms, expect, cfgs, &[])
}

pub fn session_json_x(
    id: usize,
    forms: &[Cell],
    expect: Option<&[Option<String>]>,
    cfgs: &[RunCfg],
    extra: &[(&str, Value)],
) -> Value {
    let runs: Vec<(String, Vec<Value>)> = cfgs.iter().map(|c| (c.name.clone(), run_session(forms, c))).collect();
    session_json_runs(id, forms, expect, runs, extra)
}

/// Session record from observations that were made already.
pub fn session_json_runs(
    id: usize,
    forms: &[Cell],
    expect: Option<&[Option<String>]>,
    runs: Vec<(String, Vec<Value>)>,
    extra: &[(&str, Value)],
) -> Value {
    let mut st = SymTab::new();
    let fj: Vec<Value> = forms.iter().map(|f| prog_datum(f, &mut st)).collect();
    let mut ej = vec![];
    if let Some(ex) = expect {
        for e in ex {
            ej.push(match e {
                None => json!({"k":"none"}),
                Some(s) if s == "!" => json!({"k":"fail"}),
                Some(s) => {
                    let c = parse_all(s).expect("bad expectation");
                    json!({"k":"val","v":prog_datum(&c[0], &mut st)})
                }
            });
        }
    }
    let runs: Vec<Value> = runs.into_iter().map(|(n, o)| json!({"cfg": n, "obs": o})).collect();
    let text: Vec<String> = forms.iter().map(|f| format!("{:#}", f)).collect();
    let mut j = json!({"id": id, "syms": st.to_json(), "forms": fj, "runs": runs, "text": text});
    if expect.is_some() {
        j["expect"] = Value::Array(ej);
    }
    for (k, v) in extra {
        j[*k] = v.clone();
    }
    j
}

pub fn main(args: &[String]) -> Result<(), String> {
    if args.len() < 2 {
        return Err("corpus <in> <out> [plain|basic|full]".into());
    }
    let text = std::fs::read_to_string(&args[0]).map_err(|e| e.to_string())?;
    let level = args.get(2).map(|s| s.as_str()).unwrap_or("full");
    let cfgs = standard_cfgs(level);
    let sessions = read_corpus(&text)?;
    let mut f = std::fs::File::create(&args[1]).map_err(|e| e.to_string())?;
    for (i, s) in sessions.iter().enumerate() {
        let j = session_json(i + 1, &s.forms, Some(&s.expect), &cfgs);
        writeln!(f, "{}", j).map_err(|e| e.to_string())?;
    }
    eprintln!("corpus: {} sessions", sessions.len());
    Ok(())
}
