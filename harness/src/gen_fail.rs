//! C07: histories interleaving succeeding and failing forms.  History A contains the failing
//! forms; history B (the twin) has every failing form replaced by a form that performs only
//! the effects the failing form completed before failing.  Later forms (probes, some of them
//! failing on purpose) must behave identically in both, including their stack traces.
use crate::rng::Rng;

pub struct Item {
    pub a: String,
    pub b: String,
    /// index (within the session) of the first occurrence of an identical failing form, for
    /// the "k consecutive failures" blocks
    pub rep: Option<usize>,
    /// this form is a probe (identical in A and B): outcomes and stack traces are compared
    pub probe: bool,
}

fn fail_expr(rng: &mut Rng) -> String {
    rng.pick(&[
        "(car '())",
        "(undefined-variable-zz)",
        "((lambda (a) a))",
        "(error \"boom\" 'x 1)",
        "(vector-ref (vector 1) 99)",
        "(+ 'a 1)",
        "(5 5)",
    ])
    .to_string()
}

pub fn session(rng: &mut Rng, kmax: usize) -> (Vec<Item>, Vec<String>) {
    let mut tags = vec![];
    let mut items: Vec<Item> = vec![];
    let same = |s: &str| Item { a: s.to_string(), b: s.to_string(), rep: None, probe: false };
    let probe = |s: &str| Item { a: s.to_string(), b: s.to_string(), rep: None, probe: true };
    for d in [
        "(define g 0)",
        "(define v (vector 0 0 0))",
        "(define acc '())",
        "(define saved #f)",
        "(define (deep n x) (if (= n 0) (car x) (+ 1 (deep (- n 1) x))))",
        "(define (deeperr n) (if (= n 0) (error \"bottom\" n) (+ 1 (deeperr (- n 1)))))",
        "(define (outer n) (let ((r (inner n))) (+ r 1)))",
        "(define (inner n) (if (> n 2) (* 2 (deep n '())) n))",
        "(define (sum-to n) (if (= n 0) 0 (+ n (sum-to (- n 1)))))",
        "(define deepsaved #f)",
        "(define (deepk n) (if (= n 0) (call/cc (lambda (k) (set! deepsaved k) 0)) (+ 1 (deepk (- n 1)))))",
        "(define (kons a b) (list a b))",
        "(define s (make-string 3 #\\a))",
        "(define pr (delay (begin (set! g (+ g 1)) (car '()))))",
    ] {
        items.push(same(d));
    }
    // a continuation captured deep in a non-tail recursion (several hundred stack slots), kept for later
    let deep = 40 + rng.below(100);
    items.push(same(&format!("(deepk {})", deep)));
    let mut reentries = 0;
    let n = 5 + rng.below(8);
    let mut have_saved = false;
    for _ in 0..n {
        let t = rng.below(24);
        let val = rng.range(1, 99);
        let d = rng.below(12);
        match t {
            0 => {
                tags.push("fail-deep".into());
                items.push(Item { a: format!("(begin (set! g {}) (deep {} '()))", val, d), b: format!("(set! g {})", val), rep: None, probe: false });
            }
            1 => {
                tags.push("fail-after-effects".into());
                let fe = fail_expr(rng);
                items.push(Item {
                    a: format!("(let ((x (+ g {}))) (set! g x) (vector-set! v 0 x) {} (set! g 'never))", val, fe),
                    b: format!("(let ((x (+ g {}))) (set! g x) (vector-set! v 0 x))", val),
                    rep: None,
                    probe: false,
                });
            }
            2 => {
                tags.push("fail-in-for-each".into());
                let k = 1 + rng.below(5);
                let pre: Vec<String> = (1..=k).map(|i| i.to_string()).collect();
                items.push(Item {
                    a: format!("(for-each (lambda (x) (set! acc (cons x acc)) (if (= x {}) (error \"stop\" x))) '(1 2 3 4 5))", k),
                    b: format!("(for-each (lambda (x) (set! acc (cons x acc))) '({}))", pre.join(" ")),
                    rep: None,
                    probe: false,
                });
            }
            3 => {
                tags.push("fail-in-continuation-extent".into());
                let fe = fail_expr(rng);
                items.push(Item {
                    a: format!("(call/cc (lambda (k) (set! saved k) (set! g {}) {}))", val, fe),
                    b: format!("(call/cc (lambda (k) (set! saved k) (set! g {})))", val),
                    rep: None,
                    probe: false,
                });
                have_saved = true;
            }
            4 => {
                tags.push("fail-syntax".into());
                let bad = rng.pick(&["(if)", "(lambda (x))", "(let ((x 1 2)) x)", "()", "(set! 5 1)", "(define)"]).to_string();
                items.push(Item { a: bad, b: "'skipped".into(), rep: None, probe: false });
            }
            5 => {
                tags.push("fail-define".into());
                let fe = fail_expr(rng);
                items.push(Item { a: format!("(define g-undefined {})", fe), b: "'skipped".into(), rep: None, probe: false });
            }
            6 => {
                tags.push("fail-in-map".into());
                let k = 1 + rng.below(3);
                let s: usize = (1..k).sum();
                items.push(Item {
                    a: format!("(map (lambda (x) (if (= x {}) (car '()) (begin (set! g (+ g x)) x))) '(1 2 3))", k),
                    b: format!("(set! g (+ g {}))", s),
                    rep: None,
                    probe: false,
                });
            }
            7 => {
                tags.push("fail-very-deep".into());
                let depth = 30 + rng.below(90);
                items.push(Item { a: format!("(deeperr {})", depth), b: "'skipped".into(), rep: None, probe: false });
            }
            8 => {
                tags.push("fail-operand-of-throw".into());
                if have_saved {
                    items.push(Item { a: "(if saved (saved (car '())) 'none)".into(), b: "'skipped".into(), rep: None, probe: false });
                }
            }
            9 => {
                // k consecutive identical failures
                tags.push("fail-consecutive".into());
                let k = 2 + rng.below(kmax.max(3) - 1);
                let form = format!("(+ 1 (deep {} '()))", 1 + rng.below(6));
                let first = items.len();
                for j in 0..k {
                    items.push(Item { a: form.clone(), b: "'skipped".into(), rep: if j == 0 { None } else { Some(first) }, probe: false });
                }
            }
            10 => items.push(probe("(list g (vector->list v) acc)")),
            11 => {
                tags.push("probe-failing".into());
                items.push(probe(&format!("(deep {} '())", d)));
            }
            12 => items.push(probe("(+ 1 (sum-to 6))")),
            13 => {
                tags.push("probe-failing".into());
                items.push(probe(&format!("(outer {})", 3 + rng.below(5))));
            }
            14 if rng.chance(1, 2) && reentries < 3 => {
                tags.push("probe-deep-reentry".into());
                reentries += 1;
                items.push(probe(&format!("(deepsaved {})", val)));
            }
            14 => {
                if have_saved {
                    tags.push("probe-reentry".into());
                    items.push(probe(&format!("(saved {})", val)));
                }
            }
            16 => {
                // the failure happens before control reaches a macro definition in the same form
                tags.push("fail-before-define-syntax".into());
                items.push(Item {
                    a: format!("(begin (set! g {}) (car '()) (define-syntax kons (syntax-rules () ((_ a b) (cons b a)))))", val),
                    b: format!("(set! g {})", val),
                    rep: None,
                    probe: false,
                });
                items.push(probe("(kons 1 2)"));
            }
            17 => {
                // a mutator that must refuse its arguments leaves the object untouched
                tags.push("fail-refused-mutation".into());
                let a = match rng.below(4) {
                    0 => format!("(vector-copy! v {} (vector 7 8 9 10))", rng.below(3)),
                    1 => format!("(vector-copy! v {} v 0 3)", 1 + rng.below(2)),
                    2 => "(vector-fill! v 9 1 7)".to_string(),
                    _ => "(string-fill! s #\\z 1 9)".to_string(),
                };
                items.push(Item { a, b: "'skipped".into(), rep: None, probe: false });
                items.push(probe("(list (vector->list v) s)"));
            }
            18 => {
                // a promise whose expression fails stays forceable: a later force runs the expression again
                tags.push("fail-in-force".into());
                items.push(Item { a: "(force pr)".into(), b: "(set! g (+ g 1))".into(), rep: None, probe: false });
                items.push(probe("(list g (force pr))"));
            }
            19 => {
                // a definition that fails leaves the previous meaning of the name, also when the name is a macro keyword
                tags.push("fail-define-of-keyword".into());
                let (a, pr) = match rng.below(3) {
                    0 => ("(define when (car '()))", "(when #t 1 2)"),
                    1 => ("(define (unless c) (lambda))", "(unless #f 1 2)"),
                    _ => ("(define kons (vector-ref v 99))", "(kons 1 2)"),
                };
                items.push(Item { a: a.into(), b: "'skipped".into(), rep: None, probe: false });
                items.push(probe(pr));
            }
            21 => {
                // a probe the compiler rejects: its failure has no frames of its own and must not show those of an
                // earlier failed evaluation
                tags.push("probe-failing-at-compile-time".into());
                items.push(Item { a: fail_expr(rng), b: "'skipped".into(), rep: None, probe: false });
                items.push(probe(*rng.pick(&["(if)", "(lambda)", "(set! 5 1)", "()", "(let ((x 1 2)) x)"])));
            }
            20 => {
                // self-evaluating and trivial forms after a failure
                tags.push("probe-trivial-after-failure".into());
                items.push(Item { a: fail_expr(rng), b: "'skipped".into(), rep: None, probe: false });
                items.push(probe(*rng.pick(&["42", "\"s\"", "#t", "#\\a", "'sym", "g"])));
            }
            _ => {
                tags.push("probe-failing".into());
                items.push(probe("(vector-ref v 10)"));
            }
        }
    }
    if reentries < 3 {
        items.push(probe("(deepsaved 1000)"));
    }
    // closing probes: state and a failing probe with a multi-frame trace
    items.push(probe("(list g (vector->list v) acc)"));
    items.push(probe("(outer 4)"));
    items.push(probe("(deeperr 3)"));
    items.push(probe("(+ 1 (sum-to 4))"));
    tags.sort();
    tags.dedup();
    (items, tags)
}
