"""C17: syntax-rules is sound where supported and always terminates.

I->S trace validation: harness/src/synrules.rs generates transformers and uses, evaluates them
in a real Vm (templates wrapped in quote, child process with memory cap and wall-clock limit)
and records the outcomes; spec/Trace_SynRules.tla recomputes the expansion R7RS prescribes with
spec/SyntaxRules.tla (written from the report) and rejects every value that differs, every
panic and every non-termination.  spec/MC_SynRules.tla is the specification's own regression
(hand-stated R7RS examples, inline and from corpus/synrules.scm).

The Python below only drives the tools, counts, and derives *signatures* of rejected records
from the structure of the failing case (for matching against known_findings.json); the verdict
on every record is TLC's."""
import json, os, time, collections
from concurrent.futures import ThreadPoolExecutor
import vlib, props

K_QUOTE, K_SYNTAX_RULES, K_ELLIPSIS, K_UNDERSCORE = 1, 25, 26, 27

ASSUME = [
    'TLC, SANY and the CommunityModules Json module are trusted',
    'the harness projection Cell -> JSON datum (harness/src/enc.rs prog_datum) and marwood\'s reader (used to turn generated text into data) are trusted',
    'SyntaxRules.tla is my reading of R7RS 4.3.2; it is regression-checked by MC_SynRules against hand-stated expansions (inline examples and corpus/synrules.scm, R7RS 7.3 derived forms)',
    'identifiers are compared by name: generated templates contain no binding forms and expansions are observed as quoted data, so the renaming hygiene would add is not observable',
    'where R7RS says "it is an error" or is silent (erroneous templates, ellipsis variables of unequal length, (P ... . x) against a non-pair) nothing is prescribed: any outcome that terminates is accepted and the record is counted as unspec',
    'non-termination is observed as: no answer within the wall-clock limit, or exhaustion of the address-space cap of the child process (default 160 MiB; terminating cases need < 10 MiB and < 1 ms)',
]


# ----------------------------------------------------------------------------- data helpers
def _fixed_names():
    import re
    txt = open(os.path.join(vlib.SPEC, 'CEKNames.tla')).read()
    m = re.search(r'FixedNames == <<(.*?)>>', txt, re.S)
    return [[ord(c) for c in n] for n in re.findall(r'"((?:[^"\\]|\\.)*)"', m.group(1))]


FIXED = _fixed_names()


def load(path):
    """records by id; `syms' completed to the full symbol table (fixed names first)"""
    recs = {}
    with open(path) as f:
        for line in f:
            if line.strip():
                j = json.loads(line)
                j['syms'] = FIXED + j['syms']
                recs[j['id']] = j
    return recs


def show(d, syms):
    t = d['t']
    if t == 'sym':
        return ''.join(map(chr, syms[d['v'] - 1]))
    if t == 'int':
        return str(d['v'])
    if t == 'bool':
        return '#t' if d['v'] else '#f'
    if t == 'nil':
        return '()'
    if t == 'str':
        return '"' + ''.join(map(chr, d['v'])) + '"'
    if t == 'char':
        return '#\\' + chr(d['v'])
    if t == 'num':
        return d['s']
    if t == 'list':
        s = '(' + ' '.join(show(x, syms) for x in d['v'])
        if d['tl']['t'] != 'nil':
            s += ' . ' + show(d['tl'], syms)
        return s + ')'
    if t == 'vec':
        return '#(' + ' '.join(show(x, syms) for x in d['v']) + ')'
    return '<' + t + '>'


def is_sym(d, i=None):
    return d['t'] == 'sym' and (i is None or d['v'] == i)


def transformer(defd):
    """(ell, lits, [(pattern, template-without-quote)]) of a generated definition, or None."""
    try:
        sr = defd['v'][2]['v']
        o = 1 if is_sym(sr[1]) else 0
        ell = sr[1]['v'] if o else K_ELLIPSIS
        litd = sr[1 + o]
        lits = set(x['v'] for x in (litd['v'] if litd['t'] == 'list' else []))
        rules = []
        for r in sr[2 + o:]:
            p, t = r['v'][0], r['v'][1]
            if t['t'] == 'list' and len(t['v']) == 2 and is_sym(t['v'][0], K_QUOTE):
                t = t['v'][1]
            rules.append((p, t))
        return ell, lits, rules
    except (KeyError, IndexError, TypeError):
        return None


def pattern_info(p, ell, lits):
    """Features and variable depths of a rule pattern (keyword position ignored)."""
    depth = {}
    feats = set()
    vecvars = set()      # variables bound inside a vector pattern

    def walk_seq(items, d, in_vec):
        n_after = 0
        for i, x in enumerate(items):
            if is_sym(x, ell):
                if i + 1 < len(items):
                    feats.add('tail-after-ellipsis')
                continue
            followed = i + 1 < len(items) and is_sym(items[i + 1], ell)
            walk(x, d + 1 if followed else d, in_vec)

    def walk(x, d, in_vec):
        if x['t'] == 'sym':
            if x['v'] in lits or x['v'] == K_UNDERSCORE or x['v'] == ell:
                if in_vec:
                    feats.add('vector-pattern')
                return
            depth[x['v']] = d
            if in_vec:
                feats.add('vector-pattern')
                vecvars.add(x['v'])
        elif x['t'] == 'list':
            walk_seq(x['v'], d, in_vec)
            if x['tl']['t'] != 'nil':
                feats.add('dotted-pattern')
                walk(x['tl'], d, in_vec)
        elif x['t'] == 'vec':
            walk_seq(x['v'], d, True)

    body = dict(p, v=p['v'][1:])
    walk_seq(body['v'], 0, False)
    if p['tl']['t'] != 'nil':
        feats.add('dotted-pattern')
        if len(p['v']) == 1:
            feats.add('rest-only-pattern')
        walk(p['tl'], 0, False)
    if any(d >= 1 for d in depth.values()):
        feats.add('pattern-ellipsis')
    if any(d >= 2 for d in depth.values()):
        feats.add('pattern-ellipsis-depth>=2')
    return depth, feats, vecvars


def template_features(t, ell, pd, vecvars=frozenset()):
    """Structural features of a template; pd: pattern variable -> ellipsis depth; vecvars: the
    variables bound inside vector patterns (marwood does not treat them as variables)."""
    feats = set()
    stale = set()      # variables whose cursor marwood leaves behind the last item (see below)

    def ordered(x, out):
        """effective ellipsis variables of x in document order (outside vectors)"""
        if x['t'] == 'sym':
            if pd.get(x['v'], 0) >= 1 and x['v'] not in vecvars:
                out.append(x['v'])
        elif x['t'] == 'list':
            for y in x['v']:
                ordered(y, out)
            ordered(x['tl'], out)
        return out

    def occurrences(x, acc, skip_inner_ellipsis=False, into_vectors=True):
        """count occurrences of variables of depth >= 1 in x"""
        if x['t'] == 'sym':
            if pd.get(x['v'], 0) >= 1:
                acc[x['v']] += 1
        elif x['t'] == 'list' or (x['t'] == 'vec' and into_vectors):
            items = x['v']
            for i, y in enumerate(items):
                if is_sym(y, ell):
                    continue
                if skip_inner_ellipsis and i + 1 < len(items) and is_sym(items[i + 1], ell):
                    continue
                occurrences(y, acc, skip_inner_ellipsis, into_vectors)
            if x['t'] == 'list':
                occurrences(x['tl'], acc, skip_inner_ellipsis, into_vectors)
        return acc

    def has_var_or_ell(x):
        if x['t'] == 'sym':
            return x['v'] in pd or x['v'] == ell
        if x['t'] in ('list', 'vec'):
            return any(has_var_or_ell(y) for y in x['v']) or (x['t'] == 'list' and has_var_or_ell(x['tl']))
        return False

    def walk(x, dep):
        if x['t'] == 'vec':
            if has_var_or_ell(x):
                feats.add('vector-template')
            return          # marwood copies vectors verbatim: nothing inside is looked at
        if x['t'] != 'list':
            return
        if x['tl']['t'] != 'nil':
            feats.add('dotted-template')
        items = x['v']
        i = 0
        while i < len(items):
            y = items[i]
            k = 0
            while i + 1 + k < len(items) and is_sym(items[i + 1 + k], ell):
                k += 1
            if k and not is_sym(y, ell):
                feats.add('template-ellipsis')
                if dep + k >= 2:
                    feats.add('template-ellipsis-depth>=2')
                occ_all = occurrences(y, collections.Counter())
                occ = occurrences(y, collections.Counter(), into_vectors=False)
                eff = set(v for v in occ if v not in vecvars)
                direct = set(v for v in occurrences(y, collections.Counter(), skip_inner_ellipsis=True,
                                                    into_vectors=False) if v not in vecvars)
                if not occ_all:
                    feats.add('ellipsis-without-ellipsis-variable')
                elif not occ:
                    feats.add('ellipsis-variable-only-inside-vector')
                elif not eff:
                    feats.add('ellipsis-variable-only-from-vector-pattern')
                elif not direct:
                    feats.add('nested-ellipsis-without-outer-variable')
                if any(n >= 2 for n in occ.values()):
                    feats.add('variable-twice-under-one-ellipsis')
                # marwood ends the repetition when the first variable of the subtemplate runs out; the
                # other variables keep their position, so their next use (anywhere later) yields nothing
                order = ordered(y, [])
                if set(order) & stale:
                    feats.add('ellipsis-variable-reused-after-joint-ellipsis')
                walk(y, dep + k)
                if order:
                    stale.discard(order[0])
                    stale.update(set(order[1:]) - {order[0]})
                i += 1 + k
            else:
                walk(y, dep)
                i += 1

    walk(t, 0)
    return feats


def use_features(tr):
    """feature set of a whole transformer (for the coverage figures)"""
    ell, lits, rules = tr
    fs = set()
    if ell != K_ELLIPSIS:
        fs.add('custom-ellipsis')
    if lits:
        fs.add('literals')
    fs.add('rules=%d' % len(rules))
    for p, t in rules:
        pd, pf, vv = pattern_info(p, ell, lits)
        fs |= set('pattern:' + f for f in pf)
        fs |= set('template:' + f for f in template_features(t, ell, pd, vv))
    return fs


# ----------------------------------------------------------------------------- signatures
TIMEOUT_SHAPES = ('ellipsis-without-ellipsis-variable', 'ellipsis-variable-only-inside-vector',
                  'ellipsis-variable-only-from-vector-pattern', 'nested-ellipsis-without-outer-variable')
SKIP_SHAPES = ('vector-pattern', 'dotted-pattern', 'tail-after-ellipsis')


def signatures(rec, mm):
    """Signatures of a rejected record, most specific first.  first = the rule R7RS applies (first
    rule whose pattern matches, computed by TLC); mrule = the rule the implementation's matcher
    selects (observed by the harness with single-rule probes).  A structural signature names a
    shape only when the shape is present in the rule it blames."""
    sigs = ['case:%s | %s' % (rec['text'][0], rec['text'][1])]
    tr = transformer(rec['def'])
    what = mm['what']
    first = mm.get('diag', {}).get('first', 0)
    mrule = rec.get('mrule', -1)
    if tr is None:
        return sigs
    ell, lits, rules = tr
    if what in ('definition does not terminate', 'definition panics'):
        return sigs + ['C17/' + what.replace(' ', '-')]
    info = []
    for p, t in rules:
        pd, pf, vv = pattern_info(p, ell, lits)
        info.append((pf, template_features(t, ell, pd, vv), pd, t))
    used = mrule if 1 <= mrule <= len(rules) else None
    if what == 'use panics':
        return sigs + ['C17/panic']
    if what == 'expansion does not terminate':
        if used:
            for f in TIMEOUT_SHAPES:
                if f in info[used - 1][1]:
                    sigs.append('C17/timeout/' + f)
        return sigs
    if used is None:
        return sigs
    notes = mm.get('diag', {}).get('notes', [])
    if first and used > first:
        # the rule that applies was not recognised and a later rule was used; `notes' (from TLC) say
        # how the rule that applies matches this use
        for f in SKIP_SHAPES:
            if f in notes:
                sigs.append('C17/rule-skipped/' + f)
        return sigs
    if used < first or not first:
        # a rule was used whose pattern does not match: no known shape
        return sigs
    # the applicable rule was used and the output is different
    pf, tf, pd, t = info[used - 1]
    expl = sorted(mm.get('diag', {}).get('expl', []), key=len)
    if expl:
        # TLC reproduces the value exactly by restating these known deviations in the specification
        # (SyntaxRules!Inst with flags): the smallest such set names the defects exhibited
        for fl in sorted(expl[0]):
            sigs.append({'vec': 'C17/vector-template', 'dot': 'C17/dotted-template'}[fl])
        return sigs
    for f in ('variable-twice-under-one-ellipsis', 'template-ellipsis-depth>=2',
              'ellipsis-variable-reused-after-joint-ellipsis'):
        if f in tf:
            sigs.append('C17/' + f)
    if 'rest-only-pattern' in pf and 'dotted-pattern' in notes:
        sigs.append('C17/rest-only-pattern')
    return sigs


def describe(rec, mm):
    sy = rec['syms']
    s = '%s: %s | %s' % (mm['what'], rec['text'][0][:300], rec['text'][1][:200])
    e = mm.get('exp', {})
    if e.get('k') == 'exp':
        d = e['d']
        if d['t'] == 'list' and len(d['v']) == 2:
            d = d['v'][1]
        s += '  prescribed (rule %d): %s' % (e['rule'], show(d, sy)[:200])
    elif e.get('k'):
        s += '  prescribed: %s' % e['k']
    ur = rec['ur']
    if ur['r'] == 'ok':
        s += '  got: %s' % show(ur['v'], sy)[:200]
    else:
        s += '  got: %s %s' % (ur['r'], ur.get('how', ur.get('msg', '')))
    return s


# ----------------------------------------------------------------------------- running
def spec_regression(wd):
    """MC_SynRules: hand-stated examples (inline and corpus) checked by TLC."""
    out = os.path.join(wd, 'corpus.ndjson')
    vlib.harness(['synrules', 'corpus', 'in=' + os.path.join(vlib.VERIF, 'corpus', 'synrules.scm'), 'out=' + out])
    r = vlib.tlc('MC_SynRules', 'MC_SynRules.cfg', os.path.join(wd, 'meta_mc'), env={'CORPUS': out}, workers=2,
                 timeout=300, extra=['-continue'])
    bad = r.tag('EXAMPLE-FAILS')
    if r.rc != 0 or r.errors or bad or r.distinct == 0:
        vlib.log(r.tail)
        for b in bad[:10]:
            vlib.log('EXAMPLE-FAILS', json.dumps(b)[:600])
        raise vlib.ToolError('the specification SyntaxRules fails its own regression (MC_SynRules, rc=%d)' % r.rc)
    n = sum(1 for _ in open(out))
    return {'examples_states': r.distinct, 'corpus_records': n, 'file': out, 'generated': r.generated}


def validate(files, wd, workers=4, parallel=3, timeout=3000):
    """Trace_SynRules over each file -> (mismatches, ends, stats); every entry carries 'file'."""
    mism, ends = [], []
    stats = {'generated': 0, 'distinct': 0, 'wall': 0.0, 'runs': 0}

    def one(i_path):
        i, path = i_path
        r = vlib.tlc('Trace_SynRules', 'Trace_SynRules.cfg', os.path.join(wd, 'meta%d' % i), env={'TRACE': path},
                     workers=workers, timeout=timeout, heap='4g')
        return path, r

    with ThreadPoolExecutor(max_workers=parallel) as ex:
        for path, r in ex.map(one, list(enumerate(files))):
            if r.rc != 0:
                vlib.log(r.tail)
                raise vlib.ToolError('TLC failed (rc=%d) on %s' % (r.rc, path))
            stats['generated'] += r.generated
            stats['distinct'] += r.distinct
            stats['wall'] += r.wall
            stats['runs'] += 1
            for m in r.tag('MISMATCH'):
                m['file'] = path
                mism.append(m)
            for e in r.tag('END'):
                e['file'] = path
                ends.append(e)
    return mism, ends, stats


def generate(wd, seed, pairs, shards, parallel, timeout_ms):
    files = []
    per = (pairs + shards - 1) // shards

    def one(i):
        out = os.path.join(wd, 'gen%d.ndjson' % i)
        vlib.harness(['synrules', 'gen', 'seed=%d' % (seed * 1000 + i), 'count=%d' % per, 'out=' + out,
                      'timeout_ms=%d' % timeout_ms], timeout=3000)
        return out

    with ThreadPoolExecutor(max_workers=parallel) as ex:
        files = list(ex.map(one, range(shards)))
    return files


def binding_selftest(wd, recs, ends):
    """Demonstration that the specification is bound to the recorded outcomes: corrupt recorded
    outcomes that TLC accepted and require TLC to reject every corrupted record.
      value      an accepted expansion d is replaced by (d)
      timeout    an accepted outcome is replaced by `timeout'
      spurious   a reported error where no rule matches is replaced by a value"""
    cls = {e['id']: e for e in ends}
    out = os.path.join(wd, 'selftest.ndjson')
    expect = {}
    n = 0
    with open(out, 'w') as f:
        for r in recs.values():
            e = cls[r['id']]
            if not e['ok']:
                continue
            variants = []
            if e['cls'] == 'exp/ok':
                v = r['ur']['v']
                variants.append(('expansion differs from the one prescribed',
                                 dict(r['ur'], v={'t': 'list', 'v': [v], 'tl': {'t': 'nil'}})))
                variants.append(('expansion does not terminate', {'r': 'timeout'}))
            elif e['cls'] == 'nomatch/err':
                variants.append(('expansion although no rule matches', {'r': 'ok', 'v': {'t': 'int', 'v': 1}}))
            for what, ur in variants:
                n += 1
                c = dict(r, id=n, ur=ur)
                expect[n] = what
                f.write(json.dumps(c) + '\n')
    if not expect:
        raise vlib.ToolError('binding self-test: nothing to corrupt')
    mism, ends2, _ = validate([out], wd, workers=2, parallel=1)
    got = {m['id']: m['what'] for m in mism}
    missed = [i for i, w in expect.items() if got.get(i) != w]
    if missed or len(ends2) != n:
        raise vlib.ToolError('binding self-test: %d of %d corrupted records were not rejected by TLC' % (len(missed), n))
    kinds = collections.Counter(expect.values())
    return {'corrupted_records': n, 'rejected_by_TLC': n - len(missed), 'by_kind': dict(kinds)}


def judge(pid, tier, files, extra_cov, t0, wd, selftest_file=None):
    recs = {f: load(f) for f in files}
    nrec = sum(len(r) for r in recs.values())
    mism, ends, stats = validate(files, wd, workers=4, parallel=min(3, len(files)))
    if len(ends) != nrec or len(set((e['file'], e['id']) for e in ends)) != nrec:
        raise vlib.ToolError('trace validation judged %d of %d records' % (len(ends), nrec))
    verdict = vlib.Verdict(pid)
    by_sig = collections.Counter()
    by_what = collections.Counter()
    unexplained = 0
    for mm in sorted(mism, key=lambda m: (m['file'], m['id'])):
        rec = recs[mm['file']][mm['id']]
        sigs = signatures(rec, mm)
        by_what[mm['what']] += 1
        by_sig[sigs[1] if len(sigs) > 1 else '(exact case only)'] += 1
        if len(sigs) == 1:
            unexplained += 1
            if unexplained <= 10:
                vlib.log('C17: no structural signature: %s  [rule R7RS applies: %s, rule marwood selects: %s]'
                         % (describe(rec, mm)[:900], mm.get('diag', {}).get('first'), rec.get('mrule')))
        replay = {'kind': 'synrules', 'def': rec['text'][0], 'use': rec['text'][1], 'what': mm['what'],
                  'prescribed': mm.get('exp'), 'dr': rec['dr'], 'ur': rec['ur'], 'syms': rec['syms'],
                  'diag': mm.get('diag')}
        verdict.violation(sigs, describe(rec, mm), replay)
    # ---- coverage figures
    cls = collections.Counter(e['cls'] for e in ends)
    rules_used = collections.Counter('rule%d' % e['rule'] for e in ends if e['rule'])
    unspec = collections.Counter(e['why'] for e in ends if e['why'])
    feat = collections.Counter()
    transformers = set()
    pairs = set()
    gfeat = collections.Counter()
    for f, R in recs.items():
        for r in R.values():
            transformers.add(r['text'][0])
            pairs.add((r['text'][0], r['text'][1]))
            tr = transformer(r['def'])
            if tr:
                for x in use_features(tr):
                    feat[x] += 1
            for x in r.get('feat', []):
                gfeat[x] += 1
    matched = sum(n for c, n in cls.items() if c.startswith('exp/'))
    expanded_ok = cls.get('exp/ok', 0)
    agree = expanded_ok - by_what.get('expansion differs from the one prescribed', 0)
    judged = {(e['file'], e['id']): e for e in ends}
    n_defs = n_uses = 0
    prescribed_pairs = set()
    for f, R in recs.items():
        n_defs += len(set(r['tid'] for r in R.values()))
        for r in R.values():
            if r['ur']['r'] != 'skip':
                n_uses += 1
                if judged[(f, r['id'])]['cls'].split('/')[0] in ('exp', 'nomatch'):
                    prescribed_pairs.add((r['text'][0], r['text'][1]))
    # anti-vacuity: every class the generator is meant to produce must be present
    # (only when nothing was rejected: an implementation whose every expansion is wrong has no confirmed class
    #  either, and that is a verdict, not a defect of the machinery)
    if not verdict.new:
        for need in ('exp/ok', 'nomatch/err'):
            if cls.get(need, 0) == 0:
                raise vlib.ToolError('no record of class %s: the generator and the specification disagree on scope' % need)
        if agree <= 0:
            raise vlib.ToolError('no expansion of the implementation was confirmed by the specification')
    samples = []
    for f, R in list(recs.items())[:2]:
        for r in list(R.values())[:2]:
            samples.append({'def': r['text'][0][:400], 'use': r['text'][1][:200], 'def_outcome': r['dr']['r'],
                            'use_outcome': r['ur']['r'],
                            'value': show(r['ur']['v'], r['syms'])[:200] if r['ur']['r'] == 'ok' else '',
                            'prescribed_class': judged[(f, r['id'])]['cls']})
    cov = {
        'states': stats['distinct'], 'transitions': len(ends),
        'traces_validated_against_impl': len(judged),
        'samples': samples,
        'pairs': n_uses, 'evaluations': n_defs + n_uses,
        'definitions_evaluated': n_defs,
        'distinct_transformers': len(transformers),
        'distinct_pairs': len(pairs),
        'distinct_nontrivial': len(prescribed_pairs),
        'rule': 'one record per generated (transformer, use) pair evaluated in a real Vm (a single record for a transformer '
                'whose definition marwood rejects); evaluations = definitions + uses evaluated (matcher probes not counted); '
                'distinct_nontrivial = number of distinct (definition text, use text) pairs whose definition was accepted and '
                'for which R7RS prescribes the outcome (an expansion, or no rule matches), i.e. unspecified cases excluded',
        'classes (prescribed/observed)': dict(cls),
        'pairs_where_a_rule_matches': matched,
        'pairs_expanded_by_marwood': expanded_ok,
        'expansions_equal_to_prescribed': agree,
        'pairs_rejected_by_marwood_at_use': sum(n for c, n in cls.items() if c.endswith('/err')),
        'transformers_rejected_by_marwood_at_definition': cls.get('def-err', 0),
        'pairs_no_rule_matches_and_error_reported': cls.get('nomatch/err', 0),
        'pairs_nothing_prescribed': sum(n for c, n in cls.items() if c.startswith('unspec/')),
        'unspecified_reasons': dict(unspec),
        'matching_rule_index': dict(rules_used),
        'structural_features_of_transformers (records)': dict(feat),
        'generator_tags (records)': dict(gfeat),
        'rejected_records_total': len(mism),
        'rejected_by_reason': dict(by_what),
        'rejected_by_first_structural_signature': dict(by_sig),
        'tlc_wall_s': round(stats['wall'], 1), 'tlc_runs': stats['runs'],
    }
    cov.update(extra_cov)
    if selftest_file is not None:
        cov['binding_selftest'] = binding_selftest(wd, recs[selftest_file], [e for e in ends if e['file'] == selftest_file])
    rc = verdict.finish()
    vlib.write_evidence(pid, tier, 'model_checking', cov, time.time() - t0, len(verdict.new), ASSUME)
    vlib.log('C17: %d records, %d rejected (%s); first signatures: %s' % (nrec, len(mism), dict(by_what), dict(by_sig)))
    return rc


@props.prop('C17')
def c17(tier):
    t0 = time.time()
    wd = vlib.workdir('C17-%s' % tier)
    seed = vlib.seed()
    reg = spec_regression(wd)
    if tier == 'quick':
        files = generate(wd, seed, 14400, 6, 6, 10000)     # ~11000 records (a rejected definition gives one)
    else:
        files = generate(wd, seed, 120000, 12, 6, 30000)  # ~100 000 records
    files = [reg['file']] + files
    extra = {'spec_regression': {'inline_and_corpus_examples_checked_by_TLC': reg['examples_states'],
                                 'corpus_records_also_run_against_marwood': reg['corpus_records']}}
    rc = judge('C17', tier, files, extra, t0, wd, selftest_file=reg['file'])
    vlib.cleanup(wd)
    return rc


def replay(path):
    obj = json.load(open(path))
    wd = vlib.workdir('C17-replay')
    jobs = os.path.join(wd, 'jobs.ndjson')
    with open(jobs, 'w') as f:
        f.write(json.dumps({'def': obj['def'], 'uses': [obj['use']]}) + '\n')
    out = os.path.join(wd, 'replay.ndjson')
    vlib.harness(['synrules', 'run', 'in=' + jobs, 'out=' + out])
    mism, ends, stats = validate([out], wd, workers=1, parallel=1)
    recs = load(out)
    for r in recs.values():
        print('definition:', r['text'][0])
        print('use:       ', r['text'][1])
        print('marwood:    def=%s use=%s %s' % (r['dr']['r'], r['ur']['r'],
                                                 show(r['ur']['v'], r['syms']) if r['ur']['r'] == 'ok' else r['ur'].get('how', r['ur'].get('msg', ''))))
    for e in ends:
        print('spec:       class %s rule %s %s' % (e['cls'], e['rule'], e['why']))
    for mm in mism:
        print('MISMATCH', describe(recs[mm['id']], mm))
        print('signatures', signatures(recs[mm['id']], mm)[1:])
    print('replayed: %d mismatch(es)' % len(mism))
    return 1 if mism else 0


# bin/check <ID> --replay F goes through props.replay: route C17 replays here
_props_replay = props.replay


def _replay(pid, path):
    if pid == 'C17':
        return replay(path)
    return _props_replay(pid, path)


props.replay = _replay
