"""C08 / C09 / C16: trace validation of numeric operation records against NumTower (Trace_Num.tla).

The harness (`mwverif numtower gen`) draws operand values from the boundary palette of the
property statements, evaluates every operation in a real Vm once per combination of internal
representations that can carry the values (injected Number variants and Scheme-source routes)
and records operands and outcomes as sign + base-10^4 limbs / double bit patterns.  TLC computes
the required result from the operand values alone (BigNum / NumTower) and prints a MISMATCH line
per failing run and a G line per group; this driver checks that every group and run was judged,
classifies the mismatches and writes the evidence."""
import json, os, struct, time
from collections import Counter, OrderedDict
from concurrent.futures import ThreadPoolExecutor
from fractions import Fraction
import vlib

ASSUME = [
    'TLC, SANY and the CommunityModules Json/IOUtils modules are trusted',
    'spec/BigNum.tla (limb arithmetic) is regression-checked against TLC native integers by spec/MC_BigNum.tla; '
    'NumTower is my reading of R7RS 6.2 and of the property statements',
    'the harness encoding of numbers (decimal text of num::BigInt / i64 / i32 cut into base-10^4 limbs, f64::to_bits) is trusted; '
    'num is used to draw and encode operands, never to compute an expected result',
    'marwood can hold exactly: any integer, and a ratio whose reduced numerator and denominator fit 32-bit signed integers '
    '(an inexact answer is accepted only outside that set, within 2^-50 * max(|operands|, |true result|)); '
    'a reduced numerator of exactly -2^31 is accepted either way',
    'exact division by zero and quotient/remainder/modulo by zero are "an error" in R7RS: every outcome but a crash is accepted',
    'min/max are judged by value only (the inexact-contagion rule of R7RS is not part of C09)',
]

PLAN = {
    # tier: (evaluations per class, shards)
    'quick': {'C08': (20000, 6), 'C09': (16000, 6), 'C16': (24000, 6)},
    'thorough': {'C08': (280000, 24), 'C09': (300000, 24), 'C16': (300000, 24)},
}
CLS = {'C08': 'c08', 'C09': 'c09', 'C16': 'c16'}
KIND_ORDER = ['panic', 'number->string-panic', 'string->number-panic', 'literal-panic', 'error', 'non-number', 'non-boolean',
              'wrong-exact', 'wrong-truth-value', 'wrong-value', 'inexact-out-of-bound', 'representation-dependent',
              'number->string-failed', 'readback-not-a-number', 'readback-exactness-differs', 'readback-differs',
              'literal-not-a-number', 'literal-differs-from-string->number', 'spelling-not-a-numeral',
              'spelling-denotes-another-number', 'inexact-where-exact-representable']


# ----------------------------------------------------------------------------- decoding (for descriptions only)
def limbs_int(l):
    return int(''.join(['%d' % l[-1]] + ['%04d' % x for x in reversed(l[:-1])])) if l else 0


def double_of(w):
    b = (w[0] << 48) | (w[1] << 32) | (w[2] << 16) | w[3]
    return struct.unpack('>d', struct.pack('>Q', b))[0]


def show(v):
    k = v.get('k')
    if k == 'x':
        s = ('-' if v['s'] < 0 else '') + str(limbs_int(v['n']))
        if v['d'] != [1]:
            s += '/' + str(limbs_int(v['d']))
        return s + (' {%s}' % v['rep'] if 'rep' in v else '')
    if k == 'f':
        return repr(double_of(v['w'])) + ' {double %04x%04x%04x%04x}' % tuple(v['w'])
    if k == 's':
        return '"' + ''.join(map(chr, v['v'])) + '"'
    if k == 'b':
        return '#t' if v['v'] else '#f'
    if k == 'panic':
        return 'PANIC "%s"' % v.get('msg', '')
    if k == 'err':
        return 'error %s' % v.get('e', '')
    if k == 'other':
        return 'value %s' % v.get('t', '')
    return k


def required_text(cls, g, m):
    e = m.get('exp')
    if cls == 'c08':
        if e == 'undefined':
            return 'any outcome but a crash (operation undefined for these arguments)'
        if isinstance(e, dict) and 'n' in e:
            q = Fraction(e['s'] * limbs_int(e['n']), limbs_int(e['d']))
            must = q.denominator == 1 or (abs(q.numerator) <= 2 ** 31 - 1 and q.denominator <= 2 ** 31 - 1)
            return 'exactly %s%s' % (q, '' if must else ' (or an inexact value within 2^-50 relative error: not representable exactly)')
    if cls == 'c09':
        if isinstance(e, dict) and 'v' in e:
            return '#t' if e['v'] else '#f'
        if isinstance(e, dict) and 'sign' in e:
            return 'decided by sign %d of the argument' % e['sign']
        return 'the mathematical minimum/maximum of the arguments'
    if cls == 'c16':
        return 'a spelling that denotes %s in radix %d and reads back (string->number and #-prefixed literal) as that number' % (
            show(g['args'][0]), g['r'])
    return str(e)


def got_text(cls, run):
    if cls == 'c16':
        return 's=%s z1=%s z2=%s' % (show(run['s']), show(run.get('z1', {})), show(run.get('z2', {})))
    return show(run['res'])


# ----------------------------------------------------------------------------- run
def generate(cls, count, shards, wd, seed, grid=0):
    per = (count + shards - 1) // shards
    files = []
    if grid and cls in ('c08', 'c09'):
        # the deterministic grid (harness/src/numtower.rs grid_c08 / grid_c09): every ordered pair of the boundary
        # values under every operation, exact values at the edges of double precision against the doubles next to
        # them, small integers in every representation; every grid-th entry, the offset moves with the seed
        out = os.path.join(wd, 'grid.ndjson')
        vlib.harness(['numtower', 'gen', 'op-class=' + cls, 'seed=%d' % seed, 'count=0', 'grid=%d' % grid, 'out=' + out])
        files.append(out)

    def one(i):
        out = os.path.join(wd, 'shard%d.ndjson' % i)
        vlib.harness(['numtower', 'gen', 'op-class=' + cls, 'seed=%d' % (seed * 1000 + i), 'count=%d' % per, 'out=' + out])
        return out

    with ThreadPoolExecutor(max_workers=6) as ex:
        files += list(ex.map(one, range(shards)))
    return files


def validate(files, wd, workers=4, parallel=3, timeout=2400):
    """returns (mismatches [(file, obj)], groups {(file,id): gobj}, stats)"""
    mism, gl = [], {}
    stats = {'generated': 0, 'distinct': 0, 'wall': 0.0, 'tlc_runs': 0}

    def one(ip):
        i, path = ip
        r = vlib.tlc('Trace_Num', 'Trace_Num.cfg', os.path.join(wd, 'meta%d' % i), env={'TRACE': path},
                     workers=workers, timeout=timeout, heap='4g')
        return path, r

    with ThreadPoolExecutor(max_workers=parallel) as ex:
        for path, r in ex.map(one, list(enumerate(files))):
            if r.rc != 0:
                vlib.log(r.tail)
                raise vlib.ToolError('TLC failed (rc=%d) on %s' % (r.rc, path))
            stats['generated'] += r.generated
            stats['distinct'] += r.distinct
            stats['wall'] += r.wall
            stats['tlc_runs'] += 1
            for m in r.tag('MISMATCH'):
                mism.append((path, m))
            for g in r.tag('G'):
                gl[(path, g['id'])] = g
    return mism, gl, stats


def load(files):
    recs = {}
    for f in files:
        with open(f) as fh:
            for line in fh:
                if line.strip():
                    j = json.loads(line)
                    recs[(f, j['id'])] = j
    return recs


def nontrivial_arg(a):
    if a['k'] == 'f':
        return True
    return a['d'] != [1] or len(a['n']) > 3 or (len(a['n']) == 3 and limbs_int(a['n']) >= 2 ** 31)


def selfcheck(tier, wd):
    """Regression of the specification's own arithmetic: BigNum / NumTower against TLC's native integers on all
    pairs of small values and the limb-boundary values (spec/MC_BigNum.tla)."""
    cfg = 'MC_BigNum_quick.cfg' if tier == 'quick' else 'MC_BigNum.cfg'
    r = vlib.tlc('MC_BigNum', cfg, os.path.join(wd, 'meta-selfcheck'), workers=8, timeout=900, heap='4g')
    if r.rc != 0 or r.errors:
        vlib.log(r.tail)
        raise vlib.ToolError('specification self-check MC_BigNum failed (rc=%d): the arithmetic of the specification is wrong' % r.rc)
    return r.distinct


def run(pid, tier):
    t0 = time.time()
    cls = CLS[pid]
    count, shards = PLAN[tier][pid]
    wd = vlib.workdir('%s-%s' % (pid, tier))
    selfchecked = selfcheck(tier, wd)
    files = generate(cls, count, shards, wd, vlib.seed(), grid=1)
    recs = load(files)
    mism, gl, stats = validate(files, wd)

    # every group and every run was judged by TLC; the spec's own divisions verified
    nruns = 0
    bad_by_group = Counter((f, m['id']) for f, m in mism)
    for key, g in recs.items():
        nruns += len(g['runs'])
        s = gl.get(key)
        if s is None:
            raise vlib.ToolError('group %s of %s was not judged' % (key[1], key[0]))
        if s['n'] != len(g['runs']) or s['bad'] != bad_by_group.get(key, 0):
            raise vlib.ToolError('group %s: judged %d runs / %d failing, recorded %d runs / %d MISMATCH lines'
                                 % (key[1], s['n'], s['bad'], len(g['runs']), bad_by_group.get(key, 0)))
        if not s['self']:
            raise vlib.ToolError('specification self-check (division identity) failed on group %s %s' % (key[1], g['expr']))
    if len(gl) != len(recs):
        raise vlib.ToolError('%d G lines for %d groups' % (len(gl), len(recs)))
    for f, m in mism:
        if m['kind'] == 'malformed-record':
            raise vlib.ToolError('malformed record %s in %s' % (m['id'], f))

    # classify
    verdict = vlib.Verdict(pid)
    classes = OrderedDict()
    kinds = Counter()
    for f, m in mism:
        g = recs[(f, m['id'])]
        r = g['runs'][m['run'] - 1]
        kinds[m['kind']] += 1
        opname = g['op'] if cls != 'c16' else 'radix%d' % g['r']
        structural = '%s/%s/%s/%s' % (pid, opname, 'x'.join(r['reps']), m['kind'])
        sigs = ['expr:' + g['expr'], structural]
        classes.setdefault(structural, []).append((sigs, g, r, m))

    def order(item):
        k = item[1][0][3]['kind']
        return (KIND_ORDER.index(k) if k in KIND_ORDER else 99, item[0])

    for structural, members in sorted(classes.items(), key=order):
        unmatched = []
        for sigs, g, r, m in members:
            if vlib.match_finding(pid, set(sigs), verdict.findings) is None:
                unmatched.append((sigs, g, r, m))
            else:
                verdict.violation(sigs, '', {})
        if unmatched:
            sigs, g, r, m = unmatched[0]
            desc = '%s  [operands carried as %s, %s]  %s: got %s; required %s  (%d failing run(s) in class %s%s)' % (
                g['expr'], ' x '.join(r['reps']) or '-', 'injected' if r['route'] == 'inj' else 'from source ' + r.get('src', g['expr']),
                m['kind'], got_text(cls, r), required_text(cls, g, m), len(unmatched), structural,
                ''.join('; ' + e for e in sorted(set(x[1]['expr'] for x in unmatched[1:6]) - {g['expr']})))
            verdict.violation(sigs, desc, {'kind': 'numtower', 'property': pid, 'group': dict(g, runs=[r]), 'mismatch': m,
                                           'class_size': len(unmatched)})

    # evidence
    ops = Counter()
    reps = Counter()
    routes = Counter()
    outcomes = Counter()
    tuples = set()
    distinct_groups = set()
    nontrivial = set()
    inexact_ok = 0
    failing = set((f, m['id'], m['run']) for f, m in mism)
    for key, g in recs.items():
        ops[g['op'] if cls != 'c16' else 'radix%d' % g['r']] += len(g['runs'])
        at = json.dumps(g['args'], sort_keys=True)
        tuples.add(at)
        gk = (g['op'], g['r'], at)
        distinct_groups.add(gk)
        if any(nontrivial_arg(a) for a in g['args']):
            nontrivial.add(gk)
        for i, r in enumerate(g['runs']):
            reps['x'.join(r['reps']) or '-'] += 1
            routes[r['route']] += 1
            res = r['res'] if cls != 'c16' else r['s']
            outcomes[{'x': 'exact', 'f': 'inexact', 'b': 'boolean', 's': 'string'}.get(res['k'], res['k'])] += 1
            if cls == 'c08' and res['k'] == 'f' and (key[0], g['id'], i + 1) not in failing:
                inexact_ok += 1
    samples = []
    for key in list(recs)[:3]:
        g = recs[key]
        samples.append({'expr': g['expr'], 'args': [show(a) for a in g['args']],
                        'runs': [{'reps': r['reps'], 'route': r['route'], 'got': got_text(cls, r)} for r in g['runs'][:4]]})
    cov = {
        'states': stats['generated'], 'transitions': stats['generated'],
        'traces_validated_against_impl': nruns,
        'samples': samples,
        'evaluations': nruns, 'groups': len(recs),
        'distinct_nontrivial': len(nontrivial),
        'rule': 'a group is an operation applied to operand values drawn by harness/src/numtower.rs from the boundary palette of the '
                'property statement; its runs are the evaluations of that call in a real Vm, one per combination of internal '
                'representations carrying the operands and per route (injected variant / Scheme source). distinct_nontrivial = number '
                'of distinct (operation, radix, operand values) tuples with at least one operand that is a non-integer, a double, or '
                'of magnitude >= 2^31',
        'distinct_groups': len(distinct_groups), 'distinct_operand_tuples': len(tuples),
        'runs_per_operation': dict(ops), 'runs_per_representation_combination': dict(reps), 'runs_per_route': dict(routes),
        'outcome_kinds': dict(outcomes),
        'mismatching_runs_by_kind': dict(kinds), 'mismatch_classes': len(classes),
        'mismatching_runs_by_class': {k: len(v) for k, v in classes.items()},
        'shortest_example_per_class': {k: min((x[2].get('src') or x[1]['expr'] for x in v), key=len) for k, v in classes.items()},
        'violations_of_this_property': verdict.total,
        'tlc_processes': stats['tlc_runs'], 'tlc_wall_s_sum': round(stats['wall'], 1),
        'spec_selfcheck_pairs_MC_BigNum': selfchecked,
    }
    if cls == 'c08':
        cov['inexact_results_accepted_within_bound'] = inexact_ok
    rc = verdict.finish()
    vlib.write_evidence(pid, tier, 'model_checking', cov, time.time() - t0, len(verdict.new), ASSUME)
    vlib.cleanup(wd)
    return rc


def replay(obj):
    """Re-evaluate the recorded group in the current marwood tree and judge it again."""
    wd = vlib.workdir('replay-numtower')
    src = os.path.join(wd, 'in.ndjson')
    with open(src, 'w') as f:
        f.write(json.dumps(dict(obj['group'], id=1)) + '\n')
    out = os.path.join(wd, 'out.ndjson')
    vlib.harness(['numtower', 'replay', 'in=' + src, 'out=' + out])
    mism, gl, stats = validate([out], wd, workers=1, parallel=1)
    recs = load([out])
    cls = CLS[obj['property']]
    for f, m in mism:
        g = recs[(f, m['id'])]
        r = g['runs'][m['run'] - 1]
        print('MISMATCH %s [%s]: got %s; required %s' % (g['expr'], m['kind'], got_text(cls, r), required_text(cls, g, m)))
    print('replayed: %d mismatch(es)' % len(mism))
    return 1 if mism else 0
