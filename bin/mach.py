"""Compiler and instruction-set conformance: the real compiler output and the real register trace of every
instruction validated by TLC (Trace_Machine) against the implementation-shaped semantics Machine.tla
(Compile: core form -> instructions; Exec: one instruction)."""
import json, os
import vlib


def run(verdict, wd, plans, seed, workers=8, maxsteps=3000):
    """plans: list of (kind, sessions).  Adds violations to verdict; returns a coverage dict."""
    cov = {'machine_sessions': 0, 'machine_forms': 0, 'machine_instructions': 0, 'machine_out_of_model': 0,
           'machine_mismatches': 0, 'machine_tlc_states': 0}
    # a recorded session is about 0.3 MB of JSON and a multiple of that as TLC values: at most CHUNK sessions per
    # TLC run (500 sessions in one run filled an 8 GB heap and never finished)
    CHUNK = 100
    pieces = []
    for i, plan in enumerate(plans):
        kind, count = plan[0], plan[1]
        extra = list(plan[2]) if len(plan) > 2 else []
        c = 0
        while count > 0:
            pieces.append((kind, min(CHUNK, count), extra, seed + 11 * i + 7919 * c))
            count -= CHUNK
            c += 1
    for i, (kind, count, extra, pseed) in enumerate(pieces):
        out = os.path.join(wd, 'mach%d.ndjson' % i)
        p = vlib.harness(['machine', 'kind=' + kind, 'seed=%d' % pseed, 'count=%d' % count, 'out=' + out,
                          'maxsteps=%d' % maxsteps] + extra, check=False, timeout=900)
        if p.returncode != 0:
            verdict.violation(['machine/abort/' + kind], 'the harness died while recording %s sessions (rc=%s)' % (kind, p.returncode),
                              {'kind': 'machine', 'plan': [kind, count, extra]})
            continue
        n = sum(1 for _ in open(out))
        if n == 0:
            continue
        r = vlib.tlc('Trace_Machine', 'Trace_Machine.cfg', os.path.join(wd, 'machmeta%d' % i), env={'TRACE': out},
                     workers=workers, timeout=7200, heap='8g')
        if r.rc != 0:
            vlib.log(r.tail)
            raise vlib.ToolError('Trace_Machine failed (rc=%d)' % r.rc)
        ends = {}
        for e in r.tag('END'):
            ends[e['id']] = e
        if len(ends) != n:
            raise vlib.ToolError('Trace_Machine consumed %d of %d sessions' % (len(ends), n))
        os.remove(out)
        cov['machine_sessions'] += n
        cov['machine_forms'] += sum(e['forms'] for e in ends.values())
        cov['machine_instructions'] += sum(e['steps'] for e in ends.values())
        cov['machine_out_of_model'] += sum(1 for e in ends.values() if e['note'].startswith('out of model'))
        cov['machine_tlc_states'] += r.generated
        seen = set()
        for m in r.tag('MISMATCH'):
            key = (m['id'], m['form'])
            if key in seen:
                continue
            seen.add(key)
            cov['machine_mismatches'] += 1
            exp = json.dumps(m['exp'])[:300]
            got = json.dumps(m['got'])[:300]
            where = 'prelude form %d' % m['form'] if m.get('prelude') else m['text'][:160]
            desc = '%s: %s (session %d of %s, form %d, instruction %d): model %s, implementation %s' % (
                m['what'], where, m['id'], kind, m['form'], m['step'], exp, got)
            what = m['what']
            detail = ''
            if isinstance(m['exp'], dict) and 'what' in m['exp']:
                detail = '/' + str(m['exp']['what'])
            elif isinstance(m['exp'], list) and m['exp']:
                detail = '/' + str(m['exp'][0])
            verdict.violation(['machine/%s%s' % (what, detail)], desc,
                              {'kind': 'machine', 'plan': [kind, count, extra], 'seed': pseed, 'mismatch': m})
    return cov


def design_check(verdict, wd, cfg):
    """The two TLA+ semantics against each other (MC_Machine): Compile + Exec of Machine.tla must agree with SchemeCEK
    on every program of the bounded grammar (every Stride-th in the quick configuration) and of the closure /
    continuation skeleton families.  A disagreement is a defect of the design model, reported as a tool error: the
    implementation is not involved."""
    r = vlib.tlc('MC_Machine', cfg, os.path.join(wd, 'mcmachine'), workers=10, timeout=5400, heap='8g')
    if r.rc != 0:
        vlib.log(r.tail)
        raise vlib.ToolError('MC_Machine: the compiler/VM model and the reference semantics disagree, or TLC failed (rc=%d)' % r.rc)
    st = r.tag('SAMPLE')
    out = {'cfg': cfg, 'programs_checked': r.distinct, 'invariant': 'Agree (same outcome, value and globals in Machine and SchemeCEK)'}
    if st:
        out['classification_of_a_sample'] = st[0]
        g = st[0]['grammar']
        if g['done'] == 0 or g['fail'] == 0:
            raise vlib.ToolError('MC_Machine is vacuous: %s' % json.dumps(g))
    return out


def replay(obj):
    """Re-run the recorded plan; exit 1 if the mismatch is still there."""
    verdict = vlib.Verdict('replay')
    wd = vlib.workdir('replay-machine')
    run(verdict, wd, [tuple(obj['plan'])], obj.get('seed', 0), workers=4)
    vlib.cleanup(wd)
    return 1 if verdict.total else 0
