"""C12 memory is bounded by live data: (a) MarwoodGC model checked: Exactness / FreeList / growth policy;
(b) snapshots around natural and forced collections validated against GCPreds (exactly the reachable
cells survive); (c) garbage loops per allocation kind x live-set size at n and 10n iterations under the
natural cadence: every capacity change follows the growth policy, capacity(10n) = capacity(n) and stays
under the bound derived from the live data."""
import os, time, json
import props, vlib, gcs


@props.prop('C12')
def c12(tier):
    t0 = time.time()
    q = tier == 'quick'
    wd = vlib.workdir('C12-' + tier)
    verdict = vlib.Verdict('C12')
    plans = [
        {'kind': 'garbage', 'n': 3000 if q else 100000, 'every': 4 if q else 25, 'maxev': 3 if q else 6, 'lives': '0,10,1000,4000'},
        {'kind': 'alloc', 'count': 4 if q else 60, 'period': 5, 'every': 30 if q else 20, 'maxev': 20},
        {'kind': 'cont', 'count': 3 if q else 40, 'period': 3, 'every': 30 if q else 20, 'maxev': 20},
    ]
    cov = gcs.run(verdict, wd, tier, plans, vlib.seed())
    runs = []
    for f in os.listdir(wd):
        if f.startswith('gc0') and f.endswith('.ndjson') and 'shard' not in f:
            for l in open(os.path.join(wd, f)):
                j = json.loads(l)
                if j.get('ev') == 'run':
                    runs.append({k: j[k] for k in ('template', 'livesize', 'n', 'cap_n', 'cap_10n', 'maxlive', 'collections_10n')})
    rc = verdict.finish()
    coverage = dict(cov)
    coverage.update({
        'states': cov['states_mc'] + cov['trace_gc_states'], 'transitions': cov['states_mc'] + cov['trace_gc_states'],
        'traces_validated_against_impl': cov['collection_events_validated'],
        'samples': runs[:6],
        'evaluations': len(runs) * 2 + cov['collection_events_validated'],
        'distinct_nontrivial': len(runs) + cov['snapshots_validated'],
        'rule': 'garbage loops: 17 allocation kinds (runs of failing evaluations; pairs and closures also driven in slices of 1000 instructions; pairs, vectors, strings, closures, continuations, continuation chains handed on by the receiver, eval, top-level forms, top-level forms with fresh local names, symbols, bignums, delay-force chains, bulk-builtin bursts, mixed) x live-set sizes {0,10,1000,4000: the last beyond one heap chunk} x iteration counts n and 10n (n=%d), natural '
                'collection cadence; snapshots at sampled natural collections and at forced collections of generated '
                'sessions; distinct_nontrivial = loop configurations + snapshots validated' % plans[0]['n'],
        'garbage_runs': len(runs), 'iteration_counts': [plans[0]['n'], 10 * plans[0]['n']],
    })
    vlib.write_evidence('C12', tier, 'model_checking', coverage, time.time() - t0, len(verdict.new), [
        'TLC/SANY/Json trusted', 'the harness projection of raw cells to out-edges and roots (harness/src/snap.rs) is trusted; '
        'it was written from the meaning of the cell kinds, not from heap.rs',
        'A (cells allocated between two collection opportunities) is bounded below by 2 chunks in the capacity bound'])
    vlib.cleanup(wd)
    return rc
