"""C16: see bin/numtower.py (trace validation of numeric operation records against spec/NumTower.tla)."""
import props, numtower


@props.prop('C16')
def check(tier):
    return numtower.run('C16', tier)
