"""Structural collector checks shared by C03, C12 and C18: exhaustive model check of MarwoodGC for
small heaps, and validation by TLC (Trace_GC) of snapshots recorded around real collections."""
import json, os, time
from concurrent.futures import ThreadPoolExecutor
import vlib


def model_check(wd, tier, cfgs=None):
    """Returns dict with states of the exhaustive runs; raises ToolError if an invariant fails
    (that would be an error of the model, not of marwood)."""
    out = []
    cfgs = cfgs or (['MC_GC_small.cfg'] if tier == 'quick' else ['MC_GC_small.cfg', 'MC_GC_live.cfg'])
    for i, cfg in enumerate(cfgs):
        r = vlib.tlc('MarwoodGC', cfg, os.path.join(wd, 'mcgc%d' % i), workers=6, timeout=1500, heap='6g')
        if r.rc != 0:
            vlib.log(r.tail)
            raise vlib.ToolError('model check of MarwoodGC failed with %s (rc=%d)' % (cfg, r.rc))
        out.append({'cfg': cfg, 'states': r.generated, 'distinct': r.distinct, 'depth': r.depth, 'wall_s': round(r.wall, 1)})
    return out


def validate_events(files, wd, parallel=3, workers=4):
    mism, ends, stats = [], [], {'generated': 0, 'wall': 0.0}

    def one(i_path):
        i, p = i_path
        r = vlib.tlc('Trace_GC', 'Trace_GC.cfg', os.path.join(wd, 'gcmeta%d' % i), env={'TRACE': p}, workers=workers,
                     timeout=2400, heap='8g')
        return p, r

    with ThreadPoolExecutor(max_workers=parallel) as ex:
        for p, r in ex.map(one, list(enumerate(files))):
            if r.rc != 0:
                vlib.log(r.tail)
                raise vlib.ToolError('Trace_GC failed (rc=%d) on %s' % (r.rc, p))
            stats['generated'] += r.generated
            stats['wall'] += r.wall
            for m in r.tag('MISMATCH'):
                m['file'] = p
                mism.append(m)
            ends += r.tag('END')
    return mism, ends, stats


def sanitize(path, dead, plan):
    """Keep the complete lines of a (possibly truncated) event file; a run that crashed or hung
    contributes an 'abort' event, which Trace_GC rejects."""
    lines = []
    if os.path.exists(path):
        for l in open(path, errors='replace').read().split('\n'):
            l = l.strip()
            if not l:
                continue
            try:
                json.loads(l)
                lines.append(l)
            except ValueError:
                pass
    if dead:
        lines.append(json.dumps({'ev': 'abort', 'sess': 0, 'form': 0, 'kind': plan['kind'], 'how': dead, 'text': json.dumps(plan)}))
    with open(path, 'w') as f:
        f.write('\n'.join(lines) + ('\n' if lines else ''))
    return len(lines)


def snapshots(wd, plans, seed, tier='quick'):
    """plans: list of dict(kind, count, period, every[, maxev]).  Returns list of ndjson shard files."""
    files = []
    nev = 0
    for i, p in enumerate(plans):
        out = os.path.join(wd, 'gc%d.ndjson' % i)
        if p['kind'] == 'garbage':
            r = vlib.harness(['garbage', 'n=%d' % p['n'], 'lives=' + p.get('lives', '0,10,1000'), 'every=%d' % p.get('every', 5),
                              'maxev=%d' % p.get('maxev', 6), 'out=' + out] + (['kinds=' + p['kinds']] if 'kinds' in p else []),
                             timeout=7000, check=False)
        else:
            r = vlib.harness(['gcsnap', 'kind=' + p['kind'], 'seed=%d' % (seed + 31 * i), 'count=%d' % p['count'],
                              'period=%d' % p['period'], 'every=%d' % p['every'], 'maxev=%d' % p.get('maxev', 200), 'out=' + out],
                             timeout=p.get('timeout', 240 if tier == 'quick' else 3000), check=False)
        dead = None if r.returncode == 0 else ('harness %s: rc=%s %s' % (p['kind'], r.returncode, (r.stderr or '')[-200:]))
        n = sanitize(out, dead, p)
        nev += n
        files += vlib.shard_lines(out, max(1, n // 60), wd, 'gcshard%d' % i)
    return files, nev


def run(verdict, wd, tier, plans, seed):
    mc = model_check(wd, tier)
    files, nev = snapshots(wd, plans, seed, tier)
    mism, ends, stats = validate_events(files, wd)
    if len(ends) != nev:
        raise vlib.ToolError('Trace_GC consumed %d of %d events' % (len(ends), nev))
    snaps = sum(1 for e in ends if e.get('snap'))
    freed = sum(e.get('freed', 0) for e in ends)
    if snaps and freed == 0:
        raise vlib.ToolError('no snapshot shows a freed cell: the collections observed were vacuous')
    seen = set()
    for m in mism:
        key = (m['sess'], m['form'], m['what'])
        if key in seen:
            continue
        seen.add(key)
        desc = 'collection event (session %s form %s, collection %s): %s; expected %s got %s' % (
            m['sess'], m['form'], m.get('n'), m['what'], json.dumps(m.get('exp'))[:200], json.dumps(m.get('got'))[:200])
        verdict.violation(['gc:' + m['what']], desc, {'kind': 'gc-event', 'mismatch': {k: m[k] for k in m if k != 'file'}})
    return {'model_check': mc, 'collection_events_validated': nev, 'snapshots_validated': snaps,
            'cells_freed_in_snapshots': freed, 'trace_gc_states': stats['generated'],
            'gc_mismatches': len(mism), 'states_mc': sum(x['states'] for x in mc)}
