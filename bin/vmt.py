"""Instruction-level conformance: traces of the real VM validated by TLC (Trace_VM) against the register
arithmetic of the calling protocol (VMRules.tla, shared with the model-checked MarwoodVM)."""
import json, os
import vlib


def run(verdict, wd, plans, seed):
    """plans: list of (kind, count).  Adds violations to verdict; returns coverage dict."""
    cov = {'vm_trace_evaluations': 0, 'vm_trace_steps': 0, 'vm_trace_states': 0, 'vm_trace_mismatches': 0}
    # at most 200 programs (up to 4000 recorded instructions each) per TLC run
    pieces = []
    for i, (kind, count) in enumerate(plans):
        c = 0
        while count > 0:
            pieces.append((kind, min(200, count), seed + 7 * i + 7919 * c))
            count -= 200
            c += 1
    for i, (kind, count, pseed) in enumerate(pieces):
        out = os.path.join(wd, 'vmt%d.ndjson' % i)
        p = vlib.harness(['vmtrace', 'kind=' + kind, 'seed=%d' % pseed, 'count=%d' % count, 'out=' + out],
                         check=False, timeout=900)
        if p.returncode != 0:
            verdict.violation(['vmtrace/abort'], 'the harness died while tracing %s programs (rc=%s)' % (kind, p.returncode),
                              {'kind': 'vmtrace', 'plan': [kind, count]})
            continue
        n = sum(1 for _ in open(out))
        if n == 0:
            continue
        r = vlib.tlc('Trace_VM', 'Trace_VM.cfg', os.path.join(wd, 'vmtmeta%d' % i), env={'TRACE': out}, workers=8,
                     timeout=3600, heap='8g')
        if r.rc != 0:
            vlib.log(r.tail)
            raise vlib.ToolError('Trace_VM failed (rc=%d)' % r.rc)
        ends = r.tag('END')
        if len(ends) != n:
            raise vlib.ToolError('Trace_VM consumed %d of %d traces' % (len(ends), n))
        cov['vm_trace_evaluations'] += n
        cov['vm_trace_steps'] += sum(e['steps'] for e in ends)
        cov['vm_trace_states'] += r.generated
        seen = set()
        for m in r.tag('MISMATCH'):
            cov['vm_trace_mismatches'] += 1
            key = (m['op'], m['what'])
            if key in seen:
                continue
            seen.add(key)
            desc = 'instruction %s (step %d of %s): %s; before %s, after %s, required %s' % (
                m['op'], m['step'], m['text'][:120], m['what'], json.dumps(m['pre'])[:200], json.dumps(m['post']), json.dumps(m['exp']))
            verdict.violation(['vm-step/%s/%s' % (m['op'], m['what'])], desc, {'kind': 'vm-step', 'mismatch': m})
    return cov
