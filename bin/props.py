"""Per-property checks.  Each function takes the tier and returns the exit code."""
import json, os, time
import vlib, cek

REGISTRY = {}


def prop(pid):
    def deco(f):
        REGISTRY[pid] = f
        return f
    return deco


CEK_ASSUME = [
    'TLC, SANY and the CommunityModules Json module are trusted',
    'the harness projection Cell -> JSON datum (harness/src/enc.rs) is trusted',
    'SchemeCEK is my reading of R7RS; it is regression-checked against hand-stated R7RS results (corpus/r7rs.scm)',
    'sessions that leave the model (integers beyond 2^30, R7RS-unspecified behaviour) are abandoned and counted, not judged',
]


def cek_property(pid, tier, plan, relevant, rule, level='model_checking', max_oom=0.25, extra_cov=None,
                 extra_check=None):
    """plan: list of dicts {kind, count, cfgs, args}.  relevant(mm, sess, group) decides whether a
    mismatch (grouped over configurations) is a violation of this property."""
    t0 = time.time()
    wd = vlib.workdir('%s-%s' % (pid, tier))
    seed = vlib.seed()
    files = []
    sessions = {}
    nsess = 0
    for i, g in enumerate(plan):
        out = os.path.join(wd, 'gen%d.ndjson' % i)
        args = ['gen', g['kind'], 'seed=%d' % (seed + 1000 * i), 'count=%d' % g['count'], 'cfgs=' + g['cfgs'],
                'out=' + out] + g.get('args', [])
        if g['kind'] == 'corpus':
            args = ['corpus', os.path.join(vlib.VERIF, 'corpus', g['file']), out, g['cfgs']]
        p = vlib.harness(args, check=False, timeout=g.get('timeout', 420 if tier == 'quick' else 5400))
        if p.returncode != 0:
            # the harness process died (abort / panic outside catch_unwind in the code under test):
            # run every session in a child process so that the crash becomes a recorded outcome
            vlib.log('generation of %s failed (rc=%d); re-running isolated' % (g['kind'], p.returncode))
            os.environ.setdefault('VERIF_CHILD_SECS', '25' if tier == 'quick' else '90')
            vlib.harness(args + ['isolate=1'], timeout=7200)
        shards = vlib.shard_lines(out, g.get('shards', 1), wd, 'shard%d' % i)
        for s in shards:
            S = cek.load_sessions(s)
            sessions[s] = S
            nsess += len(S)
            files.append(s)
    # many shards (thorough tier): more TLC processes with fewer workers each -- one process per shard keeps
    # a single core busy most of the time, the sessions of a shard being long linear chains
    many = len(files) > 6
    mism, ends, stats = cek.validate(files, wd, workers_per_tlc=(3 if many else 4) if len(files) > 1 else 8,
                                     parallel=min(5 if many else 3, len(files)))
    verdict = vlib.Verdict(pid)
    # every session must have been consumed to its end
    # TLC occasionally evaluates an action (and its PrintT) twice for one state when several workers are
    # used: sessions are counted by identity, not by END lines
    uniq = {}
    for e in ends:
        uniq[(e['file'], e['id'])] = e
    ends = list(uniq.values())
    if len(ends) != nsess:
        raise vlib.ToolError('trace validation consumed %d of %d sessions' % (len(ends), nsess))
    oom = sum(1 for e in ends if e['oom'])
    if nsess and oom / nsess > max_oom:
        raise vlib.ToolError('%d of %d sessions left the model; generator and specification disagree on scope' % (oom, nsess))
    # group mismatches by (file, session, form, kind)
    groups = {}
    for mm in mism:
        groups.setdefault((mm['file'], mm['id'], mm['form'], mm['kind']), []).append(mm)
    nviol = 0
    for (f, sid, form, kind), g in sorted(groups.items(), key=lambda x: (x[0][0], x[0][1], x[0][2])):
        sess = sessions[f][sid]
        runs = sorted(set(m['run'] for m in g))
        if not relevant(g[0], sess, runs):
            continue
        mm = g[0]
        desc = cek.describe(sess, mm) + '  [configurations: %s]' % ','.join(runs)
        if verdict.violation(cek.signatures(sess, mm), desc, cek.replay_obj(sess, mm)):
            nviol += 1
    if extra_check:
        extra_check(verdict, sessions, wd)
    vm_mc = None
    if tier == 'thorough' and pid in ('C04', 'C05', 'C07', 'C13'):
        # the calling-protocol model of the VM (MarwoodVM.tla): FrameChain, TailCallOK, ReturnOK, RestoreOK,
        # FailureOK, IdleSp, SliceInvisible for all call / tail-call / vararg / return / capture / throw / fail
        # / yield sequences within the bounds of MC_VM.cfg
        r = vlib.tlc('MarwoodVM', 'MC_VM.cfg', os.path.join(wd, 'mcvm'), workers=8, timeout=1800, heap='8g')
        if r.rc != 0:
            vlib.log(r.tail)
            raise vlib.ToolError('model check of MarwoodVM failed (rc=%d)' % r.rc)
        vm_mc = {'cfg': 'MC_VM.cfg', 'states': r.generated, 'distinct': r.distinct}
    rules = cek.summarize_rules(ends)
    forms = sum(e['forms'] for e in ends)
    nruns = sum(len(s['runs']) for S in sessions.values() for s in S.values())
    distinct_texts = len(set(t for S in sessions.values() for s in S.values() for t in s.get('text', []) if len(t) > 12))
    samples = []
    for S in sessions.values():
        for s in list(S.values())[:2]:
            samples.append({'forms': s.get('text', [])[:6], 'tags': s.get('tags', []),
                            'first_run': [o.get('r') for o in s['runs'][0]['obs']][:6] if s.get('runs') else ['aborted']})
        if len(samples) >= 3:
            break
    cov = {
        'states': stats['generated'], 'transitions': stats['generated'],
        'traces_validated_against_impl': nruns,
        'samples': samples[:3],
        'sessions': nsess, 'forms_judged': forms, 'sessions_out_of_model': oom,
        'evaluations': nruns, 'distinct_nontrivial': distinct_texts,
        'rule': rule + '; distinct_nontrivial = number of distinct top-level form texts longer than 12 characters',
        'spec_rules_exercised': rules,
        'mismatch_groups_total': len(groups), 'violations_of_this_property': verdict.total,
        'tlc_wall_s': round(stats['wall'], 1),
    }
    if vm_mc:
        cov['marwoodvm_model_check'] = vm_mc
    if extra_cov:
        cov.update(extra_cov(sessions, ends))
    rc = verdict.finish()
    vlib.write_evidence(pid, tier, level, cov, time.time() - t0, len(verdict.new), CEK_ASSUME)
    vlib.cleanup(wd)
    return rc


# ----------------------------------------------------------------------------- C01
@prop('C01')
def c01(tier):
    n = 400 if tier == 'quick' else 20000
    plan = [
        {'kind': 'corpus', 'file': 'r7rs.scm', 'count': 0, 'cfgs': 'basic'},
        {'kind': 'lang', 'count': n, 'cfgs': 'basic', 'shards': 1 if tier == 'quick' else 16},
        # nested procedures with shadowing over three names (the C02 skeletons, three levels): lambda / define /
        # set! with every mix of parameter, rest parameter, internal definition and free variable
        {'kind': 'scope', 'count': 120 if tier == 'quick' else 6000, 'cfgs': 'plain', 'args': ['l=3', 'mode=random'],
         'shards': 1 if tier == 'quick' else 8},
    ]

    def relevant(mm, sess, runs):
        # an abort of the host process or a generated text the reader does not read is no evaluation result at all
        return mm['kind'] == 'abort' or (mm['kind'] in ('conformance', 'corpus') and any(r in ('plain', 'prefix', 'spec') for r in runs))

    import mach
    mcov = {}

    def machine_check(verdict, sessions, wd):
        # second, implementation-shaped semantics (spec/Machine.tla): the compiler's output for every form and the
        # register trace of every instruction, for grammar sessions and scope skeletons
        q = tier == 'quick'
        mcov.update(mach.run(verdict, wd, [('lang', 25 if q else 600), ('scope3', 10 if q else 250)], vlib.seed()))

    return cek_property('C01', tier, plan, relevant, extra_check=machine_check,
                        extra_cov=lambda sessions, ends: {'compiler_and_instruction_traces': mcov}, rule=
                        'sessions of 3-8 top-level forms from the typed recursive grammar of harness/src/gen_lang.rs '
                        '(every core and derived form, fixed/variadic procedures, apply, eval, map/for-each, '
                        'redefinition, failure injection 15%), each run in a fresh VM and in a VM with unrelated '
                        'earlier definitions, plus the hand-stated R7RS corpus, plus random three-level scope '
                        'skeletons (nested lambda / internal define / set! over three shadowing names)')



REPLAYERS = {}     # replay kind -> function(obj) -> exit code; plug-ins register here


def replay(pid, path):
    obj = json.load(open(path))
    print(json.dumps(obj, indent=1)[:6000])
    if obj.get('kind') == 'numtower':
        import numtower
        return numtower.replay(obj)
    if obj.get('kind') == 'machine':
        import mach
        return mach.replay(obj)
    if obj.get('kind') in REPLAYERS:
        return REPLAYERS[obj['kind']](obj)
    if obj.get('kind') == 'cek-session':
        wd = vlib.workdir('replay')
        src = os.path.join(wd, 'forms.scm')
        with open(src, 'w') as f:
            f.write('\n'.join(obj['session'].get('text', [])) + '\n')
        out = os.path.join(wd, 'replay.ndjson')
        vlib.harness(['corpus', src, out, 'full'])
        mism, ends, stats = cek.validate([out], wd, workers_per_tlc=1, parallel=1)
        S = cek.load_sessions(out)
        for mm in mism:
            print('MISMATCH', cek.describe(S[mm['id']], mm))
        print('replayed: %d mismatch(es)' % len(mism))
        return 1 if mism else 0
    return 2


# ----------------------------------------------------------------------------- plug-in checks
# every bin/p_<ID>.py module registers its check with @props.prop('<ID>')
def _load_plugins():
    import glob, importlib
    for f in sorted(glob.glob(os.path.join(os.path.dirname(os.path.abspath(__file__)), 'p_*.py'))):
        importlib.import_module(os.path.basename(f)[:-3])


_load_plugins()
