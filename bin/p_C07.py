"""C07 a failed evaluation leaves no trace: histories with failing forms (A) against their
effects-only twins (B), both validated against the CEK machine (failure aborts the form and keeps
store and globals); probes - including failing probes and their stack traces - must agree."""
import props


@props.prop('C07')
def c07(tier):
    q = tier == 'quick'
    plan = [
        {'kind': 'fail', 'count': 60 if q else 3000, 'cfgs': 'plain', 'args': ['kmax=%d' % (50 if q else 1000)],
         'shards': 1 if q else 12},
        # failure injection at random subexpression positions of generated programs
        {'kind': 'lang', 'count': 100 if q else 4000, 'cfgs': 'basic', 'args': ['fail=45'], 'shards': 1 if q else 8},
    ]

    def relevant(mm, sess, runs):
        if mm['kind'] in ('stack', 'twin', 'accumulation', 'abort'):
            return True
        # a wrong value/failure counts here only after an earlier failure in the same session
        if mm['kind'] == 'conformance' and sess.get('runs'):
            obs = sess['runs'][0]['obs']
            return any(o.get('r') != 'ok' for o in obs[:mm['form'] - 1])
        return False

    def extra(sessions, ends):
        fails = 0
        kmax = 0
        probes = 0
        for S in sessions.values():
            for s in S.values():
                if not s.get('runs'):
                    continue
                obs = s['runs'][0]['obs']
                fails += sum(1 for o in obs if o.get('r') == 'err')
                probes += sum(1 for o in obs if 'twin' in o)
                run = 0
                for o in obs:
                    run = run + 1 if 'rep' in o else 0
                    kmax = max(kmax, run + 1 if run else 0)
        return {'failed_evaluations': fails, 'probes_compared_with_twin': probes, 'longest_block_of_consecutive_failures': kmax}

    import mach, vlib
    mcov = {}

    def machine_check(verdict, sessions, wd):
        # instruction level (spec/Machine.tla): a failure empties the stack and returns bp, ep and acc to their idle
        # values; the register trace of every later evaluation must start from that state and the code compiled
        # for later forms must not depend on the failed one
        q = tier == 'quick'
        mcov.update(mach.run(verdict, wd, [('fail', 12 if q else 250)], vlib.seed(), maxsteps=6000))
        # repeated failures do not accumulate memory: the heap capacity after n and after 10 n consecutive failing
        # evaluations (run-time errors at some depth, compile errors, user errors) is the same
        import json, os
        out = os.path.join(wd, 'failures.ndjson')
        n = 3000 if q else 30000
        p = vlib.harness(['garbage', 'n=%d' % n, 'lives=0,1000', 'every=1000000', 'maxev=0', 'kinds=failures', 'out=' + out],
                         check=False, timeout=3000)
        runs = []
        if p.returncode == 0:
            for l in open(out):
                j = json.loads(l)
                if j.get('ev') == 'run':
                    runs.append({k: j[k] for k in ('livesize', 'n', 'cap_n', 'cap_10n', 'collections_n', 'collections_10n')})
                    if j['cap_10n'] != j['cap_n']:
                        verdict.violation(['C07/accumulation/heap-capacity'],
                                          'heap capacity grows over consecutive failing evaluations: %d cells after %d failures, %d after %d '
                                          '(live set %d)' % (j['cap_n'], j['n'], j['cap_10n'], 10 * j['n'], j['livesize']),
                                          {'kind': 'failures-capacity', 'n': n, 'record': j})
        else:
            verdict.violation(['C07/accumulation/abort'], 'the harness died during a run of failing evaluations (rc=%s)' % p.returncode,
                              {'kind': 'failures-capacity', 'n': n})
        mcov['heap_capacity_over_consecutive_failures'] = runs

    return props.cek_property(
        'C07', tier, plan, relevant,
        'histories of 15-25 forms from 9 failing-form templates (failure at depth, after effects, inside for-each/map, '
        'inside a continuation extent, syntax error, failing define, very deep, blocks of k identical failures) and 6 '
        'probe templates; each history is run with the failing forms and with their effects-only twins; plus '
        'C01-grammar sessions with 45% failing forms',
        extra_cov=lambda sessions, ends: dict(extra(sessions, ends), register_traces=mcov), extra_check=machine_check)
