"""C08: see bin/numtower.py (trace validation of numeric operation records against spec/NumTower.tla)."""
import props, numtower


@props.prop('C08')
def check(tier):
    return numtower.run('C08', tier)
