"""C02 lexical scoping: scope skeletons validated against the CEK machine (environment = name -> location)."""
import props


@props.prop('C02')
def c02(tier):
    q = tier == 'quick'
    plan = [
        {'kind': 'scope', 'count': 432, 'cfgs': 'plain', 'args': ['l=1', 'mode=enum']},
        # 54^2 * 8 = 23328 skeletons with two levels: every 23rd in quick, all in thorough
        {'kind': 'scope', 'count': 1015 if q else 23328, 'cfgs': 'plain',
         'args': ['l=2', 'mode=enum', 'stride=%d' % (23 if q else 1)], 'shards': 2 if q else 14},
        {'kind': 'scope', 'count': 150 if q else 8000, 'cfgs': 'plain', 'args': ['l=3', 'mode=random'],
         'shards': 1 if q else 16},
        {'kind': 'scope', 'count': 60 if q else 2000, 'cfgs': 'plain', 'args': ['l=4', 'mode=random'],
         'shards': 1 if q else 8},
        {'kind': 'scopeloop', 'count': 40 if q else 400, 'cfgs': 'basic'},
        # scoping of the binding forms the skeletons do not use (let / let* / letrec / named let whose tag shadows a
        # variable used in its init / do / internal defines in the typed grammar) and of activations re-entered
        # through continuations (the environment pointer is part of the captured state)
        {'kind': 'lang', 'count': 120 if q else 4000, 'cfgs': 'plain', 'shards': 1 if q else 6},
        {'kind': 'cont', 'count': 60 if q else 2000, 'cfgs': 'plain', 'shards': 1 if q else 4},
        # captured variables live in environments that only closures point to: the same skeletons under the
        # forced-collection schedules of C03
        {'kind': 'scope', 'count': 10 if q else 300, 'cfgs': 'gc', 'args': ['l=3', 'mode=random'], 'shards': 1 if q else 4},
        {'kind': 'scopeloop', 'count': 6 if q else 100, 'cfgs': 'gc'},
    ]

    def relevant(mm, sess, runs):
        return mm['kind'] in ('conformance', 'abort')

    import mach, vlib
    mcov = {}

    def machine_check(verdict, sessions, wd):
        # the slot-level environment model (spec/Machine.tla): every lambda's captured-variable set must contain
        # every free variable bound by the enclosing lambda, CLOSURE / ENTER build the environments with the
        # pointer indirection that makes closures share locations; compiler listing and register trace
        mcov.update(mach.run(verdict, wd, [('scope2', 15 if q else 400), ('scope3', 20 if q else 500),
                                           ('scopeloop', 8 if q else 100)], vlib.seed()))
        mcov['design_check'] = mach.design_check(verdict, wd, 'MC_Machine_q.cfg' if q else 'MC_Machine_t.cfg')

    def extra(sessions, ends):
        n = {1: 0, 2: 0, 3: 0, 4: 0}
        for S in sessions.values():
            for s in S.values():
                for t in s.get('tags', []):
                    if t.startswith('scope:'):
                        n[t.split('/')[0].count('-') + 1] += 1
        return {'compiler_and_instruction_traces': mcov, 'skeletons_by_levels': {str(k): v for k, v in n.items()},
                'exhaustive_levels': [1] if q else [1, 2],
                'exhaustive': False,
                'space': {'1': 432, '2': 23328, '3': 1259712, '4': 68024448}}

    return props.cek_property(
        'C02', tier, plan, relevant,
        'scope skeletons: L nested procedures over a,b,c; per level and name one of parameter / rest parameter / '
        'internal definition / free; the inner closure made by a lambda in a let or by an internal procedure-form definition; reads before and after closure creation are logged, set! before/after closure '
        'creation, closures invoked inside the creator, after it returned and repeatedly (separate activations); '
        'the whole read log is compared with the CEK machine. L=1 exhaustive; L=2 %s; L=3,4 random; closures created in loops'
        % ('every 23rd skeleton' if q else 'exhaustive'),
        extra_cov=extra, extra_check=machine_check)
