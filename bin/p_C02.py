"""C02 lexical scoping: scope skeletons validated against the CEK machine (environment = name -> location)."""
import props


@props.prop('C02')
def c02(tier):
    q = tier == 'quick'
    plan = [
        {'kind': 'scope', 'count': 216, 'cfgs': 'plain', 'args': ['l=1', 'mode=enum']},
        # 54^2 * 4 = 11664 skeletons with two levels: every 11th in quick, all in thorough
        {'kind': 'scope', 'count': 1061 if q else 11664, 'cfgs': 'plain',
         'args': ['l=2', 'mode=enum', 'stride=%d' % (11 if q else 1)], 'shards': 2 if q else 12},
        {'kind': 'scope', 'count': 100 if q else 20000, 'cfgs': 'plain', 'args': ['l=3', 'mode=random'],
         'shards': 1 if q else 16},
        {'kind': 'scope', 'count': 60 if q else 6000, 'cfgs': 'plain', 'args': ['l=4', 'mode=random'],
         'shards': 1 if q else 8},
        {'kind': 'scopeloop', 'count': 40 if q else 400, 'cfgs': 'basic'},
    ]

    def relevant(mm, sess, runs):
        return mm['kind'] in ('conformance', 'abort')

    def extra(sessions, ends):
        n = {1: 0, 2: 0, 3: 0, 4: 0}
        for S in sessions.values():
            for s in S.values():
                for t in s.get('tags', []):
                    if t.startswith('scope:'):
                        n[t.split('/')[0].count('-') + 1] += 1
        return {'skeletons_by_levels': {str(k): v for k, v in n.items()},
                'exhaustive_levels': [1] if q else [1, 2],
                'exhaustive': False,
                'space': {'1': 216, '2': 11664, '3': 629856, '4': 34012224}}

    return props.cek_property(
        'C02', tier, plan, relevant,
        'scope skeletons: L nested procedures over a,b,c; per level and name one of parameter / rest parameter / '
        'internal definition / free; reads before and after closure creation are logged, set! before/after closure '
        'creation, closures invoked inside the creator, after it returned and repeatedly (separate activations); '
        'the whole read log is compared with the CEK machine. L=1 exhaustive; L=2 %s; L=3,4 random; closures created in loops'
        % ('every 11th skeleton' if q else 'exhaustive'),
        extra_cov=extra)
