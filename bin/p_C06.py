"""C06 total API: Builtins.tla (signature table, allowed outcome classes) generates call descriptors over a
42-value palette; the harness executes them on the real VM with crash/hang isolation.  Text entry points are
exercised with generated texts and validated by Trace_API."""
import json, os, subprocess, time
import props, vlib


def run_calls(lines_path, res_path, wd, per_call_timeout=25):
    """Execute the calls; a crash or hang of the harness process is attributed to the call whose start marker
    is the last line, recorded as 'abort'/'timeout', and execution resumes after it."""
    total = sum(1 for _ in open(lines_path))
    open(res_path, 'w').close()
    start = 0
    crashes = []
    while start < total:
        cmd = 'ulimit -v 8000000; exec %s builtins run in=%s out=%s from=%d' % (vlib.BIN, lines_path, res_path, start)
        p = subprocess.Popen(['sh', '-c', cmd], stdout=subprocess.DEVNULL, stderr=subprocess.DEVNULL)
        last_size, last_change = -1, time.time()
        hung = False
        while p.poll() is None:
            time.sleep(0.5)
            sz = os.path.getsize(res_path)
            if sz != last_size:
                last_size, last_change = sz, time.time()
            elif time.time() - last_change > per_call_timeout:
                hung = True
                p.kill()
                p.wait()
                break
        # find where it stopped
        done, pending = -1, None
        with open(res_path, errors='replace') as f:
            for l in f:
                if l.startswith('S '):
                    pending = int(l.split()[1])
                elif l.startswith('{'):
                    try:
                        done = json.loads(l)['k']
                        pending = None
                    except ValueError:
                        pass
        if p.returncode == 0 and not hung:
            break
        if pending is None:
            # died between calls: resume after the last finished call
            start = done + 1
            if p.returncode not in (0, None) and start <= (crashes[-1][0] if crashes else -1):
                raise vlib.ToolError('harness keeps dying without progress (rc=%s)' % p.returncode)
            crashes.append((start - 1, 'between-calls', p.returncode))
            continue
        how = 'timeout' if hung else 'abort'
        crashes.append((pending, how, p.returncode))
        call = json.loads(open(lines_path).read().split('\n')[pending])
        with open(res_path, 'a') as f:
            f.write(json.dumps({'k': pending, 'call': '(%s %s)' % (call['name'], ' '.join('zp%d' % x for x in call['a'])),
                                'class': how, 'allow': call['allow'], 'fit': False, 'probe': 'n/a',
                                'detail': {'r': how, 'rc': p.returncode}}) + '\n')
        start = pending + 1
    return crashes


@props.prop('C06')
def c06(tier):
    t0 = time.time()
    q = tier == 'quick'
    wd = vlib.workdir('C06-' + tier)
    verdict = vlib.Verdict('C06')
    names = os.path.join(wd, 'names.json')
    vlib.harness(['builtins', 'names', 'out=' + names])
    nprocs = len(json.load(open(names))['names'])
    # *r.cfg: procedures taking three or more arguments, every argument tuple over a reduced palette in which
    # the same object can occupy several positions
    cfgs = ['Gen_Builtins01.cfg', 'Gen_Builtins2s.cfg', 'Gen_Builtins35s.cfg', 'Gen_Builtins3r.cfg'] if q else \
           ['Gen_Builtins01.cfg', 'Gen_Builtins2.cfg', 'Gen_Builtins35.cfg', 'Gen_Builtins35r.cfg']
    states = 0
    ncalls = 0
    by_class = {}
    by_allow = {}
    lenient = {}
    samples = []
    tiers = []
    for ci, cfg in enumerate(cfgs):
        lines = os.path.join(wd, 'calls%d.lines' % ci)
        f = open(lines, 'w')
        cnt = [0]

        def cb(tag, obj):
            if tag == 'REPLAY':
                f.write(json.dumps(obj) + '\n')
                cnt[0] += 1
                return True
            return False

        r = vlib.tlc('Builtins', cfg, os.path.join(wd, 'meta%d' % ci), env={'NAMES': names}, workers=8, timeout=3000,
                     heap='6g', line_cb=cb)
        f.close()
        if r.rc != 0:
            vlib.log(r.tail)
            raise vlib.ToolError('TLC failed on Builtins/%s (rc=%d)' % (cfg, r.rc))
        states += r.generated
        presc = {}
        for kk, l in enumerate(open(lines)):
            presc[kk] = json.loads(l).get('r7rs')
        res = os.path.join(wd, 'calls%d.res' % ci)
        crashes = run_calls(lines, res, wd)
        n = 0
        for l in open(res, errors='replace'):
            if not l.startswith('{'):
                continue
            try:
                j = json.loads(l)
            except ValueError:
                continue
            n += 1
            by_class[j['class']] = by_class.get(j['class'], 0) + 1
            pres = presc.get(j['k'])
            if pres in ('ok', 'err') and j['class'] in ('ok', 'err') and pres != j['class']:
                lenient[pres + '-prescribed-but-' + j['class']] = lenient.get(pres + '-prescribed-but-' + j['class'], 0) + 1
            key = ','.join(sorted(j['allow']))
            by_allow[key] = by_allow.get(key, 0) + 1
            if len(samples) < 4 and n % 997 == 5:
                samples.append({'call': j['call'], 'allowed': j['allow'], 'outcome': j['class']})
            if not j['fit']:
                proc = j['call'].split()[0].lstrip('(').rstrip(')')
                what = j['class'] if j['class'] not in j['allow'] else ('probe ' + j['probe'] if j['probe'] != 'ok' else 'unrenderable')
                msg = (j['detail'].get('msg') or '')[:60]
                desc = '%s: outcome %s (allowed %s) probe=%s %s' % (j['call'], j['class'], j['allow'], j['probe'], json.dumps(j['detail'])[:200])
                sigs = ['call:' + j['call'], 'C06/%s/%s/%s' % (proc, what, msg)]
                if ' zp5' in j['call'] or ' zp8' in j['call']:
                    sigs.append('C06/cyclic-argument/' + what)
                verdict.violation(sigs, desc, {'kind': 'builtin-call', 'result': j})
        if n != cnt[0]:
            raise vlib.ToolError('executed %d of %d calls of %s' % (n, cnt[0], cfg))
        ncalls += n
        tiers.append({'cfg': cfg, 'calls': n, 'crashes_or_hangs': len(crashes)})
    # multi-step programs: sessions of the continuation / failure / language generators run through the evaluator;
    # Trace_CEK rejects every panic, abort, time-out or unrenderable error among their observations
    import cek
    sess_runs = 0
    # (the allocation sessions run under forced collection schedules: a panic that needs a collection at a
    # particular point -- e.g. while a failure is being reported -- is a panic all the same)
    for gi, (kind, cnt, extra, cfgs) in enumerate([('cont', 80 if q else 3000, [], 'basic'), ('fail', 25 if q else 800, ['kmax=20'], 'basic'),
                                                   ('lang', 120 if q else 5000, ['fail=30'], 'basic'),
                                                   ('alloc', 30 if q else 600, [], 'gc')]):
        sout = os.path.join(wd, 'sess%d.ndjson' % gi)
        sargs = ['gen', kind, 'seed=%d' % (vlib.seed() + 50 + gi), 'count=%d' % cnt, 'cfgs=' + cfgs, 'out=' + sout] + extra
        p = vlib.harness(sargs, check=False, timeout=600 if q else 6000)
        if p.returncode != 0:
            os.environ.setdefault('VERIF_CHILD_SECS', '25' if q else '90')
            vlib.harness(sargs + ['isolate=1'], timeout=7200)
        files = vlib.shard_lines(sout, 1 if q else 8, wd, 'sess%d' % gi)
        mism, ends, st = cek.validate(files, wd, workers_per_tlc=6, parallel=2)
        states += st['generated']
        S = {}
        for fp in files:
            S.update({(fp, k): v for k, v in cek.load_sessions(fp).items()})
        sess_runs += sum(len(v['runs']) for v in S.values())
        seen = set()
        for mm in mism:
            if mm['kind'] == 'abort' or (mm['kind'] == 'conformance' and mm['what'] in ('panic', 'timeout', 'abort', 'stacklimit', 'error cannot be rendered')):
                sess = S[(mm['file'], mm['id'])]
                key = (mm['id'], mm['form'])
                if key in seen:
                    continue
                seen.add(key)
                verdict.violation(['C06/session/%s' % mm['what'], 'form:' + cek.form_text(sess, mm['form'])], cek.describe(sess, mm), cek.replay_obj(sess, mm))
    # macro definitions and uses: the expander is a Rust-level loop inside prepare_eval, which no instruction budget
    # interrupts; generated transformers (nested ellipses, tails after ellipses, improper and vector patterns,
    # templates that are rejected or must be rejected) and their uses run in watched worker processes
    # (harness synrules gen); a panic or a time-out of definition or use is a violation of totality
    nmac = 2400 if q else 40000
    mout = os.path.join(wd, 'macros.ndjson')
    pm = vlib.harness(['synrules', 'gen', 'seed=%d' % (vlib.seed() * 1000 + 1), 'count=%d' % nmac, 'out=' + mout, 'timeout_ms=5000'],
                      check=False, timeout=3000)
    macro_bad = 0
    macro_n = 0
    if pm.returncode != 0:
        verdict.violation(['C06/macro-expansion/abort'], 'the harness died while defining and using generated macros (rc=%s)' % pm.returncode,
                          {'kind': 'macros', 'seed': vlib.seed() * 1000 + 1, 'count': nmac})
    else:
        seen_m = set()
        for l in open(mout):
            l = l.strip()
            if not l:
                continue
            j = json.loads(l)
            macro_n += 1
            for which in ('dr', 'ur'):
                r = j.get(which, {}).get('r')
                if r in ('panic', 'timeout'):
                    macro_bad += 1
                    key = (which, r, str(j.get(which, {}).get('msg', ''))[:40])
                    if key in seen_m:
                        continue
                    seen_m.add(key)
                    verdict.violation(['C06/macro-expansion/%s/%s' % ('definition' if which == 'dr' else 'use', r),
                                       'case:' + ' '.join(j.get('text', []))[:400]],
                                      '%s of a macro %s: %s' % ('definition' if which == 'dr' else 'use',
                                                                'panics' if r == 'panic' else 'does not terminate',
                                                                ' ; '.join(j.get('text', []))[:400]),
                                      {'kind': 'macros', 'record': j})
    # text entry points
    ntext = 4000 if q else 300000
    tout = os.path.join(wd, 'texts.ndjson')
    p = vlib.harness(['builtins', 'texts', 'seed=%d' % vlib.seed(), 'count=%d' % ntext, 'out=' + tout], check=False, timeout=3000)
    if p.returncode != 0:
        verdict.violation(['C06/text-entry-points/abort'], 'the harness died while feeding generated texts to the entry points (rc=%s)' % p.returncode,
                          {'kind': 'texts', 'seed': vlib.seed()})
    else:
        files = vlib.shard_lines(tout, 1 if q else 12, wd, 'texts')
        ends = 0
        seen = set()
        for i, fpath in enumerate(files):
            r = vlib.tlc('Trace_API', 'Trace_API.cfg', os.path.join(wd, 'tmeta%d' % i), env={'TRACE': fpath}, workers=8, timeout=2400)
            if r.rc != 0:
                vlib.log(r.tail)
                raise vlib.ToolError('Trace_API failed (rc=%d)' % r.rc)
            states += r.generated
            ends += len(r.tag('END'))
            for m in r.tag('MISMATCH'):
                key = (m['point'], str(m['got'])[:40])
                if key in seen:
                    continue
                seen.add(key)
                verdict.violation(['C06/%s/%s' % (m['point'], str(m['got'])[:60]), 'text:' + m['shown']],
                                  'entry point %s on text %r: %s' % (m['point'], m['shown'], m['got']), {'kind': 'text', 'mismatch': m})
        if ends != ntext:
            raise vlib.ToolError('Trace_API consumed %d of %d records' % (ends, ntext))
    rc = verdict.finish()
    vlib.write_evidence('C06', tier, 'exploration', {
        'evaluations': ncalls + ntext, 'distinct_nontrivial': ncalls,
        'rule': 'TLC enumerates call descriptors (procedure x argument tuple over the 42-value palette): arities 0 and 1 '
                'completely, arity 2 %s, arities 3-5 by stride; circular arguments only for the procedures that must cope with '
                'them; each call is executed with crash/hang isolation and followed by a probe evaluation; plus %d generated '
                'texts (random Unicode, token soup, mutated programs, nesting to 64) through scan/parse/eval_text/sliced '
                'evaluation; distinct_nontrivial = number of distinct calls executed' % ('every 3rd' if q else 'completely', ntext),
        'samples': samples or [{'call': '(car zp1)'}], 'states': states, 'transitions': states,
        'traces_validated_against_impl': ncalls + ntext, 'procedures': nprocs, 'palette': 42,
        'outcome_classes_observed': by_class, 'outcomes_more_lenient_than_r7rs_prescribes(not_violations)': lenient, 'allowed_sets_required': by_allow, 'tiers': tiers, 'texts': ntext, 'macro_definition_use_pairs': macro_n, 'macro_pairs_with_panic_or_timeout': macro_bad, 'session_runs_through_the_evaluator': sess_runs,
    }, time.time() - t0, len(verdict.new), [
        'TLC/SANY/Json trusted', 'the signature table of Builtins.tla is my reading of R7RS section 6; procedures outside R7RS get the default signature',
        'a call that runs longer than 3 million VM instructions, or a process that makes no progress for 25 s, counts as not terminating',
        'the highlighter is covered by C20, scanner spans and parser grammar by C11'])
    vlib.cleanup(wd)
    return rc
