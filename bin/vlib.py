"""Shared driver library for the /verif checks: build the harness against /repo's
working tree, run TLC, collect mismatches, match known findings, write evidence."""
import ast, hashlib, json, os, re, shutil, subprocess, sys, time

VERIF = os.path.dirname(os.path.dirname(os.path.abspath(__file__)))
SPEC = os.path.join(VERIF, 'spec')
HARNESS = os.environ.get('VERIF_HARNESS', os.path.join(VERIF, 'harness'))   # overridden only by tools/mutant.sh
BIN = os.path.join(HARNESS, 'target', 'release', 'mwverif')
WORK = os.environ.get('VERIF_WORK', os.path.join(VERIF, 'work'))
EVID = os.environ.get('VERIF_EVID', os.path.join(VERIF, 'evidence'))
REPLAYS = os.environ.get('VERIF_REPLAYS', os.path.join(VERIF, 'replays'))
TLA_JAR = '/opt/veriftools/tla/tla2tools.jar:/opt/veriftools/tla/CommunityModules-deps.jar'


class ToolError(Exception):
    pass


def seed():
    try:
        return int(os.environ.get('VERIF_SEED', '0'))
    except ValueError:
        return 0


def log(*a):
    print(*a, file=sys.stderr, flush=True)


def build_harness():
    """Rebuild the harness (and marwood with the `verif` feature) from /repo's current tree."""
    env = dict(os.environ, CARGO_NET_OFFLINE='true')
    lock = os.path.join(HARNESS, 'Cargo.lock')
    if not os.path.exists(lock):
        shutil.copy('/repo/Cargo.lock', lock)
    p = subprocess.run(['cargo', 'build', '--release', '--offline', '--quiet'], cwd=HARNESS, env=env,
                       stdout=subprocess.PIPE, stderr=subprocess.STDOUT, text=True)
    if p.returncode != 0:
        log(p.stdout[-4000:])
        raise ToolError('harness build failed')


def workdir(name):
    d = os.path.join(WORK, name)
    shutil.rmtree(d, ignore_errors=True)
    os.makedirs(d)
    return d


def cleanup(d):
    if os.environ.get('VERIF_KEEP'):
        return
    shutil.rmtree(d, ignore_errors=True)


class _Dead:
    """Result of a harness run that had to be killed."""
    def __init__(self, why):
        self.returncode = -999
        self.stdout = ''
        self.stderr = why


def _limit_memory():
    # a defect of the code under test that allocates without bound must end the harness process (allocation failure)
    # and not the machine: 24 GiB of address space per harness process
    import resource
    try:
        resource.setrlimit(resource.RLIMIT_AS, (24 << 30, 24 << 30))
    except (ValueError, OSError):
        pass


def harness(args, timeout=3600, check=True, stdin=None):
    try:
        p = subprocess.run([BIN] + [str(a) for a in args], stdout=subprocess.PIPE, stderr=subprocess.PIPE,
                           text=True, timeout=timeout, input=stdin, preexec_fn=_limit_memory)
    except subprocess.TimeoutExpired:
        if check:
            raise ToolError('harness %s did not finish within %ds' % (args[0], timeout))
        return _Dead('no termination within %d s' % timeout)
    if check and p.returncode != 0:
        log(p.stderr[-4000:])
        raise ToolError('harness %s failed (%d)' % (args[0], p.returncode))
    return p


def parse_tuple_line(line):
    """Parse a TLC PrintT line  <<"TAG", "json...">>  -> (tag, obj)."""
    s = line.strip()
    if not (s.startswith('<<') and s.endswith('>>')):
        return None
    try:
        t = ast.literal_eval('(' + s[2:-2] + ',)')
    except Exception:
        return None
    if len(t) < 2 or not isinstance(t[0], str):
        return None
    try:
        return t[0], json.loads(t[1])
    except Exception:
        return t[0], t[1]


class TlcResult:
    def __init__(self):
        self.lines = {}          # tag -> [obj]
        self.generated = 0
        self.distinct = 0
        self.depth = 0
        self.errors = []
        self.coverage = {}
        self.wall = 0.0
        self.rc = 0
        self.tail = ''

    def tag(self, t):
        return self.lines.get(t, [])


def _kill_group(p):
    import signal
    try:
        os.killpg(p.pid, signal.SIGKILL)
    except (ProcessLookupError, PermissionError, OSError):
        pass


def tlc(module, cfg, metadir, env=None, workers=4, timeout=1800, heap='4g', simulate=None, extra=None,
        coverage=False, line_cb=None):
    """Run TLC on spec/<module>.tla with spec/<cfg>.  Returns TlcResult.  Raises ToolError on TLC errors
    other than invariant violations (which are returned in .errors)."""
    e = dict(os.environ)
    # TLC's temporary directories go under the work directory of the check (removed with it), not under /tmp
    jtmp = os.path.join(os.path.dirname(os.path.abspath(metadir)), 'jtmp')
    os.makedirs(jtmp, exist_ok=True)
    e['JAVA_TOOL_OPTIONS'] = '-Xss1g -Dtlc2.tool.queue.IStateQueue=StateDeque -Djava.io.tmpdir=' + jtmp
    # VERIF_MAX_HEAP=3g caps every TLC heap (for running many checks side by side, e.g. tools/mutant.sh batches)
    cap = os.environ.get('VERIF_MAX_HEAP')
    if cap and cap.endswith('g') and heap.endswith('g') and int(cap[:-1]) < int(heap[:-1]):
        heap = cap
    if env:
        e.update({k: str(v) for k, v in env.items()})
    cmd = ['timeout', str(timeout), 'java', '-XX:+UseParallelGC', '-Xmx' + heap, '-cp', TLA_JAR, 'tlc2.TLC',
           '-workers', str(workers), '-metadir', metadir, '-cleanup', '-noGenerateSpecTE', '-checkpoint', '0',
           '-config', cfg]
    if coverage:
        cmd += ['-coverage', '1']
    if simulate:
        cmd += ['-simulate', simulate]
    if extra:
        cmd += extra
    cmd += [module + '.tla']
    t0 = time.time()
    # own process group: `timeout` is the direct child and java its child; stopping an unbounded simulation must
    # take both (killing only `timeout` leaves an orphaned TLC simulating for ever)
    p = subprocess.Popen(cmd, cwd=SPEC, env=e, stdout=subprocess.PIPE, stderr=subprocess.STDOUT, text=True,
                         start_new_session=True)
    r = TlcResult()
    tail = []
    in_cov = False
    for line in p.stdout:
        line = line.rstrip('\n')
        if line.startswith('<<"'):
            pl = parse_tuple_line(line)
            if pl:
                if line_cb:
                    keep = line_cb(pl[0], pl[1])
                    if keep == 'STOP':      # the caller has what it needs (simulation runs are unbounded)
                        r.stopped = True
                        _kill_group(p)
                        break
                    if keep:
                        continue
                r.lines.setdefault(pl[0], []).append(pl[1])
                continue
        tail.append(line)
        if len(tail) > 400:
            tail = tail[-200:]
        m = re.match(r'(\d+) states generated, (\d+) distinct states found', line)
        if m:
            r.generated, r.distinct = int(m.group(1)), int(m.group(2))
        m = re.match(r'The depth of the complete state graph search is (\d+)', line)
        if m:
            r.depth = int(m.group(1))
        m = re.match(r'<(\w+) line \d+, col \d+ to line \d+, col \d+ of module (\w+)>: (\d+):(\d+)', line)
        if m:
            r.coverage[m.group(1)] = r.coverage.get(m.group(1), 0) + int(m.group(4))
        if line.startswith('Error:'):
            r.errors.append(line)
    p.wait()
    _kill_group(p)       # nothing of the group may outlive the call
    r.rc = 0 if getattr(r, 'stopped', False) else p.returncode
    r.wall = time.time() - t0
    r.tail = '\n'.join(tail[-60:])
    if p.returncode == 124 and not getattr(r, 'stopped', False):
        raise ToolError('TLC timed out after %ss on %s' % (timeout, module))
    return r


def tlc_ok(r, allow_invariant=False):
    """TLC finished without tool-level errors."""
    if r.rc in (0,):
        return True
    if allow_invariant and r.rc in (12, 13):
        return True
    return False


# ----------------------------------------------------------------------------- findings

def load_findings():
    p = os.path.join(VERIF, 'known_findings.json')
    if not os.path.exists(p):
        return []
    return json.load(open(p))['findings']


def match_finding(prop, sigs, findings):
    """sigs: set of signature strings describing a violation.  A violation is known iff some open
    finding of this property has its key among the signatures."""
    for f in findings:
        if f.get('property') == prop and f.get('status') == 'open' and f.get('key') in sigs:
            return f
    return None


def save_replay(prop, obj):
    d = os.path.join(REPLAYS, prop)
    os.makedirs(d, exist_ok=True)
    s = json.dumps(obj, sort_keys=True)
    h = hashlib.sha1(s.encode()).hexdigest()[:12]
    path = os.path.join(d, h + '.json')
    with open(path, 'w') as f:
        f.write(s)
    return path


class Verdict:
    """Accumulates violations of one property, classifies them against known findings and reports."""

    def __init__(self, prop):
        self.prop = prop
        self.findings = load_findings()
        self.known = {}      # key -> (finding, count)
        self.new = []        # (description, replay path)
        self.total = 0

    def violation(self, sigs, desc, replay_obj):
        """sigs: iterable of signature strings (most specific first)."""
        self.total += 1
        f = match_finding(self.prop, set(sigs), self.findings)
        if f is not None:
            k = f['key']
            self.known[k] = (f, self.known.get(k, (f, 0))[1] + 1)
            return False
        if len(self.new) < 25:
            replay_obj = dict(replay_obj, signatures=list(sigs), description=desc)
            path = save_replay(self.prop, replay_obj)
            self.new.append((desc, path))
        else:
            self.new.append((desc, None))
        return True

    def finish(self):
        for k, (f, n) in sorted(self.known.items()):
            print('KNOWN-FINDING: property=%s %s [%s] (%d occurrence(s) this run)' % (self.prop, f['what'], k, n))
        shown = 0
        for desc, path in self.new:
            if path is None:
                continue
            print('VIOLATION property=%s replay=%s' % (self.prop, path))
            print('  ' + desc[:600])
            shown += 1
        if len(self.new) > shown:
            print('  (+%d further violations not written out)' % (len(self.new) - shown))
        return 1 if self.new else 0


def write_evidence(prop, tier, level, coverage, wall, violations, assumptions):
    os.makedirs(EVID, exist_ok=True)
    ev = {'property_id': prop, 'tier': tier, 'seed': seed(), 'level': level, 'coverage': coverage,
          'assumptions': assumptions, 'wall_s': round(wall, 2), 'violations': violations}
    with open(os.path.join(EVID, prop + '.json'), 'w') as f:
        json.dump(ev, f, indent=1, sort_keys=True)


def shard_lines(path, n, outdir, prefix):
    """Split an ndjson file into n shards of consecutive lines; returns paths of non-empty shards."""
    lines = [l for l in open(path).read().split('\n') if l.strip()]     # not splitlines(): U+2028, U+0085 ... are data
    n = max(1, min(n, len(lines)))
    per = (len(lines) + n - 1) // n
    out = []
    for i in range(n):
        chunk = lines[i * per:(i + 1) * per]
        if not chunk:
            continue
        p = os.path.join(outdir, '%s.%d.ndjson' % (prefix, i))
        with open(p, 'w') as f:
            f.write('\n'.join(chunk) + '\n')
        out.append(p)
    return out
