"""C10 written data reads back as the same data: Codec.tla states what a printer/reader pair must satisfy with
the text as an opaque token (write injective, read its left inverse, write stable, quote-eval identity);
Trace_Codec validates recorded write/read/eval steps of generated data."""
import json, os, time
import props, vlib


@props.prop('C10')
def c10(tier):
    t0 = time.time()
    q = tier == 'quick'
    n = 30000 if q else 200000
    wd = vlib.workdir('C10-' + tier)
    out = os.path.join(wd, 'codec.ndjson')
    verdict = vlib.Verdict('C10')
    p = vlib.harness(['codec', 'seed=%d' % vlib.seed(), 'count=%d' % n, 'out=' + out], timeout=3000, check=False)
    if p.returncode != 0:
        # the process died inside marwood (abort, native stack overflow, unbounded allocation, no termination):
        # that is an outcome of the code under test; the complete records written before it are still judged
        lines = [l for l in open(out, errors='replace').read().split('\n') if l.strip()] if os.path.exists(out) else []
        good = []
        for l in lines:
            try:
                json.loads(l)
                good.append(l)
            except ValueError:
                break
        with open(out, 'w') as fh:
            fh.write(''.join(l + '\n' for l in good))
        verdict.violation(['C10/abort'], 'the write / read / quote-eval loop over generated data ended the process (%s) after %d of %d data: '
                          'a datum whose round trip does not come back with a value or an error'
                          % ((p.stderr or '')[-200:].strip() or 'rc=%s' % p.returncode, len(good), n),
                          {'kind': 'codec-abort', 'seed': vlib.seed(), 'count': n, 'completed': len(good)})
        n = len(good)
    files = vlib.shard_lines(out, 4 if q else 10, wd, 'codec') if n else []
    states = 0
    ends = 0
    kinds = {}
    seen = set()
    samples = []
    for i, f in enumerate(files):
        r = vlib.tlc('Trace_Codec', 'Trace_Codec.cfg', os.path.join(wd, 'meta%d' % i), env={'TRACE': f}, workers=8,
                     timeout=2400, heap='8g')
        if r.rc != 0:
            vlib.log(r.tail)
            raise vlib.ToolError('Trace_Codec failed (rc=%d)' % r.rc)
        states += r.generated
        for e in r.tag('END'):
            ends += 1
            kinds[e['t']] = kinds.get(e['t'], 0) + 1
        for m in r.tag('MISMATCH'):
            key = (m['what'], m['d'].get('t'))
            if key in seen:
                continue
            seen.add(key)
            desc = '%s: written as %r; datum %s; got %s' % (m['what'], m.get('text', '')[:80], json.dumps(m['d'])[:200],
                                                            json.dumps(m.get('got'))[:200])
            verdict.violation(['C10/%s/%s' % (m['what'], m['d'].get('t')), 'case:' + json.dumps(m['d'])[:400]], desc,
                              {'kind': 'codec', 'mismatch': m})
    if ends != n:
        raise vlib.ToolError('Trace_Codec consumed %d of %d records' % (ends, n))
    with open(out) as fh:
        for k, l in enumerate(fh):
            if k % (n // 4 + 1) == 7:
                j = json.loads(l)
                samples.append({'written': j.get('text'), 'datum': j['d']})
    texts = set()
    with open(out) as fh:
        for l in fh:
            texts.add(json.loads(l).get('text', ''))
    rc = verdict.finish()
    vlib.write_evidence('C10', tier, 'exploration', {
        'evaluations': n, 'distinct_nontrivial': len(texts),
        'rule': 'seeded recursive generator (depth <= 6): booleans, fixnums incl. extremes, bignums across the fixnum '
                'boundary and up to ~400 bits, reduced rationals, finite doubles by random bit pattern and a boundary list '
                '(+-0.0, subnormals, 2^53+1, 1e21, 1e22, max, min), characters and strings over all Unicode classes '
                '(controls, delimiters, escapes, astral), 41 symbol spellings taken through the reader, proper and improper '
                'lists, vectors, quote forms; distinct_nontrivial = number of distinct written texts',
        'samples': samples[:4], 'states': states, 'transitions': states, 'traces_validated_against_impl': n,
        'top_level_kinds': kinds,
    }, time.time() - t0, len(verdict.new), [
        'TLC/SANY/Json trusted', 'the structural encoding of data (harness/src/codec.rs: numbers by value and exactness, '
        'doubles by bit pattern) is trusted',
        'the choice of spelling is not specified: any spelling that round-trips is accepted (numeric spellings are judged by C16)',
        'non-finite doubles are outside the property (it quantifies over finite doubles)'])
    vlib.cleanup(wd)
    return rc
