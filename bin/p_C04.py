"""C04 calls in tail position run in constant stack space.  In the CEK machine a procedure call pushes no
frame, so a call is a tail call exactly when the continuation depth does not grow across it; the
implementation's maximal stack pointer must stay within the refinement bound (D+2)(2W+5) derived from the
machine's maximal continuation depth D, D must not depend on n, and values must equal the non-tail twin's."""
import props, vlib, cek, os, json, time


def tlaps_arithmetic(wd):
    """VMRulesProofs.tla: TLAPS proves, for all natural numbers, that CALL/ENTER/RET returns the stack pointer to its
    value before the first argument, that an activation entered by TCALL returns with exactly the stack pointer the
    replaced activation would have returned with (so a loop of tail calls never moves the base), and the VARARG and
    builtin cases.  The operators are the ones Trace_VM checks on every recorded instruction."""
    import shutil, subprocess, re
    d = os.path.join(wd, 'tlaps')
    os.makedirs(d, exist_ok=True)
    for f in ('VMRules.tla', 'VMRulesProofs.tla'):
        shutil.copy(os.path.join(vlib.SPEC, f), d)
    try:
        p = subprocess.run(['timeout', '600', 'tlapm', '--threads', '4', 'VMRulesProofs.tla'], cwd=d, stdout=subprocess.PIPE,
                           stderr=subprocess.STDOUT, text=True)
    except FileNotFoundError:
        raise vlib.ToolError('tlapm is not installed')
    m = re.search(r'All (\d+) obligations? proved', p.stdout)
    if p.returncode != 0 or not m:
        vlib.log(p.stdout[-3000:])
        raise vlib.ToolError('TLAPS did not prove VMRulesProofs (rc=%d)' % p.returncode)
    return {'module': 'VMRulesProofs', 'obligations_proved': int(m.group(1)),
            'theorems': ['CallReturns', 'TailCallKeeps', 'VarArgFrame', 'VarArgReturns', 'BuiltinReturns']}


@props.prop('C04')
def c04(tier):
    q = tier == 'quick'
    # single contexts x arity pairs x cycle length: 21*10*10*3 = 6300 programs; compositions beyond
    plan = [
        {'kind': 'tail', 'count': 60 if q else 2100, 'cfgs': 'plain', 'args': ['mode=enum', 'stride=%d' % (103 if q else 3)],
         'shards': 1 if q else 14},
        {'kind': 'tail', 'count': 20 if q else 1200, 'cfgs': 'plain', 'args': ['mode=random'], 'shards': 1 if q else 6},
    ]

    def relevant(mm, sess, runs):
        return mm['kind'] in ('stackbound', 'taildepth', 'tailvalue', 'conformance', 'abort')

    import vmt
    vcov = {}

    def steps_check(verdict, sessions, wd):
        vcov.update(vmt.run(verdict, wd, [('tail', 25 if q else 1200)], vlib.seed()))
        # the compiler must emit TCALL for exactly the applications in tail position (Compile of
        # spec/Machine.tla carries the tail flag through if / lambda bodies as R7RS 3.5 defines it, derived forms
        # reach it expanded), and TCALL must rebuild the frame in place (Exec): listing and register trace
        import mach
        vcov.update(mach.run(verdict, wd, [('tail', 30 if q else 500)], vlib.seed()))
        vcov['tlaps'] = tlaps_arithmetic(wd)

    def extra(sessions, ends):
        ctx = {}
        bigruns = 0
        maxsp = 0
        for S in sessions.values():
            for s in S.values():
                for t in s.get('tags', []):
                    for c in t.split('ctx[')[-1].rstrip(']').replace('|', '>').split('>'):
                        c = c.strip()
                        if c:
                            ctx[c] = ctx.get(c, 0) + 1
                for b in s.get('big', []):
                    if 'tail' in b:
                        bigruns += 1
                        maxsp = max(maxsp, b['tail'].get('maxsp', 0))
        return {'instruction_traces': vcov, 'tail_contexts_exercised': ctx, 'implementation_runs_at_n_1000_and_100000': bigruns,
                'largest_stack_depth_of_a_tail_loop_at_large_n': maxsp,
                'iteration_counts': {'specification_and_implementation': [10, 100], 'implementation_only': [1000, 100000]},
                'exhaustive': False}

    orig = cek.validate

    def long_validate(files, workdir, **kw):
        kw['cfg'] = 'Trace_CEK_long.cfg'
        return orig(files, workdir, **kw)

    cek.validate = long_validate
    try:
        return props.cek_property(
            'C04', tier, plan, relevant,
            'cycles of 1-3 procedures with arities 0..4 with/without rest parameter, the call to the next procedure '
            'placed in a tail context (21 contexts: if arms, cond else/clause/=>, case, and, or, when, unless, let, let*, '
            'letrec, named let, begin, lambda body, immediate lambda, internal define, apply, call/cc, eval) or a '
            'composition of 2-3 contexts; run at n=10,100 by specification and implementation and at n=1000,100000 '
            'by the implementation with the non-tail twin as value oracle',
            extra_cov=extra, extra_check=steps_check)
    finally:
        cek.validate = orig
