"""C11  Reader discipline: total, exact spans, one datum per parse, incompleteness found.

Specification: spec/Reader.tla (token classes, the datum grammar of R7RS 7.1.2 as a predicate and as a
pushdown classifier, the span discipline of a scanner).

  1. MC_Reader     TLC, exhaustive: the classifier agrees with the grammar and is prefix-consistent
                   for every token-class sequence up to the bound.
  2. Gen_Reader    TLC prints every token-class sequence up to a (smaller) bound with the outcome the
                   specification requires (S -> I); `mwverif reader replay` renders each sequence as
                   several concrete texts and compares marwood's parse_text, the datum-by-datum loop
                   over the remaining text, and the eval_text loop of the REPL.
  3. Trace_Reader  `mwverif reader spans` records what lex::scan / parse_text do with seeded random
                   Unicode strings, token soups, mutated programs and nested data (I -> S); TLC
                   evaluates the span discipline, totality and the grammar clauses on every record.
"""
import json, os, time
from concurrent.futures import ThreadPoolExecutor
import vlib, props

NCLASSES = 8

TIERS = {
    # mc: bound of MC_Reader; gen: bound of Gen_Reader; rend: renderings per sequence;
    # texts: recorded span texts; shard: texts per Trace_Reader run
    'quick': dict(mc=7, gen=5, rend=8, texts=20000, shard=20000, mc_timeout=600),
    'thorough': dict(mc=8, gen=7, rend=8, texts=1000000, shard=50000, mc_timeout=2400),
}

ASSUME = [
    'TLC, SANY and the CommunityModules Json/IOUtils modules are trusted',
    'Reader.tla is my reading of R7RS 7.1 and of the property statement; its classifier is model checked against the '
    'BNF predicate IsDatum and a hand-stated table (ASSUMEs of MC_Reader)',
    'token classes: ( ) [ ] { } #( quote-like prefixes . and atoms; a radix/exactness-prefixed number is one atom; '
    ',@ #; #| |sym| #u8( and datum labels are not rendered because marwood has no such tokens',
    'Unspecified (any terminating, non-panicking outcome is accepted): hopeless sequences whose brackets are still open, '
    'brackets closed by the other kind, number prefixes not followed by a number',
    'Error means an error other than incomplete; which error is not compared',
    'a comment ends at LINE FEED (a lone CARRIAGE RETURN is not treated as a line ending)',
    'the harness renders without a separator only where R7RS 7.1.1 makes adjacency unambiguous (after brackets, prefixes '
    'and strings, or before a delimiter ( ) " ; and the alternative brackets)',
    'the recorded spans, token kinds and parse_text outcomes are projected by harness/src/reader.rs, which is trusted',
]


def n_sequences(n):
    return sum(NCLASSES ** i for i in range(n + 1))


def run_mc(n, wd, timeout):
    r = vlib.tlc('MC_Reader', 'MC_Reader.cfg', os.path.join(wd, 'meta-mc'), env={'N': n}, workers=8,
                 timeout=timeout, heap='8g')
    if r.rc != 0 or r.errors:
        vlib.log(r.tail)
        raise vlib.ToolError('MC_Reader: the specification fails its own model check (rc=%d): %s'
                             % (r.rc, '; '.join(r.errors[:3])))
    if r.distinct != n_sequences(n):
        raise vlib.ToolError('MC_Reader explored %d states, expected %d' % (r.distinct, n_sequences(n)))
    return r


def run_gen(n, wd, path):
    count = [0]
    with open(path, 'w') as f:
        def cb(tag, obj):
            if tag == 'REPLAY':
                f.write(json.dumps(obj, separators=(',', ':')) + '\n')
                count[0] += 1
                return True
            return False
        r = vlib.tlc('Gen_Reader', 'Gen_Reader.cfg', os.path.join(wd, 'meta-gen'), env={'N': n}, workers=4,
                     timeout=3000, heap='4g', line_cb=cb)
    if r.rc != 0:
        vlib.log(r.tail)
        raise vlib.ToolError('Gen_Reader failed (rc=%d)' % r.rc)
    if count[0] != n_sequences(n) or r.distinct != n_sequences(n):
        raise vlib.ToolError('Gen_Reader printed %d cases (%d states), expected %d' % (count[0], r.distinct, n_sequences(n)))
    return r, count[0]


def corrupt_case_file(path):
    """Binding self-test (VERIF_C11_CORRUPT=class): state a wrong requirement for "( a )"."""
    lines = [l for l in open(path).read().split('\n') if l]
    for i, l in enumerate(lines):
        j = json.loads(l)
        if j['t'] == ['LP', 'ATOM', 'RP']:
            j.update(c='I', k=0, ks=[], fin='Incomplete')
            lines[i] = json.dumps(j, separators=(',', ':'))
            vlib.log('C11: SELF-TEST: requirement for LP ATOM RP corrupted to Incomplete')
            break
    open(path, 'w').write('\n'.join(lines) + '\n')


def corrupt_span_file(path):
    """Binding self-test (VERIF_C11_CORRUPT=span): move the end of one recorded token span by one byte,
    into a multi-byte character that follows the token (what `end = start + 1` instead of
    `start + len_utf8` would record)."""
    lines = [l for l in open(path).read().split('\n') if l]
    for i, l in enumerate(lines):
        j = json.loads(l)
        if j['scan'] != 'ok':
            continue
        offs = [0]
        for w in j['w']:
            offs.append(offs[-1] + w)
        hit = None
        for t, (a, b) in enumerate(j['spans']):
            if b in offs and offs.index(b) < len(j['w']) and j['w'][offs.index(b)] > 1:
                hit = t
                break
        if hit is None:
            continue
        j['spans'][hit][1] += 1
        lines[i] = json.dumps(j, separators=(',', ':'))
        vlib.log('C11: SELF-TEST: end of span %d of text %d moved by one byte' % (hit + 1, j['id']))
        break
    open(path, 'w').write('\n'.join(lines) + '\n')


def text_of(cps):
    return ''.join(chr(c) for c in cps)


def norm_feature(f):
    for p in ('sep:', 'lead:', 'trail:'):
        if f.startswith(p) and 'flush-comment' in f:
            return f[len(p):]
    return f


@props.prop('C11')
def c11(tier):
    t0 = time.time()
    cfg = TIERS[tier]
    wd = vlib.workdir('C11-%s' % tier)
    seed = vlib.seed()
    corrupt = os.environ.get('VERIF_C11_CORRUPT', '')
    verdict = vlib.Verdict('C11')
    pool = ThreadPoolExecutor(max_workers=4)

    # 1. the specification's own consistency, exhaustively (runs alongside the rest)
    mc_future = pool.submit(run_mc, cfg['mc'], wd, cfg['mc_timeout'])

    # 2. S -> I
    cases = os.path.join(wd, 'cases.ndjson')
    gen, ncases = run_gen(cfg['gen'], wd, cases)
    if corrupt == 'class':
        corrupt_case_file(cases)
    rep_out = os.path.join(wd, 'replay.json')
    p = vlib.harness(['reader', 'replay', 'in=' + cases, 'out=' + rep_out, 'seed=%d' % seed, 'rend=%d' % cfg['rend']],
                     check=False, timeout=3000)
    hang = None
    if p.returncode == 3:
        hang = json.loads(p.stdout.strip().split('\n')[-1])['hang']
        verdict.violation(['C11/hang:' + hang, 'C11/hang'], 'marwood does not terminate on %r' % hang,
                          {'kind': 'reader-text', 'text': hang, 'how': 'mwverif reader one <text>'})
        rep = {'sequences': 0, 'renderings': 0, 'groups': [], 'samples': [], 'distinct_texts_of_2_or_more_tokens': 0}
    elif p.returncode != 0:
        vlib.log(p.stderr[-3000:])
        raise vlib.ToolError('mwverif reader replay failed (%d)' % p.returncode)
    else:
        rep = json.load(open(rep_out))
        if rep['sequences'] != ncases:
            raise vlib.ToolError('replayed %d of %d cases' % (rep['sequences'], ncases))
    # one violation per distinct set of non-canonical rendering choices that is needed to fail
    merged = {}
    for g in rep['groups']:
        feats = sorted(set(norm_feature(f) for f in g['features']))
        key = ' + '.join(feats) if feats else '%s: %s' % (g['what'], g['classes'])
        m = merged.setdefault(key, {'feats': feats, 'groups': [], 'count': 0})
        m['groups'].append(g)
        m['count'] += g['count']
    for key, m in sorted(merged.items()):
        best = min(m['groups'], key=lambda g: (len(g['text']), g['text']))
        sigs = ['C11/case:' + best['text'], 'C11/' + key] + ['C11/' + f for f in m['feats']] + \
               ['C11/%s' % best['classes']]
        kinds = '; '.join('%s (%d)' % (g['what'], g['count']) for g in sorted(m['groups'], key=lambda g: -g['count']))
        desc = ('reader replay [%s]: %d rendering(s) differ from Reader.tla.  Smallest: classes %s rendered %r: '
                'required %s; marwood: %s.  Kinds: %s'
                % (key, m['count'], best['classes'], best['text'], best['required'], best['actual'], kinds))
        verdict.violation(sigs, desc, {'kind': 'reader-text', 'text': best['text'], 'classes': best['classes'],
                                       'spec': best['spec'], 'required': best['required'], 'actual': best['actual'],
                                       'all_kinds': [{k: g[k] for k in ('what', 'count', 'classes', 'text', 'required', 'actual')}
                                                     for g in m['groups']],
                                       'how': 'mwverif reader one <text>'})

    # 3. I -> S
    nshards = (cfg['texts'] + cfg['shard'] - 1) // cfg['shard']
    shard_files = []
    span_sum = {'texts': 0, 'distinct_texts': 0, 'distinct_texts_scanned_into_2_or_more_tokens': 0, 'families': {},
                'scan_outcomes': {}, 'parse_outcomes': {}, 'samples': []}
    for s in range(nshards):
        first = 1 + s * cfg['shard']
        cnt = min(cfg['shard'], cfg['texts'] - s * cfg['shard'])
        out = os.path.join(wd, 'spans%d.ndjson' % s)
        p = vlib.harness(['reader', 'spans', 'seed=%d' % seed, 'first=%d' % first, 'count=%d' % cnt, 'out=' + out],
                         check=False, timeout=3000)
        if p.returncode == 3:
            hang = json.loads(p.stdout.strip().split('\n')[-1])['hang']
            verdict.violation(['C11/hang:' + hang, 'C11/hang'], 'marwood does not terminate on %r' % hang,
                              {'kind': 'reader-text', 'text': hang, 'how': 'mwverif reader one <text>'})
            continue
        if p.returncode != 0:
            vlib.log(p.stderr[-3000:])
            raise vlib.ToolError('mwverif reader spans failed (%d)' % p.returncode)
        if corrupt == 'span' and s == 0:
            corrupt_span_file(out)
        sm = json.load(open(out + '.summary.json'))
        for k in ('texts', 'distinct_texts', 'distinct_texts_scanned_into_2_or_more_tokens'):
            span_sum[k] += sm[k]       # ids (and seeds) differ between shards; distinctness is counted per shard
        for k in ('families', 'scan_outcomes', 'parse_outcomes'):
            for a, b in sm[k].items():
                span_sum[k][a] = span_sum[k].get(a, 0) + b
        if len(span_sum['samples']) < 3:
            span_sum['samples'] += sm['samples'][:2]
        shard_files.append((s, out, cnt))

    def trace(job):
        s, path, cnt = job
        r = vlib.tlc('Trace_Reader', 'Trace_Reader.cfg', os.path.join(wd, 'meta-tr%d' % s),
                     env={'TRACE': path, 'STRIDE': 32}, workers=4, timeout=3000, heap='6g')
        if r.rc != 0:
            vlib.log(r.tail)
            raise vlib.ToolError('Trace_Reader failed (rc=%d) on %s' % (r.rc, path))
        ends = r.tag('END')
        if sum(e['texts'] for e in ends) != cnt:
            raise vlib.ToolError('Trace_Reader judged %d of %d records of %s' % (sum(e['texts'] for e in ends), cnt, path))
        if not os.environ.get('VERIF_KEEP'):
            os.remove(path)
        return r

    tr_states = tr_gen = 0
    tr_counts = {}
    tr_mism = []
    with ThreadPoolExecutor(max_workers=2) as ex:
        for r in ex.map(trace, shard_files):
            tr_states += r.distinct
            tr_gen += r.generated
            for e in r.tag('END'):
                for k, v in e.items():
                    tr_counts[k] = max(tr_counts.get(k, 0), v) if k == 'maxtokens' else tr_counts.get(k, 0) + v
            tr_mism += r.tag('MISMATCH')
    by_what = {}
    for mm in tr_mism:
        by_what.setdefault(mm['what'], []).append(mm)
    for what, ms in sorted(by_what.items()):
        best = min(ms, key=lambda m: len(m['cps']))
        text = text_of(best['cps'])
        desc = ('trace validation: %s (%d text(s)).  Smallest: text %d (%s) %r: scan %s spans %s kinds %s, parse_text %s rest %s'
                % (what, len(ms), best['id'], best['fam'], text, best['scan'], best['spans'], best['ty'], best['parse'], best['rest']))
        verdict.violation(['C11/trace:%s:%s' % (what, text), 'C11/trace:' + what], desc,
                          {'kind': 'reader-text', 'text': text, 'record': best, 'how': 'mwverif reader one <text>'})

    mc = mc_future.result()
    pool.shutdown()

    rc = verdict.finish()
    samples = (rep.get('samples') or [])[:3] + span_sum['samples'][:3]
    cov = {
        'states': mc.distinct + gen.distinct + tr_states,
        'transitions': mc.generated + gen.generated + tr_gen,
        'traces_validated_against_impl': tr_counts.get('texts', 0),
        'samples': samples or [{'note': 'no sample recorded'}],
        'exhaustive': True,
        'exhaustive_bounds': {
            'MC_Reader': 'all %d token-class sequences of length 0..%d over %d classes: 8 invariants' % (n_sequences(cfg['mc']), cfg['mc'], NCLASSES),
            'Gen_Reader': 'all %d token-class sequences of length 0..%d replayed against marwood' % (n_sequences(cfg['gen']), cfg['gen']),
        },
        'mc_reader_states': mc.distinct, 'mc_reader_wall_s': round(mc.wall, 1),
        'sequences_replayed': rep['sequences'], 'renderings': rep['renderings'],
        'renderings_per_sequence': cfg['rend'],
        'replay': {k: rep.get(k) for k in ('parse_text_calls', 'eval_text_calls', 'eval_loop_texts', 'multi_step_texts',
                                           'distinct_texts', 'by_required_outcome', 'mismatching_renderings',
                                           'atom_spellings', 'separator_spellings')},
        'span_texts': span_sum['texts'], 'span_text_families': span_sum['families'],
        'scan_outcomes': span_sum['scan_outcomes'], 'parse_text_outcomes': span_sum['parse_outcomes'],
        'trace_reader': tr_counts, 'trace_mismatches': len(tr_mism),
        'evaluations': rep['renderings'] + span_sum['texts'],
        'distinct_nontrivial': rep['distinct_texts_of_2_or_more_tokens'] + span_sum['distinct_texts_scanned_into_2_or_more_tokens'],
        'rule': 'replay: every token-class sequence up to the bound, each rendered %d times (canonical, tight, comment-heavy, '
                'seeded mixtures of %s atom spellings and %s separators); spans: seeded random Unicode strings, token soups, '
                'mutated programs and nested data.  distinct_nontrivial = distinct rendered texts of >= 2 tokens + distinct '
                'recorded texts (per shard) that marwood scanned into >= 2 tokens'
                % (cfg['rend'], rep.get('atom_spellings'), rep.get('separator_spellings')),
        'violation_groups': verdict.total,
    }
    if corrupt:
        cov['self_test_corruption'] = corrupt
    vlib.write_evidence('C11', tier, 'model_checking', cov, time.time() - t0, len(verdict.new), ASSUME)
    vlib.cleanup(wd)
    return rc
