"""Specification -> implementation replay of the pool state machines (Store.tla for C14, Strings.tla for C15):
TLC generates behaviours (exhaustive for one step, simulation for long sequences) with the required outcome of
every step and the rendering of every pool object; the harness replays them on a real VM."""
import json, os, subprocess, time
import vlib


def tlc_to_file(module, cfg, wd, name, simulate=None, depth=None, workers=4, timeout=1800, seed=None, limit=None):
    """Run TLC and keep only the REPLAY lines (streamed to a file).  Returns (path, TlcResult)."""
    path = os.path.join(wd, name + '.lines')
    f = open(path, 'w')
    n = [0]

    def cb(tag, obj):
        if tag == 'REPLAY':
            f.write(json.dumps(obj) + '\n')
            n[0] += 1
            if limit and n[0] >= limit:
                return 'STOP'
            return True
        return False

    extra = []
    if depth:
        extra += ['-depth', str(depth)]
    if seed is not None:
        extra += ['-seed', str(seed)]
    r = vlib.tlc(module, cfg, os.path.join(wd, 'meta-' + name), workers=workers, timeout=timeout, heap='6g',
                 simulate=simulate, extra=extra, line_cb=cb)
    f.close()
    if r.rc != 0:
        vlib.log(r.tail)
        raise vlib.ToolError('TLC failed on %s/%s (rc=%d): an invariant of the specification itself is violated or the spec has an error'
                             % (module, cfg, r.rc))
    return path, r, n[0]


def replay(path, wd, name, npool):
    out = os.path.join(wd, name + '.res')
    p = vlib.harness(['pool', 'replay', 'in=' + path, 'out=' + out, 'n=%d' % npool], check=False, timeout=3000)
    mism, summary = [], None
    if os.path.exists(out):
        for l in open(out):
            try:
                j = json.loads(l)
            except ValueError:
                continue
            if 'mismatch' in j:
                mism.append(j['mismatch'])
            elif 'summary' in j:
                summary = j['summary']
    if p.returncode != 0 or summary is None:
        # the harness itself died: the code under test aborted or hung outside catch_unwind
        mism.append({'op': '?', 'what': 'the implementation aborted or did not terminate while replaying (%s)' % p.returncode,
                     'text': '', 'exp': None, 'got': None, 'history': [], 'step': 0})
        summary = summary or {'behaviours': 0, 'ops': 0, 'state_checks': 0, 'by_op': {}, 'outcomes': {}, 'samples': []}
    return mism, summary


def sequence_stats(path, ninit):
    drawn = {}
    lens = []
    mut_after_copy = 0
    copies = ('reverse', 'append', 'vector->list', 'list->vector', 'map-id', 'for-each-collect', 'vector-copy0', 'vector-copy',
              'cons', 'list', 'vector', 'string-copy', 'string-copy0', 'substring', 'string-append', 'string->list', 'list->string')
    for l in open(path):
        try:
            ops = json.loads(l)['ops']
        except (ValueError, KeyError):
            continue
        tail = ops[ninit:]
        lens.append(len(tail))
        seen_copy = False
        hit = False
        for o in tail:
            drawn[o['op']] = drawn.get(o['op'], 0) + 1
            if o['op'] in copies:
                seen_copy = True
            elif seen_copy and o['op'].endswith('!'):
                hit = True
        mut_after_copy += 1 if hit else 0
    n = max(1, len(lens))
    return {'behaviours': len(lens), 'mean_drawn_operations': round(sum(lens) / n, 2), 'full_length': sum(1 for x in lens if x == max(lens or [0])),
            'procedures_drawn': len(drawn), 'least_drawn': sorted(drawn.items(), key=lambda kv: kv[1])[:3],
            'behaviours_with_a_mutation_after_a_copy': mut_after_copy}


def run(pid, tier, module, tiers, npool, rule, assumptions, note_unspecified=''):
    """tiers: list of dict(name, cfg, simulate (or None), depth)."""
    t0 = time.time()
    wd = vlib.workdir('%s-%s' % (pid, tier))
    verdict = vlib.Verdict(pid)
    tot = {'behaviours': 0, 'ops': 0, 'state_checks': 0, 'states': 0, 'by_op': {}, 'outcomes': {}, 'samples': [], 'tiers': []}
    for t in tiers:
        path, r, n = tlc_to_file(module, t['cfg'], wd, t['name'], simulate=t.get('simulate'), depth=t.get('depth'),
                                 seed=(vlib.seed() + 17) if t.get('simulate') else None, timeout=t.get('timeout', 1800),
                                 limit=t.get('limit'))
        if n == 0:
            raise vlib.ToolError('%s/%s produced no behaviour' % (module, t['cfg']))
        mism, summ = replay(path, wd, t['name'], npool)
        seqstat = None
        if t.get('simulate'):
            # what the simulated sequences are made of (beyond the fixed initial operations): a simulation that
            # emits mostly one-step continuations, or never draws some procedure, is reported instead of trusted
            seqstat = sequence_stats(path, t.get('ninit', 5))
            if seqstat['mean_drawn_operations'] < 3 or seqstat['procedures_drawn'] < t.get('min_procedures', 20):
                raise vlib.ToolError('%s/%s: the simulated behaviours are degenerate: %s' % (module, t['cfg'], json.dumps(seqstat)))
        tot['behaviours'] += summ['behaviours']
        tot['ops'] += summ['ops']
        tot['state_checks'] += summ['state_checks']
        tot['states'] += r.generated
        for k, v in summ['by_op'].items():
            tot['by_op'][k] = tot['by_op'].get(k, 0) + v
        for k, v in summ['outcomes'].items():
            tot['outcomes'][k] = tot['outcomes'].get(k, 0) + v
        tot['samples'] += summ.get('samples', [])[:2]
        tot['tiers'].append({'name': t['name'], 'cfg': t['cfg'], 'exhaustive': not t.get('simulate'), 'behaviours': summ['behaviours'],
                             'tlc_states': r.generated, 'mismatches': len(mism)})
        if seqstat:
            tot['tiers'][-1]['sequences'] = seqstat
        seen = set()
        for m in mism:
            key = (m['op'], m['what'].split(' o')[0])
            if key in seen:
                continue
            seen.add(key)
            desc = '%s: %s  [step %s of: %s]  required %s got %s' % (
                m['op'], m['what'], m.get('step'), ' ; '.join(m.get('history', [])[-3:])[:400],
                json.dumps(m.get('exp'))[:200], json.dumps(m.get('got'))[:200])
            verdict.violation(['%s/%s/%s' % (pid, m['op'], m['what'].split(' o')[0]), 'case:' + ' ; '.join(m.get('history', []))],
                              desc, {'kind': 'pool-behaviour', 'module': module, 'mismatch': m})
    rc = verdict.finish()
    cov = {
        'states': tot['states'], 'transitions': tot['states'], 'traces_validated_against_impl': tot['behaviours'],
        'samples': tot['samples'][:4] or [['(none)']],
        'evaluations': tot['ops'], 'distinct_nontrivial': sum(1 for k in tot['by_op'] if tot['by_op'][k] > 0) + tot['behaviours'],
        'rule': rule + '; distinct_nontrivial = number of behaviours generated by TLC (each a distinct operation sequence) plus the number of distinct procedures exercised',
        'operations_replayed': tot['ops'], 'pool_object_comparisons': tot['state_checks'],
        'operations_by_procedure': tot['by_op'], 'required_outcomes': tot['outcomes'], 'tiers': tot['tiers'],
        'exhaustive': False,
    }
    if tot['outcomes'].get('err', 0) == 0 or tot['outcomes'].get('ok', 0) == 0:
        raise vlib.ToolError('vacuous run: no error outcome or no value outcome was required')
    vlib.write_evidence(pid, tier, 'model_checking', cov, time.time() - t0, len(verdict.new), assumptions)
    vlib.cleanup(wd)
    return rc
