"""C05 first-class continuations: sessions validated against the CEK machine (continuation value = captured K)."""
import props


@props.prop('C05')
def c05(tier):
    q = tier == 'quick'
    plan = [
        {'kind': 'corpus', 'file': 'r7rs.scm', 'count': 0, 'cfgs': 'basic'},
        {'kind': 'cont', 'count': 300 if q else 10000, 'cfgs': 'basic', 'shards': 1 if q else 12},
        # continuations must survive collections: a part of the sessions runs under the C03 schedules
        {'kind': 'cont', 'count': 60 if q else 1500, 'cfgs': 'gc', 'shards': 1 if q else 6},
    ]

    import vmt, vlib
    vcov = {}

    def steps_check(verdict, sessions, wd):
        vcov.update(vmt.run(verdict, wd, [('cont', 30 if q else 800)], vlib.seed()))
        # capture = copy of stack[1..sp] and the registers, throw = their restoration with the value in acc
        # (spec/Machine.tla): every instruction of continuation sessions against the model's registers
        import mach
        vcov.update(mach.run(verdict, wd, [('cont', 30 if q else 500)], vlib.seed()))

    def relevant(mm, sess, runs):
        return mm['kind'] in ('conformance', 'corpus', 'abort')

    return props.cek_property(
        'C05', tier, plan, relevant, extra_check=steps_check, extra_cov=lambda sessions, ends: {'instruction_traces': vcov},
        rule='sessions of 1-3 blocks drawn from 27 parametrised continuation templates (the first block of session i is template i mod 27) (harness/src/gen_cont.rs): escape from '
        'for-each/map/deep recursion, re-entry from later top-level forms with counters, operand positions, '
        'continuations stored in globals/vectors/pairs/closures, nested extents, generators, coroutines, re-entry into '
        'a define; each run in a fresh VM and after unrelated definitions')
