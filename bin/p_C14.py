"""C14 list and vector procedures: Store.tla (state machine over a pool of objects with identity, the
library given by Prims.tla) generates behaviours; the harness replays them on the real VM."""
import props, poolcheck


@props.prop('C14')
def c14(tier):
    q = tier == 'quick'
    tiers = [
        {'name': 'onestep', 'cfg': 'Gen_Store1.cfg'},                     # every operation with every argument on 3 pools
        {'name': 'sim12', 'cfg': 'Gen_Store.cfg', 'simulate': 'num=1000000', 'depth': 18,
         'limit': 3000 if q else 150000, 'timeout': 2400},
    ]
    return poolcheck.run(
        'C14', tier, 'Store', tiers, 4,
        'TLC enumerates every operation of the C14 procedure list with every argument combination (pool slots, indices '
        '-1..len+1 and 100, keys) on six initial pools (proper/improper/shared-tail lists, empty/nested vectors, an '
        'association list), and simulates operation sequences of length 12; after every step the result and the '
        'rendering of all four pool objects are compared',
        ['TLC/SANY/Json trusted', 'the harness comparison of data (harness/src/pool.rs) is trusted',
         'mutations that would create a cycle are not generated (rendering a cyclic structure does not terminate)',
         'where R7RS prescribes nothing (non-list argument of list-tail with k=0, assq on a non-alist, improper list '
         'arguments of map) any outcome is accepted and the behaviour ends'])
