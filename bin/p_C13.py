"""C13 sliced execution: the CEK machine has no slices, so one behaviour of it is the oracle for every
budget sequence of the same session (prepare_eval + run_count(b_i))."""
import props


@props.prop('C13')
def c13(tier):
    q = tier == 'quick'
    plan = [
        # constant budgets 1..64, exhaustively, for short programs
        {'kind': 'lang', 'count': 25 if q else 600, 'cfgs': 'slices64', 'shards': 1 if q else 8},
        {'kind': 'cont', 'count': 25 if q else 600, 'cfgs': 'slices64', 'shards': 1 if q else 8},
        {'kind': 'alloc', 'count': 10 if q else 300, 'cfgs': 'slices64', 'shards': 1 if q else 4},
        # random budget sequences in 1..10^4
        {'kind': 'lang', 'count': 120 if q else 5000, 'cfgs': 'slicesr', 'shards': 1 if q else 8},
        {'kind': 'cont', 'count': 80 if q else 5000, 'cfgs': 'slicesr', 'shards': 1 if q else 8},
        # one form with live data beyond one heap chunk, in fewer than 8192 instructions: the uninterrupted run meets
        # no periodic collection, the sliced runs collect at slice ends over a grown heap
        {'kind': 'bigform', 'count': 3 if q else 60, 'cfgs': 'slicebig', 'shards': 1 if q else 4},
    ]

    def relevant(mm, sess, runs):
        # a difference that the uninterrupted run shows as well is not a slicing problem
        if mm['kind'] in ('slices', 'abort'):
            return True
        return mm['kind'] == 'conformance' and 'plain' not in runs and any(r.startswith('slice') for r in runs)

    def extra(sessions, ends):
        nsl = 0
        runs = 0
        for S in sessions.values():
            for s in S.values():
                for r in s['runs']:
                    if r['cfg'].startswith('slice'):
                        runs += 1
                        nsl += sum(o.get('nslices', 0) for o in r['obs'])
        return {'sliced_register_traces': mcov, 'sliced_runs': runs, 'slices_executed': nsl, 'constant_budgets': '1..64', 'random_budget_range': '1..10000'}

    import mach, vlib
    mcov = {}

    def machine_check(verdict, sessions, wd):
        # the register trace of a sliced run must be the trace of the model, which has no slices: a slice boundary
        # that loses or alters machine state shows at the first instruction after it (spec/Machine.tla)
        mcov.update(mach.run(verdict, wd, [('cont', 12 if q else 200, ['budget=1']), ('cont', 12 if q else 200, ['budget=37']),
                                           ('lang', 12 if q else 200, ['budget=5'])], vlib.seed()))

    return props.cek_property(
        'C13', tier, plan, relevant,
        'programs of the C01/C05/allocation generators executed with prepare_eval + run_count under constant budgets '
        '1..64 (each) and seeded random budget sequences in 1..10^4; per slice the number of instructions executed is '
        'recorded (hook counter): a slice with work left that executes nothing is a violation; value, failure, '
        'output and global effects (later forms) are compared with the single CEK behaviour',
        extra_cov=extra, extra_check=machine_check)
