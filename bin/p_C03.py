"""C03 garbage collection is unobservable and safe.
(a) observational half: the CEK machine has no collector, so one behaviour is the oracle for every
    collection schedule of the same session;  (b) structural half: MarwoodGC / Trace_GC (snapshots)."""
import props


def plan(tier):
    q = tier == 'quick'
    lvl = 'gc' if q else 'gcall'
    return [
        {'kind': 'alloc', 'count': 20 if q else 400, 'cfgs': lvl, 'shards': 1 if q else 8},
        {'kind': 'cont', 'count': 12 if q else 300, 'cfgs': lvl, 'shards': 1 if q else 8},
        {'kind': 'lang', 'count': 12 if q else 300, 'cfgs': lvl, 'shards': 1 if q else 8},
        {'kind': 'scope', 'count': 6 if q else 100, 'cfgs': lvl, 'args': ['l=3', 'mode=random'], 'shards': 1 if q else 4},
        # live data larger than one 8192-cell heap chunk: growth, collections over several chunks, old objects in
        # the grown part referring to young ones (bulk builtins only: few steps of the reference machine)
        {'kind': 'biglive', 'count': 3 if q else 60, 'cfgs': 'gcbig', 'shards': 1 if q else 6},
    ]


def relevant(mm, sess, runs):
    return mm['kind'] == 'abort' or (mm['kind'] == 'conformance' and 'plain' not in runs and any(r.startswith('gc') for r in runs))


@props.prop('C03')
def c03(tier):
    import gcs, vlib
    q = tier == 'quick'
    gcov = {}

    def structural(verdict, sessions, wd):
        # snapshots before/after forced collections: period 1 (every instruction) on short programs,
        # longer periods with sampling otherwise
        plans = [
            {'kind': 'alloc', 'count': 4 if q else 80, 'period': 1, 'every': 40 if q else 25, 'maxev': 40},
            {'kind': 'cont', 'count': 4 if q else 80, 'period': 1, 'every': 40 if q else 25, 'maxev': 40},
            {'kind': 'lang', 'count': 4 if q else 80, 'period': 2, 'every': 30 if q else 25, 'maxev': 40},
            {'kind': 'scope', 'count': 2 if q else 40, 'period': 3, 'every': 40 if q else 25, 'maxev': 40},
            {'kind': 'sym', 'count': 3 if q else 60, 'period': 7, 'every': 40 if q else 25, 'maxev': 40},
            {'kind': 'biglive', 'count': 1 if q else 12, 'period': 9, 'every': 4, 'maxev': 6},
        ]
        gcov.update(gcs.run(verdict, wd, tier, plans, vlib.seed()))
        # register traces under forced collections against the collector-free instruction-level model
        # (spec/Machine.tla): a reclaimed live object shows at the first instruction that loads it
        import mach
        gcov.update(mach.run(verdict, wd, [('alloc', 8 if q else 150, ['gc=1']), ('cont', 8 if q else 150, ['gc=3']),
                                           ('scope3', 6 if q else 150, ['gc=2'])], vlib.seed()))

    def extra(sessions, ends):
        runs = 0
        colls = 0
        for S in sessions.values():
            for s in S.values():
                for r in s['runs']:
                    if r['cfg'].startswith('gc'):
                        runs += 1
        return {'structural_half': gcov, 'runs_under_forced_collection': runs,
                'schedules': 'none; every k-th instruction for k in %s; two seeded pseudo-random schedules'
                             % ('1,2,3,5,8,13,16' if tier == 'quick' else '1..16')}

    return props.cek_property(
        'C03', tier, plan(tier), relevant,
        'sessions of the allocation-heavy templates and of the C01/C02/C05 generators, each executed with no forced '
        'collection, with a forced collection before every k-th instruction, and under two pseudo-random schedules; '
        'every run is validated against the single collector-free CEK behaviour',
        extra_cov=extra, extra_check=structural)
