"""C03 garbage collection is unobservable and safe.
(a) observational half: the CEK machine has no collector, so one behaviour is the oracle for every
    collection schedule of the same session;  (b) structural half: MarwoodGC / Trace_GC (snapshots)."""
import props


def plan(tier):
    q = tier == 'quick'
    lvl = 'gc' if q else 'gcall'
    return [
        {'kind': 'alloc', 'count': 20 if q else 400, 'cfgs': lvl, 'shards': 1 if q else 8},
        {'kind': 'cont', 'count': 12 if q else 300, 'cfgs': lvl, 'shards': 1 if q else 8},
        {'kind': 'lang', 'count': 12 if q else 300, 'cfgs': lvl, 'shards': 1 if q else 8},
        {'kind': 'scope', 'count': 6 if q else 100, 'cfgs': lvl, 'args': ['l=3', 'mode=random'], 'shards': 1 if q else 4},
    ]


def relevant(mm, sess, runs):
    return mm['kind'] == 'conformance' and 'plain' not in runs and any(r.startswith('gc') for r in runs)


@props.prop('C03')
def c03(tier):
    def extra(sessions, ends):
        runs = 0
        colls = 0
        for S in sessions.values():
            for s in S.values():
                for r in s['runs']:
                    if r['cfg'].startswith('gc'):
                        runs += 1
        return {'runs_under_forced_collection': runs,
                'schedules': 'none; every k-th instruction for k in %s; two seeded pseudo-random schedules'
                             % ('1,2,3,5,8,13,16' if tier == 'quick' else '1..16')}

    return props.cek_property(
        'C03', tier, plan(tier), relevant,
        'sessions of the allocation-heavy templates and of the C01/C02/C05 generators, each executed with no forced '
        'collection, with a forced collection before every k-th instruction, and under two pseudo-random schedules; '
        'every run is validated against the single collector-free CEK behaviour',
        extra_cov=extra)
