"""C18 symbols are interned: in the CEK machine a symbol IS its (interned) name, eq? on symbols is
identity of the interned name and the conversions are the identity on names; sessions produce symbols
by every pair of routes under the collection schedules of C03."""
import props


@props.prop('C18')
def c18(tier):
    import gcs, vlib
    q = tier == 'quick'
    gcov = {}

    def structural(verdict, sessions, wd):
        # the intern table must be exactly the set of allocated symbol cells, by name, before and after
        # every sampled collection of symbol-producing sessions
        plans = [
            {'kind': 'sym', 'count': 6 if q else 150, 'period': 3, 'every': 40 if q else 30, 'maxev': 30},
            {'kind': 'sym', 'count': 3 if q else 50, 'period': 1, 'every': 60 if q else 40, 'maxev': 30},
        ]
        gcov.update(gcs.run(verdict, wd, tier, plans, vlib.seed()))

    plan = [
        {'kind': 'sym', 'count': 90 if q else 6000, 'cfgs': 'gc' if q else 'gcall', 'shards': 1 if q else 12},
        {'kind': 'sym', 'count': 250 if q else 14000, 'cfgs': 'basic', 'shards': 1 if q else 8},
    ]

    def relevant(mm, sess, runs):
        return mm['kind'] in ('conformance', 'abort')

    def extra(sessions, ends):
        routes = {}
        for S in sessions.values():
            for s in S.values():
                for t in s.get('tags', []):
                    if t.startswith('route:'):
                        routes[t[6:]] = routes.get(t[6:], 0) + 1
        return {'route_pairs': routes, 'intern_table_snapshots': gcov}

    return props.cek_property(
        'C18', tier, plan, relevant,
        'sessions producing two symbols by a pair of routes (literal, quoted datum, string->symbol of the string / of a '
        'copy / of an appended string, eval of a quoted or constructed datum), names from a 60-entry palette (empty, '
        'delimiters, backslash, digit-initial, whitespace, escapes-lookalikes, non-ASCII, 300 characters) and random '
        'code points; equal and different names; first production kept or dropped; within one form or across forms; '
        'run under forced-collection schedules; eq?, memq and the round trips are observed inside the language',
        extra_cov=extra, extra_check=structural)
