"""C20  The REPL highlighter marks exactly the matching bracket and nothing else.

Decided with spec/Highlight.tla:
  * MC_Highlight     TLC model-checks the specification itself (partner is an involution, pairs never cross,
                     a required output differs from the input in exactly one wrapped bracket token, ...)
                     over every text up to a length bound x every byte cursor.
  * Gen_Highlight    S -> I: TLC enumerates every text over the 11-symbol alphabet up to a bound (and simulates
                     longer ones) x every byte cursor 0..bytes+1 and prints the outcome the specification
                     requires; `mwverif highlight replay` performs each case on the real ReplHighlighter
                     (highlight and highlight_check under catch_unwind) and compares exactly.
  * Trace_Highlight  I -> S: `mwverif highlight unicode` runs the real methods on seeded random Unicode texts
                     (multi-byte identifiers and character literals, raw code-point soup) with cursors also past
                     the end and inside multi-byte characters; TLC recomputes the requirement from the recorded
                     items (full requirement) or checks the weak clauses (raw texts) and prints MISMATCH lines.
"""
import json, os, re, subprocess, time
from concurrent.futures import ThreadPoolExecutor
import props, vlib

ALL = 2047                      # every symbol of the alphabet  ( ) [ ] #( " ; nl sp a #\(
NAMES = ['(', ')', '[', ']', '#(', '"', ';', '\\n', ' ', 'a', '#\\(']


def mask(*syms):
    return sum(1 << NAMES.index(s) for s in syms)


M_CODE = mask('(', ')', '[', ']', '#(', '\\n', ' ', 'a', '#\\(')      # no strings, no comments
M_ROUND = mask('(', ')', '#(', ' ', 'a')
M_BRACKETS = mask('(', ')', '[', ']')
M_LEX = mask('(', ')', '"', ';', '\\n', ' ', 'a')                    # strings and comments, nothing that glues
M_NEST = mask('(', ')', '#(', '\\n', ' ')                           # one shape, no identifiers: never "open"

ASSUME = [
    'TLC, SANY and the CommunityModules Json/IOUtils modules are trusted',
    'Highlight.tla is my reading of the property statement and of the lexical structure of R7RS 7.1.1; TLC '
    'model-checks it against spec-level invariants (MC_Highlight)',
    'where the statement leaves the outcome open (unterminated string; identifier or character literal not '
    'followed by a delimiter; cursor inside a multi-byte character; brackets of different shapes paired by '
    'nesting) only the weak clauses are required: no panic, output equals input or differs by exactly one escape '
    'pair around one bracket spelling',
    'when the cursor is on a non-bracket token and a bracket token ends exactly at the cursor, both "unchanged" '
    'and "partner of the bracket before the cursor" are accepted (Highlight!BeforeOverTokenPolicy = "either")',
    'highlight_check is constrained in one direction only: false when no bracket token lies within one position',
    'the escape pair ESC[4m / ESC[0m is taken from syntax.rs as a format constant',
    'the harness comparison (harness/src/highlight.rs: byte-exact reconstruction of the required string) is trusted',
]


def show(text):
    return text.replace('\n', '\\n')


def n_texts(k, n):
    return sum(k ** i for i in range(n + 1))


class Acc:
    """Accumulated counts over all runs of one check."""

    def __init__(self):
        self.states = 0
        self.cases = 0
        self.texts = 0
        self.nontrivial = set()
        self.required = {}
        self.samples = []
        self.runs = []
        self.classes = {}        # harness class key -> {'count', 'min'}
        self.impl = {'either_resolved_same': 0, 'either_resolved_wrap': 0, 'any_resolved_same': 0,
                     'any_resolved_wrap': 0, 'check_required_false': 0, 'check_returned_true': 0, 'panics': 0}
        self.trace_records = 0
        self.trace_changed = 0
        self.trace_mismatch = []
        self.trace_stats = {}


def gen_replay(acc, wd, name, n, minlen, msk, simulate=None, workers=4, timeout=1500, heap='4g', expect_texts=None):
    """One Gen_Highlight run.  TLC's output is piped straight into `mwverif highlight replay -`, which performs
    every case on the real ReplHighlighter and compares; TLC's own lines are echoed to the harness' stderr."""
    out = os.path.join(wd, name + '.replay.out')
    log = os.path.join(wd, name + '.tlc.log')
    nt = os.path.join(wd, name + '.nontrivial')
    e = dict(os.environ)
    jtmp = os.path.join(wd, 'jtmp')
    os.makedirs(jtmp, exist_ok=True)
    e['JAVA_TOOL_OPTIONS'] = '-Xss1g -Dtlc2.tool.queue.IStateQueue=StateDeque -Djava.io.tmpdir=' + jtmp
    e.update({'N': str(n), 'MINLEN': str(minlen), 'MASK': str(msk)})
    cmd = ['timeout', str(timeout), 'java', '-XX:+UseParallelGC', '-Xmx' + heap, '-cp', vlib.TLA_JAR, 'tlc2.TLC',
           '-workers', str(workers), '-metadir', os.path.join(wd, 'meta-' + name), '-cleanup', '-noGenerateSpecTE', '-checkpoint', '0',
           '-config', 'Gen_Highlight.cfg']
    if simulate:
        cmd += ['-simulate', simulate, '-depth', str(n + 1), '-seed', str(vlib.seed() + 20 + n)]
    cmd += ['Gen_Highlight.tla']
    t0 = time.time()
    with open(out, 'w') as fo, open(log, 'w') as fl:
        tl = subprocess.Popen(cmd, cwd=vlib.SPEC, env=e, stdout=subprocess.PIPE, stderr=subprocess.STDOUT)
        hp = subprocess.Popen([vlib.BIN, 'highlight', 'replay', '-', 'maxper=3', 'echo=1', 'ntout=' + nt],
                              stdin=tl.stdout, stdout=fo, stderr=fl)
        tl.stdout.close()
        hp.wait()
        tl.wait()
    wall = time.time() - t0
    tlc_out = open(log, errors='replace').read()
    if tl.returncode == 124:
        raise vlib.ToolError('TLC timed out after %ss on Gen_Highlight [%s]' % (timeout, name))
    if tl.returncode != 0 or hp.returncode != 0:
        vlib.log(tlc_out[-3000:])
        raise vlib.ToolError('Gen_Highlight [%s]: TLC rc=%d, harness rc=%d' % (name, tl.returncode, hp.returncode))
    if simulate:
        m = re.search(r'The number of states generated: (\d+)', tlc_out)
        generated = distinct = int(m.group(1)) if m else 0
    else:
        m = re.search(r'(\d+) states generated, (\d+) distinct states found, 0 states left', tlc_out)
        if not m:
            vlib.log(tlc_out[-3000:])
            raise vlib.ToolError('Gen_Highlight [%s]: TLC did not complete the state space' % name)
        generated, distinct = int(m.group(1)), int(m.group(2))
    summ = None
    with open(out) as f:
        for line in f:
            if line.startswith('{') and '"summary":true' in line:
                summ = json.loads(line)
    if summ is None or summ['cases'] == 0:
        raise vlib.ToolError('harness replay saw no case [%s]' % name)
    if expect_texts is not None and (distinct != expect_texts[0] or summ['texts'] != expect_texts[1]):
        raise vlib.ToolError('%s: expected %s states/texts, TLC found %d states, harness replayed %d texts'
                             % (name, expect_texts, distinct, summ['texts']))
    nontrivial = set(open(nt).read().splitlines())
    if len(nontrivial) != summ['nontrivial_distinct']:
        raise vlib.ToolError('%s: non-trivial case file is incomplete' % name)
    return {'name': name, 'generated': generated, 'summary': summ, 'nontrivial': nontrivial, 'wall': wall,
            'exhaustive': simulate is None, 'n': n, 'minlen': minlen, 'mask': msk}


def fold_gen(acc, g):
    s = g['summary']
    acc.states += g['generated']
    acc.cases += s['cases']
    acc.texts += s['texts']
    acc.nontrivial |= g['nontrivial']
    for k, v in s['required'].items():
        acc.required[k] = acc.required.get(k, 0) + v
    for x in s['samples']:
        acc.samples.append(dict(x, text=show(x['text']), run=g['name']))
    for k in acc.impl:
        acc.impl[k] += s.get(k, 0)
    for k, c in s['classes'].items():
        a = acc.classes.setdefault(k, {'count': 0, 'min': None})
        a['count'] += c['count']
        m = c['min']
        if a['min'] is None or (len(m['case']['cps']), m['case']['p']) < (len(a['min']['case']['cps']), a['min']['case']['p']):
            a['min'] = m
    acc.runs.append({'run': g['name'], 'mode': 'exhaustive' if g['exhaustive'] else 'simulate',
                     'alphabet': [NAMES[i] for i in range(11) if g['mask'] >> i & 1],
                     'text_lengths': [g['minlen'], g['n']],
                     'texts': s['texts'], 'cursor_cases': s['cases'], 'tlc_states': g['generated'],
                     'required': s['required'], 'nontrivial_distinct': s['nontrivial_distinct'],
                     'mismatches': s['mismatches'], 'wall_s': round(g['wall'], 1)})


def model_check(acc, wd, n, msk, timeout=1500, heap='6g', workers=8):
    r = vlib.tlc('MC_Highlight', 'MC_Highlight.cfg', os.path.join(wd, 'meta-mc'), env={'N': n, 'MASK': msk},
                 workers=workers, timeout=timeout, heap=heap)
    k = bin(msk).count('1')
    if r.rc != 0 or r.distinct != n_texts(k, n):
        vlib.log(r.tail)
        raise vlib.ToolError('MC_Highlight: the specification violates its own invariants or TLC failed (rc=%d, '
                             '%d states, expected %d)' % (r.rc, r.distinct, n_texts(k, n)))
    acc.states += r.generated
    return {'invariants': ['PartnerInvolution', 'NoCrossing', 'BracketsAreCode', 'OneWrappedToken',
                           'FarCursorUnchanged'],
            'max_len': n, 'texts': r.distinct, 'tlc_wall_s': round(r.wall, 1)}


def trace(acc, wd, idx, seed, count, maxlen, workers=4):
    f = os.path.join(wd, 'unicode%d.ndjson' % idx)
    p = vlib.harness(['highlight', 'unicode', 'seed=%d' % seed, 'count=%d' % count, 'maxlen=%d' % maxlen, 'out=' + f])
    stats = json.loads(p.stdout.strip().splitlines()[-1])
    r = vlib.tlc('Trace_Highlight', 'Trace_Highlight.cfg', os.path.join(wd, 'meta-tr%d' % idx), env={'TRACE': f},
                 workers=workers, timeout=1500, heap='4g')
    if r.rc != 0 or r.distinct != count:
        vlib.log(r.tail)
        raise vlib.ToolError('Trace_Highlight consumed %d of %d records (rc=%d)' % (r.distinct, count, r.rc))
    first = []
    with open(f) as fh:
        for line in fh:
            j = json.loads(line)
            if j['out']['k'] == 'text' and len(j['cps']) != len(bytes(''.join(map(chr, j['cps'])), 'utf8')):
                first.append({'text': show(''.join(map(chr, j['cps']))), 'cursor': j['p'], 'kind': j['kind'],
                              'observed_output': show(''.join(map(chr, j['out']['cps']))), 'check': j['chk'],
                              'run': 'unicode'})
                break
    return {'tlc': r, 'stats': stats, 'mismatch': r.tag('MISMATCH'), 'samples': first, 'count': count}


def fold_trace(acc, t):
    acc.states += t['tlc'].generated
    acc.trace_records += t['count']
    acc.trace_changed += t['stats']['output_changed']
    for k, v in t['stats'].items():
        acc.trace_stats[k] = acc.trace_stats.get(k, 0) + v
    acc.trace_mismatch += t['mismatch']
    if len([s for s in acc.samples if s.get('run') == 'unicode']) < 1:
        acc.samples += t['samples']


# ----------------------------------------------------------------------------- classes of mismatches
def structural(what, tags, req, got):
    """Narrow structural signature of a class of mismatches, from the tags the specification attached to the
    case (first applicable wins, so that one defect gives one class)."""
    if 'cur:vopen' in tags:
        part = 'cursor-on-vector-opener'
    elif 'vopen-in-region' in tags:
        part = 'vector-opener-in-scanned-region'
    elif 'atom-semi' in tags:
        part = 'comment-directly-after-identifier'
    else:
        part = 'unclassified(required-%s,got-%s;%s)' % (req, got, ','.join(tags))
    return ['C20/' + ('check:' if what == 'check' else '') + part]


def report(acc, verdict):
    groups = {}
    # S -> I mismatches, grouped by the harness by (what, required, got, tags)
    for key, c in acc.classes.items():
        what, req, got, tags = key.split('|')
        req, got = req[4:], got[4:]
        sigs = structural(what, tags.split(',') if tags else [], req, got)
        m = c['min']
        g = groups.setdefault(sigs[0], {'sigs': sigs, 'count': 0, 'min': None, 'dir': 'S->I'})
        g['count'] += c['count']
        size = (len(m['case']['cps']), m['case']['p'])
        if g['min'] is None or size < g['min'][0]:
            text = m['text']
            if what == 'check':
                reqd = 'highlight_check must be false (no bracket token within one position of the cursor)'
                gotd = 'highlight_check = %s' % json.dumps(m['got']['chk'])
            else:
                reqd = {'same': 'text unchanged', 'any': 'weak clauses only',
                        'either': 'unchanged or underline bytes [%d,%d)' % (m['case']['bs'], m['case']['be']),
                        'wrap': 'underline exactly bytes [%d,%d) = %r' % (
                            m['case']['bs'], m['case']['be'], text.encode()[m['case']['bs']:m['case']['be']].decode())}[req]
                h = m['got']['hl']
                gotd = {'same': 'text unchanged', 'panic': 'panic: %s' % h.get('msg'),
                        'other': 'another string: %r' % ''.join(map(chr, h.get('cps', []))),
                        'wrap': 'underlines bytes [%s,%s)' % (h.get('bs'), h.get('be'))}[h['k']]
            g['min'] = (size, text, m['case']['p'], reqd, gotd, m)
    # I -> S mismatches printed by Trace_Highlight
    for mm in acc.trace_mismatch:
        tags = mm['req'].get('tags', []) if isinstance(mm['req'], dict) else []
        if mm['kind'] == 'raw' or mm['what'].startswith('record'):
            sigs = ['C20/unicode:' + ('weak-clause-' + mm['what'] if mm['kind'] == 'raw' else 'bad-record')]
        else:
            sigs = structural(mm['what'], tags, mm['req']['k'], mm['out']['k'])
            sigs = [s.replace('C20/', 'C20/unicode:', 1) if 'unclassified' in s else s for s in sigs]
        g = groups.setdefault(sigs[0], {'sigs': sigs, 'count': 0, 'min': None, 'dir': 'I->S'})
        g['count'] += 1
        text = ''.join(map(chr, mm['cps']))
        size = (len(mm['cps']), mm['p'])
        if g['min'] is None or (g['dir'] == 'I->S' and size < g['min'][0]):
            reqd = 'highlight_check must be %s' % mm['req']['k'] if mm['what'] == 'check' else json.dumps(
                {k: mm['req'][k] for k in ('k', 'bs', 'be')})
            gotd = ('highlight_check = %s' % mm['chk']) if mm['what'] == 'check' else (
                'text unchanged' if mm['out']['k'] == 'same' else
                'panic' if mm['out']['k'] == 'panic' else repr(''.join(map(chr, mm['out']['cps']))))
            g['min'] = (size, text, mm['p'], reqd, gotd, mm)
    for sig, g in sorted(groups.items()):
        _, text, p, reqd, gotd, m = g['min']
        sigs = g['sigs'] + ['case:%s@%d' % (show(text), p)]
        desc = '%s  [%d case(s), %s]  minimal: text %r cursor %d: required %s; marwood: %s' % (
            sig, g['count'], g['dir'], text, p, reqd, gotd)
        verdict.violation(sigs, desc, {'kind': 'highlight-case', 'text': text, 'cursor': p, 'required': reqd,
                                       'actual': gotd, 'count': g['count'], 'detail': m,
                                       'reproduce': 'harness/target/release/mwverif highlight one %d %r' % (p, show(text))})
    return groups


# ----------------------------------------------------------------------------- the check
@props.prop('C20')
def c20(tier):
    t0 = time.time()
    wd = vlib.workdir('C20-' + tier)
    seed = vlib.seed()
    acc = Acc()
    if tier == 'quick':
        mc_n = 5
        gens = [dict(name='exh-all-4', n=4, minlen=0, msk=ALL, workers=6, expect_texts=(n_texts(11, 4), n_texts(11, 4))),
                dict(name='exh-brackets-7', n=7, minlen=5, msk=M_BRACKETS, workers=3,
                     expect_texts=(n_texts(4, 7), n_texts(4, 7) - n_texts(4, 4))),
                dict(name='sim-all-8', n=8, minlen=8, msk=ALL, simulate='num=300', workers=2),
                dict(name='sim-nest-14', n=14, minlen=14, msk=M_NEST, simulate='num=300', workers=2),
                dict(name='sim-code-12', n=12, minlen=12, msk=M_CODE, simulate='num=200', workers=2),
                dict(name='sim-lex-10', n=10, minlen=10, msk=M_LEX, simulate='num=300', workers=2)]
        traces = [(1, seed * 7919 + 1, 6000, 24)]
    else:
        mc_n = 6
        gens = [dict(name='exh-all-6', n=6, minlen=0, msk=ALL, workers=8, heap='8g', timeout=1700,
                     expect_texts=(n_texts(11, 6), n_texts(11, 6))),
                dict(name='exh-brackets-8', n=8, minlen=6, msk=M_BRACKETS, workers=4,
                     expect_texts=(n_texts(4, 8), n_texts(4, 8) - n_texts(4, 5))),
                dict(name='exh-round-7', n=7, minlen=6, msk=M_ROUND, workers=4,
                     expect_texts=(n_texts(5, 7), n_texts(5, 7) - n_texts(5, 5))),
                dict(name='exh-nest-8', n=8, minlen=7, msk=M_NEST, workers=4,
                     expect_texts=(n_texts(5, 8), n_texts(5, 8) - n_texts(5, 6))),
                dict(name='sim-all-9', n=9, minlen=9, msk=ALL, simulate='num=4000', workers=2),
                dict(name='sim-all-14', n=14, minlen=14, msk=ALL, simulate='num=3000', workers=2),
                dict(name='sim-nest-14', n=14, minlen=14, msk=M_NEST, simulate='num=4000', workers=2),
                dict(name='sim-nest-24', n=24, minlen=24, msk=M_NEST, simulate='num=2000', workers=2),
                dict(name='sim-code-12', n=12, minlen=12, msk=M_CODE, simulate='num=4000', workers=2),
                dict(name='sim-lex-11', n=11, minlen=11, msk=M_LEX, simulate='num=4000', workers=2)]
        traces = [(i, seed * 7919 + i, 20000, 24 + 4 * i) for i in range(1, 5)]
    # the specification against its own invariants
    mc = model_check(acc, wd, mc_n, ALL)

    # S -> I and I -> S runs, a few at a time
    def run_gen(g):
        return gen_replay(acc, wd, g['name'], g['n'], g['minlen'], g['msk'], simulate=g.get('simulate'),
                          workers=g.get('workers', 4), heap=g.get('heap', '4g'), timeout=g.get('timeout', 1500),
                          expect_texts=g.get('expect_texts'))

    def run_trace(t):
        return trace(acc, wd, *t)

    with ThreadPoolExecutor(max_workers=3) as ex:
        gf = [ex.submit(run_gen, g) for g in gens]
        tf = [ex.submit(run_trace, t) for t in traces]
        for f in gf:
            fold_gen(acc, f.result())
        for f in tf:
            fold_trace(acc, f.result())

    verdict = vlib.Verdict('C20')
    groups = report(acc, verdict)
    exh = [r for r in acc.runs if r['mode'] == 'exhaustive']
    cov = {
        'states': acc.states, 'transitions': acc.states,
        'traces_validated_against_impl': acc.cases + acc.trace_records,
        'samples': [x for x in acc.samples if x.get('run') == 'unicode'][:1]
                   + [x for x in acc.samples if x.get('run') != 'unicode'][:5],
        'evaluations': acc.cases + acc.trace_records,
        'distinct_nontrivial': len(acc.nontrivial),
        'rule': 'a case is (text, byte cursor); texts are enumerated by TLC from Gen_Highlight over the 11-symbol '
                'alphabet ( ) [ ] #( " ; newline space a #\\( exhaustively up to the stated bounds x every byte cursor '
                '0..bytes+1, and simulated beyond; distinct_nontrivial = number of distinct (text, cursor) cases of '
                'the replay tier whose REQUIRED output differs from the input (requirement "wrap" or "either")',
        'exhaustive': True,
        'exhaustive_bound_full_alphabet': max(r['text_lengths'][1] for r in exh if len(r['alphabet']) == 11),
        'exhaustive_bounds': {r['run']: {'alphabet': r['alphabet'], 'max_len': r['text_lengths'][1]} for r in exh},
        'texts': acc.texts, 'cursor_cases': acc.cases,
        'required_outcomes': acc.required,
        'implementation_resolution': acc.impl,
        'runs': acc.runs,
        'spec_model_check': mc,
        'unicode_trace_records': acc.trace_records,
        'unicode_trace_stats': acc.trace_stats,
        'unicode_trace_mismatches': len(acc.trace_mismatch),
        'mismatch_classes': {k: g['count'] for k, g in sorted(groups.items())},
        'statement_bound': 'the statement asks for length 8 over the full alphabet (11^8 = 2.1e8 texts, ~2.5e9 cursor '
                           'cases): out of reach of TLC here; the full alphabet is enumerated to length 4 (quick) / 6 '
                           '(thorough), length 7-8 is reached exhaustively on sub-alphabets (see exhaustive_bounds) and '
                           'by simulation on the full alphabet',
    }
    rc = verdict.finish()
    vlib.write_evidence('C20', tier, 'model_checking', cov, time.time() - t0, len(verdict.new), ASSUME)
    vlib.cleanup(wd)
    return rc
