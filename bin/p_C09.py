"""C09: see bin/numtower.py (trace validation of numeric operation records against spec/NumTower.tla)."""
import props, numtower


@props.prop('C09')
def check(tier):
    return numtower.run('C09', tier)
