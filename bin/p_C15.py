"""C15 string and character procedures: Strings.tla (strings as mutable vectors of Unicode scalar values,
character data from CharTable.tla) generates behaviours; the harness replays them on the real VM."""
import props, poolcheck


@props.prop('C15')
def c15(tier):
    q = tier == 'quick'
    tiers = [
        {'name': 'onestep', 'cfg': 'Gen_Strings1.cfg'},
        {'name': 'sim10', 'cfg': 'Gen_Strings.cfg', 'simulate': 'num=1000000', 'depth': 15, 'ninit': 4,
         'limit': 3000 if q else 150000, 'timeout': 2400},
    ]
    return poolcheck.run(
        'C15', tier, 'Strings', tiers, 4,
        'TLC enumerates every string/character procedure of C15 with every argument combination (pool strings mixing '
        '1-4 byte characters incl. empty, start/end/index -1..len+1, a 17-character palette, integers across the '
        'surrogate gap and above U+10FFFF, wrong-typed arguments) on three initial pools, and simulates sequences of '
        'length 10; after every step the result and all four pool objects are compared',
        ['TLC/SANY/Json trusted', 'the harness comparison of data (harness/src/pool.rs) is trusted',
         'case mapping and character classes come from the explicit table CharTable.tla (ASCII + palette); outside '
         'it, and for U+00DF, any outcome is accepted and the behaviour ends'])
