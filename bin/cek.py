"""Trace validation of recorded sessions against SchemeCEK (Trace_CEK.tla).
Shared by the properties decided with the reference semantics."""
import json, os, time
from concurrent.futures import ThreadPoolExecutor
import vlib


def load_sessions(path):
    out = {}
    with open(path) as f:
        for line in f:
            if line.strip():
                j = json.loads(line)
                out[j['id']] = j
    return out


def validate(files, workdir, workers_per_tlc=4, parallel=3, timeout=3000, heap='6g', cfg='Trace_CEK.cfg'):
    """Run Trace_CEK over each ndjson file.  Returns (mismatches, ends, stats)."""
    mism, ends = [], []
    stats = {'generated': 0, 'distinct': 0, 'tlc_runs': 0, 'wall': 0.0}

    def one(i_path):
        i, path = i_path
        md = os.path.join(workdir, 'meta%d' % i)
        r = vlib.tlc('Trace_CEK', cfg, md, env={'TRACE': path}, workers=workers_per_tlc,
                     timeout=timeout, heap=heap)
        return path, r

    with ThreadPoolExecutor(max_workers=parallel) as ex:
        for path, r in ex.map(one, list(enumerate(files))):
            if r.rc != 0:
                vlib.log(r.tail)
                raise vlib.ToolError('TLC failed (rc=%d) on %s' % (r.rc, path))
            stats['generated'] += r.generated
            stats['distinct'] += r.distinct
            stats['tlc_runs'] += 1
            stats['wall'] += r.wall
            for mm in r.tag('MISMATCH'):
                mm['file'] = path
                mism.append(mm)
            for e in r.tag('END'):
                e['file'] = path
                ends.append(e)
    return mism, ends, stats


def form_text(sess, form):
    t = sess.get('text', [])
    return t[form - 1] if 0 < form <= len(t) else ''


def describe(sess, mm):
    if mm['kind'] == 'abort' and 'unreadable' in sess.get('tags', []):
        return 'session %s (%s): %s; reproduce: %s' % (sess['id'], sess.get('kind'), sess.get('abort'), sess.get('reproduce'))
    if mm['kind'] == 'abort':
        return 'session %s (%s): host process aborted (%s); reproduce: %s' % (
            sess['id'], sess.get('kind'), sess.get('abort'), sess.get('reproduce'))
    return 'session %s form %d [%s/%s] %s: %s  expected %s got %s' % (
        sess['id'], mm['form'], mm['kind'], mm['run'], mm['what'], form_text(sess, mm['form'])[:200],
        json.dumps(mm.get('exp'))[:160], json.dumps(mm.get('got'))[:160])


def replay_obj(sess, mm):
    return {'kind': 'cek-session', 'session': {k: sess[k] for k in sess if k != 'runs'},
            'cfg': mm['run'], 'form': mm['form'], 'mismatch': {k: mm[k] for k in ('kind', 'what', 'exp', 'got', 'run', 'form')}}


def signatures(sess, mm):
    """Signatures of a violation, for matching against known findings: the exact failing form
    text, and the generator's structural tags of the session."""
    sigs = ['form:' + form_text(sess, mm['form'])]
    sigs += ['kind:%s/tag:%s' % (mm['kind'], t) for t in sess.get('tags', [])]
    sigs += ['kind:%s' % mm['kind']]
    return sigs


def summarize_rules(ends):
    rules = {}
    for e in ends:
        for r in e.get('rules', []):
            rules[r] = rules.get(r, 0) + 1
    return rules
