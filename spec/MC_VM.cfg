SPECIFICATION Spec
CONSTANTS
  MaxDepth = 2
  MaxArity = 2
  MaxConts = 1
  MaxSteps = 13
CONSTRAINT Bounded
INVARIANTS FrameChain TailCallOK ReturnOK FailureOK IdleSp SpOK RestoreOK
PROPERTIES SliceInvisible
CHECK_DEADLOCK FALSE
