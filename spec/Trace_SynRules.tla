-------------------------- MODULE Trace_SynRules --------------------------
(***************************************************************************)
(* Trace validation for C17.  The input (IOEnv.TRACE, ndjson) holds one    *)
(* record per (transformer, use) pair executed by the implementation:      *)
(*   def  the (define-syntax m (syntax-rules ...)) form as data, every     *)
(*        template wrapped as (quote T)                                    *)
(*   use  the macro use as data                                            *)
(*   dr   outcome of evaluating def:  r = ok | err | panic | timeout       *)
(*   ur   outcome of evaluating use:  r = ok (v = value as data) | err |   *)
(*        panic | timeout | skip (definition was not accepted)             *)
(* Each record is an independent behaviour.  The required outcome is       *)
(* recomputed with SyntaxRules!Expand:                                     *)
(*   - definition and use must terminate without a panic, always;          *)
(*   - a reported error is always acceptable (partial support);            *)
(*   - a value is acceptable only if Expand = exp((quote d)) and the value *)
(*     is structurally d -- or nothing is prescribed (unspec).             *)
(* A difference prints a MISMATCH line, every record prints an END line    *)
(* carrying its class, so the driver checks that all records were judged   *)
(* and measures what was covered.                                          *)
(***************************************************************************)
EXTENDS SyntaxRules, Json, IOUtils, TLCExt

Rec == ndJsonDeserialize(IOEnv.TRACE)

VARIABLES i, ph
vars == <<i, ph>>

\* the datum d if e is (quote d)
IsQuoted(e) == e.t = "list" /\ Len(e.v) = 2 /\ e.tl.t = "nil" /\ SymIs(e.v[1], K_quote)

Quoted(d) == [t |-> "list", v |-> <<Sym(K_quote), d>>, tl |-> Nil]

\* "" = accepted, otherwise what is wrong
Judge(r, e) ==
  IF r.dr.r = "panic" THEN "definition panics"
  ELSE IF r.dr.r = "timeout" THEN "definition does not terminate"
  ELSE IF r.dr.r = "err" THEN ""
  ELSE IF r.ur.r = "panic" THEN "use panics"
  ELSE IF r.ur.r = "timeout" THEN "expansion does not terminate"
  ELSE IF r.ur.r = "err" THEN ""
  ELSE IF r.ur.r # "ok" THEN "unknown outcome"
  ELSE IF e.k = "unspec" THEN ""
  ELSE IF e.k = "nomatch" THEN "expansion although no rule matches"
  ELSE IF ~IsQuoted(e.d) THEN "template is not quoted"
  ELSE IF DEq(e.d.v[2], r.ur.v) THEN ""
  ELSE "expansion differs from the one prescribed"

\* class of the record for the coverage figures
Class(r, e) ==
  IF r.dr.r # "ok" THEN "def-" \o r.dr.r
  ELSE e.k \o "/" \o r.ur.r

Init == i \in 1..Len(Rec) /\ ph = "judge"

Check ==
  /\ ph = "judge"
  /\ LET r == Rec[i]
         e == Expand(r.def, r.use)
         j == Judge(r, e)
     IN  /\ IF j = "" THEN TRUE
            ELSE PrintT(<<"MISMATCH", ToJson([id |-> r.id, what |-> j, exp |-> e, dr |-> r.dr, ur |-> r.ur,
                                                diag |-> Diag(r.def, r.use,
                                                              IF r.ur.r = "ok" THEN Quoted(r.ur.v) ELSE Nil)])>>)
         /\ PrintT(<<"END", ToJson([id |-> r.id, cls |-> Class(r, e),
                                   rule |-> IF e.k = "exp" THEN e.rule ELSE 0,
                                   why |-> IF e.k = "unspec" THEN e.why ELSE "",
                                   ok |-> (j = "")])>>)
  /\ ph' = "done"
  /\ UNCHANGED i

Next == Check
Spec == Init /\ [][Next]_vars
=============================================================================
