------------------------------ MODULE Trace_Num ------------------------------
(***************************************************************************)
(* Trace validation of recorded numeric operations (C08, C09, C16).        *)
(*                                                                         *)
(* The input (IOEnv.TRACE, ndjson) holds one record per GROUP: an          *)
(* operation applied to mathematical argument values, and the outcomes the *)
(* implementation produced for it ("runs"), one per combination of         *)
(* internal representations carrying those values and per route by which   *)
(* the operands were obtained (injected Number variant / Scheme source).   *)
(*   c08  [id, cls, op, args: exact numbers, runs: [reps, route, res]]     *)
(*   c09  [id, cls, op, args: exact numbers or doubles, runs: [.., res]]   *)
(*   c16  [id, cls, r, args: <<z>>, runs: [reps, route, s, z1, z2]]        *)
(* Every group is an independent behaviour (Init chooses the group; the    *)
(* judgement is made in the Next step so that TLC's workers share the      *)
(* groups).  Each run is judged by NumTower against the required result    *)
(* computed from the argument values alone; a failing run is printed as a  *)
(* MISMATCH line; a G line per group lets the driver verify that every     *)
(* group and run was consumed.                                             *)
(***************************************************************************)
EXTENDS NumTower, FiniteSets, Json, IOUtils, TLC

Rec == ndJsonDeserialize(IOEnv.TRACE)

VARIABLES gi, ph
vars == <<gi, ph>>

IsNumRes(r) == r.k \in {"x", "f"}
Crash(r) == r.k \in {"panic", "timeout"}

Report(g, j, kind, exp) ==
  PrintT(<<"MISMATCH", ToJson([id |-> g.id, run |-> j, kind |-> kind, exp |-> exp])>>)

Summary(g, kinds, self) ==
  PrintT(<<"G", ToJson([id |-> g.id, n |-> Len(g.runs),
                        bad |-> Cardinality({j \in 1..Len(g.runs) : kinds[j] # ""}), self |-> self])>>)

QShow(q) == [s |-> q.n.s, n |-> q.n.m, d |-> q.d]

-----------------------------------------------------------------------------
Check08(g) ==
  LET n == Len(g.runs)
      wf == \A i \in 1..Len(g.args) : g.args[i].k = "x" /\ WfExact(g.args[i])
  IN IF ~wf THEN Report(g, 0, "malformed-record", "args") /\ Summary(g, [j \in 1..n |-> "x"], FALSE)
     ELSE
     LET A == [i \in 1..Len(g.args) |-> QOf(g.args[i])]
         undef == Undefined(g.op, A)
         t == TrueQ(g.op, A)
         rc == ReprClass(t)
         k0 == [j \in 1..n |-> JudgeArith(g.op, A, t, rc, g.runs[j].res)]
         good == {j \in 1..n : k0[j] = "" /\ IsNumRes(g.runs[j].res)}
         ref == IF good = {} THEN 0 ELSE CHOOSE j \in good : \A i \in good : j <= i
         kinds == [j \in 1..n |->
                     IF k0[j] # "" \/ undef \/ ref = 0 \/ ~IsNumRes(g.runs[j].res) THEN k0[j]
                     ELSE IF SameNumber(g.runs[ref].res, g.runs[j].res) THEN ""
                     ELSE "representation-dependent"]
         self == undef \/ DivSelfCheck(g.op, A)
     IN /\ \A j \in 1..n : IF kinds[j] = "" THEN TRUE
                           ELSE Report(g, j, kinds[j], IF undef THEN "undefined" ELSE QShow(t))
        /\ Summary(g, kinds, self)

Check09(g) ==
  LET n == Len(g.runs)
      wf == \A i \in 1..Len(g.args) : WfNum(g.args[i]) /\ (g.args[i].k = "f" => ~DIsNaN(g.args[i].w))
  IN IF ~wf THEN Report(g, 0, "malformed-record", "args") /\ Summary(g, [j \in 1..n |-> "x"], FALSE)
     ELSE
     LET X == [i \in 1..Len(g.args) |-> XOf(g.args[i])]
         kinds == [j \in 1..n |-> JudgeOrder(g.op, X, g.runs[j].res)]
         exp == IF g.op \in CmpOps THEN [v |-> Chain(g.op, X)]
                ELSE IF g.op \in {"min", "max"} THEN [cmp12 |-> XCmp(X[1], X[2])]
                ELSE [sign |-> XCmp(X[1], XZero)]
     IN /\ \A j \in 1..n : IF kinds[j] = "" THEN TRUE ELSE Report(g, j, kinds[j], exp)
        /\ Summary(g, kinds, TRUE)

\* z1 = z with the same exactness; z2 = z1
Readback(z, run) ==
  IF Crash(run.z1) THEN "string->number-panic"
  ELSE IF ~IsNumRes(run.z1) THEN "readback-not-a-number"
  ELSE IF ~WfNum(run.z1) THEN "malformed-record"
  ELSE IF run.z1.k # z.k THEN "readback-exactness-differs"
  ELSE IF ~SameNumber(z, run.z1) THEN "readback-differs"
  ELSE IF Crash(run.z2) THEN "literal-panic"
  ELSE IF ~IsNumRes(run.z2) THEN "literal-not-a-number"
  ELSE IF ~WfNum(run.z2) THEN "malformed-record"
  ELSE IF ~SameNumber(run.z1, run.z2) THEN "literal-differs-from-string->number"
  \* the printed form of z (result display / write), read as program text, is z again
  ELSE IF "z3" \notin DOMAIN run THEN ""
  ELSE IF Crash(run.z3) THEN "printed-form-panic"
  ELSE IF ~IsNumRes(run.z3) THEN "printed-form-not-a-number"
  ELSE IF ~WfNum(run.z3) THEN "malformed-record"
  ELSE IF run.z3.k # z.k THEN "printed-form-exactness-differs"
  ELSE IF ~SameNumber(z, run.z3) THEN "printed-form-reads-back-differently"
  ELSE ""

\* the spelling denotes z, judged without the implementation's reader
Denotes(z, r, txt) ==
  IF z.k = "x" THEN
     LET p == ParseExact(txt, r)
     IN IF ~p.ok THEN "spelling-not-a-numeral"
        ELSE IF QEq(p.q, QOf(z)) THEN "" ELSE "spelling-denotes-another-number"
  ELSE
     LET p == ParseDecimal(txt)
     IN IF ~p.ok THEN "spelling-not-a-numeral"
        ELSE IF DenotesDouble(p.m, p.k, p.neg, z.w) THEN "" ELSE "spelling-denotes-another-number"

Judge16(z, r, run) ==
  IF Crash(run.s) THEN "number->string-panic"
  ELSE IF run.s.k # "s" THEN "number->string-failed"
  ELSE LET rb == Readback(z, run)
       IN IF rb # "" THEN rb ELSE Denotes(z, r, run.s.v)

Check16(g) ==
  LET n == Len(g.runs)
      z == g.args[1]
      wf == WfNum(z) /\ (z.k = "f" => DIsFinite(z.w) /\ g.r = 10) /\ g.r \in {2, 8, 10, 16}
  IN IF ~wf THEN Report(g, 0, "malformed-record", "args") /\ Summary(g, [j \in 1..n |-> "x"], FALSE)
     ELSE
     LET kinds == [j \in 1..n |-> Judge16(z, g.r, g.runs[j])]
     IN /\ \A j \in 1..n : IF kinds[j] = "" THEN TRUE ELSE Report(g, j, kinds[j], "z")
        /\ Summary(g, kinds, TRUE)

Check(g) == IF g.cls = "c08" THEN Check08(g)
            ELSE IF g.cls = "c09" THEN Check09(g)
            ELSE IF g.cls = "c16" THEN Check16(g)
            ELSE Report(g, 0, "malformed-record", "cls")

-----------------------------------------------------------------------------
Init == gi \in 1..Len(Rec) /\ ph = 0
\* (Check(..) = TRUE rather than Check(..) as a conjunct: TLC then evaluates the judgement as an
\*  expression, where LET-bound values are cached; as an action conjunct they are re-evaluated at
\*  every reference, which costs minutes per group.)
Next == /\ ph = 0
        /\ Check(Rec[gi]) = TRUE
        /\ ph' = 1
        /\ UNCHANGED gi
Spec == Init /\ [][Next]_vars
=============================================================================
