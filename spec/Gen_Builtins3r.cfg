SPECIFICATION Spec
CONSTANTS
  MinArity = 3
  MaxArity = 3
  Stride = 1
  Offset = 0
  Reduced = TRUE
INVARIANT SigOK
CHECK_DEADLOCK FALSE
