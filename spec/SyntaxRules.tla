---------------------------- MODULE SyntaxRules ----------------------------
(***************************************************************************)
(* R7RS 4.3.2 `syntax-rules' as a function over source data: matching of a *)
(* macro use against the patterns of a transformer and instantiation of    *)
(* the template of the first rule that matches.  Written from the report.  *)
(*                                                                         *)
(* Data are the framework's source-datum encoding (harness/src/enc.rs      *)
(* `prog_datum'):  int bool char sym(v: symbol id) nil str(v: code points) *)
(* num(s) | list(v: non-empty sequence of items, tl: final cdr, never a    *)
(* list) | vec(v: sequence).  Identifiers are compared by id = by name:    *)
(* the cases this module is used for contain no binding forms, so "the     *)
(* same binding" of R7RS is "the same name", and the renaming hygiene      *)
(* would add is invisible (expansions are observed as quoted data).        *)
(*                                                                         *)
(* Expand(def, use) is one of                                              *)
(*   [k |-> "exp", d |-> datum, rule |-> i]  rule i is the first match     *)
(*   [k |-> "nomatch"]                       no rule matches               *)
(*   [k |-> "unspec", why |-> ...]           R7RS says "it is an error" or *)
(*        is silent/ambiguous: nothing is prescribed, any outcome that     *)
(*        terminates is acceptable.                                        *)
(***************************************************************************)
EXTENDS Naturals, Integers, Sequences, FiniteSets, TLC, CEKNames

Nil == [t |-> "nil"]
Bad == [t |-> "bad"]     \* marks a place where "the output cannot be built up as specified"
Sym(i) == [t |-> "sym", v |-> i]
SymIs(d, id) == d.t = "sym" /\ d.v = id

\* structural equality of data (equal?)
RECURSIVE DEq(_, _)
DEq(a, b) ==
  IF a.t # b.t THEN FALSE
  ELSE CASE a.t \in {"int", "bool", "char", "sym", "str"} -> a.v = b.v
         [] a.t = "num" -> a.s = b.s
         [] a.t = "nil" -> TRUE
         [] a.t = "list" -> /\ Len(a.v) = Len(b.v)
                            /\ \A i \in 1..Len(a.v) : DEq(a.v[i], b.v[i])
                            /\ DEq(a.tl, b.tl)
         [] a.t = "vec" -> /\ Len(a.v) = Len(b.v)
                           /\ \A i \in 1..Len(a.v) : DEq(a.v[i], b.v[i])
         [] OTHER -> FALSE

\* the elements of a (possibly improper, possibly empty) list and its final cdr
Items(F) == IF F.t = "list" THEN F.v ELSE <<>>
FinalCdr(F) == IF F.t = "list" THEN F.tl ELSE F
\* the list of `items' ending in `tl' (tl may itself be a list), in normal form
MkList(items, tl) ==
  IF Len(items) = 0 THEN tl
  ELSE IF tl.t = "list" THEN [t |-> "list", v |-> items \o tl.v, tl |-> tl.tl]
  ELSE [t |-> "list", v |-> items, tl |-> tl]

ProperList(d) == d.t = "nil" \/ (d.t = "list" /\ d.tl.t = "nil")

-----------------------------------------------------------------------------
(* Bindings.  A pattern variable of ellipsis depth 0 is bound to one datum, *)
(* a variable under an ellipsis to the sequence of what each repetition    *)
(* bound it to (so depth 2 is a sequence of sequences).                    *)
One(d)  == [k |-> "one", d |-> d]
Many(s) == [k |-> "many", s |-> s]
EmptyEnv == [x \in {} |-> Nil]

\* nt: notes on *how* a match came about (diagnostics only, see Diag; never used for the verdict)
MOk(env) == [ok |-> TRUE,  un |-> FALSE, env |-> env, nt |-> {}]
MNo      == [ok |-> FALSE, un |-> FALSE, env |-> EmptyEnv, nt |-> {}]
MUn      == [ok |-> FALSE, un |-> TRUE,  env |-> EmptyEnv, nt |-> {}]   \* the report does not decide
Note(m, n) == [m EXCEPT !.nt = @ \cup n]

RECURSIVE MergeEnvs(_, _)
MergeEnvs(rs, i) == IF i > Len(rs) THEN EmptyEnv ELSE rs[i].env @@ MergeEnvs(rs, i + 1)

\* conjunction of match results
Combine(rs) ==
  IF \E i \in 1..Len(rs) : ~rs[i].ok /\ ~rs[i].un THEN MNo
  ELSE IF \E i \in 1..Len(rs) : rs[i].un THEN MUn
  ELSE Note(MOk(MergeEnvs(rs, 1)), UNION {rs[i].nt : i \in 1..Len(rs)})

-----------------------------------------------------------------------------
(* Pattern variables with their ellipsis depth, in order of appearance.    *)
(* "An identifier appearing within a <pattern> can be an underscore, a     *)
(* literal identifier listed in the list of <pattern literal>s, or the     *)
(* <ellipsis>.  All other identifiers are pattern variables."  A literal   *)
(* `_' takes precedence over the underscore.                               *)
RECURSIVE PVars(_, _, _, _)
RECURSIVE PVarsSeq(_, _, _, _, _)
PVars(P, d, lits, ell) ==
  CASE P.t = "sym" -> IF P.v \in lits \/ P.v = K_underscore \/ P.v = ell THEN <<>>
                      ELSE <<[v |-> P.v, d |-> d]>>
    [] P.t = "list" -> PVarsSeq(P.v, 1, d, lits, ell) \o PVars(P.tl, d, lits, ell)
    [] P.t = "vec" -> PVarsSeq(P.v, 1, d, lits, ell)
    [] OTHER -> <<>>
PVarsSeq(ps, i, d, lits, ell) ==
  IF i > Len(ps) THEN <<>>
  ELSE LET followed == i < Len(ps) /\ SymIs(ps[i + 1], ell)
       IN  PVars(ps[i], IF followed THEN d + 1 ELSE d, lits, ell) \o PVarsSeq(ps, i + 1, d, lits, ell)

VarSet(pv) == {pv[i].v : i \in 1..Len(pv)}

(* Shape of a pattern: (P ...), (P ... . P), (P ... P <ellipsis> P ...),   *)
(* (P ... P <ellipsis> P ... . P), the same for vectors: at most one       *)
(* ellipsis per level, and it follows a pattern.                           *)
RECURSIVE ValidPat(_, _)
ValidPatSeq(ps, ell) ==
  LET es == {i \in 1..Len(ps) : SymIs(ps[i], ell)}
  IN  /\ Cardinality(es) <= 1
      /\ 1 \notin es
      /\ \A i \in 1..Len(ps) : ValidPat(ps[i], ell)
ValidPat(P, ell) ==
  CASE P.t = "list" -> ValidPatSeq(P.v, ell) /\ ~SymIs(P.tl, ell)
    [] P.t = "vec" -> ValidPatSeq(P.v, ell)
    [] OTHER -> TRUE

-----------------------------------------------------------------------------
(* Matching (R7RS 4.3.2, "an input expression E matches a pattern P iff")  *)
RECURSIVE Match(_, _, _, _)
RECURSIVE MatchSeq(_, _, _, _, _, _)

MatchEach(ps, fs, lits, ell) ==       \* Len(ps) = Len(fs)
  Combine([i \in 1..Len(ps) |-> Match(ps[i], fs[i], lits, ell)])

\* every element of reps matches pe; each variable of pe is bound to the sequence of its bindings
MatchRep(pe, reps, lits, ell) ==
  LET rs == [j \in 1..Len(reps) |-> Match(pe, reps[j], lits, ell)]
      vs == VarSet(PVars(pe, 0, lits, ell))
  IN  IF \E j \in 1..Len(rs) : ~rs[j].ok /\ ~rs[j].un THEN MNo
      ELSE IF \E j \in 1..Len(rs) : rs[j].un THEN MUn
      ELSE Note(MOk([v \in vs |-> Many([j \in 1..Len(rs) |-> rs[j].env[v]])]),
                UNION {rs[j].nt : j \in 1..Len(rs)})

Match(P, F, lits, ell) ==
  CASE P.t = "sym" ->
         \* literal identifier: F is an identifier with the same binding (= name)
         IF P.v \in lits THEN (IF F.t = "sym" /\ F.v = P.v THEN MOk(EmptyEnv) ELSE MNo)
         \* underscore: matches anything, binds nothing
         ELSE IF P.v = K_underscore THEN MOk(EmptyEnv)
         \* pattern variable
         ELSE MOk(P.v :> One(F))
    [] P.t = "list" -> MatchSeq(P.v, P.tl, Items(F), FinalCdr(F), lits, ell)
    [] P.t = "vec" -> IF F.t = "vec"
                      THEN Note(MatchSeq(P.v, Nil, F.v, Nil, lits, ell), IF DEq(P, F) THEN {} ELSE {"vector-pattern"})
                      ELSE MNo
    \* a pattern datum: equal?
    [] OTHER -> IF DEq(P, F) THEN MOk(EmptyEnv) ELSE MNo

(* ps: the element patterns, ptl: the pattern after the dot (nil if none);  *)
(* fs: the elements of the input, ftl: its final cdr.                      *)
MatchSeq(ps, ptl, fs, ftl, lits, ell) ==
  LET es == {i \in 1..Len(ps) : SymIs(ps[i], ell)} IN
  IF es = {} THEN
     IF ptl.t = "nil"
     THEN \* (P1 ... Pn): a list of n elements
          IF Len(fs) = Len(ps) /\ ftl.t = "nil" THEN MatchEach(ps, fs, lits, ell) ELSE MNo
     ELSE \* (P1 ... Pn . Px): a list or improper list of n or more elements, whose nth tail matches Px
          IF Len(fs) >= Len(ps)
          THEN Note(Combine(<<MatchEach(ps, SubSeq(fs, 1, Len(ps)), lits, ell),
                              Match(ptl, MkList(SubSeq(fs, Len(ps) + 1, Len(fs)), ftl), lits, ell)>>),
                    \* the part after the dot takes a list (not just the atom after the input's dot)
                    IF Len(fs) = Len(ps) /\ ftl.t # "nil" THEN {} ELSE {"dotted-pattern"})
          ELSE MNo
  ELSE
     LET e    == CHOOSE i \in es : TRUE
         pre  == SubSeq(ps, 1, e - 2)
         pe   == ps[e - 1]
         post == SubSeq(ps, e + 1, Len(ps))
         nrep == Len(fs) - Len(pre) - Len(post)
     IN  IF nrep < 0 THEN MNo
         \* (P1 ... Pk Pe <ellipsis> Pm+1 ... Pn): a proper list
         ELSE IF ptl.t = "nil" /\ ftl.t # "nil" THEN MNo
         \* (Pe <ellipsis> . Px) against something that is not a pair: is that "an improper
         \* list of 0 elements"?  Implementations differ; nothing is prescribed.
         ELSE IF ptl.t # "nil" /\ Len(fs) = 0 /\ ftl.t # "nil" THEN MUn
         ELSE Note(Combine(<<
                MatchEach(pre, SubSeq(fs, 1, Len(pre)), lits, ell),
                MatchRep(pe, SubSeq(fs, Len(pre) + 1, Len(pre) + nrep), lits, ell),
                MatchEach(post, SubSeq(fs, Len(pre) + nrep + 1, Len(fs)), lits, ell),
                \* ... whose final cdr matches Px
                IF ptl.t = "nil" THEN MOk(EmptyEnv) ELSE Match(ptl, ftl, lits, ell)>>),
                (IF nrep = 0 /\ (Len(post) > 0 \/ ptl.t # "nil") THEN {"tail-after-ellipsis"} ELSE {})
                  \cup (IF ptl.t # "nil" /\ ftl.t = "nil" THEN {"dotted-pattern"} ELSE {}))

-----------------------------------------------------------------------------
(* Templates *)

\* pattern variables (members of dom) occurring in a template
RECURSIVE TVars(_, _)
TVars(T, dom) ==
  CASE T.t = "sym" -> IF T.v \in dom THEN {T.v} ELSE {}
    [] T.t = "list" -> UNION {TVars(T.v[i], dom) : i \in 1..Len(T.v)} \cup TVars(T.tl, dom)
    [] T.t = "vec" -> UNION {TVars(T.v[i], dom) : i \in 1..Len(T.v)}
    [] OTHER -> {}

\* number of consecutive ellipsis identifiers in ts from position i
RECURSIVE NumEll(_, _, _)
NumEll(ts, i, ell) == IF i <= Len(ts) /\ SymIs(ts[i], ell) THEN 1 + NumEll(ts, i + 1, ell) ELSE 0

IsEscape(T, ell) == T.t = "list" /\ Len(T.v) = 2 /\ T.tl.t = "nil" /\ SymIs(T.v[1], ell)

(* Static well-formedness.  pd: pattern variable -> its ellipsis depth in   *)
(* the pattern; dep: number of ellipses the current subtemplate is under.  *)
(* "Pattern variables that occur in subpatterns followed by one or more    *)
(* instances of the identifier <ellipsis> are allowed only in subtemplates *)
(* that are followed by as many instances of <ellipsis>": a variable of    *)
(* depth >= 1 must be used at exactly its depth (whether "more" is allowed *)
(* is read differently by implementations, so it is left unspecified);     *)
(* variables of depth 0 may appear anywhere.  A subtemplate followed by an *)
(* ellipsis must contain a variable to iterate over, and an ellipsis that  *)
(* follows nothing is an error (outside (<ellipsis> <template>)).          *)
RECURSIVE TemplateOK(_, _, _, _, _)
RECURSIVE TemplateOKSeq(_, _, _, _, _, _)
TemplateOK(T, pd, dep, ell, esc) ==
  CASE T.t = "sym" -> IF ~esc /\ T.v = ell THEN FALSE
                      ELSE IF T.v \in DOMAIN pd THEN pd[T.v] = 0 \/ pd[T.v] = dep
                      ELSE TRUE
    [] T.t = "list" -> IF ~esc /\ IsEscape(T, ell) THEN TemplateOK(T.v[2], pd, dep, ell, TRUE)
                       ELSE TemplateOKSeq(T.v, 1, pd, dep, ell, esc) /\ TemplateOK(T.tl, pd, dep, ell, esc)
    [] T.t = "vec" -> TemplateOKSeq(T.v, 1, pd, dep, ell, esc)
    [] OTHER -> TRUE
TemplateOKSeq(ts, i, pd, dep, ell, esc) ==
  IF i > Len(ts) THEN TRUE
  ELSE LET k == IF esc THEN 0 ELSE NumEll(ts, i + 1, ell) IN
       IF k = 0 THEN TemplateOK(ts[i], pd, dep, ell, esc) /\ TemplateOKSeq(ts, i + 1, pd, dep, ell, esc)
       ELSE /\ ~SymIs(ts[i], ell)
            /\ \E v \in TVars(ts[i], DOMAIN pd) : pd[v] >= 1
            /\ TemplateOK(ts[i], pd, dep + k, ell, esc)
            /\ TemplateOKSeq(ts, i + 1 + k, pd, dep, ell, esc)

(* Instantiation.  "Pattern variables that occur in the template are       *)
(* replaced by the elements they match in the input; [under ellipses] they *)
(* are replaced in the output by all of the elements they match in the     *)
(* input, distributed as indicated.  It is an error if the output cannot   *)
(* be built up as specified": variables iterated together by one ellipsis  *)
(* must have matched the same number of items, otherwise Bad.              *)
(* (<ellipsis> <template>) is <template> with ellipses taken literally.    *)
(* The last parameter `fl' is the empty set in the specification proper.    *)
(* Diag (end of module) uses it to restate two known deviations of the     *)
(* implementation, so that a rejected value can be attributed exactly:     *)
(*   "vec": a vector template is copied verbatim;                          *)
(*   "dot": the tail of an improper template list becomes a last element.  *)
RECURSIVE Inst(_, _, _, _, _)
RECURSIVE InstSeq(_, _, _, _, _, _)
RECURSIVE Rep(_, _, _, _, _)
RECURSIVE Flatten(_, _)
Flatten(ss, i) == IF i > Len(ss) THEN <<>> ELSE ss[i] \o Flatten(ss, i + 1)

Inst(T, env, ell, esc, fl) ==
  CASE T.t = "sym" -> IF ~esc /\ T.v = ell THEN Bad
                      ELSE IF T.v \in DOMAIN env
                           THEN (IF env[T.v].k = "one" THEN env[T.v].d ELSE Bad)
                           ELSE T
    [] T.t = "list" -> IF ~esc /\ IsEscape(T, ell) THEN Inst(T.v[2], env, ell, TRUE, fl)
                       ELSE IF "dot" \in fl /\ T.tl.t # "nil"
                            THEN MkList(InstSeq(T.v, 1, env, ell, esc, fl) \o <<Inst(T.tl, env, ell, esc, fl)>>, Nil)
                       ELSE MkList(InstSeq(T.v, 1, env, ell, esc, fl), Inst(T.tl, env, ell, esc, fl))
    [] T.t = "vec" -> IF "vec" \in fl THEN T
                      ELSE [t |-> "vec", v |-> InstSeq(T.v, 1, env, ell, esc, fl)]
    [] OTHER -> T
InstSeq(ts, i, env, ell, esc, fl) ==
  IF i > Len(ts) THEN <<>>
  ELSE LET k == IF esc THEN 0 ELSE NumEll(ts, i + 1, ell) IN
       IF k = 0 THEN <<Inst(ts[i], env, ell, esc, fl)>> \o InstSeq(ts, i + 1, env, ell, esc, fl)
       ELSE IF SymIs(ts[i], ell) THEN <<Bad>>
       ELSE Rep(ts[i], env, k, ell, fl) \o InstSeq(ts, i + 1 + k, env, ell, esc, fl)
\* the sequence of instances of `elem' followed by k ellipses
Rep(elem, env, k, ell, fl) ==
  LET vs == {v \in TVars(elem, DOMAIN env) : env[v].k = "many"} IN
  IF vs = {} THEN <<Bad>>
  ELSE LET n == Len(env[CHOOSE v \in vs : TRUE].s) IN
       IF \E v \in vs : Len(env[v].s) # n THEN <<Bad>>
       ELSE Flatten([j \in 1..n |->
                       LET envj == [v \in DOMAIN env |-> IF v \in vs THEN env[v].s[j] ELSE env[v]]
                       IN  IF k = 1 THEN <<Inst(elem, envj, ell, FALSE, fl)>> ELSE Rep(elem, envj, k - 1, ell, fl)], 1)

RECURSIVE HasBad(_)
HasBad(d) ==
  CASE d.t = "bad" -> TRUE
    [] d.t = "list" -> (\E i \in 1..Len(d.v) : HasBad(d.v[i])) \/ HasBad(d.tl)
    [] d.t = "vec" -> \E i \in 1..Len(d.v) : HasBad(d.v[i])
    [] OTHER -> FALSE

-----------------------------------------------------------------------------
(* Transformers:  (define-syntax <keyword>                                 *)
(*                  (syntax-rules [<ellipsis>] (<literal> ...)             *)
(*                    (<pattern> <template>) ...))                         *)
IsRule(r) == /\ r.t = "list" /\ Len(r.v) = 2 /\ r.tl.t = "nil"
             /\ r.v[1].t = "list" /\ r.v[1].v[1].t = "sym"

WellFormedDef(def) ==
  /\ def.t = "list" /\ Len(def.v) = 3 /\ def.tl.t = "nil"
  /\ SymIs(def.v[1], K_define_syntax) /\ def.v[2].t = "sym"
  /\ LET sr == def.v[3] IN
     /\ sr.t = "list" /\ sr.tl.t = "nil" /\ SymIs(sr.v[1], K_syntax_rules) /\ Len(sr.v) >= 2
     /\ LET o == IF sr.v[2].t = "sym" THEN 1 ELSE 0 IN
        /\ Len(sr.v) >= 2 + o
        /\ ProperList(sr.v[2 + o])
        /\ \A i \in 1..Len(Items(sr.v[2 + o])) : Items(sr.v[2 + o])[i].t = "sym"
        /\ \A i \in (3 + o)..Len(sr.v) : IsRule(sr.v[i])

Transformer(def) ==
  LET sr == def.v[3]
      o  == IF sr.v[2].t = "sym" THEN 1 ELSE 0
      ls == Items(sr.v[2 + o])
  IN  [ell   |-> IF o = 1 THEN sr.v[2].v ELSE K_ellipsis,
       lits  |-> {ls[i].v : i \in 1..Len(ls)},
       rules |-> [i \in 1..(Len(sr.v) - 2 - o) |-> [p |-> sr.v[2 + o + i].v[1], t |-> sr.v[2 + o + i].v[2]]]]

\* "The keyword at the beginning of the pattern in a <syntax rule> is not involved in the
\* matching and is considered neither a pattern variable nor a literal identifier."
PatBody(p) == MkList(Tail(p.v), p.tl)
RuleVars(r, tr) == PVars(PatBody(r.p), 0, tr.lits, tr.ell)

RuleDepth(r, tr) ==
  LET pv == RuleVars(r, tr) IN [x \in VarSet(pv) |-> pv[CHOOSE i \in 1..Len(pv) : pv[i].v = x].d]

ValidRulePattern(r, tr) ==
  LET pv == RuleVars(r, tr)
      body == PatBody(r.p)
  IN  /\ ValidPatSeq(Items(body), tr.ell) /\ ~SymIs(FinalCdr(body), tr.ell)
      \* "It is an error for the same pattern variable to appear more than once in a <pattern>."
      /\ Cardinality(VarSet(pv)) = Len(pv)

ValidRule(r, tr) == ValidRulePattern(r, tr) /\ TemplateOK(r.t, RuleDepth(r, tr), 0, tr.ell, FALSE)

Unspec(why) == [k |-> "unspec", why |-> why]
NoMatch == [k |-> "nomatch"]

RuleMatch(tr, use, i) ==
  LET r == tr.rules[i] IN MatchSeq(Tail(r.p.v), r.p.tl, Tail(use.v), use.tl, tr.lits, tr.ell)

RECURSIVE FirstMatch(_, _, _)
FirstMatch(tr, use, i) ==
  IF i > Len(tr.rules) THEN NoMatch
  ELSE LET r == tr.rules[i]
           m == RuleMatch(tr, use, i)
       IN  IF m.un THEN Unspec("match not decided by the report")
           ELSE IF m.ok THEN
                  LET d == Inst(r.t, m.env, tr.ell, FALSE, {}) IN
                  IF HasBad(d) THEN Unspec("output cannot be built as specified")
                  ELSE [k |-> "exp", d |-> d, rule |-> i]
           ELSE FirstMatch(tr, use, i + 1)

Expand(def, use) ==
  IF ~WellFormedDef(def) THEN Unspec("malformed definition")
  ELSE LET tr == Transformer(def) IN
       IF tr.ell \in tr.lits THEN Unspec("ellipsis listed as literal")
       ELSE IF \E i \in 1..Len(tr.rules) : ~ValidRule(tr.rules[i], tr) THEN Unspec("erroneous rule")
       ELSE IF ~(use.t = "list" /\ use.v[1].t = "sym") THEN Unspec("not a macro use")
       ELSE FirstMatch(tr, use, 1)


-----------------------------------------------------------------------------
(* Diagnostics for describing a rejected record (not part of the verdict):  *)
(* the first rule whose pattern matches (0: none / not decided / erroneous  *)
(* patterns), and the rules whose pattern matches and whose template        *)
(* instantiates to `got' -- so the driver can tell "the implementation      *)
(* skipped the rule that applies" from "it built the wrong output".         *)
RECURSIVE FirstMatching(_, _, _)
FirstMatching(tr, use, i) ==
  IF i > Len(tr.rules) THEN 0
  ELSE LET m == RuleMatch(tr, use, i) IN
       IF m.un THEN 0 ELSE IF m.ok THEN i ELSE FirstMatching(tr, use, i + 1)

Diag(def, use, got) ==
  IF ~WellFormedDef(def) THEN [first |-> 0, alts |-> {}, expl |-> {}, notes |-> {}]
  ELSE LET tr == Transformer(def) IN
       IF \/ tr.ell \in tr.lits
          \/ \E i \in 1..Len(tr.rules) : ~ValidRulePattern(tr.rules[i], tr)
          \/ ~(use.t = "list" /\ use.v[1].t = "sym")
       THEN [first |-> 0, alts |-> {}, expl |-> {}, notes |-> {}]
       ELSE LET first == FirstMatching(tr, use, 1) IN
            [first |-> first,
             \* how the rule that applies matches: "tail-after-ellipsis" an ellipsis followed by further
             \* patterns (or a dotted tail) matched no item; "dotted-pattern" the pattern after a dot took a list;
             \* "vector-pattern" a vector pattern matched a vector that is not literally the same datum
             notes |-> IF first = 0 THEN {} ELSE RuleMatch(tr, use, first).nt,
             alts  |-> {i \in 1..Len(tr.rules) :
                          LET m == RuleMatch(tr, use, i) IN
                          /\ m.ok
                          /\ ValidRule(tr.rules[i], tr)
                          /\ LET d == Inst(tr.rules[i].t, m.env, tr.ell, FALSE, {}) IN
                             ~HasBad(d) /\ DEq(d, got)},
             \* which of the known deviations, applied to the rule that applies, reproduce `got' exactly
             expl  |-> IF first = 0 \/ ~ValidRule(tr.rules[IF first = 0 THEN 1 ELSE first], tr) THEN {}
                       ELSE {fl \in (SUBSET {"vec", "dot"}) \ {{}} :
                               LET d == Inst(tr.rules[first].t, RuleMatch(tr, use, first).env, tr.ell, FALSE, fl)
                               IN  ~HasBad(d) /\ DEq(d, got)}]
=============================================================================
