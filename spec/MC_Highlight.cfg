SPECIFICATION Spec
INVARIANT PartnerInvolution
INVARIANT NoCrossing
INVARIANT BracketsAreCode
INVARIANT OneWrappedToken
INVARIANT FarCursorUnchanged
CHECK_DEADLOCK FALSE
