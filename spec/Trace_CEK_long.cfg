SPECIFICATION Spec
CONSTANT MaxSteps = 60000
INVARIANT DepthInv
CHECK_DEADLOCK FALSE
