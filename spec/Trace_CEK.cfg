SPECIFICATION Spec
INVARIANT DepthInv
CHECK_DEADLOCK FALSE
