SPECIFICATION Spec
CONSTANTS
  Depth = 1
  Stride = 1
  Blocks = 16
INVARIANT Agree
CHECK_DEADLOCK FALSE
