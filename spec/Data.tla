------------------------------- MODULE Data -------------------------------
(***************************************************************************)
(* Values, objects with identity, and the conversion between source data   *)
(* and run-time values.  Every value is a tagged record; compound and      *)
(* mutable objects (pairs, vectors, strings, promises) live in an object   *)
(* heap `hp' (a sequence, object id = index) and values refer to them by   *)
(* id -- this is what makes aliasing and mutation visibility part of the   *)
(* semantics.  Symbols are interned: a symbol value carries the index of   *)
(* its name in the symbol table `sy' (a sequence of code-point sequences). *)
(***************************************************************************)
EXTENDS Naturals, Integers, Sequences, FiniteSets, TLC

IntV(n)  == [t |-> "int",  v |-> n]
BoolV(b) == [t |-> "bool", v |-> b]
CharV(c) == [t |-> "char", v |-> c]
SymV(i)  == [t |-> "sym",  v |-> i]
PairV(i) == [t |-> "pair", v |-> i]
VecV(i)  == [t |-> "vec",  v |-> i]
StrV(i)  == [t |-> "str",  v |-> i]
PromV(i) == [t |-> "prom", v |-> i]
PrimV(n) == [t |-> "prim", v |-> n]
NilV     == [t |-> "nil"]
VoidV    == [t |-> "void"]     \* "unspecified value"
UndefV   == [t |-> "undef"]    \* unassigned variable
TrueV    == BoolV(TRUE)
FalseV   == BoolV(FALSE)

IsTrue(v) == ~(v.t = "bool" /\ v.v = FALSE)

\* Largest magnitude of an integer the model handles (TLC integers are 32 bit).
IntLimit == 1073741824
InRange(n) == n <= IntLimit /\ n >= -IntLimit

Abs(n) == IF n < 0 THEN -n ELSE n
Max2(a, b) == IF a >= b THEN a ELSE b
Min2(a, b) == IF a <= b THEN a ELSE b

-----------------------------------------------------------------------------
(* Objects *)
Cons(a, d, hp)  == [v |-> PairV(Len(hp) + 1), hp |-> Append(hp, [k |-> "pair", a |-> a, d |-> d])]
MkVec(es, hp)   == [v |-> VecV(Len(hp) + 1),  hp |-> Append(hp, [k |-> "vec", e |-> es])]
MkStr(cs, hp)   == [v |-> StrV(Len(hp) + 1),  hp |-> Append(hp, [k |-> "str", c |-> cs])]

Car(v, hp) == hp[v.v].a
Cdr(v, hp) == hp[v.v].d
VecElems(v, hp) == hp[v.v].e
StrChars(v, hp) == hp[v.v].c

RECURSIVE SeqToListR(_, _, _, _)
SeqToListR(s, i, acc, hp) ==
  IF i = 0 THEN [v |-> acc, hp |-> hp]
  ELSE LET c == Cons(s[i], acc, hp) IN SeqToListR(s, i - 1, c.v, c.hp)
\* A fresh list of the elements of s ending in `tail'.
SeqToList(s, tail, hp) == SeqToListR(s, Len(s), tail, hp)

RECURSIVE ListToSeqR(_, _, _, _)
ListToSeqR(v, hp, acc, fuel) ==
  IF v.t = "pair" /\ fuel > 0
  THEN ListToSeqR(hp[v.v].d, hp, Append(acc, hp[v.v].a), fuel - 1)
  ELSE [ok |-> v.t = "nil", s |-> acc, tl |-> v]
\* The elements of a list value; ok = it is a proper (finite, nil-terminated) list.
ListToSeq(v, hp) == ListToSeqR(v, hp, <<>>, Len(hp) + 1)

\* The sequence of pair values making up the spine of a list (for memq etc.).
RECURSIVE SpineR(_, _, _, _)
SpineR(v, hp, acc, fuel) ==
  IF v.t = "pair" /\ fuel > 0
  THEN SpineR(hp[v.v].d, hp, Append(acc, v), fuel - 1)
  ELSE [ok |-> v.t = "nil", s |-> acc, tl |-> v]
Spine(v, hp) == SpineR(v, hp, <<>>, Len(hp) + 1)

\* Identity between two values as an implementation can observe it with eq? and cdr: pj is the very object pi,
\* or (lists) the very pair reached from pi by following cdrs.  Empty vectors and strings are excluded (R7RS does
\* not say whether two of them are the same object).
SameObj(a, b) == a.t = b.t /\ a.t \in {"pair", "vec", "str"} /\ a.v = b.v
ShareRel(pi, pj, hp) ==
  /\ CASE pj.t = "pair" -> TRUE
        [] pj.t = "vec" -> Len(hp[pj.v].e) > 0
        [] pj.t = "str" -> Len(hp[pj.v].c) > 0
        [] OTHER -> FALSE
  /\ \/ SameObj(pi, pj)
     \/ /\ pi.t = "pair"
        /\ LET sp == Spine(pi, hp) IN
           \/ \E q \in 1..Len(sp.s) : SameObj(sp.s[q], pj)
           \/ SameObj(sp.tl, pj)          \* the last cdr of an improper list
\* pj is the very object stored as an element of pi (an element of the list pi, or of the vector pi)
ElemRel(pi, pj, hp) ==
  /\ CASE pj.t = "pair" -> TRUE
        [] pj.t = "vec" -> Len(hp[pj.v].e) > 0
        [] pj.t = "str" -> Len(hp[pj.v].c) > 0
        [] OTHER -> FALSE
  /\ \/ /\ pi.t = "pair"
        /\ LET sp == Spine(pi, hp) IN \E q \in 1..Len(sp.s) : SameObj(hp[sp.s[q].v].a, pj)
     \/ /\ pi.t = "vec"
        /\ \E q \in 1..Len(hp[pi.v].e) : SameObj(hp[pi.v].e[q], pj)
ElemMatrix(pl, n, hp) == [i \in 1..n |-> [j \in 1..n |-> ElemRel(pl[i], pl[j], hp)]]
ShareMatrix(pl, n, hp) == [i \in 1..n |-> [j \in 1..n |-> ShareRel(pl[i], pl[j], hp)]]

-----------------------------------------------------------------------------
(* Equivalence *)
Eqv(a, b) ==
  /\ a.t = b.t
  /\ CASE a.t \in {"nil", "void", "undef"} -> TRUE
       [] a.t \in {"int", "bool", "char", "sym", "pair", "vec", "str", "prom", "prim"} -> a.v = b.v
       [] a.t = "mclo" -> a.l = b.l /\ a.e = b.e     \* closures of module Machine: one environment per creation
       [] OTHER -> FALSE   \* procedures: never compared by the generators

RECURSIVE Equal(_, _, _, _)
RECURSIVE EqualSeq(_, _, _, _, _)
Equal(a, b, hp, fuel) ==
  IF a.t # b.t THEN FALSE
  ELSE IF fuel = 0 THEN TRUE
  ELSE CASE a.t = "pair" ->
              \/ a.v = b.v
              \/ /\ Equal(hp[a.v].a, hp[b.v].a, hp, fuel - 1)
                 /\ Equal(hp[a.v].d, hp[b.v].d, hp, fuel - 1)
         [] a.t = "vec" ->
              \/ a.v = b.v
              \/ /\ Len(hp[a.v].e) = Len(hp[b.v].e)
                 /\ EqualSeq(hp[a.v].e, hp[b.v].e, 1, hp, fuel - 1)
         [] a.t = "str" -> hp[a.v].c = hp[b.v].c
         [] OTHER -> Eqv(a, b)
EqualSeq(s, u, i, hp, fuel) ==
  IF i > Len(s) THEN TRUE
  ELSE Equal(s[i], u[i], hp, fuel) /\ EqualSeq(s, u, i + 1, hp, fuel)

-----------------------------------------------------------------------------
(* Source data  <->  run-time values.                                       *)
(* A source datum is: int bool char sym nil | str(v: code points)          *)
(*   | list(v: non-empty seq, tl: datum) | vec(v: seq) | num (a number the *)
(*   model does not interpret) | opaque (a non-datum object seen by eval). *)

RECURSIVE DatumToVal(_, _)
RECURSIVE DatumsToVals(_, _, _, _)
DatumToVal(d, hp) ==
  CASE d.t = "list" ->
         LET es == DatumsToVals(d.v, 1, <<>>, hp)
             tl == DatumToVal(d.tl, es.hp)
         IN  SeqToList(es.s, tl.v, tl.hp)
    [] d.t = "vec" ->
         LET es == DatumsToVals(d.v, 1, <<>>, hp) IN MkVec(es.s, es.hp)
    [] d.t = "str" -> MkStr(d.v, hp)
    [] OTHER -> [v |-> d, hp |-> hp]
DatumsToVals(ds, i, acc, hp) ==
  IF i > Len(ds) THEN [s |-> acc, hp |-> hp]
  ELSE LET r == DatumToVal(ds[i], hp) IN DatumsToVals(ds, i + 1, Append(acc, r.v), r.hp)

\* Value -> datum (used by eval, and by Render for comparison with
\* observations).  With sy = <<>> symbols stay interned ids; otherwise a
\* symbol is rendered with its name taken from the symbol table sy.
RECURSIVE ValToDatum(_, _, _, _)
ValToDatum(v, hp, fuel, sy) ==
  IF fuel = 0 THEN [t |-> "opaque"]
  ELSE
  CASE v.t = "pair" ->
         LET l == ListToSeq(v, hp)
         IN  [t |-> "list",
              v |-> [i \in 1..Len(l.s) |-> ValToDatum(l.s[i], hp, fuel - 1, sy)],
              tl |-> IF l.tl.t = "pair" THEN [t |-> "opaque"] ELSE ValToDatum(l.tl, hp, fuel - 1, sy)]
    [] v.t = "vec" ->
         [t |-> "vec", v |-> [i \in 1..Len(hp[v.v].e) |-> ValToDatum(hp[v.v].e[i], hp, fuel - 1, sy)]]
    [] v.t = "str" -> [t |-> "str", v |-> hp[v.v].c]
    [] v.t = "sym" -> IF Len(sy) = 0 THEN v ELSE [t |-> "sym", n |-> sy[v.v]]
    [] v.t \in {"int", "bool", "char", "nil", "void", "undef", "num"} -> v
    [] v.t \in {"clo", "prim", "kont"} -> [t |-> "proc"]
    [] OTHER -> [t |-> "opaque"]

=============================================================================
