------------------------------- MODULE Codec -------------------------------
(***************************************************************************)
(* C10: write and read as a pair of maps between data and texts, with the  *)
(* text as an opaque token.  The specification does not know the external  *)
(* syntax; it states what a correct printer/reader pair satisfies:         *)
(*   (W)  write is a function, and it is injective on data                 *)
(*   (R)  read is a left inverse of write: Read(Write(d)) = d, consuming   *)
(*        the whole text                                                   *)
(*   (S)  writing is stable: Write(Read(t)) = t                            *)
(*   (Q)  quoting a datum and evaluating it returns the datum              *)
(* Data are compared structurally, numbers by value and exactness (an      *)
(* inexact number by its IEEE bit pattern).                                *)
(*                                                                         *)
(* The abstract machine keeps the ghost map written: text -> datum of all  *)
(* Write steps so far; WriteOK is the enabling condition of a Write step   *)
(* (it would not map one text to two different data).  Trace_Codec checks  *)
(* recorded Write/Read/Eval steps of the implementation against these      *)
(* conditions.                                                             *)
(***************************************************************************)
EXTENDS Naturals, Sequences, FiniteSets

RECURSIVE Same(_, _)
Same(a, b) ==
  /\ a.t = b.t
  /\ CASE a.t \in {"bool", "char", "exact", "inexact", "str", "sym"} -> a.v = b.v
       [] a.t = "nil" -> TRUE
       [] a.t = "list" -> /\ Len(a.v) = Len(b.v)
                          /\ \A i \in 1..Len(a.v) : Same(a.v[i], b.v[i])
                          /\ Same(a.tl, b.tl)
       [] a.t = "vec" -> /\ Len(a.v) = Len(b.v)
                         /\ \A i \in 1..Len(a.v) : Same(a.v[i], b.v[i])
       [] OTHER -> FALSE      \* procedures, unspecified values ... are not data

\* ghost map as a set of <<text, datum>> pairs
WriteOK(written, t, d) == \A p \in written : p[1] = t => Same(p[2], d)
ReadOK(written, t, d2) == \A p \in written : p[1] = t => Same(p[2], d2)
=============================================================================
