----------------------------- MODULE Trace_CEK -----------------------------
(***************************************************************************)
(* Trace validation of recorded sessions against SchemeCEK.                *)
(*                                                                         *)
(* The input (IOEnv.TRACE, ndjson) holds one record per session:           *)
(*   id, syms (symbol table: fixed names first), forms (program data),     *)
(*   runs: [cfg, obs: one observation per form] -- the same session        *)
(*   executed by the implementation under several configurations           *)
(*   (collection schedules, slice budgets, unrelated prefix), and          *)
(*   optionally expect: hand-stated R7RS results (the spec's regression).  *)
(*                                                                         *)
(* Each session is an independent behaviour (Init chooses the session);    *)
(* the machine is deterministic, so validation is linear.  At the end of   *)
(* every form the outcome of the machine is compared with every run's      *)
(* observation; a difference is printed as a MISMATCH line and the         *)
(* behaviour goes on, so one difference never hides the rest.  An END line *)
(* per session lets the driver check that every session was consumed.      *)
(***************************************************************************)
EXTENDS SchemeCEK, Json, IOUtils, TLCExt

Rec == ndJsonDeserialize(IOEnv.TRACE)
MaxSteps == 400000

VARIABLES m, si, fi, ph, tot, hist     \* hist: per finished form the maximal continuation depth (ghost)
vars == <<m, si, fi, ph, tot, hist>>

Has(r, f) == f \in DOMAIN r

-----------------------------------------------------------------------------
(* expected datum (from the machine) against observed datum *)
RECURSIVE Match(_, _)
Match(e, g) ==
  IF e.t \in {"void", "opaque", "undef"} THEN TRUE
  ELSE CASE e.t = "proc" -> g.t \in {"proc", "kont"}
         [] e.t # g.t -> FALSE
         [] e.t \in {"int", "bool", "char", "str"} -> e.v = g.v
         [] e.t = "num" -> e.s = g.s
         [] e.t = "sym" -> IF Has(e, "n") THEN Has(g, "n") /\ e.n = g.n ELSE Has(g, "v") /\ e.v = g.v
         [] e.t = "nil" -> TRUE
         [] e.t = "list" -> /\ Len(e.v) = Len(g.v)
                            /\ \A i \in 1..Len(e.v) : Match(e.v[i], g.v[i])
                            /\ Match(e.tl, g.tl)
         [] e.t = "vec" -> /\ Len(e.v) = Len(g.v)
                           /\ \A i \in 1..Len(e.v) : Match(e.v[i], g.v[i])
         [] OTHER -> FALSE

OutMatch(eo, go) ==
  /\ Len(eo) = Len(go)
  /\ \A i \in 1..Len(eo) : eo[i].w = go[i].w /\ Match(eo[i].v, go[i].v)

\* Does observation o agree with the finished machine mm?  Returns "" or a description.
Judge(mm, o) ==
  IF o.r \in {"panic", "timeout", "abort", "stacklimit"} THEN o.r
  ELSE IF Has(o, "render_panic") THEN "error cannot be rendered"
  ELSE IF mm.status = "done" THEN
         IF o.r # "ok" THEN "failure where a value is prescribed"
         ELSE IF ~Match(Render(mm, mm.res), o.v) THEN "value"
         ELSE IF ~OutMatch(mm.out, o.out) THEN "output"
         ELSE ""
  ELSE \* fail
         IF o.r # "err" THEN "value where a failure is prescribed"
         ELSE IF mm.res.kind = "user" /\ ~(Has(o, "u") /\ Len(o.u) = Len(mm.res.payload)
                                            /\ \A i \in 1..Len(o.u) : Match(mm.res.payload[i], o.u[i]))
              THEN "error payload"
         ELSE IF ~OutMatch(mm.out, o.out) THEN "output"
         ELSE ""

Report(kind, run, what, exp, got) ==
  PrintT(<<"MISMATCH", ToJson([id |-> Rec[si].id, form |-> fi, kind |-> kind, run |-> run, what |-> what,
                               exp |-> exp, got |-> got])>>)

ExpDesc(mm) == IF mm.status = "done" THEN [r |-> "ok", v |-> Render(mm, mm.res), out |-> mm.out]
               ELSE [r |-> "err", kind |-> mm.res.kind, out |-> mm.out]

StackBound(mm) == (mm.maxd + 2) * (2 * Rec[si].w + 5)
CheckRuns(mm) ==
  \A j \in 1..Len(Rec[si].runs) :
     LET run == Rec[si].runs[j] IN
     IF Len(run.obs) < fi THEN TRUE
     ELSE LET o == run.obs[fi]
              jd == Judge(mm, o) IN
          /\ IF jd = "" THEN TRUE ELSE Report("conformance", run.cfg, jd, ExpDesc(mm), o)
          \* stack discipline (C07): every evaluation starts from the same stack pointer
          /\ IF ~Has(o, "sp0") THEN TRUE
             ELSE IF o.sp0 = run.obs[1].sp0 THEN TRUE
             ELSE Report("stack", run.cfg, "stack pointer at start of evaluation differs from first evaluation",
                         run.obs[1].sp0, o.sp0)
          \* the stack trace belongs to the failed evaluation (C07): a successful evaluation reports none
          /\ IF ~Has(o, "stale_tr") THEN TRUE
             ELSE Report("stack", run.cfg, "a successful evaluation still reports the stack trace of an earlier failure", "none", "stale")
          \* slices (C13): a resumed slice with work left executes at least one instruction
          /\ IF ~Has(o, "stalled") THEN TRUE
             ELSE IF o.stalled = 0 THEN TRUE
             ELSE Report("slices", run.cfg, "slices that executed no instruction", 0, o.stalled)
          \* twin history (C07): a probe behaves exactly as in the history in which the failing forms
          \* were replaced by their completed effects -- outcome, value, error payload and stack trace
          /\ IF ~Has(o, "twin") THEN TRUE
             ELSE IF /\ o.r = o.twin.r
                     /\ (Has(o, "v") = Has(o.twin, "v")) /\ (~Has(o, "v") \/ o.v = o.twin.v)
                     /\ (Has(o, "u") = Has(o.twin, "u")) /\ (~Has(o, "u") \/ o.u = o.twin.u)
                     /\ (Has(o, "tr") = Has(o.twin, "tr")) /\ (~Has(o, "tr") \/ o.tr = o.twin.tr)
                  THEN TRUE
             ELSE Report("twin", run.cfg, "probe differs from the residue-free twin history", o.twin,
                         [r |-> o.r, tr |-> IF Has(o, "tr") THEN o.tr ELSE <<>>])
          \* repeated identical failures (C07): no accumulation of stack capacity or live memory
          /\ IF ~Has(o, "rep") THEN TRUE
             ELSE IF Len(run.obs) < o.rep THEN TRUE
             ELSE IF /\ o.cap = run.obs[o.rep].cap
                     /\ (~(Has(o, "live") /\ Has(run.obs[o.rep], "live")) \/ o.live = run.obs[o.rep].live)
                  THEN TRUE
             ELSE Report("accumulation", run.cfg, "stack capacity or live cells grew over repeated identical failures",
                         [cap |-> run.obs[o.rep].cap, live |-> IF Has(run.obs[o.rep], "live") THEN run.obs[o.rep].live ELSE -1],
                         [cap |-> o.cap, live |-> IF Has(o, "live") THEN o.live ELSE -1])
          \* tail calls (C04): refinement bound on the control stack
          /\ IF ~(Has(Rec[si], "w") /\ Has(o, "maxsp") /\ mm.status = "done") THEN TRUE
             ELSE IF o.maxsp - o.sp0 <= StackBound(mm) THEN TRUE
             ELSE Report("stackbound", run.cfg,
                         "maximal stack depth exceeds the bound derived from the continuation depth",
                         StackBound(mm), o.maxsp - o.sp0)

\* hand-stated expectation (regression of the specification itself)
CheckExpect(mm) ==
  IF ~Has(Rec[si], "expect") THEN TRUE
  ELSE LET e == Rec[si].expect[fi] IN
       CASE e.k = "none" -> TRUE
         [] e.k = "fail" -> IF mm.status = "fail" THEN TRUE
                            ELSE Report("corpus", "spec", "expected failure", e, ExpDesc(mm))
         [] e.k = "val" -> IF mm.status = "done" /\ Match(ValToDatum(mm.res, mm.hp, 64, <<>>), e.v) THEN TRUE
                           ELSE Report("corpus", "spec", "expected value", e, ExpDesc(mm))

-----------------------------------------------------------------------------
Init ==
  /\ si \in 1..Len(Rec)
  /\ fi = 0
  /\ ph = "next"
  /\ tot = 0
  /\ hist = <<>>
  /\ m = InitMachine(Rec[si].syms)

Begin ==
  /\ ph = "next" /\ fi < Len(Rec[si].forms)
  /\ fi' = fi + 1
  /\ m' = StartForm(m, Rec[si].forms[fi + 1])
  /\ ph' = "run"
  /\ UNCHANGED <<si, tot, hist>>

Step ==
  /\ ph = "run" /\ Running(m)
  /\ m' = IF m.steps >= MaxSteps THEN OutOfModel(m, "step limit") ELSE StepM(m)
  /\ UNCHANGED <<si, fi, ph, tot, hist>>

Finish ==
  /\ ph = "run" /\ ~Running(m)
  /\ IF m.status = "oom" THEN TRUE ELSE CheckRuns(m) /\ CheckExpect(m)
  /\ ph' = IF m.status = "oom" THEN "stop" ELSE "next"
  /\ tot' = tot + m.steps
  /\ hist' = Append(hist, m.maxd)
  /\ UNCHANGED <<m, si, fi>>

\* C04, checked when the session is complete:
\*  (a) the continuation depth of the tail-recursive loop is the same for n = 10 and n = 100 (independent of n);
\*  (b) the implementation-only runs with n = 1000 and n = 100000 return the value of their non-tail twin and stay
\*      within the stack bound derived from the depth the specification measured for the same loop.
TailDepth == IF Has(Rec[si], "tailforms") /\ Len(hist) >= Rec[si].tailforms[Len(Rec[si].tailforms)]
             THEN hist[Rec[si].tailforms[Len(Rec[si].tailforms)]] ELSE 0
CheckTail ==
  IF ~Has(Rec[si], "tailpairs") \/ ph = "stop" THEN TRUE
  ELSE /\ \A i \in 1..Len(Rec[si].tailpairs) :
            LET p == Rec[si].tailpairs[i] IN
            IF Len(hist) < p[2] THEN TRUE
            ELSE IF hist[p[1]] = hist[p[2]] THEN TRUE
            ELSE Report("taildepth", "spec", "continuation depth of the loop depends on n", hist[p[1]], hist[p[2]])
       /\ \A i \in 1..Len(Rec[si].big) :
            LET b == Rec[si].big[i]
                bound == (TailDepth + 2) * (2 * Rec[si].w + 5) IN
            /\ IF ~Has(b, "tail") THEN TRUE
               ELSE IF b.tail.r = "ok" /\ b.tail.maxsp <= bound THEN TRUE
               ELSE Report("stackbound", "plain", "loop of tail calls: failure or stack beyond the bound at large n",
                           [n |-> b.n, bound |-> bound], b.tail)
            /\ IF ~(Has(b, "tail") /\ Has(b, "twin")) THEN TRUE
               ELSE IF b.twin.r # "ok" THEN TRUE      \* the twin is an oracle only when it completes
               ELSE IF b.tail.r = "ok" /\ b.tail.v = b.twin.v THEN TRUE
               ELSE Report("tailvalue", "plain", "tail-recursive loop and its non-tail twin differ at large n",
                           b.twin, b.tail)

\* a session during which the implementation aborted the host process (recorded by the isolated runner)
CheckAbort == IF ~Has(Rec[si], "abort") THEN TRUE
              ELSE Report("abort", "isolated", "the host process was aborted while running this session",
                          "normal termination", Rec[si].abort)

End ==
  /\ ph \in {"next", "stop"} /\ (ph = "stop" \/ fi = Len(Rec[si].forms))
  /\ CheckTail
  /\ CheckAbort
  /\ PrintT(<<"END", ToJson([id |-> Rec[si].id, forms |-> fi, oom |-> (ph = "stop"),
                            why |-> IF ph = "stop" THEN m.res.payload ELSE "", steps |-> tot,
                            maxd |-> m.maxd, rules |-> m.rules])>>)
  /\ ph' = "end"
  /\ UNCHANGED <<m, si, fi, tot, hist>>

Next == Begin \/ Step \/ Finish \/ End
Spec == Init /\ [][Next]_vars

\* Ghost-variable sanity evaluated in every state.
DepthInv == m.maxd >= Len(m.k) \/ ~Running(m)
=============================================================================
