------------------------------- MODULE Reader -------------------------------
(***************************************************************************)
(* The reader discipline of property C11, written from R7RS 7.1 (formal    *)
(* syntax: 7.1.1 lexical structure, 7.1.2 external representations) and    *)
(* from the property statement -- not from marwood's parse.rs.             *)
(*                                                                         *)
(* Part 1: token classes and the grammar of a datum, twice:                *)
(*   - IsDatum: the BNF of R7RS 7.1.2 read as a recursive predicate over   *)
(*     token-class sequences (the definition);                             *)
(*   - Scan/Classify: a pushdown recogniser that reads the sequence left   *)
(*     to right and classifies what a one-datum reader must report.        *)
(*   MC_Reader has TLC check that the two agree and that the classifier is *)
(*   prefix-consistent, for every sequence up to a bound.                  *)
(*                                                                         *)
(* Part 2: the span discipline of a scanner, over a text given as code     *)
(* points with their UTF-8 byte widths and token spans in byte offsets.    *)
(***************************************************************************)
EXTENDS Naturals, Sequences, FiniteSets

-----------------------------------------------------------------------------
(* Part 1.  Token classes.                                                 *)
(*   LP   (                    RP   )                                      *)
(*   LB   [ or {               RB   ] or }     (marwood accepts the R6RS   *)
(*        style alternative brackets; R7RS reserves them.  A rendering     *)
(*        spells all LB/RB of one text with the same kind, so LB..RB is a  *)
(*        matching pair and LP..RB / LB..RP / VEC..RB are mismatched.)     *)
(*   VEC  #(                   PFX  ' ` ,      (abbreviation prefixes)     *)
(*   DOT  .                    ATOM any simple datum: boolean, number      *)
(*        (including radix/exactness prefixes), character, string, symbol  *)
(* Not modelled because marwood has no such tokens: ,@  #u8(  #; #| labels *)
(***************************************************************************)
Classes == {"LP", "RP", "LB", "RB", "VEC", "PFX", "DOT", "ATOM"}
Opens   == {"LP", "LB", "VEC"}
Closes  == {"RP", "RB"}
Kind(t) == IF t \in {"LB", "RB"} THEN "a" ELSE "r"      \* bracket kind: round / alternative
CloserOf(t) == IF t = "LB" THEN "RB" ELSE "RP"

(***************************************************************************)
(* R7RS 7.1.2 as a predicate.                                              *)
(*   datum        -> simple | compound                                     *)
(*   compound     -> list | vector | abbreviation                          *)
(*   list         -> ( datum* ) | ( datum+ . datum )                       *)
(*   abbreviation -> abbrev-prefix datum                                   *)
(*   vector       -> #( datum* )                                           *)
(***************************************************************************)
RECURSIVE IsDatum(_), IsDatumSeq(_)
IsDatum(s) ==
  LET n == Len(s) IN
  /\ n >= 1
  /\ \/ n = 1 /\ s[1] = "ATOM"
     \/ n >= 2 /\ s[1] = "PFX" /\ IsDatum(SubSeq(s, 2, n))
     \/ /\ n >= 2 /\ s[1] \in {"LP", "LB"} /\ s[n] = CloserOf(s[1])
        /\ LET inner == SubSeq(s, 2, n - 1)
               m == n - 2 IN
           \/ IsDatumSeq(inner)
           \/ \E i \in 2..(m - 1) : /\ inner[i] = "DOT"
                                    /\ IsDatumSeq(SubSeq(inner, 1, i - 1))
                                    /\ IsDatum(SubSeq(inner, i + 1, m))
     \/ n >= 2 /\ s[1] = "VEC" /\ s[n] = "RP" /\ IsDatumSeq(SubSeq(s, 2, n - 1))
IsDatumSeq(s) ==
  \/ Len(s) = 0
  \/ \E k \in 1..Len(s) : IsDatum(SubSeq(s, 1, k)) /\ IsDatumSeq(SubSeq(s, k + 1, Len(s)))

(***************************************************************************)
(* The pushdown recogniser.  The stack holds one frame per construct that  *)
(* is open:                                                                *)
(*   Q   an abbreviation prefix waiting for its datum                      *)
(*   L0  a list just opened           L1  a list with >= 1 element         *)
(*   LD  a list after its dot, waiting for the tail datum                  *)
(*   LT  a list after the tail datum, waiting for its closing bracket      *)
(*   V   a vector                                                          *)
(* The empty stack is the start: one datum is expected.                    *)
(***************************************************************************)
Top(st) == st[Len(st)]
Pop(st) == SubSeq(st, 1, Len(st) - 1)
Fr(f, b) == [f |-> f, b |-> b]

Go(st) == [k |-> "go", st |-> st]
Done   == [k |-> "done", st |-> <<>>]
Dead   == [k |-> "dead", st |-> <<>>]
Mis    == [k |-> "mis", st |-> <<>>]

\* a datum has just been completed directly inside the construct on top of st
RECURSIVE Complete(_)
Complete(st) ==
  IF Len(st) = 0 THEN Done
  ELSE LET fr == Top(st) IN
       CASE fr.f = "Q"             -> Complete(Pop(st))
         [] fr.f \in {"L0", "L1"}  -> Go(Append(Pop(st), Fr("L1", fr.b)))
         [] fr.f = "LD"            -> Go(Append(Pop(st), Fr("LT", fr.b)))
         [] fr.f = "V"             -> Go(st)
         [] OTHER                  -> Dead

DatumMayStart(st) == Len(st) = 0 \/ Top(st).f \in {"L0", "L1", "LD", "V", "Q"}

Step(st, t) ==
  CASE t = "ATOM"          -> IF DatumMayStart(st) THEN Complete(st) ELSE Dead
    [] t = "PFX"           -> IF DatumMayStart(st) THEN Go(Append(st, Fr("Q", "-"))) ELSE Dead
    [] t \in {"LP", "LB"}  -> IF DatumMayStart(st) THEN Go(Append(st, Fr("L0", Kind(t)))) ELSE Dead
    [] t = "VEC"           -> IF DatumMayStart(st) THEN Go(Append(st, Fr("V", "r"))) ELSE Dead
    [] t = "DOT"           -> IF Len(st) > 0 /\ Top(st).f = "L1"
                              THEN Go(Append(Pop(st), Fr("LD", Top(st).b))) ELSE Dead
    [] t \in Closes        -> IF Len(st) > 0 /\ Top(st).f \in {"L0", "L1", "LT", "V"}
                              THEN (IF Top(st).b = Kind(t) THEN Complete(Pop(st)) ELSE Mis)
                              ELSE Dead

(***************************************************************************)
(* Outcomes.                                                               *)
(*   Datum(k)     the first k tokens are exactly one datum                 *)
(*   Incomplete   the tokens are a proper prefix of a well-formed datum    *)
(*   Error        no continuation makes the text well formed and the       *)
(*                offending construct is closed (its outermost bracket has *)
(*                been matched, or it is not inside brackets at all): a    *)
(*                reader must neither return a datum nor ask for more      *)
(*   Unspecified  nothing is prescribed: the sequence is already hopeless  *)
(*                but brackets are still open ("( a . b c": a reader that  *)
(*                waits for the closing bracket before complaining is as   *)
(*                good as one that complains at once), or a bracket is     *)
(*                closed by one of the other kind (not R7RS).              *)
(***************************************************************************)
Res(c, k, st) == [c |-> c, k |-> k, st |-> st]

\* after the sequence became hopeless only the bracket structure is followed
RECURSIVE DeadRun(_, _, _)
DeadRun(toks, i, bs) ==
  IF Len(bs) = 0 THEN Res("Error", 0, <<>>)
  ELSE IF i > Len(toks) THEN Res("Unspecified", 0, <<>>)
  ELSE LET t == toks[i] IN
       IF t \in Opens THEN DeadRun(toks, i + 1, Append(bs, Kind(t)))
       ELSE IF t \in Closes
            THEN (IF bs[Len(bs)] = Kind(t) THEN DeadRun(toks, i + 1, Pop(bs))
                  ELSE Res("Unspecified", 0, <<>>))
            ELSE DeadRun(toks, i + 1, bs)

BracketKinds(st) ==
  LET br == SelectSeq(st, LAMBDA fr : fr.f # "Q") IN [j \in 1..Len(br) |-> br[j].b]

RECURSIVE Run(_, _, _)
Run(toks, i, st) ==
  IF i > Len(toks) THEN Res("Incomplete", 0, st)
  ELSE LET r == Step(st, toks[i]) IN
       CASE r.k = "done" -> Res("Datum", i, <<>>)
         [] r.k = "go"   -> Run(toks, i + 1, r.st)
         [] r.k = "mis"  -> Res("Unspecified", 0, <<>>)
         [] OTHER        -> DeadRun(toks, i, BracketKinds(st))

Scan(toks) == Run(toks, 1, <<>>)
Classify(toks) == LET r == Scan(toks) IN [c |-> r.c, k |-> r.k]

DatumOf(k)  == [c |-> "Datum", k |-> k]
Incomplete  == [c |-> "Incomplete", k |-> 0]
Error       == [c |-> "Error", k |-> 0]
Unspecified == [c |-> "Unspecified", k |-> 0]

\* the shortest continuation that completes an incomplete sequence (witness for Incomplete)
RECURSIVE Closers(_)
Closers(st) ==
  IF Len(st) = 0 THEN <<>>
  ELSE LET fr == Top(st) IN
       (IF fr.f = "Q" THEN <<>> ELSE IF fr.b = "a" THEN <<"RB">> ELSE <<"RP">>) \o Closers(Pop(st))
Completion(st) ==
  (IF Len(st) = 0 \/ Top(st).f \in {"Q", "LD"} THEN <<"ATOM">> ELSE <<>>) \o Closers(st)

(***************************************************************************)
(* Reading a text datum by datum: the ends of the successive data, and     *)
(* what the reader must report for what is left after the last of them.    *)
(***************************************************************************)
RECURSIVE Split(_, _)
Split(toks, p) ==
  IF p >= Len(toks) THEN <<>>
  ELSE LET r == Classify(SubSeq(toks, p + 1, Len(toks))) IN
       IF r.c = "Datum" THEN <<p + r.k>> \o Split(toks, p + r.k) ELSE <<>>

Rest(toks) ==
  LET ks == Split(toks, 0)
      p == IF Len(ks) = 0 THEN 0 ELSE ks[Len(ks)] IN
  IF p = Len(toks) /\ Len(toks) > 0 THEN "End" ELSE Classify(SubSeq(toks, p + 1, Len(toks))).c

-----------------------------------------------------------------------------
(* Part 2.  Span discipline.                                               *)
(* A text is (cps, w): code points and the UTF-8 width of each; spans are  *)
(* pairs <<start, end>> of byte offsets, end exclusive.                    *)
(***************************************************************************)
\* The 25 code points with the Unicode property White_Space (PropList.txt)
WhiteSpace == {9, 10, 11, 12, 13, 32, 133, 160, 5760}
              \cup (8192..8202)
              \cup {8232, 8233, 8239, 8287, 12288}
Semicolon == 59
LineFeed  == 10

Utf8Width(cp) == IF cp < 128 THEN 1 ELSE IF cp < 2048 THEN 2 ELSE IF cp < 65536 THEN 3 ELSE 4

\* byte offset of every character and of the end of the text: n+1 entries
RECURSIVE OffsFrom(_, _, _)
OffsFrom(w, j, acc) == IF j > Len(w) THEN <<acc>> ELSE <<acc>> \o OffsFrom(w, j + 1, acc + w[j])
Offsets(w) == OffsFrom(w, 1, 0)

\* characters a..b-1 (indices) consist of white space and ; comments that run to the
\* end of their line.  mode "c": inside a comment.  atEnd: the stretch ends the text,
\* where an unterminated comment is fine; elsewhere a token inside a comment is not.
RECURSIVE GapOK(_, _, _, _, _)
GapOK(cps, a, b, inComment, atEnd) ==
  IF a >= b THEN (~inComment \/ atEnd)
  ELSE IF inComment THEN GapOK(cps, a + 1, b, cps[a] # LineFeed, atEnd)
  ELSE IF cps[a] = Semicolon THEN GapOK(cps, a + 1, b, TRUE, atEnd)
  ELSE IF cps[a] \in WhiteSpace THEN GapOK(cps, a + 1, b, FALSE, atEnd)
  ELSE FALSE

\* index j with off[j] = o
IndexOf(off, o) == CHOOSE j \in 1..Len(off) : off[j] = o

(* The clauses, in the order in which they are reported.  "" = discipline holds. *)
SpanVerdict(cps, w, spans) ==
  LET n == Len(cps)
      T == Len(spans)
      off == Offsets(w)
      total == off[n + 1]
      B == {off[j] : j \in 1..(n + 1)}
      ix(o) == IndexOf(off, o) IN
  IF Len(w) # n \/ \E j \in 1..n : w[j] # Utf8Width(cps[j]) THEN "record: widths are not the UTF-8 widths"
  ELSE IF \E i \in 1..T : spans[i][1] >= spans[i][2] THEN "empty token"
  ELSE IF \E i \in 1..T : spans[i][2] > total THEN "token out of bounds"
  ELSE IF \E i \in 1..T : spans[i][1] \notin B \/ spans[i][2] \notin B THEN "token not on a character boundary"
  ELSE IF \E i \in 1..(T - 1) : spans[i][2] > spans[i + 1][1] THEN "tokens overlap or are out of order"
  ELSE IF T = 0 THEN (IF GapOK(cps, 1, n + 1, FALSE, TRUE) THEN "" ELSE "characters outside tokens that are neither white space nor comment")
  ELSE IF ~GapOK(cps, 1, ix(spans[1][1]), FALSE, FALSE) THEN "text before the first token is not white space/comments"
  ELSE IF \E i \in 1..(T - 1) : ~GapOK(cps, ix(spans[i][2]), ix(spans[i + 1][1]), FALSE, FALSE)
       THEN "gap between tokens is not white space/comments"
  ELSE IF ~GapOK(cps, ix(spans[T][2]), n + 1, FALSE, TRUE) THEN "text after the last token is not white space/comments"
  ELSE ""

SpanDiscipline(cps, w, spans) == SpanVerdict(cps, w, spans) = ""
=============================================================================
