---------------------------- MODULE Trace_Reader ----------------------------
(***************************************************************************)
(* Trace validation, implementation -> specification, for property C11.    *)
(*                                                                         *)
(* The input (IOEnv.TRACE, ndjson; written by `mwverif reader spans`) has  *)
(* one record per text:                                                    *)
(*   id, fam     number and family (unicode / soup / mutant / nested)      *)
(*   cps, w      the text: code points and the UTF-8 width of each         *)
(*   scan        what lex::scan did: "ok" | "incomplete" | "error" |       *)
(*               "panic"                                                   *)
(*   spans, ty   for "ok": the byte span and the kind of every token       *)
(*   parse       what parse_text did: "ok" | "incomplete" | "atom" (the    *)
(*               content of one character/string token was rejected) |     *)
(*               "structure" | "lex" | "panic" | "badrest"                 *)
(*   rest        for "ok": byte offset of the remaining text, -1 if none   *)
(*                                                                         *)
(* For every record TLC evaluates                                          *)
(*   - totality: neither the scanner nor the parser panicked, and the      *)
(*     parser's outcome is consistent with the scanner's;                  *)
(*   - the span discipline of Reader.tla (SpanVerdict);                    *)
(*   - the remaining text begins at a token;                               *)
(*   - the grammar clauses: the token kinds are mapped to the classes of   *)
(*     Reader.tla and parse_text's outcome is compared with Classify.      *)
(* and prints one MISMATCH line per record that differs.  The records are  *)
(* split into STRIDE independent chains (initial states) so that the TLC   *)
(* workers share the work; each chain ends with an END line of counts.     *)
(***************************************************************************)
EXTENDS Reader, Json, IOUtils, TLC, Integers

Rec == ndJsonDeserialize(IOEnv.TRACE)
Stride == IF "STRIDE" \in DOMAIN IOEnv THEN atoi(IOEnv.STRIDE) ELSE 16

VARIABLES i, cnt, done
vars == <<i, cnt, done>>

-----------------------------------------------------------------------------
\* token kinds of the record -> classes of Reader.tla.  A number with radix/exactness
\* prefixes (#x1F, #e#x10) is ONE token of R7RS but NPFX.. NUM in marwood: the group is one ATOM.
ClassOf(ty) == CASE ty \in {"ATOM", "ATOMF", "NUM"} -> "ATOM"
                 [] ty = "LC" -> "LB"
                 [] ty = "RC" -> "RB"
                 [] OTHER -> ty

RECURSIVE GroupStart(_, _)
GroupStart(ty, j) == IF j > 1 /\ ty[j - 1] = "NPFX" THEN GroupStart(ty, j - 1) ELSE j

\* texts the grammar of Reader.tla says nothing about
OutsideGrammar(r) ==
  LET T == Len(r.ty) IN
  \* square and curly brackets in one text: LB/RB would not be matching pairs
  \/ (\E a \in 1..T : r.ty[a] \in {"LB", "RB"}) /\ (\E a \in 1..T : r.ty[a] \in {"LC", "RC"})
  \* a number prefix that is not immediately followed by the rest of a number: not a token of R7RS
  \/ \E a \in 1..T : /\ r.ty[a] = "NPFX"
                     /\ \/ a = T
                        \/ r.ty[a + 1] \notin {"NPFX", "NUM"}
                        \/ r.spans[a][2] # r.spans[a + 1][1]

GrammarVerdict(r) ==
  LET T == Len(r.ty)
      keep == SelectSeq([a \in 1..T |-> a], LAMBDA a : r.ty[a] # "NPFX")   \* original index of each R7RS token
      K == Len(keep)
      cls == [a \in 1..K |-> ClassOf(r.ty[keep[a]])]
      c == Classify(cls)
      fallible(k) == \E a \in 1..k : r.ty[keep[a]] = "ATOMF"
      restAfter(k) == IF k < K THEN r.spans[GroupStart(r.ty, keep[k + 1])][1] ELSE -1 IN
  CASE c.c = "Datum" ->
         IF r.parse = "ok"
         THEN (IF r.rest = restAfter(c.k) THEN ""
               ELSE "remaining text is not the input suffix that begins at the token after the first datum")
         ELSE IF r.parse = "atom" /\ fallible(c.k) THEN ""
         ELSE "complete datum reported as " \o r.parse
    [] c.c = "Incomplete" ->
         IF r.parse = "incomplete" \/ (r.parse = "atom" /\ fallible(K)) THEN ""
         ELSE "text cut inside a well-formed datum reported as " \o r.parse
    [] c.c = "Error" ->
         IF r.parse = "structure" \/ (r.parse = "atom" /\ fallible(K)) THEN ""
         ELSE "malformed text reported as " \o r.parse
    [] OTHER -> ""

Judge(r) ==
  IF r.scan = "panic" THEN "the scanner panicked"
  ELSE IF r.parse = "panic" THEN "the parser panicked"
  ELSE IF r.parse = "badrest" THEN "remaining text is not a suffix of the input"
  ELSE IF r.scan = "incomplete" THEN (IF r.parse = "incomplete" THEN "" ELSE "scanner incomplete but parse_text reports " \o r.parse)
  ELSE IF r.scan = "error" THEN (IF r.parse = "lex" THEN "" ELSE "scanner error but parse_text reports " \o r.parse)
  ELSE IF r.scan # "ok" THEN "record: unknown scan outcome"
  ELSE LET sv == SpanVerdict(r.cps, r.w, r.spans) IN
       IF sv # "" THEN sv
       ELSE IF r.parse \notin {"ok", "incomplete", "atom", "structure"} THEN "scanner succeeded but parse_text reports " \o r.parse
       ELSE IF r.parse = "ok" /\ r.rest # -1 /\ ~\E a \in 2..Len(r.spans) : r.spans[a][1] = r.rest
            THEN "remaining text does not begin at a token after the first"
       ELSE IF OutsideGrammar(r) THEN ""
       ELSE GrammarVerdict(r)

Judged(r) == r.scan = "ok" /\ ~OutsideGrammar(r)

-----------------------------------------------------------------------------
Zero == [texts |-> 0, scanned |-> 0, tokens |-> 0, grammar |-> 0, datum |-> 0, incomplete |-> 0, error |-> 0,
         unspecified |-> 0, maxtokens |-> 0, multibyte |-> 0]

Count(c, r) ==
  LET ok == r.scan = "ok"
      T == IF ok THEN Len(r.spans) ELSE 0
      g == ok /\ ~OutsideGrammar(r)
      k == IF g THEN Classify([a \in 1..Len(SelectSeq(r.ty, LAMBDA y : y # "NPFX")) |->
                                 ClassOf(SelectSeq(r.ty, LAMBDA y : y # "NPFX")[a])]).c ELSE "" IN
  [texts |-> c.texts + 1,
   scanned |-> c.scanned + (IF ok THEN 1 ELSE 0),
   tokens |-> c.tokens + T,
   grammar |-> c.grammar + (IF g THEN 1 ELSE 0),
   datum |-> c.datum + (IF k = "Datum" THEN 1 ELSE 0),
   incomplete |-> c.incomplete + (IF k = "Incomplete" THEN 1 ELSE 0),
   error |-> c.error + (IF k = "Error" THEN 1 ELSE 0),
   unspecified |-> c.unspecified + (IF k = "Unspecified" THEN 1 ELSE 0),
   maxtokens |-> IF T > c.maxtokens THEN T ELSE c.maxtokens,
   multibyte |-> c.multibyte + (IF ok /\ T > 0 /\ \E j \in 1..Len(r.w) : r.w[j] > 1 THEN 1 ELSE 0)]

Init == i \in 1..Stride /\ cnt = Zero /\ done = FALSE

Advance ==
  /\ i <= Len(Rec)
  /\ LET r == Rec[i]
         v == Judge(r) IN
     /\ IF v = "" THEN TRUE
        ELSE PrintT(<<"MISMATCH", ToJson([id |-> r.id, fam |-> r.fam, what |-> v, cps |-> r.cps,
                                          scan |-> r.scan, spans |-> r.spans, ty |-> r.ty,
                                          parse |-> r.parse, rest |-> r.rest])>>)
     /\ cnt' = Count(cnt, r)
  /\ i' = i + Stride
  /\ UNCHANGED done

End ==
  /\ i > Len(Rec) /\ ~done
  /\ PrintT(<<"END", ToJson(cnt)>>)
  /\ done' = TRUE
  /\ UNCHANGED <<i, cnt>>

Next == Advance \/ End
Spec == Init /\ [][Next]_vars
=============================================================================
