------------------------------ MODULE Strings ------------------------------
(***************************************************************************)
(* C15: strings as mutable vectors of Unicode scalar values.  A pool of N  *)
(* named values (strings, and the lists / vectors / characters / numbers   *)
(* the conversion procedures produce); one step applies one string or      *)
(* character procedure (module Prims, character data from CharTable) to    *)
(* arguments drawn from the pool, from index ranges -1 .. len+1, from a    *)
(* character palette covering UTF-8 widths 1 to 4 and from integers across *)
(* the surrogate gap and above U+10FFFF.  As in Store.tla every step       *)
(* records the required outcome and the rendering of every pool object.    *)
(***************************************************************************)
EXTENDS Prims, Json, IOUtils

CONSTANTS N, Depth, Sim

VARIABLES hp, pool, hist, variant
vars == <<hp, pool, hist, variant>>

\* characters: NUL a A z 0 space _ DEL | multiplication-sign e-acute E-acute sharp-s n-apostrophe j-caron lambda Lambda | euro CJK fi-ligature U+FFFF | emoji U+10FFFF
CharPalette == <<0, 97, 65, 122, 48, 32, 95, 127, 215, 233, 201, 223, 329, 496, 955, 923, 8364, 20013, 64257, 65535, 128512, 1114111>>
\* integers for integer->char: around the surrogate gap, the upper end, negative
IntPalette == <<-1, 0, 65, 55295, 55296, 57343, 57344, 1114111, 1114112>>

P(k) == [k |-> "p", n |-> k]
I(n) == [k |-> "int", n |-> n]
C(c) == [k |-> "chr", n |-> c]
\* exact integers beyond TLC's 32-bit range, by index into a table the harness shares (harness/src/pool.rs BIG):
\* 2^32+97, 97-2^32, 2^40+97, 2^63+97, 2^32+0x1F436 -- all far outside the scalar values, their low 32 bits inside
B(i) == [k |-> "big", n |-> i]
NBig == 5
ArgVal(d) == CASE d.k = "p" -> pool[d.n] [] d.k = "int" -> IntV(d.n) [] d.k = "chr" -> CharV(d.n)
               [] d.k = "big" -> [t |-> "bigint", v |-> d.n]

Render(v, h) == ValToDatum(v, h, 40, <<>>)

\* initial pools: construction operations executed by the Step machinery itself
InitOps(v) ==
  CASE v = 1 -> << [op |-> "string", a |-> <<C(97), C(233), C(8364), C(128512)>>, dst |-> 1],    \* widths 1,2,3,4
                   [op |-> "make-string", a |-> <<I(0), C(97)>>, dst |-> 2],                      \* empty
                   [op |-> "string", a |-> <<C(65), C(98), C(67)>>, dst |-> 3],
                   [op |-> "string-copy0", a |-> <<P(1)>>, dst |-> 4] >>
    [] v = 2 -> << [op |-> "make-string", a |-> <<I(3), C(955)>>, dst |-> 1],
                   [op |-> "string", a |-> <<C(128512), C(128512)>>, dst |-> 2],
                   [op |-> "string", a |-> <<C(97), C(32), C(66)>>, dst |-> 3],
                   [op |-> "string-upcase", a |-> <<P(3)>>, dst |-> 4] >>
    [] v = 3 -> << [op |-> "string", a |-> <<C(0), C(127), C(65535), C(1114111)>>, dst |-> 1],
                   [op |-> "string", a |-> <<C(201), C(923)>>, dst |-> 2],
                   [op |-> "string-downcase", a |-> <<P(2)>>, dst |-> 3],
                   [op |-> "string->list", a |-> <<P(1)>>, dst |-> 4] >>
NInit == 4

Slots == 1..N
IdxFor(len) == {-1, 0, 1, len - 1, len, len + 1} \cap (-1..200)
LenOf(v) == IF v.t = "str" THEN Len(hp[v.v].c)
            ELSE IF v.t = "vec" THEN Len(hp[v.v].e)
            ELSE IF v.t = "pair" THEN Len(ListToSeq(v, hp).s) ELSE 0
Chars == {C(CharPalette[i]) : i \in 1..Len(CharPalette)}
Ints == {I(IntPalette[i]) : i \in 1..Len(IntPalette)}

Ops1 == {"string-length", "string->list", "string->vector", "vector->string", "list->string", "string-copy0",
         "string-upcase", "string-downcase", "string-foldcase"}
Cmp2 == {"string=?", "string<?", "string>?", "string<=?", "string>=?",
         "string-ci=?", "string-ci<?", "string-ci>?", "string-ci<=?", "string-ci>=?"}
ChrCmp == {"char=?", "char<?", "char>?", "char<=?", "char>=?", "char-ci=?", "char-ci<?", "char-ci>?", "char-ci<=?", "char-ci>=?"}
Chr1 == {"char->integer", "char-upcase", "char-downcase", "char-foldcase", "char-alphabetic?", "char-numeric?",
         "char-whitespace?", "char-upper-case?", "char-lower-case?", "digit-value"}

\* candidate operations, by family (simulation first draws a family, then one candidate of it)
NFam == 19
CandsOf(f) ==
  CASE f = 1 -> {<<o, <<P(k)>>>> : o \in Ops1, k \in Slots}
    [] f = 2 -> {<<o, <<P(j), P(k)>>>> : o \in Cmp2 \cup {"string-append"}, j \in Slots, k \in Slots}
    [] f = 3 -> {<<o, <<P(i), P(j), P(k)>>>> : o \in {"string=?", "string<?", "string-append"}, i \in Slots, j \in Slots, k \in Slots}
    [] f = 4 -> UNION {{<<"string-ref", <<P(k), I(i)>>>> : i \in IdxFor(LenOf(pool[k]))} : k \in Slots}
    [] f = 5 -> UNION {{<<"string-set!", <<P(k), I(i), c>>>> : i \in IdxFor(LenOf(pool[k])), c \in Chars} : k \in Slots}
    [] f = 6 -> UNION {{<<o, <<P(k), I(s)>>>> : o \in {"string-copy", "string->list"}, s \in IdxFor(LenOf(pool[k]))} : k \in Slots}
    [] f = 7 -> UNION {{<<o, <<P(k), I(s), I(e)>>>> : o \in {"string-copy", "substring", "string->list"},
                          s \in IdxFor(LenOf(pool[k])), e \in IdxFor(LenOf(pool[k]))} : k \in Slots}
    [] f = 8 -> {<<"string-fill!", <<P(k), c>>>> : k \in Slots, c \in Chars}
    [] f = 9 -> UNION {{<<"string-fill!", <<P(k), c, I(s)>>>> : c \in Chars, s \in IdxFor(LenOf(pool[k]))} : k \in Slots}
    [] f = 10 -> UNION {{<<"string-fill!", <<P(k), c, I(s), I(e)>>>> : c \in {C(97), C(8364), C(128512)},
                           s \in IdxFor(LenOf(pool[k])), e \in IdxFor(LenOf(pool[k]))} : k \in Slots}
    [] f = 11 -> {<<"make-string", <<I(n), c>>>> : n \in {-1, 0, 1, 3}, c \in Chars}
    [] f = 12 -> {<<"string", <<c, d>>>> : c \in Chars, d \in {C(97), C(128512)}}
    [] f = 13 -> {<<"integer->char", <<i>>>> : i \in Ints \cup {B(i) : i \in 1..NBig}}
    [] f = 14 -> {<<o, <<c>>>> : o \in Chr1, c \in Chars}
    [] f = 15 -> {<<o, <<c, d>>>> : o \in ChrCmp, c \in Chars, d \in Chars}
    [] f = 16 -> {<<"char<?", <<c, d, e>>>> : c \in {C(97), C(233)}, d \in Chars, e \in {C(122), C(128512)}}
    [] f = 17 -> {<<"string-length", <<i>>>> : i \in {I(5)}}                              \* wrong argument type
    [] f = 18 -> {<<"string-ref", <<P(k), c>>>> : k \in Slots, c \in {C(97)}}            \* index of wrong type
    [] f = 19 -> {<<o, <<P(k)>>>> : o \in {"string-upcase", "string-downcase", "string->list", "string-copy0"}, k \in Slots}
Cands == UNION {CandsOf(f) : f \in 1..NFam}
\* mutators and index operations are drawn more often than the pure character procedures
SimFamilies == <<1, 2, 3, 4, 4, 5, 5, 5, 6, 7, 7, 8, 9, 9, 10, 10, 11, 12, 13, 14, 15, 16, 17, 18, 19>>
SimCands == CandsOf(SimFamilies[RandomElement(1..Len(SimFamilies))])

Outcome(op, av) ==
  IF op = "string-copy0" THEN Prim("string-copy", av, hp)
  ELSE IF op = "integer->char" /\ Len(av) = 1 /\ av[1].t = "bigint" THEN Err("range")     \* not a scalar value
  ELSE Prim(op, av, hp)

Apply(op, a, dst) ==
  LET av == [i \in 1..Len(a) |-> ArgVal(a[i])]
      out == Outcome(op, av)
      store == out.s = "ok" /\ dst # 0 /\ out.v.t \in {"str", "pair", "vec", "nil"}
      hp2 == IF out.s = "ok" THEN out.hp ELSE hp
      pool2 == IF store THEN [pool EXCEPT ![dst] = out.v] ELSE pool
      exp == CASE out.s = "ok" -> [r |-> "ok", v |-> Render(out.v, hp2)]
               [] out.s = "err" -> [r |-> "err", c |-> out.c]
               [] OTHER -> [r |-> "any"]
  IN
  /\ hp' = hp2
  /\ pool' = pool2
  /\ hist' = Append(hist, [op |-> op, a |-> a, dst |-> IF store THEN dst ELSE 0, exp |-> exp,
                           state |-> [k \in 1..N |-> Render(pool2[k], hp2)],
                           share |-> ShareMatrix(pool2, N, hp2)])

Init ==
  /\ variant \in {1, 2, 3}
  /\ hp = <<>>
  /\ pool = [k \in 1..N |-> NilV]
  /\ hist = <<>>

Step ==
  /\ Len(hist) < NInit + Depth
  /\ IF Len(hist) < NInit
     THEN LET o == InitOps(variant)[Len(hist) + 1] IN Apply(o.op, o.a, o.dst)
     ELSE \E c \in (IF Sim THEN {RandomElement(SimCands)} ELSE Cands) : Apply(c[1], c[2], ((Len(hist)) % N) + 1)
  /\ UNCHANGED variant

Stuck == Len(hist) > 0 /\ hist[Len(hist)].exp.r = "any"
Next == ~Stuck /\ Step
Spec == Init /\ [][Next]_vars

Done == Len(hist) = NInit + Depth \/ Stuck
Emit == Done => PrintT(<<"REPLAY", ToJson([variant |-> variant, ops |-> hist, lits |-> <<>>])>>)

\* properties of the specification itself
Mutators == {"string-set!", "string-fill!"}
FrameOK ==
  Len(hist) >= 2 =>
    LET h == hist[Len(hist)]
        g == hist[Len(hist) - 1] IN
    (h.op \notin Mutators) => \A k \in 1..N : (k = h.dst) \/ h.state[k] = g.state[k]
\* a mutator changes at most the rendering of objects sharing the mutated string, and never a length
LengthsOK ==
  Len(hist) >= 2 =>
    LET h == hist[Len(hist)]
        g == hist[Len(hist) - 1] IN
    (h.op \in Mutators) => \A k \in 1..N : h.state[k].t = "str" /\ g.state[k].t = "str" => Len(h.state[k].v) = Len(g.state[k].v)
\* every string holds Unicode scalar values only
ScalarsOK == \A i \in 1..Len(hp) : hp[i].k = "str" => \A j \in 1..Len(hp[i].c) : ValidScalar(hp[i].c[j])
=============================================================================
