------------------------------- MODULE Prims -------------------------------
(***************************************************************************)
(* The store-level library as total operators:                             *)
(*     Prim(name, args, hp)  ->  Ok(value, hp') | Err(class) | Oom         *)
(* Err(class) means R7RS makes the call an error (the implementation must  *)
(* report a failure, which failure is not prescribed).  Oom ("out of       *)
(* model") means the model prescribes nothing for this call: R7RS leaves   *)
(* it unspecified, or it needs numbers/characters outside the modelled     *)
(* range.  Written from R7RS 6.1-6.8, not from the implementation.         *)
(***************************************************************************)
EXTENDS Data, CharTable

Ok(v, hp) == [s |-> "ok", v |-> v, hp |-> hp]
Err(c)    == [s |-> "err", c |-> c]
Oom       == [s |-> "oom"]

\* <<min, max>> number of arguments; max = -1: any number.
Arity(n) ==
  CASE n \in {"car", "cdr", "length", "reverse", "null?", "pair?", "list?", "caar", "cadr", "cdar", "cddr",
              "vector-length", "vector->list", "list->vector", "abs", "zero?", "positive?", "negative?",
              "even?", "odd?", "add1", "sub1", "not", "boolean?", "symbol?", "string?", "char?", "vector?",
              "procedure?", "number?", "integer?", "string-length", "list->string", "string->vector",
              "vector->string", "string-upcase", "string-downcase", "string-foldcase", "char->integer",
              "integer->char", "char-upcase", "char-downcase", "char-foldcase", "char-alphabetic?",
              "char-numeric?", "char-whitespace?", "char-upper-case?", "char-lower-case?", "digit-value"}
         -> <<1, 1>>
    [] n \in {"cons", "set-car!", "set-cdr!", "list-tail", "list-ref", "memq", "memv", "member", "assq",
              "assv", "assoc", "vector-ref", "vector-fill!", "quotient", "remainder", "modulo", "eq?",
              "eqv?", "equal?", "string-ref"} -> <<2, 2>>
    [] n \in {"vector-set!", "string-set!", "substring"} -> <<3, 3>>
    [] n \in {"list", "append", "vector", "+", "*", "string-append", "string"} -> <<0, -1>>
    [] n \in {"-", "=", "<", ">", "<=", ">=", "min", "max", "string=?", "string<?", "string>?", "string<=?",
              "string>=?", "string-ci=?", "string-ci<?", "string-ci>?", "string-ci<=?", "string-ci>=?",
              "char=?", "char<?", "char>?", "char<=?", "char>=?", "char-ci=?", "char-ci<?", "char-ci>?",
              "char-ci<=?", "char-ci>=?", "symbol=?"} -> <<1, -1>>
    [] n \in {"make-vector", "make-string"} -> <<1, 2>>
    [] n \in {"vector-copy", "string-copy", "string->list"} -> <<1, 3>>
    [] n = "string-fill!" -> <<2, 4>>
    [] n = "vector-copy!" -> <<3, 5>>
    [] OTHER -> <<0, -1>>

AllT(a, tag) == \A i \in 1..Len(a) : a[i].t = tag
AnyNum(a) == \E i \in 1..Len(a) : a[i].t = "num"

RECURSIVE SumR(_, _, _)
SumR(a, i, acc) == IF i > Len(a) THEN acc ELSE IF ~InRange(acc) THEN acc ELSE SumR(a, i + 1, acc + a[i].v)
RECURSIVE ProdR(_, _, _)
\* returns IntLimit+1 as soon as the product leaves the modelled range
ProdR(a, i, acc) ==
  IF i > Len(a) THEN acc
  ELSE LET x == a[i].v IN
       IF x = 0 THEN ProdR(a, i + 1, 0)
       ELSE IF acc = IntLimit + 1 THEN acc
       ELSE IF Abs(acc) > IntLimit \div Abs(x) THEN ProdR(a, i + 1, IntLimit + 1)
       ELSE ProdR(a, i + 1, acc * x)

Quot(a, b) == LET q == Abs(a) \div Abs(b) IN IF (a < 0) # (b < 0) THEN -q ELSE q
Rem(a, b)  == a - b * Quot(a, b)
Mod(a, b)  == LET r == Rem(a, b) IN IF r # 0 /\ ((r < 0) # (b < 0)) THEN r + b ELSE r

Chain(a, R(_, _)) == \A i \in 1..(Len(a) - 1) : R(a[i], a[i + 1])

RECURSIVE LexLess(_, _, _)
\* strict lexicographic order of integer sequences
LexLess(s, u, i) ==
  IF i > Len(u) THEN FALSE
  ELSE IF i > Len(s) THEN TRUE
  ELSE IF s[i] < u[i] THEN TRUE
  ELSE IF s[i] > u[i] THEN FALSE
  ELSE LexLess(s, u, i + 1)

MapSeq(s, F(_)) == [i \in 1..Len(s) |-> F(s[i])]

NumCmp(n, a) ==
  IF AnyNum(a) THEN Oom
  ELSE IF ~AllT(a, "int") THEN Err("type")
  ELSE LET r == CASE n = "="  -> Chain(a, LAMBDA x, y : x.v = y.v)
                  [] n = "<"  -> Chain(a, LAMBDA x, y : x.v < y.v)
                  [] n = ">"  -> Chain(a, LAMBDA x, y : x.v > y.v)
                  [] n = "<=" -> Chain(a, LAMBDA x, y : x.v <= y.v)
                  [] n = ">=" -> Chain(a, LAMBDA x, y : x.v >= y.v)
       IN  [s |-> "ok", v |-> BoolV(r)]

\* start/end arguments: a = args, from = index of the optional start; len = length of the object
RangeOf(a, from, len) ==
  LET st == IF Len(a) >= from THEN a[from] ELSE IntV(0)
      en == IF Len(a) >= from + 1 THEN a[from + 1] ELSE IntV(len)
  IN  IF st.t # "int" \/ en.t # "int" THEN [ok |-> FALSE, c |-> "type"]
      ELSE IF st.v < 0 \/ en.v > len \/ st.v > en.v THEN [ok |-> FALSE, c |-> "range"]
      ELSE [ok |-> TRUE, s |-> st.v, e |-> en.v]

Sub(s, from, to) == SubSeq(s, from + 1, to)     \* zero-based half-open [from, to)

EqBy(mode, x, y, hp) == IF mode = "equal" THEN Equal(x, y, hp, Len(hp) + 2) ELSE Eqv(x, y)

RECURSIVE MemR(_, _, _, _, _)
MemR(x, sp, i, hp, mode) ==   \* sp = Spine record
  IF i > Len(sp.s) THEN (IF sp.ok THEN [s |-> "ok", v |-> FalseV] ELSE Err("type"))
  ELSE IF EqBy(mode, x, Car(sp.s[i], hp), hp) THEN [s |-> "ok", v |-> sp.s[i]]
  ELSE MemR(x, sp, i + 1, hp, mode)

RECURSIVE AssR(_, _, _, _, _)
AssR(x, l, i, hp, mode) ==   \* l = ListToSeq record
  IF i > Len(l.s) THEN (IF l.ok THEN [s |-> "ok", v |-> FalseV] ELSE Err("type"))
  ELSE IF l.s[i].t # "pair" THEN Oom       \* not an association list: R7RS says nothing
  ELSE IF EqBy(mode, x, Car(l.s[i], hp), hp) THEN [s |-> "ok", v |-> l.s[i]]
  ELSE AssR(x, l, i + 1, hp, mode)

RECURSIVE TailR(_, _, _)
TailR(v, k, hp) ==
  IF k = 0 THEN [s |-> "ok", v |-> v]
  ELSE IF v.t # "pair" THEN Err("range")
  ELSE TailR(Cdr(v, hp), k - 1, hp)

RECURSIVE AppendR(_, _, _, _)
\* lists a[1..i] are copied in front of acc (the result so far), right to left
AppendR(a, i, acc, hp) ==
  IF i = 0 THEN Ok(acc, hp)
  ELSE LET l == ListToSeq(a[i], hp) IN
       IF ~l.ok THEN Err("type")
       ELSE LET r == SeqToList(l.s, acc, hp) IN AppendR(a, i - 1, r.v, r.hp)

Reverse(s) == [i \in 1..Len(s) |-> s[Len(s) + 1 - i]]
Fill(n, x) == [i \in 1..n |-> x]

CharArgs(a) == AllT(a, "char")
CharsKnown(a) == \A i \in 1..Len(a) : CaseKnown(a[i].v)
StrArgs(a) == AllT(a, "str")
SeqKnown(cs) == \A i \in 1..Len(cs) : CaseKnown(cs[i])

ValidScalar(n) == (n >= 0 /\ n <= 55295) \/ (n >= 57344 /\ n <= 1114111)

Prim(n, a, hp) ==
  LET ar == Arity(n)
      B(b) == [s |-> "ok", v |-> BoolV(b), hp |-> hp]
      V(x) == [s |-> "ok", v |-> x, hp |-> hp]
      WithHp(r) == IF r.s = "ok" THEN [s |-> "ok", v |-> r.v, hp |-> hp] ELSE r
  IN
  IF Len(a) < ar[1] \/ (ar[2] >= 0 /\ Len(a) > ar[2]) THEN Err("arity") ELSE
  CASE
  \* ---------------------------------------------------------------- pairs and lists
     n = "cons" -> LET c == Cons(a[1], a[2], hp) IN Ok(c.v, c.hp)
  [] n = "car" -> IF a[1].t = "pair" THEN V(Car(a[1], hp)) ELSE Err("type")
  [] n = "cdr" -> IF a[1].t = "pair" THEN V(Cdr(a[1], hp)) ELSE Err("type")
  [] n \in {"caar", "cadr", "cdar", "cddr"} ->
       IF a[1].t # "pair" THEN Err("type")
       ELSE LET x == IF n \in {"caar", "cdar"} THEN Car(a[1], hp) ELSE Cdr(a[1], hp) IN
            IF x.t # "pair" THEN Err("type")
            ELSE V(IF n \in {"caar", "cadr"} THEN Car(x, hp) ELSE Cdr(x, hp))
  [] n = "set-car!" -> IF a[1].t = "pair" THEN Ok(VoidV, [hp EXCEPT ![a[1].v].a = a[2]]) ELSE Err("type")
  [] n = "set-cdr!" -> IF a[1].t = "pair" THEN Ok(VoidV, [hp EXCEPT ![a[1].v].d = a[2]]) ELSE Err("type")
  [] n = "list" -> LET r == SeqToList(a, NilV, hp) IN Ok(r.v, r.hp)
  [] n = "length" -> LET l == ListToSeq(a[1], hp) IN IF l.ok THEN V(IntV(Len(l.s))) ELSE Err("type")
  [] n = "list?" -> B(ListToSeq(a[1], hp).ok)
  [] n = "null?" -> B(a[1].t = "nil")
  [] n = "pair?" -> B(a[1].t = "pair")
  [] n = "append" -> IF Len(a) = 0 THEN V(NilV) ELSE AppendR(a, Len(a) - 1, a[Len(a)], hp)
  [] n = "reverse" -> LET l == ListToSeq(a[1], hp) IN
       IF ~l.ok THEN Err("type") ELSE LET r == SeqToList(Reverse(l.s), NilV, hp) IN Ok(r.v, r.hp)
  [] n = "list-tail" ->
       IF a[2].t # "int" THEN (IF a[2].t = "num" THEN Oom ELSE Err("type"))
       ELSE IF a[2].v < 0 THEN Err("range")
       ELSE IF a[1].t \notin {"pair", "nil"} THEN Oom     \* not a list at all: R7RS says nothing for k = 0
       ELSE WithHp(TailR(a[1], a[2].v, hp))
  [] n = "list-ref" ->
       IF a[2].t # "int" THEN (IF a[2].t = "num" THEN Oom ELSE Err("type"))
       ELSE IF a[2].v < 0 THEN Err("range")
       ELSE LET r == TailR(a[1], a[2].v, hp) IN
            IF r.s # "ok" THEN r ELSE IF r.v.t = "pair" THEN V(Car(r.v, hp)) ELSE Err("range")
  [] n \in {"memq", "memv"} -> WithHp(MemR(a[1], Spine(a[2], hp), 1, hp, "eqv"))
  [] n = "member" -> WithHp(MemR(a[1], Spine(a[2], hp), 1, hp, "equal"))
  [] n \in {"assq", "assv"} -> WithHp(AssR(a[1], ListToSeq(a[2], hp), 1, hp, "eqv"))
  [] n = "assoc"  -> WithHp(AssR(a[1], ListToSeq(a[2], hp), 1, hp, "equal"))
  \* ---------------------------------------------------------------- vectors
  [] n = "vector" -> LET r == MkVec(a, hp) IN Ok(r.v, r.hp)
  [] n = "make-vector" ->
       IF a[1].t # "int" THEN (IF a[1].t = "num" THEN Oom ELSE Err("type"))
       ELSE IF a[1].v < 0 THEN Err("range")
       ELSE IF a[1].v > 4096 THEN Oom
       ELSE LET r == MkVec(Fill(a[1].v, IF Len(a) = 2 THEN a[2] ELSE VoidV), hp) IN Ok(r.v, r.hp)
  [] n = "vector-length" -> IF a[1].t = "vec" THEN V(IntV(Len(VecElems(a[1], hp)))) ELSE Err("type")
  [] n = "vector-ref" ->
       IF a[1].t # "vec" THEN Err("type")
       ELSE IF a[2].t # "int" THEN (IF a[2].t = "num" THEN Oom ELSE Err("type"))
       ELSE IF a[2].v < 0 \/ a[2].v >= Len(VecElems(a[1], hp)) THEN Err("range")
       ELSE V(VecElems(a[1], hp)[a[2].v + 1])
  [] n = "vector-set!" ->
       IF a[1].t # "vec" THEN Err("type")
       ELSE IF a[2].t # "int" THEN (IF a[2].t = "num" THEN Oom ELSE Err("type"))
       ELSE IF a[2].v < 0 \/ a[2].v >= Len(VecElems(a[1], hp)) THEN Err("range")
       ELSE Ok(VoidV, [hp EXCEPT ![a[1].v].e[a[2].v + 1] = a[3]])
  [] n = "vector-fill!" ->
       IF a[1].t # "vec" THEN Err("type")
       ELSE Ok(VoidV, [hp EXCEPT ![a[1].v].e = Fill(Len(@), a[2])])
  [] n = "vector->list" ->
       IF a[1].t # "vec" THEN Err("type")
       ELSE LET r == SeqToList(VecElems(a[1], hp), NilV, hp) IN Ok(r.v, r.hp)
  [] n = "list->vector" -> LET l == ListToSeq(a[1], hp) IN
       IF ~l.ok THEN Err("type") ELSE LET r == MkVec(l.s, hp) IN Ok(r.v, r.hp)
  [] n = "vector-copy" ->
       IF a[1].t # "vec" THEN Err("type")
       ELSE IF Len(a) = 3 THEN Oom   \* end argument: excluded by the property (pinned non-R7RS meaning)
       ELSE LET es == VecElems(a[1], hp)
                rg == RangeOf(a, 2, Len(es)) IN
            IF ~rg.ok THEN Err(rg.c)
            ELSE LET r == MkVec(Sub(es, rg.s, rg.e), hp) IN Ok(r.v, r.hp)
  [] n = "vector-copy!" ->
       \* (vector-copy! to at from [start [end]])
       IF a[1].t # "vec" \/ a[3].t # "vec" THEN Err("type")
       ELSE IF a[2].t # "int" THEN (IF a[2].t = "num" THEN Oom ELSE Err("type"))
       ELSE LET to == VecElems(a[1], hp)
                from == VecElems(a[3], hp)
                rg == RangeOf(a, 4, Len(from)) IN
            IF ~rg.ok THEN Err(rg.c)
            ELSE IF a[2].v < 0 \/ a[2].v > Len(to) THEN Err("range")
            ELSE IF (rg.e - rg.s) > Len(to) - a[2].v THEN Err("range")
            ELSE Ok(VoidV, [hp EXCEPT ![a[1].v].e =
                      [i \in 1..Len(to) |->
                         IF i - 1 >= a[2].v /\ i - 1 < a[2].v + (rg.e - rg.s)
                         THEN from[(i - 1) - a[2].v + rg.s + 1] ELSE to[i]]])
  \* ---------------------------------------------------------------- numbers (small exact integers)
  [] n \in {"+", "*", "-", "quotient", "remainder", "modulo", "abs", "min", "max", "zero?", "positive?",
            "negative?", "even?", "odd?", "add1", "sub1"} ->
       IF AnyNum(a) THEN Oom
       ELSE IF ~AllT(a, "int") THEN Err("type")
       ELSE LET Num(x) == IF InRange(x) THEN V(IntV(x)) ELSE Oom IN
       (CASE n = "+" -> Num(SumR(a, 1, 0))
         [] n = "*" -> Num(ProdR(a, 1, 1))
         [] n = "-" -> IF Len(a) = 1 THEN Num(-a[1].v) ELSE Num(a[1].v - SumR(a, 2, 0))
         [] n = "add1" -> Num(a[1].v + 1)
         [] n = "sub1" -> Num(a[1].v - 1)
         [] n = "abs" -> Num(Abs(a[1].v))
         [] n \in {"quotient", "remainder", "modulo"} ->
              IF a[2].v = 0 THEN Err("domain")
              ELSE Num(CASE n = "quotient" -> Quot(a[1].v, a[2].v)
                         [] n = "remainder" -> Rem(a[1].v, a[2].v)
                         [] n = "modulo" -> Mod(a[1].v, a[2].v))
         [] n = "min" -> IF Len(a) < 2 THEN Oom ELSE Num(CHOOSE m \in {a[i].v : i \in 1..Len(a)} : \A i \in 1..Len(a) : m <= a[i].v)
         [] n = "max" -> IF Len(a) < 2 THEN Oom ELSE Num(CHOOSE m \in {a[i].v : i \in 1..Len(a)} : \A i \in 1..Len(a) : m >= a[i].v)
         [] n = "zero?" -> B(a[1].v = 0)
         [] n = "positive?" -> B(a[1].v > 0)
         [] n = "negative?" -> B(a[1].v < 0)
         [] n = "even?" -> B(Abs(a[1].v) % 2 = 0)
         [] n = "odd?" -> B(Abs(a[1].v) % 2 = 1))
  [] n \in {"=", "<", ">", "<=", ">="} -> IF Len(a) < 2 THEN Oom ELSE WithHp(NumCmp(n, a))
  \* ---------------------------------------------------------------- predicates
  [] n = "not" -> B(~IsTrue(a[1]))
  [] n = "eq?" -> IF a[1].t \in {"int", "char", "num"} \/ a[2].t \in {"int", "char", "num"}
                  THEN (IF a[1].t # a[2].t THEN B(FALSE) ELSE Oom)   \* eq? on numbers/characters: unspecified
                  ELSE B(Eqv(a[1], a[2]))
  [] n = "eqv?" -> IF a[1].t = "num" \/ a[2].t = "num" THEN Oom ELSE B(Eqv(a[1], a[2]))
  [] n = "equal?" -> IF a[1].t = "num" \/ a[2].t = "num" THEN Oom ELSE B(Equal(a[1], a[2], hp, Len(hp) + 2))
  [] n = "boolean?" -> B(a[1].t = "bool")
  [] n = "symbol?" -> B(a[1].t = "sym")
  [] n = "string?" -> B(a[1].t = "str")
  [] n = "char?" -> B(a[1].t = "char")
  [] n = "vector?" -> B(a[1].t = "vec")
  [] n = "procedure?" -> B(a[1].t \in {"clo", "prim", "kont"})
  [] n = "number?" -> B(a[1].t \in {"int", "num"})
  [] n = "integer?" -> IF a[1].t = "num" THEN Oom ELSE B(a[1].t = "int")
  [] n = "symbol=?" -> IF ~AllT(a, "sym") THEN Err("type") ELSE IF Len(a) < 2 THEN Oom
                       ELSE B(Chain(a, LAMBDA x, y : x.v = y.v))
  \* ---------------------------------------------------------------- characters
  [] n = "char->integer" -> IF a[1].t = "char" THEN V(IntV(a[1].v)) ELSE Err("type")
  [] n = "integer->char" ->
       IF a[1].t # "int" THEN (IF a[1].t = "num" THEN Oom ELSE Err("type"))
       ELSE IF ValidScalar(a[1].v) THEN V(CharV(a[1].v)) ELSE Err("range")
  [] n \in {"char=?", "char<?", "char>?", "char<=?", "char>=?"} ->
       IF ~CharArgs(a) THEN Err("type") ELSE IF Len(a) < 2 THEN Oom
       ELSE B(CASE n = "char=?"  -> Chain(a, LAMBDA x, y : x.v = y.v)
                [] n = "char<?"  -> Chain(a, LAMBDA x, y : x.v < y.v)
                [] n = "char>?"  -> Chain(a, LAMBDA x, y : x.v > y.v)
                [] n = "char<=?" -> Chain(a, LAMBDA x, y : x.v <= y.v)
                [] n = "char>=?" -> Chain(a, LAMBDA x, y : x.v >= y.v))
  [] n \in {"char-ci=?", "char-ci<?", "char-ci>?", "char-ci<=?", "char-ci>=?"} ->
       IF ~CharArgs(a) THEN Err("type") ELSE IF Len(a) < 2 \/ ~CharsKnown(a) THEN Oom
       ELSE B(CASE n = "char-ci=?"  -> Chain(a, LAMBDA x, y : Foldcase(x.v) = Foldcase(y.v))
                [] n = "char-ci<?"  -> Chain(a, LAMBDA x, y : Foldcase(x.v) < Foldcase(y.v))
                [] n = "char-ci>?"  -> Chain(a, LAMBDA x, y : Foldcase(x.v) > Foldcase(y.v))
                [] n = "char-ci<=?" -> Chain(a, LAMBDA x, y : Foldcase(x.v) <= Foldcase(y.v))
                [] n = "char-ci>=?" -> Chain(a, LAMBDA x, y : Foldcase(x.v) >= Foldcase(y.v)))
  [] n \in {"char-upcase", "char-downcase", "char-foldcase"} ->
       IF a[1].t # "char" THEN Err("type") ELSE IF ~CharCaseKnown(a[1].v) THEN Oom
       ELSE V(CharV(CASE n = "char-upcase" -> Upcase(a[1].v)
                      [] n = "char-downcase" -> Downcase(a[1].v)
                      [] n = "char-foldcase" -> Foldcase(a[1].v)))
  [] n \in {"char-alphabetic?", "char-numeric?", "char-whitespace?", "char-upper-case?", "char-lower-case?"} ->
       IF a[1].t # "char" THEN Err("type") ELSE IF ~ClassKnown(a[1].v) THEN Oom
       ELSE B(CASE n = "char-alphabetic?" -> IsAlphabetic(a[1].v)
                [] n = "char-numeric?" -> IsNumeric(a[1].v)
                [] n = "char-whitespace?" -> IsWhitespace(a[1].v)
                [] n = "char-upper-case?" -> IsUpper(a[1].v)
                [] n = "char-lower-case?" -> IsLower(a[1].v))
  [] n = "digit-value" ->
       IF a[1].t # "char" THEN Err("type") ELSE IF ~ClassKnown(a[1].v) THEN Oom
       ELSE V(IF a[1].v >= 48 /\ a[1].v <= 57 THEN IntV(a[1].v - 48)
              ELSE IF IsNumeric(a[1].v) THEN VoidV ELSE FalseV)
  \* ---------------------------------------------------------------- strings
  [] n = "string-length" -> IF a[1].t = "str" THEN V(IntV(Len(StrChars(a[1], hp)))) ELSE Err("type")
  [] n = "string-ref" ->
       IF a[1].t # "str" THEN Err("type")
       ELSE IF a[2].t # "int" THEN (IF a[2].t = "num" THEN Oom ELSE Err("type"))
       ELSE IF a[2].v < 0 \/ a[2].v >= Len(StrChars(a[1], hp)) THEN Err("range")
       ELSE V(CharV(StrChars(a[1], hp)[a[2].v + 1]))
  [] n = "string-set!" ->
       IF a[1].t # "str" \/ a[3].t # "char" THEN Err("type")
       ELSE IF a[2].t # "int" THEN (IF a[2].t = "num" THEN Oom ELSE Err("type"))
       ELSE IF a[2].v < 0 \/ a[2].v >= Len(StrChars(a[1], hp)) THEN Err("range")
       ELSE Ok(VoidV, [hp EXCEPT ![a[1].v].c[a[2].v + 1] = a[3].v])
  [] n = "string-fill!" ->
       IF a[1].t # "str" \/ a[2].t # "char" THEN Err("type")
       ELSE LET cs == StrChars(a[1], hp)
                rg == RangeOf(a, 3, Len(cs)) IN
            IF ~rg.ok THEN Err(rg.c)
            ELSE Ok(VoidV, [hp EXCEPT ![a[1].v].c =
                      [i \in 1..Len(cs) |-> IF i - 1 >= rg.s /\ i - 1 < rg.e THEN a[2].v ELSE cs[i]]])
  [] n = "string-append" ->
       IF ~StrArgs(a) THEN Err("type")
       ELSE LET RECURSIVE Cat(_, _)
                Cat(i, acc) == IF i > Len(a) THEN acc ELSE Cat(i + 1, acc \o StrChars(a[i], hp))
                r == MkStr(Cat(1, <<>>), hp) IN Ok(r.v, r.hp)
  [] n \in {"string-copy", "substring"} ->
       IF a[1].t # "str" THEN Err("type")
       ELSE LET cs == StrChars(a[1], hp)
                rg == RangeOf(a, 2, Len(cs)) IN
            IF ~rg.ok THEN Err(rg.c)
            ELSE LET r == MkStr(Sub(cs, rg.s, rg.e), hp) IN Ok(r.v, r.hp)
  [] n = "string" ->
       IF ~CharArgs(a) THEN Err("type") ELSE LET r == MkStr(MapSeq(a, LAMBDA x : x.v), hp) IN Ok(r.v, r.hp)
  [] n = "make-string" ->
       IF a[1].t # "int" THEN (IF a[1].t = "num" THEN Oom ELSE Err("type"))
       ELSE IF a[1].v < 0 THEN Err("range")
       ELSE IF Len(a) = 2 /\ a[2].t # "char" THEN Err("type")
       ELSE IF a[1].v > 4096 \/ (Len(a) = 1 /\ a[1].v > 0) THEN Oom
       ELSE LET r == MkStr(Fill(a[1].v, IF Len(a) = 2 THEN a[2].v ELSE 0), hp) IN Ok(r.v, r.hp)
  [] n = "string->list" ->
       IF a[1].t # "str" THEN Err("type")
       ELSE LET cs == StrChars(a[1], hp)
                rg == RangeOf(a, 2, Len(cs)) IN
            IF ~rg.ok THEN Err(rg.c)
            ELSE LET r == SeqToList(MapSeq(Sub(cs, rg.s, rg.e), CharV), NilV, hp) IN Ok(r.v, r.hp)
  [] n = "list->string" -> LET l == ListToSeq(a[1], hp) IN
       IF ~l.ok \/ ~CharArgs(l.s) THEN Err("type")
       ELSE LET r == MkStr(MapSeq(l.s, LAMBDA x : x.v), hp) IN Ok(r.v, r.hp)
  [] n = "string->vector" ->
       IF a[1].t # "str" THEN Err("type")
       ELSE LET r == MkVec(MapSeq(StrChars(a[1], hp), CharV), hp) IN Ok(r.v, r.hp)
  [] n = "vector->string" ->
       IF a[1].t # "vec" THEN Err("type")
       ELSE IF ~CharArgs(VecElems(a[1], hp)) THEN Err("type")
       ELSE LET r == MkStr(MapSeq(VecElems(a[1], hp), LAMBDA x : x.v), hp) IN Ok(r.v, r.hp)
  [] n \in {"string=?", "string<?", "string>?", "string<=?", "string>=?"} ->
       IF ~StrArgs(a) THEN Err("type") ELSE IF Len(a) < 2 THEN Oom
       ELSE LET C(x) == StrChars(x, hp) IN
            B(CASE n = "string=?"  -> Chain(a, LAMBDA x, y : C(x) = C(y))
                [] n = "string<?"  -> Chain(a, LAMBDA x, y : LexLess(C(x), C(y), 1))
                [] n = "string>?"  -> Chain(a, LAMBDA x, y : LexLess(C(y), C(x), 1))
                [] n = "string<=?" -> Chain(a, LAMBDA x, y : ~LexLess(C(y), C(x), 1))
                [] n = "string>=?" -> Chain(a, LAMBDA x, y : ~LexLess(C(x), C(y), 1)))
  [] n \in {"string-ci=?", "string-ci<?", "string-ci>?", "string-ci<=?", "string-ci>=?"} ->
       IF ~StrArgs(a) THEN Err("type")
       ELSE IF Len(a) < 2 \/ \E i \in 1..Len(a) : ~SeqKnown(StrChars(a[i], hp)) THEN Oom
       ELSE LET C(x) == MapSeq(StrChars(x, hp), Foldcase) IN
            B(CASE n = "string-ci=?"  -> Chain(a, LAMBDA x, y : C(x) = C(y))
                [] n = "string-ci<?"  -> Chain(a, LAMBDA x, y : LexLess(C(x), C(y), 1))
                [] n = "string-ci>?"  -> Chain(a, LAMBDA x, y : LexLess(C(y), C(x), 1))
                [] n = "string-ci<=?" -> Chain(a, LAMBDA x, y : ~LexLess(C(y), C(x), 1))
                [] n = "string-ci>=?" -> Chain(a, LAMBDA x, y : ~LexLess(C(x), C(y), 1)))
  [] n \in {"string-upcase", "string-downcase", "string-foldcase"} ->
       IF a[1].t # "str" THEN Err("type")
       ELSE IF ~SeqKnown(StrChars(a[1], hp)) THEN Oom
       ELSE LET F(c) == CASE n = "string-upcase" -> Upcase(c)
                          [] n = "string-downcase" -> Downcase(c)
                          [] n = "string-foldcase" -> Foldcase(c)
                r == MkStr(MapSeq(StrChars(a[1], hp), F), hp) IN Ok(r.v, r.hp)
  [] OTHER -> Oom

=============================================================================
