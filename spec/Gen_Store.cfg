SPECIFICATION Spec
CONSTANTS
  N = 4
  Depth = 12
  Sim = TRUE
INVARIANTS Emit FrameOK TypeOK
CHECK_DEADLOCK FALSE
