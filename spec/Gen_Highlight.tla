----------------------------- MODULE Gen_Highlight -----------------------------
(***************************************************************************)
(* S -> I: behaviour replay for C20.  Every text over the alphabet of the  *)
(* property (symbols selected by the bit mask IOEnv.MASK) up to length     *)
(* IOEnv.N is one state; for every text of at least IOEnv.MINLEN symbols   *)
(* and every byte cursor 0 .. bytes+1 one line                             *)
(*      <<"REPLAY", ToJson(case)>>                                         *)
(* is printed with the rendered text (code points), the cursor and the     *)
(* outcome Highlight requires of  highlight  and  highlight_check.         *)
(* Exhaustive: plain model checking.  Beyond the exhaustive bound:         *)
(*   -simulate num=K -depth N+1  with MINLEN = N  (random texts of length  *)
(* N, all cursors).                                                        *)
(***************************************************************************)
EXTENDS Highlight, Json, IOUtils, TLC

N      == atoi(IOEnv.N)
MINLEN == atoi(IOEnv.MINLEN)
MASK   == atoi(IOEnv.MASK)
Syms   == {i \in 1..Len(Alphabet) : (MASK \div (2 ^ (i - 1))) % 2 = 1}

VARIABLE text
Init == text = <<>>
Next == Len(text) < N /\ \E s \in Syms : text' = Append(text, s)
Spec == Init /\ [][Next]_text

Items(tx) == [i \in 1..Len(tx) |-> Alphabet[tx[i]]]

Case(t, L, cps, p) ==
  LET r == Required(t, L, p) IN
  [sy |-> text, cps |-> cps, p |-> p, k |-> r.k, bs |-> r.bs, be |-> r.be,
   chk |-> CheckRequired(L, p), tags |-> Tags(t, L, p)]

Emit ==
  IF Len(text) < MINLEN THEN TRUE
  ELSE LET t == Items(text) L == Lex(t) cps == Flat(t) IN
       \A p \in 0..(L.bytes + 1) : PrintT(<<"REPLAY", ToJson(Case(t, L, cps, p))>>)
=============================================================================
