------------------------------- MODULE Store -------------------------------
(***************************************************************************)
(* C14: the list and vector procedures as a state machine over a pool of   *)
(* named objects.  The state is the object heap hp (objects with identity, *)
(* module Data) and a pool of N named values.  One step applies one        *)
(* procedure of the R7RS list/vector library (module Prims) to arguments   *)
(* drawn from the pool, from index ranges -1 .. len+1 and a far value, and *)
(* from a small set of keys; a compound result is stored into a pool slot, *)
(* so later steps can mutate it through that name and observe the change   *)
(* through every other path that reaches the same object.                  *)
(*                                                                         *)
(* Every step appends to `hist' the operation, its arguments, the outcome  *)
(* the specification requires (value, error, or "any" where R7RS           *)
(* prescribes nothing) and the rendering of EVERY pool object afterwards.  *)
(* TLC generates the behaviours (exhaustively for one step, by simulation  *)
(* for long sequences); the harness replays them on the real VM.           *)
(***************************************************************************)
EXTENDS Prims, Json, IOUtils

CONSTANTS N,        \* pool size
          Depth,    \* number of operations per behaviour
          Sim       \* TRUE: one randomly drawn candidate per step (tlc -simulate); FALSE: every candidate

VARIABLES hp, pool, hist, variant
vars == <<hp, pool, hist, variant>>

SymA == SymV(1001)   \* three symbols used as data: a, b, c (names fixed in the harness)
SymB == SymV(1002)
SymC == SymV(1003)

\* argument descriptors are uniform records (TLC cannot build sets of values of mixed types):
\* a pool slot, an integer, or the index of a literal in LitVals
LitVals == <<SymA, SymB, SymC, FalseV, NilV, CharV(97)>>
P(k) == [k |-> "p", n |-> k]
I(n) == [k |-> "int", n |-> n]
Lt(i) == [k |-> "lit", n |-> i]
\* exact integers that reach the procedure in another internal representation (the harness writes R(1) as (/ 4 2),
\* R(2) as a difference of two bignums equal to 2, R(3) as (/ 3 3)): the same numbers for eqv?, equal?, memv, assv
R(i) == [k |-> "rep", n |-> i]
RepVals == <<IntV(2), IntV(2), IntV(1)>>
ArgVal(d) == CASE d.k = "p" -> pool[d.n] [] d.k = "int" -> IntV(d.n) [] d.k = "rep" -> RepVals[d.n] [] OTHER -> LitVals[d.n]

\* ---- initial pools (six variants).  Each is a sequence of construction operations executed by
\* the same Step machinery, so the harness builds the pool exactly as the specification does.
InitOps(v) ==
  CASE v = 1 -> << [op |-> "list", a |-> <<I(1), I(2), I(3)>>, dst |-> 1],
                   [op |-> "cons", a |-> <<Lt(1), Lt(2)>>, dst |-> 2],
                   [op |-> "cdr", a |-> <<P(1)>>, dst |-> 3],            \* shares the tail of o1
                   [op |-> "vector", a |-> <<I(1), P(2), I(3)>>, dst |-> 4],
                   [op |-> "cons", a |-> <<I(0), P(3)>>, dst |-> 3] >>
    [] v = 2 -> << [op |-> "vector", a |-> <<>>, dst |-> 1],
                   [op |-> "list", a |-> <<Lt(1), Lt(2), Lt(3)>>, dst |-> 2],
                   [op |-> "make-vector", a |-> <<I(2), P(2)>>, dst |-> 3],   \* both elements are o2
                   [op |-> "list", a |-> <<P(2), P(3), Lt(5)>>, dst |-> 4],
                   [op |-> "cons", a |-> <<I(1), I(2)>>, dst |-> 1] >>
    [] v = 3 -> << [op |-> "list", a |-> <<>>, dst |-> 1],
                   [op |-> "list", a |-> <<I(1)>>, dst |-> 2],
                   [op |-> "cons", a |-> <<P(2), P(2)>>, dst |-> 3],
                   [op |-> "list", a |-> <<P(3), P(2), I(7)>>, dst |-> 4],     \* association list
                   [op |-> "vector", a |-> <<P(4), Lt(6), Lt(4)>>, dst |-> 1] >>
    \* prefix-related vectors and lists (equal?, member, assoc must not stop at the shorter one)
    [] v = 4 -> << [op |-> "vector", a |-> <<I(1), I(2)>>, dst |-> 1],
                   [op |-> "vector", a |-> <<I(1), I(2), I(3)>>, dst |-> 2],
                   [op |-> "list", a |-> <<I(1), I(2)>>, dst |-> 3],
                   [op |-> "list", a |-> <<I(1), I(2), I(3)>>, dst |-> 4],
                   [op |-> "equal?", a |-> <<P(1), P(2)>>, dst |-> 0] >>
    \* a list holding objects that are equal? to other pool objects without being them (member / assoc / equal?
    \* must compare contents, memq / assq / identity must not)
    [] v = 5 -> << [op |-> "list", a |-> <<I(1), I(2)>>, dst |-> 1],
                   [op |-> "list", a |-> <<I(1), I(2)>>, dst |-> 3],
                   [op |-> "vector", a |-> <<I(1), I(2)>>, dst |-> 4],
                   [op |-> "list", a |-> <<P(3), P(4), I(9)>>, dst |-> 2],
                   [op |-> "vector", a |-> <<I(1), I(2)>>, dst |-> 4] >>
    \* improper lists whose tail is a vector: the same vector object (o2, o3) and an equal one (o4); equal?,
    \* member and assoc compare such tails structurally, append and list? stop at them
    [] v = 6 -> << [op |-> "vector", a |-> <<I(1), I(2)>>, dst |-> 1],
                   [op |-> "cons", a |-> <<I(1), P(1)>>, dst |-> 2],
                   [op |-> "cons", a |-> <<I(1), P(1)>>, dst |-> 3],
                   [op |-> "vector", a |-> <<I(1), I(2)>>, dst |-> 4],
                   [op |-> "cons", a |-> <<I(1), P(4)>>, dst |-> 4] >>

-----------------------------------------------------------------------------
\* objects reachable from a value (to keep structures acyclic: rendering a cycle never ends)
IsObj(x) == x.t \in {"pair", "vec"}
ObjId(x) == IF IsObj(x) THEN {x.v} ELSE {}
RECURSIVE ReachObjR(_, _, _)
ReachObjR(frontier, seen, h) ==
  IF frontier = {} THEN seen
  ELSE LET next == UNION {
                 IF h[i].k = "pair" THEN ObjId(h[i].a) \cup ObjId(h[i].d)
                 ELSE IF h[i].k = "vec" THEN UNION {ObjId(h[i].e[j]) : j \in 1..Len(h[i].e)}
                 ELSE {} : i \in frontier} \ seen
       IN ReachObjR(next, seen \cup next, h)
ReachObj(v, h) == IF IsObj(v) THEN ReachObjR({v.v}, {v.v}, h) ELSE {}

Render(v, h) == ValToDatum(v, h, 40, <<>>)

\* ---- argument candidates
Slots == 1..N
IdxFor(len) == {-1, 0, 1, len - 1, len, len + 1, 100} \cap (-1..100)
LenOf(v) == IF v.t = "vec" THEN Len(hp[v.v].e)
            ELSE IF v.t = "pair" THEN Len(ListToSeq(v, hp).s) ELSE 0
Keys == {Lt(1), Lt(2), I(1), I(2), Lt(4), Lt(5), Lt(6), I(7), R(1), R(2), R(3)}
Vals == {P(k) : k \in Slots} \cup {I(9), Lt(3), Lt(5)}

Ops1 == {"car", "cdr", "length", "reverse", "list?", "vector-length", "vector->list", "list->vector",
         "map-id", "for-each-collect", "vector-copy0"}
Ops2 == {"cons", "append", "equal?", "map-cons", "for-each-cons"}
OpsIdx == {"list-tail", "list-ref", "vector-ref", "vector-copy"}
OpsKey == {"memq", "memv", "member", "assq", "assv", "assoc"}
OpsMut2 == {"set-car!", "set-cdr!", "vector-fill!"}

\* candidate operations, by family (a simulation first draws a family, then one candidate of it: drawn uniformly
\* from the union, 40% of the steps were vector-copy! and a behaviour of 12 steps hardly ever held a mutation
\* after a copy)
NFam == 19
CandsOf(f) ==
  CASE f = 1 -> {<<o, <<P(k)>>>> : o \in Ops1, k \in Slots}
    [] f = 2 -> {<<o, <<P(j), P(k)>>>> : o \in Ops2, j \in Slots, k \in Slots}
    [] f = 3 -> {<<"append", <<P(i), P(j), P(k)>>>> : i \in Slots, j \in Slots, k \in {1}}
    [] f = 4 -> {<<o, <<P(j), P(k)>>>> : o \in {"list", "vector"}, j \in Slots, k \in Slots}
    [] f = 5 -> {<<o, <<P(k)>>>> : o \in {"list", "vector"}, k \in Slots}          \* exactly one (rest) argument
    [] f = 6 -> {<<o, <<P(i), P(j), P(k)>>>> : o \in {"list", "vector"}, i \in {1}, j \in Slots, k \in {2, 4}}
    [] f = 7 -> UNION {{<<o, <<P(k), I(i)>>>> : o \in OpsIdx, i \in IdxFor(LenOf(pool[k]))} : k \in Slots}
    [] f = 8 -> {<<o, <<x, P(k)>>>> : o \in OpsKey, x \in Keys, k \in Slots}
    [] f = 9 -> {<<o, <<P(j), P(k)>>>> : o \in {"member", "assoc"}, j \in Slots, k \in Slots}
    [] f = 10 -> {<<o, <<P(k), x>>>> : o \in OpsMut2, k \in Slots, x \in Vals}
    [] f = 11 -> UNION {{<<"vector-set!", <<P(k), I(i), x>>>> : i \in IdxFor(LenOf(pool[k])), x \in Vals} : k \in Slots}
    [] f = 12 -> {<<"make-vector", <<I(i), x>>>> : i \in {-1, 0, 1, 3}, x \in Vals}
    [] f = 13 -> UNION {{<<"vector-copy!", <<P(j), I(at), P(k)>>>> : k \in Slots, at \in IdxFor(LenOf(pool[j]))} : j \in Slots}
    [] f = 14 -> UNION {{<<"vector-copy!", <<P(j), I(at), P(k), I(st)>>>> :
                           j \in Slots, at \in {0, 1}, st \in IdxFor(LenOf(pool[k]))} : k \in Slots}
    [] f = 15 -> UNION {{<<"vector-copy!", <<P(j), I(at), P(k), I(st), I(en)>>>> :
                           j \in Slots, at \in {0, 1}, st \in {0, 1}, en \in IdxFor(LenOf(pool[k]))} : k \in Slots}
    \* the copying operations and the mutators once more, on their own: a copy followed by a mutation of the
    \* original (or of the copy) is what shows a structure or an element cell that is shared by mistake
    [] f = 16 -> {<<o, <<P(k)>>>> : o \in {"reverse", "vector->list", "list->vector", "map-id", "for-each-collect", "vector-copy0", "cdr"}, k \in Slots}
    [] f = 17 -> {<<o, <<P(j), P(k)>>>> : o \in {"cons", "append", "map-cons"}, j \in Slots, k \in Slots}
    [] f = 18 -> {<<o, <<P(k), x>>>> : o \in {"set-car!", "set-cdr!"}, k \in Slots, x \in {I(9), Lt(3)}}
    [] f = 19 -> UNION {{<<"vector-set!", <<P(k), I(i), x>>>> : i \in {0, 1, LenOf(pool[k]) - 1} \cap (0..100), x \in {I(9), Lt(3)}} : k \in Slots}
Cands == UNION {CandsOf(f) : f \in 1..NFam}
SimFamilies == <<1, 1, 2, 2, 3, 4, 5, 6, 7, 7, 8, 9, 10, 10, 10, 11, 11, 12, 13, 14, 15, 16, 16, 16, 17, 17, 18, 18, 18, 19, 19>>
SimCands == CandsOf(SimFamilies[RandomElement(1..Len(SimFamilies))])

-----------------------------------------------------------------------------
\* the required outcome of one operation (derived operations are expressed through Prims)
Outcome(op, av) ==
  CASE op = "map-id" ->          \* (map (lambda (e) e) l): a fresh list of the very same elements
         LET l == ListToSeq(av[1], hp) IN
         IF ~l.ok THEN Oom ELSE LET r == SeqToList(l.s, NilV, hp) IN Ok(r.v, r.hp)
    [] op = "for-each-collect" -> \* (let ((acc '())) (for-each (lambda (e) (set! acc (cons e acc))) l) acc)
         LET l == ListToSeq(av[1], hp) IN
         IF ~l.ok THEN Oom ELSE LET r == SeqToList(Reverse(l.s), NilV, hp) IN Ok(r.v, r.hp)
    [] op = "map-cons" ->        \* (map cons l1 l2): pairs of corresponding elements, shortest list
         LET l1 == ListToSeq(av[1], hp)
             l2 == ListToSeq(av[2], hp) IN
         IF ~l1.ok \/ ~l2.ok THEN Oom
         ELSE LET n == Min2(Len(l1.s), Len(l2.s))
                  RECURSIVE Build(_, _, _)
                  Build(i, acc, h) == IF i = 0 THEN [s |-> acc, hp |-> h]
                                      ELSE LET c == Cons(l1.s[i], l2.s[i], h) IN Build(i - 1, <<c.v>> \o acc, c.hp)
                  b == Build(n, <<>>, hp)
                  r == SeqToList(b.s, NilV, b.hp)
              IN Ok(r.v, r.hp)
    [] op = "for-each-cons" ->   \* (let ((acc '())) (for-each (lambda (a b) (set! acc (cons (cons a b) acc))) l1 l2) acc): shortest list
         LET l1 == ListToSeq(av[1], hp)
             l2 == ListToSeq(av[2], hp) IN
         IF ~l1.ok \/ ~l2.ok THEN Oom
         ELSE LET n == Min2(Len(l1.s), Len(l2.s))
                  RECURSIVE BuildR(_, _, _)
                  BuildR(i, acc, h) == IF i > n THEN [s |-> acc, hp |-> h]
                                       ELSE LET c == Cons(l1.s[i], l2.s[i], h) IN BuildR(i + 1, <<c.v>> \o acc, c.hp)
                  b == BuildR(1, <<>>, hp)
                  r == SeqToList(b.s, NilV, b.hp)
              IN Ok(r.v, r.hp)
    [] op = "vector-copy0" -> Prim("vector-copy", av, hp)
    [] OTHER -> Prim(op, av, hp)

\* a mutation that would create a cycle is not generated
Cyclic(op, av) ==
  /\ op \in {"set-car!", "set-cdr!", "vector-fill!", "vector-set!", "vector-copy!"}
  /\ IsObj(av[1])
  /\ IF op = "vector-set!" THEN av[1].v \in ReachObj(av[3], hp)
     ELSE IF op = "vector-copy!"
          THEN av[3].t = "vec" /\ \E j \in 1..Len(hp[av[3].v].e) : av[1].v \in ReachObj(hp[av[3].v].e[j], hp)
     ELSE av[1].v \in ReachObj(av[2], hp)

Apply(op, a, dst) ==
  LET av == [i \in 1..Len(a) |-> ArgVal(a[i])]
      out == Outcome(op, av)
      store == out.s = "ok" /\ dst # 0 /\ out.v.t \in {"pair", "vec", "nil"}
      hp2 == IF out.s = "ok" THEN out.hp ELSE hp
      pool2 == IF store THEN [pool EXCEPT ![dst] = out.v] ELSE pool
      exp == CASE out.s = "ok" -> [r |-> "ok", v |-> Render(out.v, hp2)]
               [] out.s = "err" -> [r |-> "err", c |-> out.c]
               [] OTHER -> [r |-> "any"]
  IN
  /\ ~Cyclic(op, av)
  /\ hp' = hp2
  /\ pool' = pool2
  /\ hist' = Append(hist, [op |-> op, a |-> a, dst |-> IF store THEN dst ELSE 0, exp |-> exp,
                           state |-> [k \in 1..N |-> Render(pool2[k], hp2)],
                           share |-> ShareMatrix(pool2, N, hp2), elem |-> ElemMatrix(pool2, N, hp2)])

Init ==
  /\ variant \in {1, 2, 3, 4, 5, 6}
  /\ hp = <<>>
  /\ pool = [k \in 1..N |-> NilV]
  /\ hist = <<>>

NInit == 5
Step ==
  /\ Len(hist) < NInit + Depth
  /\ IF Len(hist) < NInit
     THEN LET o == InitOps(variant)[Len(hist) + 1] IN Apply(o.op, o.a, o.dst)
     ELSE \E c \in (IF Sim THEN {RandomElement(SimCands)} ELSE Cands) : Apply(c[1], c[2], ((Len(hist)) % N) + 1)
  /\ UNCHANGED variant

\* after an outcome the specification does not prescribe, the state of the implementation is unknown:
\* the behaviour ends there
Stuck == Len(hist) > 0 /\ hist[Len(hist)].exp.r = "any"
Next == ~Stuck /\ Step
Spec == Init /\ [][Next]_vars

Done == Len(hist) = NInit + Depth \/ Stuck
\* one line per finished behaviour (an "invariant" that is always TRUE)
Emit == Done => PrintT(<<"REPLAY", ToJson([variant |-> variant, ops |-> hist,
                                            lits |-> [i \in 1..Len(LitVals) |-> LitVals[i]]])>>)

\* ---- properties of the specification itself, checked on every generated state
\* frame condition: an operation that is not a mutator leaves the rendering of every pool object that it
\* did not overwrite unchanged
Mutators == {"set-car!", "set-cdr!", "vector-set!", "vector-fill!", "vector-copy!"}
FrameOK ==
  Len(hist) >= 2 =>
    LET h == hist[Len(hist)]
        g == hist[Len(hist) - 1] IN
    (h.op \notin Mutators) => \A k \in 1..N : (k = h.dst) \/ h.state[k] = g.state[k]
\* the pool never holds a dangling or ill-typed value
TypeOK == \A k \in 1..N : pool[k].t \in {"pair", "vec", "nil", "int", "sym", "bool", "char"}
                          /\ (pool[k].t \in {"pair", "vec"} => pool[k].v \in 1..Len(hp))
=============================================================================
