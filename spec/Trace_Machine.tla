--------------------------- MODULE Trace_Machine ---------------------------
(***************************************************************************)
(* Trace validation of the real compiler and the real instruction          *)
(* interpreter against module Machine.                                     *)
(*                                                                         *)
(* IOEnv.TRACE (ndjson), one record per session: sy (symbol table),        *)
(* builtins (procedures implemented in Rust), forms; per form              *)
(*   core     the form after macro expansion                               *)
(*   listing  the compiler's output (nested lambdas inline, variables by   *)
(*            name, flat offsets)                                          *)
(*   steps    before every instruction <<op, flat offset, sp, bp, acc>>    *)
(*   r, v     outcome ("ok" value / "err" / "trunc": trace cut / "xerr")   *)
(*                                                                         *)
(* Per form: the model compiles core (Compile) and the result must be the  *)
(* recorded listing (instruction for instruction, operand for operand,     *)
(* jump target for jump target; the captured-variable set of every lambda  *)
(* must contain every free variable bound by the enclosing lambda and      *)
(* nothing the enclosing lambda does not bind).  Then the model executes   *)
(* the code one instruction per step (Exec) and before every instruction   *)
(* its registers must equal the recorded ones.  At the end the outcome     *)
(* must agree.  The first difference of a session is printed as a MISMATCH *)
(* line and ends that session (the states have diverged); an END line per  *)
(* session lets the driver check that every session was consumed.          *)
(***************************************************************************)
EXTENDS Machine, Json, IOUtils, TLCExt

Rec == ndJsonDeserialize(IOEnv.TRACE)

VARIABLES m, si, fi, k, ph, tot
vars == <<m, si, fi, k, ph, tot>>

Has(r, f) == f \in DOMAIN r

RECURSIVE Match(_, _)
Match(e, g) ==
  IF e.t \in {"void", "opaque", "undef"} THEN TRUE
  ELSE CASE e.t = "proc" -> g.t \in {"proc", "kont"}       \* builtin procedures (closures and continuations are opaque)
         [] e.t # g.t -> FALSE
         [] e.t \in {"int", "bool", "char", "str"} -> e.v = g.v
         [] e.t = "num" -> e.s = g.s
         [] e.t = "sym" -> IF Has(e, "n") THEN Has(g, "n") /\ e.n = g.n ELSE Has(g, "v") /\ e.v = g.v
         [] e.t = "nil" -> TRUE
         [] e.t = "list" -> /\ Len(e.v) = Len(g.v)
                            /\ \A i \in 1..Len(e.v) : Match(e.v[i], g.v[i])
                            /\ Match(e.tl, g.tl)
         [] e.t = "vec" -> /\ Len(e.v) = Len(g.v)
                           /\ \A i \in 1..Len(e.v) : Match(e.v[i], g.v[i])
         [] OTHER -> FALSE

-----------------------------------------------------------------------------
(* the compiler's output against Compile *)
OpndOK(r, x) == r.k = x.k /\ (x.k \in {"g", "e"} => r.n = x.n)

\* result: [ok, what, at]
LOk == [ok |-> TRUE, what |-> "", at |-> 0]
LBad(what, at) == [ok |-> FALSE, what |-> what, at |-> at]

RECURSIVE ListingCheck(_, _, _, _, _), InstrsCheck(_, _, _, _, _, _)
ListingCheck(R, idx, pnames, code, hp) ==
  LET L == code[idx] IN
  IF ~Has(R, "bc") THEN LBad("no listing", 0)
  ELSE IF R.args # L.args \/ R.vararg # L.vararg THEN LBad("parameters", 0)
  ELSE IF SeqSet(R.idefs) # SeqSet(L.idefs) THEN LBad("internal definitions", 0)
  ELSE IF \E x \in SeqSet(L.capt) : ~\E j \in 1..Len(R.capt) : R.capt[j][1] = x
       THEN LBad("a free variable bound by the enclosing procedure is not captured", 0)
  ELSE IF \E j \in 1..Len(R.capt) : R.capt[j][1] \notin pnames \/ R.capt[j][2] # "iofenv" \/ R.capt[j][3] # R.capt[j][1]
       THEN LBad("captured variable with a wrong source", 0)
  ELSE IF Len(R.bc) # Len(L.bc) THEN LBad("number of instructions", Len(R.bc))
  ELSE IF R.size # L.off[Len(L.bc) + 1] THEN LBad("code size", R.size)
  ELSE InstrsCheck(R, L, 1, LamNames(L), code, hp)
InstrsCheck(R, L, i, names, code, hp) ==
  IF i > Len(L.bc) THEN LOk
  ELSE LET r == R.bc[i]
           x == L.bc[i]
           bad == LBad("instruction", r.at) IN
       IF r.op # x.op \/ r.at # L.off[i] THEN bad
       ELSE LET imm == IF x.op \in {"MovImmediate", "PushImmediate"}
                       THEN IF r.x.k # x.x.k THEN bad
                            ELSE CASE x.x.k = "argc" -> IF r.x.n = x.x.n THEN LOk ELSE bad
                                   [] x.x.k = "val" -> IF Match(ValToDatum(x.x.v, hp, 64, <<>>), r.x.v) THEN LOk ELSE LBad("constant", r.at)
                                   [] x.x.k = "lam" -> ListingCheck(r.x.lam, x.x.l, names, code, hp)
                                   [] OTHER -> LOk
                       ELSE LOk
                rest == CASE x.op = "Mov" -> OpndOK(r.s, x.s) /\ OpndOK(r.d, x.d)
                          [] x.op = "MovImmediate" -> OpndOK(r.d, x.d)
                          [] x.op \in {"Jmp", "Jnt"} -> r.to = L.off[i + x.rel]
                          [] OTHER -> TRUE IN
            IF ~imm.ok THEN imm ELSE IF ~rest THEN bad ELSE InstrsCheck(R, L, i + 1, names, code, hp)

-----------------------------------------------------------------------------
(* the registers against Exec *)
Scalar(mm, v) ==
  CASE v.t = "int" -> <<"int", v.v>>
    [] v.t = "bool" -> <<"bool", v.v>>
    [] v.t = "char" -> <<"char", v.v>>
    [] v.t = "sym" -> <<"sym", mm.sy[v.v]>>
    [] v.t \in {"nil", "num", "undef", "void", "any"} -> <<v.t>>
    [] OTHER -> <<>>
Shallow(mm, v) ==
  IF Scalar(mm, v) # <<>> THEN Scalar(mm, v)
  ELSE CASE v.t \in {"pair", "str", "vec"} -> <<v.t>>
         [] v.t \in {"mclo", "mlam", "prim", "mkont"} -> <<"proc">>
         [] OTHER -> <<"other">>
AccAbs(mm, v) ==
  IF Scalar(mm, v) # <<>> THEN Scalar(mm, v)
  ELSE CASE v.t = "pair" -> <<"pair", Shallow(mm, Car(v, mm.hp)), Shallow(mm, Cdr(v, mm.hp))>>
         [] v.t = "str" -> <<"str", StrChars(v, mm.hp)>>
         [] v.t = "vec" -> <<"vec", Len(VecElems(v, mm.hp))>>
         [] v.t = "mclo" -> <<"clo", Len(mm.code[v.l].args)>>
         [] v.t = "mlam" -> <<"lam">>
         [] v.t = "prim" -> <<"prim", v.v>>
         [] v.t = "mkont" -> <<"kont", Len(v.stk)>>
         [] v.t = "macro" -> <<"macro">>
         [] OTHER -> <<"other">>
AbsEq(a, b) == a[1] = "any" \/ (a[1] = b[1] /\ a = b)

\* the slot on top of the control stack: a frame word (argument count, saved %bp / %ep / %ip) or a value
TopAbs(mm) ==
  IF Len(mm.stk) = 0 THEN <<"none">>
  ELSE LET v == mm.stk[Len(mm.stk)] IN
       CASE v.t = "argc" -> <<"argc", v.v>>
         [] v.t = "bp" -> <<"bp", v.v>>
         [] v.t = "ep" -> <<"ep">>
         [] v.t = "ip" -> <<"ip">>
         [] OTHER -> Shallow(mm, v)

PreDesc(mm) == <<Cur(mm).op, mm.code[mm.ip.l].off[mm.ip.o], Len(mm.stk), mm.bp, AccAbs(mm, mm.acc), TopAbs(mm)>>
PreOK(mm, s) ==
  /\ Cur(mm).op = s[1]
  /\ mm.code[mm.ip.l].off[mm.ip.o] = s[2]
  /\ Len(mm.stk) = s[3]
  /\ mm.bp = s[4]
  /\ AbsEq(AccAbs(mm, mm.acc), s[5])
  /\ (Len(s) < 6 \/ AbsEq(TopAbs(mm), s[6]))

-----------------------------------------------------------------------------
Form == Rec[si].forms[fi]
Report(what, exp, got) ==
  PrintT(<<"MISMATCH", ToJson([id |-> Rec[si].id, form |-> fi, step |-> k, text |-> Form.text, prelude |-> Form.prelude,
                               what |-> what, exp |-> exp, got |-> got])>>)
EndLine(note) ==
  PrintT(<<"END", ToJson([id |-> Rec[si].id, forms |-> fi, steps |-> tot, note |-> note])>>)

Init ==
  /\ si \in 1..Len(Rec)
  /\ m = [InitM(Rec[si].sy, Rec[si].builtins) EXCEPT !.acc = [t |-> "any"]]
  /\ fi = 1 /\ k = 0 /\ ph = "start" /\ tot = 0

Stop(note) == /\ EndLine(note) /\ ph' = "done" /\ UNCHANGED <<m, si, fi, k, tot>>

Begin ==
  /\ ph = "start"
  /\ IF fi > Len(Rec[si].forms) THEN Stop("complete")
     ELSE IF Form.r = "xerr"       \* macro expansion failed inside prepare_eval: nothing was compiled or executed
          THEN /\ ph' = "start" /\ fi' = fi + 1 /\ UNCHANGED <<m, si, k, tot>>
     ELSE LET m2 == StartM(m, Form.core)
              isSyntaxDef == Form.core.t = "list" /\ Kw(Form.core.v[1], K_define_syntax) IN
          IF m2.status = "fail"
          THEN \* the model rejects the form at compile time
               IF Form.r = "err" /\ Len(Form.steps) = 0
               THEN /\ m' = m2 /\ ph' = "start" /\ fi' = fi + 1 /\ UNCHANGED <<si, k, tot>>
               ELSE /\ Report("a form the compiler must reject was compiled", [err |-> m2.res.why], [r |-> Form.r])
                    /\ Stop("mismatch")
          ELSE IF ~Has(Form.listing, "bc")
          THEN IF isSyntaxDef /\ Form.r = "err"
               THEN /\ ph' = "start" /\ fi' = fi + 1 /\ UNCHANGED <<m, si, k, tot>>     \* malformed syntax-rules: not modelled
               ELSE /\ Report("a well-formed form was rejected by the compiler", [r |-> "compiled"], [r |-> Form.r])
                    /\ Stop("mismatch")
          ELSE LET c == ListingCheck(Form.listing, m2.ip.l - 1, {}, m2.code, m2.hp) IN
               IF ~c.ok
               THEN /\ Report("compiler output", [what |-> c.what, at |-> c.at], [r |-> Form.r])
                    /\ Stop("mismatch")
               ELSE /\ m' = m2 /\ ph' = "run" /\ k' = 1 /\ UNCHANGED <<si, fi, tot>>

Step ==
  /\ ph = "run"
  /\ IF m.status = "oom" THEN Stop("out of model: " \o m.res.why)
     ELSE IF k <= Len(Form.steps)
     THEN IF m.status # "run"
          THEN /\ Report("the implementation executes instructions after the model has finished", [status |-> m.status], Form.steps[k])
               /\ Stop("mismatch")
          ELSE IF ~PreOK(m, Form.steps[k])
          THEN /\ Report("registers before an instruction", PreDesc(m), Form.steps[k])
               /\ Stop("mismatch")
          ELSE /\ m' = Exec(m) /\ k' = k + 1 /\ tot' = tot + 1 /\ UNCHANGED <<si, fi, ph>>
     ELSE \* every recorded step consumed
          IF Form.r = "trunc" THEN Stop("trace cut")
          ELSE IF Form.r = "dead" THEN Stop("watchdog")
          ELSE IF m.status = "run"
          THEN /\ Report("the implementation stopped where the model goes on", PreDesc(m), [r |-> Form.r])
               /\ Stop("mismatch")
          ELSE IF (m.status = "done") # (Form.r = "ok")
          THEN /\ Report("outcome", [status |-> m.status], [r |-> Form.r])
               /\ Stop("mismatch")
          ELSE IF m.status = "done" /\ ~Match(ValToDatum(m.res, m.hp, 64, m.sy), Form.v)
          THEN /\ Report("value", ValToDatum(m.res, m.hp, 64, m.sy), Form.v)
               /\ Stop("mismatch")
          ELSE /\ ph' = "start" /\ fi' = fi + 1 /\ UNCHANGED <<m, si, k, tot>>

Next == Begin \/ Step
Spec == Init /\ [][Next]_vars
=============================================================================
