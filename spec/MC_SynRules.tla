---------------------------- MODULE MC_SynRules ----------------------------
(***************************************************************************)
(* Regression of SyntaxRules.tla itself: hand-stated examples with the     *)
(* expansion R7RS prescribes.  Two sources:                                *)
(*  - Inline: written below directly as data (independent of the harness): *)
(*    the R7RS 4.3.2 examples my-or and be-like-begin, and one transformer *)
(*    per clause of the matching rules, including the cases the report     *)
(*    leaves open (which must come out as "unspec").                       *)
(*  - IOEnv.CORPUS: corpus/synrules.scm (R7RS 7.3 derived forms and more)  *)
(*    converted to data by `mwverif synrules corpus'; each record carries  *)
(*    rawdef (as written), def (templates quoted), use, expect.            *)
(* One initial state per example; the invariant is "Expand gives what is   *)
(* stated".  Run with -continue to list every failing example.             *)
(***************************************************************************)
EXTENDS SyntaxRules, Json, IOUtils, TLCExt

Corpus == ndJsonDeserialize(IOEnv.CORPUS)

S(i) == Sym(i)
I(n) == [t |-> "int", v |-> n]
L(s) == IF Len(s) = 0 THEN Nil ELSE [t |-> "list", v |-> s, tl |-> Nil]
LD(s, tl) == [t |-> "list", v |-> s, tl |-> tl]
V(s) == [t |-> "vec", v |-> s]
FalseD == [t |-> "bool", v |-> FALSE]
R(p, t) == L(<<p, t>>)
U == S(K_underscore)
E == S(K_ellipsis)
m == S(300)   a == S(301)    b == S(302)    c == S(303)   e1 == S(305)   e2 == S(306)
temp == S(307)   x == S(308)   name == S(310)   expr == S(311)   sequence == S(312)
MyEll == 313
Def(lits, rules) == L(<<S(K_define_syntax), m, L(<<S(K_syntax_rules), L(lits)>> \o rules)>>)
DefE(ell, lits, rules) == L(<<S(K_define_syntax), m, L(<<S(K_syntax_rules), S(ell), L(lits)>> \o rules)>>)
Ex(def, use, want) == [def |-> def, use |-> use, want |-> want]
Exp(d) == [k |-> "exp", d |-> d]
NoM == [k |-> "nomatch"]
Uns == [k |-> "unspec"]

MyOr == Def(<<>>, <<
  R(L(<<m>>), FalseD),
  R(L(<<m, e1>>), e1),
  R(L(<<m, e1, e2, E>>), L(<<S(K_let), L(<<L(<<temp, e1>>)>>), L(<<S(K_if), temp, temp, L(<<m, e2, E>>)>>)>>))>>)
BeLikeBegin == Def(<<>>, <<
  R(L(<<m, name>>),
    L(<<S(K_define_syntax), name,
        L(<<S(K_syntax_rules), Nil,
            R(L(<<name, expr, L(<<E, E>>)>>), L(<<S(K_begin), expr, L(<<E, E>>)>>))>>)>>))>>)
TailP == Def(<<>>, <<R(L(<<U, a, E, b, c>>), L(<<b, c, L(<<a, E>>)>>))>>)
Dotted == Def(<<>>, <<R(LD(<<U, a>>, b), L(<<b, a>>))>>)
Nested == Def(<<>>, <<R(L(<<U, L(<<a, b, E>>), E>>), L(<<L(<<a, E>>), L(<<L(<<b, E>>), E>>), L(<<b, E, E>>)>>))>>)
Lit == Def(<<S(K_else)>>, <<R(L(<<U, S(K_else), a>>), L(<<I(1), a>>)), R(L(<<U, b, a>>), L(<<I(2), b, a>>))>>)
Vect == Def(<<>>, <<R(L(<<U, V(<<a, b, E>>)>>), V(<<b, E, a>>))>>)
Custom == DefE(MyEll, <<>>, <<R(L(<<U, a, S(MyEll)>>), L(<<a, S(MyEll), E>>))>>)
Zip == Def(<<>>, <<R(L(<<U, L(<<a, E>>), L(<<b, E>>)>>), L(<<L(<<a, b>>), E>>))>>)
TooMany == Def(<<>>, <<R(L(<<U, a>>), L(<<a, E>>))>>)
RestEll == Def(<<>>, <<R(L(<<U, LD(<<a, E>>, b)>>), b)>>)
DupVar == Def(<<>>, <<R(L(<<U, a, a>>), a)>>)
Under == Def(<<>>, <<R(L(<<U, U, a>>), a)>>)
UnderLit == Def(<<U>>, <<R(L(<<m, U, a>>), a)>>)

Inline == <<
  Ex(MyOr, L(<<m>>), Exp(FalseD)),
  Ex(MyOr, L(<<m, I(5)>>), Exp(I(5))),
  Ex(MyOr, L(<<m, I(1), I(2), I(3)>>),
     Exp(L(<<S(K_let), L(<<L(<<temp, I(1)>>)>>), L(<<S(K_if), temp, temp, L(<<m, I(2), I(3)>>)>>)>>))),
  Ex(BeLikeBegin, L(<<m, sequence>>),
     Exp(L(<<S(K_define_syntax), sequence,
             L(<<S(K_syntax_rules), Nil, R(L(<<sequence, expr, E>>), L(<<S(K_begin), expr, E>>))>>)>>))),
  Ex(TailP, L(<<m, I(1), I(2)>>), Exp(L(<<I(1), I(2), Nil>>))),
  Ex(TailP, L(<<m, I(1), I(2), I(3), I(4)>>), Exp(L(<<I(3), I(4), L(<<I(1), I(2)>>)>>))),
  Ex(TailP, L(<<m, I(1)>>), NoM),
  Ex(Dotted, L(<<m, I(1), I(2), I(3)>>), Exp(L(<<L(<<I(2), I(3)>>), I(1)>>))),
  Ex(Dotted, L(<<m, I(1)>>), Exp(L(<<Nil, I(1)>>))),
  Ex(Dotted, LD(<<m, I(1)>>, I(2)), Exp(L(<<I(2), I(1)>>))),
  Ex(Dotted, L(<<m>>), NoM),
  Ex(Nested, L(<<m, L(<<I(1), I(2), I(3)>>), L(<<I(4)>>)>>),
     Exp(L(<<L(<<I(1), I(4)>>), L(<<L(<<I(2), I(3)>>), Nil>>), L(<<I(2), I(3)>>)>>))),
  Ex(Nested, L(<<m>>), Exp(L(<<Nil, Nil, Nil>>))),
  Ex(Lit, L(<<m, S(K_else), I(5)>>), Exp(L(<<I(1), I(5)>>))),
  Ex(Lit, L(<<m, x, I(5)>>), Exp(L(<<I(2), x, I(5)>>))),
  Ex(Vect, L(<<m, V(<<I(1), I(2), I(3)>>)>>), Exp(V(<<I(2), I(3), I(1)>>))),
  Ex(Vect, L(<<m, L(<<I(1), I(2)>>)>>), NoM),
  Ex(Custom, L(<<m, I(1), I(2)>>), Exp(L(<<I(1), I(2), E>>))),
  Ex(Zip, L(<<m, L(<<I(1), I(2)>>), L(<<I(3), I(4)>>)>>), Exp(L(<<L(<<I(1), I(3)>>), L(<<I(2), I(4)>>)>>))),
  Ex(Zip, L(<<m, L(<<I(1), I(2)>>), L(<<I(3)>>)>>), Uns),
  Ex(TooMany, L(<<m, I(1)>>), Uns),
  Ex(RestEll, L(<<m, I(5)>>), Uns),
  Ex(RestEll, L(<<m, LD(<<I(1)>>, I(5))>>), Exp(I(5))),
  Ex(RestEll, L(<<m, Nil>>), Exp(Nil)),
  Ex(DupVar, L(<<m, I(1), I(1)>>), Uns),
  Ex(Under, L(<<m, I(1), I(2)>>), Exp(I(2))),
  Ex(UnderLit, L(<<m, I(1), I(2)>>), NoM),
  Ex(UnderLit, L(<<m, U, I(2)>>), Exp(I(2)))
>>

Agree(res, want) ==
  IF want.k = "exp" THEN res.k = "exp" /\ DEq(res.d, want.d) ELSE res.k = want.k

Quote(d) == [t |-> "list", v |-> <<Sym(K_quote), d>>, tl |-> Nil]

N == Len(Inline) + Len(Corpus)

VARIABLE i
Init == i \in 1..N
Next == UNCHANGED i
Spec == Init /\ [][Next]_i

Fails(src, n, txt, want, res) ==
  PrintT(<<"EXAMPLE-FAILS", ToJson([source |-> src, n |-> n, text |-> txt, want |-> want, spec |-> res])>>) /\ FALSE

ExampleOK ==
  IF i <= Len(Inline) THEN
     LET ex == Inline[i]
         res == Expand(ex.def, ex.use)
     IN  IF Agree(res, ex.want) THEN TRUE ELSE Fails("inline", i, "", ex.want, res)
  ELSE
     LET r == Corpus[i - Len(Inline)] IN
     IF r.expect.k = "none" THEN TRUE
     ELSE LET res  == Expand(r.rawdef, r.use)
              resq == Expand(r.def, r.use)
              wq   == IF r.expect.k = "exp" THEN [k |-> "exp", d |-> Quote(r.expect.d)] ELSE r.expect
          IN  /\ IF Agree(res, r.expect) THEN TRUE ELSE Fails("corpus", r.id, r.text, r.expect, res)
              /\ IF Agree(resq, wq) THEN TRUE ELSE Fails("corpus-quoted", r.id, r.text, wq, resq)
=============================================================================
