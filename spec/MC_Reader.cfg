SPECIFICATION Spec
INVARIANT TypeOK
INVARIANT AgreesWithGrammar
INVARIANT ConsumesExactlyK
INVARIANT PrefixesIncomplete
INVARIANT CompleteNeverIncomplete
INVARIANT IncompleteIsWitnessed
INVARIANT Extension
INVARIANT PrefixFree
CHECK_DEADLOCK FALSE
