------------------------------ MODULE MarwoodGC ------------------------------
(***************************************************************************)
(* The collector of marwood as a state machine (heap.rs / gc.rs / run_gc): *)
(* a fixed array of cells, each Free / Allocated / Used (marked), a free   *)
(* list, an intern table name -> symbol cell, a root set, and a capacity   *)
(* that grows by the 1.5x policy.                                          *)
(*                                                                         *)
(* The mutator (the running program) allocates pairs, boxes (one edge:     *)
(* closures, environments, vectors) and symbols through the intern table,  *)
(* overwrites edges of reachable cells, and gains / drops roots.           *)
(* A collection is stop-the-world, as in the implementation: StartGC       *)
(* puts the roots on a worklist, MarkStep marks one cell and pushes its    *)
(* edges (cells already marked are skipped, which is what terminates       *)
(* marking on cyclic graphs), Sweep frees every cell left Allocated,       *)
(* removing freed symbols from the intern table, turns Used back into      *)
(* Allocated, and grows the heap when it is still more than 3/4 full.      *)
(* Allocation with an empty free list grows the heap first.                *)
(*                                                                         *)
(* Invariants (checked exhaustively for small constants by MC_GC):         *)
(*   Safety, Exactness, FreeListOK, InternOK, MarksReset, TypeOK;          *)
(* liveness: every collection terminates (MarkingTerminates).              *)
(***************************************************************************)
EXTENDS GCPreds, TLC

CONSTANTS MaxCells,     \* size of the cell array the model may grow to
          Cap0,         \* initial capacity
          ChunkM,       \* chunk size of the growth policy in the model
          Names,        \* symbol names
          RootSlots     \* mutator roots (registers / stack slots / globals)

None == 0
Idx == 1..MaxCells

VARIABLES cell,    \* Idx -> [k: "pair"|"box"|"sym"|"none", a, d: Idx or None, name]
          st,      \* Idx -> "free" | "alloc" | "used"
          free,    \* sequence of cells (the free list; allocation pops the last element)
          symtab,  \* Names -> Idx or None
          root,    \* RootSlots -> Idx or None
          cap,     \* current capacity: cells 1..cap exist
          phase,   \* "mutate" | "mark"
          work,    \* worklist of the marker
          swept    \* ghost: TRUE in the state right after a sweep
vars == <<cell, st, free, symtab, root, cap, phase, work, swept>>

Empty == [k |-> "none", a |-> None, d |-> None, name |-> None]

OutOf(c) == IF cell[c].k = "pair" THEN {cell[c].a, cell[c].d} \ {None}
            ELSE IF cell[c].k = "box" THEN {cell[c].a} \ {None} ELSE {}
OutF == [c \in 1..cap |-> OutOf(c)]
Roots == {root[r] : r \in RootSlots} \ {None}
Live == Reach(OutF, Roots)
Alloc == {c \in 1..cap : st[c] # "free"}
SeqSet(s) == {s[i] : i \in 1..Len(s)}

TypeOK ==
  /\ cap \in Cap0..MaxCells
  /\ \A c \in Idx : st[c] \in {"free", "alloc", "used"}
  /\ \A c \in Idx : c > cap => st[c] = "free" /\ cell[c] = Empty

Init ==
  /\ cell = [c \in Idx |-> Empty]
  /\ st = [c \in Idx |-> "free"]
  /\ cap = Cap0
  /\ free = [i \in 1..Cap0 |-> Cap0 + 1 - i]      \* (0..chunk).rev(): cell 1 is allocated first
  /\ symtab = [n \in Names |-> None]
  /\ root = [r \in RootSlots |-> None]
  /\ phase = "mutate"
  /\ work = <<>>
  /\ swept = FALSE

-----------------------------------------------------------------------------
(* Mutator *)

\* grow the heap by the policy (bounded by the model's array)
CanGrow == Grown(cap, ChunkM) <= MaxCells
GrowOnAlloc ==
  /\ phase = "mutate" /\ free = <<>> /\ CanGrow
  /\ LET nc == Grown(cap, ChunkM) IN
     /\ cap' = nc
     /\ free' = [i \in 1..(nc - cap) |-> cap + i]
  /\ swept' = FALSE
  /\ UNCHANGED <<cell, st, symtab, root, phase, work>>

\* allocate a cell with the given content into root slot r (the result register)
AllocCell(r, content) ==
  /\ phase = "mutate" /\ free # <<>>
  /\ LET c == free[Len(free)] IN
     /\ free' = SubSeq(free, 1, Len(free) - 1)
     /\ st' = [st EXCEPT ![c] = "alloc"]
     /\ cell' = [cell EXCEPT ![c] = content]
     /\ root' = [root EXCEPT ![r] = c]
  /\ swept' = FALSE
  /\ UNCHANGED <<cap, phase, work>>

\* edges of new cells may only refer to cells the program can reach (or nothing)
Reachable == Live \cup {None}

AllocPair == \E r \in RootSlots, x \in Reachable, y \in Reachable :
               AllocCell(r, [k |-> "pair", a |-> x, d |-> y, name |-> None]) /\ UNCHANGED symtab
AllocBox  == \E r \in RootSlots, x \in Reachable :
               AllocCell(r, [k |-> "box", a |-> x, d |-> None, name |-> None]) /\ UNCHANGED symtab

\* interning: an existing symbol cell is reused, otherwise a new one is allocated and entered
Intern == \E r \in RootSlots, n \in Names :
  IF symtab[n] # None
  THEN /\ phase = "mutate"
       /\ root' = [root EXCEPT ![r] = symtab[n]]
       /\ swept' = FALSE
       /\ UNCHANGED <<cell, st, free, symtab, cap, phase, work>>
  ELSE /\ AllocCell(r, [k |-> "sym", a |-> None, d |-> None, name |-> n])
       /\ symtab' = [symtab EXCEPT ![n] = free[Len(free)]]

\* overwrite an edge of a reachable cell with a reachable cell (set-car!, vector-set!, set!)
Write == \E c \in Live, x \in Reachable :
  /\ phase = "mutate" /\ cell[c].k \in {"pair", "box"}
  /\ \/ cell' = [cell EXCEPT ![c].a = x]
     \/ cell[c].k = "pair" /\ cell' = [cell EXCEPT ![c].d = x]
  /\ swept' = FALSE
  /\ UNCHANGED <<st, free, symtab, root, cap, phase, work>>

\* roots change: a register is overwritten / a frame is popped / a reachable value is loaded
DropRoot == \E r \in RootSlots :
  /\ phase = "mutate" /\ root[r] # None
  /\ root' = [root EXCEPT ![r] = None]
  /\ swept' = FALSE
  /\ UNCHANGED <<cell, st, free, symtab, cap, phase, work>>
LoadRoot == \E r \in RootSlots, x \in Live :
  /\ phase = "mutate"
  /\ root' = [root EXCEPT ![r] = x]
  /\ swept' = FALSE
  /\ UNCHANGED <<cell, st, free, symtab, cap, phase, work>>

-----------------------------------------------------------------------------
(* Collector *)
StartGC ==
  /\ phase = "mutate"
  /\ phase' = "mark"
  /\ work' = [i \in 1..Cardinality(Roots) |->
                CHOOSE c \in Roots : Cardinality({d \in Roots : d < c}) = i - 1]
  /\ swept' = FALSE
  /\ UNCHANGED <<cell, st, free, symtab, root, cap>>

MarkStep ==
  /\ phase = "mark" /\ work # <<>>
  /\ LET c == work[Len(work)]
         rest == SubSeq(work, 1, Len(work) - 1) IN
     IF st[c] = "used" \/ st[c] = "free"      \* already marked: follow no further (cycles end here)
     THEN work' = rest /\ UNCHANGED st
     ELSE /\ st' = [st EXCEPT ![c] = "used"]
          /\ work' = rest \o [i \in 1..Cardinality(OutOf(c)) |->
                                CHOOSE x \in OutOf(c) : Cardinality({y \in OutOf(c) : y < x}) = i - 1]
  /\ UNCHANGED <<cell, free, symtab, root, cap, phase, swept>>

Sweep ==
  /\ phase = "mark" /\ work = <<>>
  /\ LET dead == {c \in 1..cap : st[c] = "alloc"}
         deadSeq == [i \in 1..Cardinality(dead) |-> CHOOSE c \in dead : Cardinality({d \in dead : d < c}) = i - 1]
         st2 == [c \in Idx |-> IF c \in dead THEN "free" ELSE IF st[c] = "used" THEN "alloc" ELSE st[c]]
         used == Cardinality({c \in 1..cap : st2[c] # "free"})
         grow == Crowded(used, cap) /\ CanGrow
         nc == IF grow THEN Grown(cap, ChunkM) ELSE cap
     IN
     /\ st' = st2
     /\ cell' = [c \in Idx |-> IF c \in dead THEN Empty ELSE cell[c]]
     /\ symtab' = [n \in Names |-> IF symtab[n] \in dead THEN None ELSE symtab[n]]
     /\ free' = free \o deadSeq \o [i \in 1..(nc - cap) |-> cap + i]
     /\ cap' = nc
  /\ phase' = "mutate"
  /\ swept' = TRUE
  /\ UNCHANGED <<root, work>>

Next == GrowOnAlloc \/ AllocPair \/ AllocBox \/ Intern \/ Write \/ DropRoot \/ LoadRoot
        \/ StartGC \/ MarkStep \/ Sweep
Spec == Init /\ [][Next]_vars /\ WF_vars(MarkStep) /\ WF_vars(Sweep)

-----------------------------------------------------------------------------
(* Properties *)

\* nothing the program can reach is ever free, in any phase
Safety == Live \subseteq Alloc
\* immediately after a collection no unreachable cell remains allocated
Exactness == swept => Alloc = Live
\* the free list is exactly the set of free cells below the capacity, without duplicates
FreeListOK == /\ SeqSet(free) = {c \in 1..cap : st[c] = "free"}
              /\ Len(free) = Cardinality(SeqSet(free))
\* outside a collection no cell is left marked
MarksReset == phase = "mutate" => \A c \in Idx : st[c] # "used"
\* the intern table is exactly: name -> the one allocated symbol cell of that name
InternOK ==
  /\ \A n \in Names : symtab[n] # None => st[symtab[n]] # "free" /\ cell[symtab[n]].k = "sym" /\ cell[symtab[n]].name = n
  /\ \A c \in 1..cap : st[c] # "free" /\ cell[c].k = "sym" => symtab[cell[c].name] = c
\* a collection never changes a cell the program can reach
NoChange == [][phase = "mark" => \A c \in Live : cell'[c] = cell[c]]_vars
\* every collection terminates, also on cyclic graphs
MarkingTerminates == (phase = "mark") ~> (phase = "mutate")
=============================================================================
