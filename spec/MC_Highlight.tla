----------------------------- MODULE MC_Highlight -----------------------------
(***************************************************************************)
(* Exhaustive model check of the specification Highlight itself: every     *)
(* text over the alphabet of C20 up to length N (IOEnv.N; symbols selected  *)
(* by the bit mask IOEnv.MASK) is one state; the invariants quantify over  *)
(* every byte cursor 0 .. bytes+1.                                         *)
(***************************************************************************)
EXTENDS Highlight, IOUtils, TLC

N    == atoi(IOEnv.N)
MASK == atoi(IOEnv.MASK)
Syms == {i \in 1..Len(Alphabet) : (MASK \div (2 ^ (i - 1))) % 2 = 1}

VARIABLE text
Init == text = <<>>
Next == Len(text) < N /\ \E s \in Syms : text' = Append(text, s)
Spec == Init /\ [][Next]_text

Items(tx) == [i \in 1..Len(tx) |-> Alphabet[tx[i]]]

\* The partner relation is an involution on bracket tokens and pairs an opening with a closing one.
PartnerInvolution ==
  LET t == Items(text) L == Lex(t) IN
  \A i \in 1..L.n :
     /\ (~IsBr(L, i)) => L.P[i] = 0
     /\ L.P[i] # 0 => /\ IsBr(L, L.P[i])
                      /\ L.role[L.P[i]] # L.role[i]
                      /\ L.P[L.P[i]] = i
                      /\ (L.role[i] = "open") = (L.P[i] > i)

\* Pairs are nested or disjoint, never crossing.
NoCrossing ==
  LET t == Items(text) L == Lex(t) IN
  \A i, x \in 1..L.n :
     (L.role[i] = "open" /\ L.role[x] = "open" /\ L.P[i] # 0 /\ L.P[x] # 0 /\ i < x)
        => (L.P[i] < x \/ L.P[x] < L.P[i])

\* Bracket tokens are never inside strings, comments or character literals: the items of a string
\* or comment have no bracket role, and a bracket token is one of ( [ #( ) ].
BracketsAreCode ==
  LET t == Items(text) L == Lex(t) IN
  \A i \in 1..L.n : IsBr(L, i) => t[i].k \in {"open", "close", "vopen"}

\* The required output differs from the input in at most one wrapped token: a required wrap is the
\* span of exactly one bracket token, namely the partner of the bracket selected by the cursor, and
\* removing the one escape pair gives the input back.
Strip(out) == \* the two escape sequences removed, given where they must be
  LET i == CHOOSE i \in 1..Len(out) : out[i] = 27 IN
  LET rest == SubSeq(out, 1, i - 1) \o SubSeq(out, i + 4, Len(out)) IN
  LET j == CHOOSE j \in 1..Len(rest) : rest[j] = 27 IN
  SubSeq(rest, 1, j - 1) \o SubSeq(rest, j + 4, Len(rest))

OneWrappedToken ==
  LET t == Items(text) L == Lex(t) cps == Flat(t) IN
  \A p \in 0..(L.bytes + 1) :
     LET r == Required(t, L, p) IN
     /\ r.k \in {"same", "wrap", "either", "any"}
     /\ r.k \in {"wrap", "either"} =>
          LET c == CursorBracket(L, p) IN
          /\ c # 0 /\ L.P[c] # 0 /\ L.P[c] # c
          /\ r.bs = L.bo[L.P[c]] /\ r.be = L.bo[L.P[c] + 1]
          /\ SubSeq(cps, r.cs + 1, r.ce) \in BracketSpellings
          /\ Len(Wrap(cps, r.cs, r.ce)) = Len(cps) + 8
          /\ Strip(Wrap(cps, r.cs, r.ce)) = cps
          /\ Weak(cps, [k |-> "text", cps |-> Wrap(cps, r.cs, r.ce)])
          /\ CheckRequired(L, p) = "free"
     /\ Conforms(r, cps, [k |-> "same"]) = (r.k \in {"same", "either", "any"})

\* A cursor two or more positions away from every bracket token never selects a bracket.
FarCursorUnchanged ==
  LET t == Items(text) L == Lex(t) IN
  \A p \in 0..(L.bytes + 1) :
     (CheckRequired(L, p) = "false") => Required(t, L, p).k = "same"
=============================================================================
