----------------------------- MODULE SchemeCEK -----------------------------
(***************************************************************************)
(* Reference semantics of the language as a CEK machine interpreting       *)
(* S-expression data directly (R7RS 4.1, 4.2, 5.3, 6.10, 6.12, 7.3).        *)
(*                                                                         *)
(* The machine state is one record m:                                      *)
(*   c    control: [m:"ev", e: datum, r: env] | [m:"rt", v: value]         *)
(*                 | [m:"ap", f: value, a: args]                           *)
(*   k    continuation: sequence of frames, top first; the bottom is the   *)
(*        implicit halt of the current top-level evaluation                *)
(*   st   store: location -> value (one location per binding per           *)
(*        activation; closures capture the environment, i.e. locations)    *)
(*   hp   object heap (pairs, vectors, strings, promises)                  *)
(*   gl   global environment: symbol id -> value (UndefV = unbound)        *)
(*   sy   symbol table: symbol id -> name (interning)                      *)
(*   out  output events of the current evaluation                          *)
(*   status  "run" | "done" | "fail" | "oom";  res  result / failure       *)
(*   ghosts: maxd (maximal Len(k)), steps, rules (rule names applied)      *)
(*                                                                         *)
(* An environment is a sequence of <<symbol id, location>>, innermost      *)
(* first.  A procedure call pushes no frame: the body is evaluated with    *)
(* the caller's continuation, so a call in tail position is by             *)
(* construction a step that leaves k as it was.  There is no collector, no *)
(* instruction budget and no register file in this machine: one behaviour  *)
(* of it is the oracle for every collection schedule and every slicing of  *)
(* the implementation.                                                     *)
(*                                                                         *)
(* "oom" (out of model) is reached when R7RS prescribes nothing for the    *)
(* step (unspecified behaviour) or the step needs numbers outside the      *)
(* modelled range; a session that reaches it is abandoned, not judged.     *)
(***************************************************************************)
EXTENDS Prims, CEKNames

\* R7RS 4.3.2 (pattern matching and template instantiation), used for user-defined macros
SR == INSTANCE SyntaxRules

SymD(i) == [t |-> "sym", v |-> i]
Lit(v) == [t |-> "lit", v |-> v]                       \* expression evaluating to the value v
App(f, args) == [t |-> "list", v |-> <<f>> \o args, tl |-> NilV]
QuoteD(d) == App(SymD(K_quote), <<d>>)
ListD(items) == IF Len(items) = 0 THEN NilV ELSE [t |-> "list", v |-> items, tl |-> NilV]

IsSymD(d) == d.t = "sym"
IsKwSym(d, kw) == d.t = "sym" /\ d.v = kw
IsProperD(d) == d.t = "nil" \/ (d.t = "list" /\ d.tl.t = "nil")
Items(d) == IF d.t = "nil" THEN <<>> ELSE d.v     \* for proper list data

-----------------------------------------------------------------------------
(* Environments *)
RECURSIVE FindIdx(_, _, _)
FindIdx(r, id, i) == IF i > Len(r) THEN 0 ELSE IF r[i][1] = id THEN i ELSE FindIdx(r, id, i + 1)
Bound(r, id) == FindIdx(r, id, 1) # 0
LocOf(r, id) == r[FindIdx(r, id, 1)][2]

\* A keyword occurrence denotes the special form unless the name is lexically rebound.
IsForm(d, r) == d.t = "sym" /\ d.v <= NKeywords /\ ~Bound(r, d.v)

-----------------------------------------------------------------------------
(* Machine helpers *)
Push(m, fr) == <<fr>> \o m.k
WithRule(m, rule) == [m EXCEPT !.rules = @ \cup {rule}]

Ev(m, e, r)    == [m EXCEPT !.c = [m |-> "ev", e |-> e, r |-> r]]
EvK(m, e, r, fr) == [m EXCEPT !.c = [m |-> "ev", e |-> e, r |-> r], !.k = <<fr>> \o m.k,
                              !.maxd = Max2(@, Len(m.k) + 1)]
Rt(m, v)       == [m EXCEPT !.c = [m |-> "rt", v |-> v]]
Ap(m, f, a)    == [m EXCEPT !.c = [m |-> "ap", f |-> f, a |-> a]]
ApK(m, f, a, fr) == [m EXCEPT !.c = [m |-> "ap", f |-> f, a |-> a], !.k = <<fr>> \o m.k,
                              !.maxd = Max2(@, Len(m.k) + 1)]
Fail(m, kind, payload) == [m EXCEPT !.status = "fail", !.res = [kind |-> kind, payload |-> payload], !.k = <<>>]
OutOfModel(m, why) == [m EXCEPT !.status = "oom", !.res = [kind |-> "oom", payload |-> why], !.k = <<>>]
Syntax(m) == Fail(m, "syntax", <<>>)

\* Evaluate a non-empty sequence of expressions; the last one in tail position.
EvSeq(m, es, r) ==
  IF Len(es) = 0 THEN Syntax(m)
  ELSE IF Len(es) = 1 THEN Ev(m, es[1], r)
  ELSE EvK(m, es[1], r, [f |-> "seq", rest |-> Tail(es), r |-> r])

Render(m, v) == ValToDatum(v, m.hp, 64, m.sy)

-----------------------------------------------------------------------------
(* Formals, bodies, closures *)

\* formals datum -> [ok, ps: seq of ids, rest: id or 0]
Formals(d) ==
  CASE d.t = "nil" -> [ok |-> TRUE, ps |-> <<>>, rest |-> 0]
    [] d.t = "sym" -> [ok |-> d.v > NKeywords, ps |-> <<>>, rest |-> d.v]
    [] d.t = "list" ->
         IF \A i \in 1..Len(d.v) : d.v[i].t = "sym" /\ d.v[i].v > NKeywords
         THEN IF d.tl.t = "nil" THEN [ok |-> TRUE, ps |-> [i \in 1..Len(d.v) |-> d.v[i].v], rest |-> 0]
              ELSE IF d.tl.t = "sym" /\ d.tl.v > NKeywords
                   THEN [ok |-> TRUE, ps |-> [i \in 1..Len(d.v) |-> d.v[i].v], rest |-> d.tl.v]
                   ELSE [ok |-> FALSE]
         ELSE [ok |-> FALSE]
    [] OTHER -> [ok |-> FALSE]

MkClosure(fm, body, r) == [t |-> "clo", ps |-> fm.ps, rest |-> fm.rest, body |-> body, r |-> r]

\* names defined by (define ...) forms directly in a body, in order
IsDefine(e) == e.t = "list" /\ IsKwSym(e.v[1], K_define) /\ Len(e.v) >= 2
DefinedName(e) == IF e.v[2].t = "sym" THEN e.v[2].v
                  ELSE IF e.v[2].t = "list" /\ e.v[2].v[1].t = "sym" THEN e.v[2].v[1].v ELSE 0
RECURSIVE BodyDefs(_, _, _)
BodyDefs(body, i, acc) ==
  IF i > Len(body) THEN acc
  ELSE IF IsDefine(body[i]) /\ DefinedName(body[i]) # 0
          /\ ~\E j \in 1..Len(acc) : acc[j] = DefinedName(body[i])
       THEN BodyDefs(body, i + 1, Append(acc, DefinedName(body[i])))
       ELSE BodyDefs(body, i + 1, acc)

\* Enter a procedure body: internal definitions get their locations first (letrec* semantics).
EnterBody(m, body, r) ==
  LET names == BodyDefs(body, 1, <<>>)
      base == Len(m.st)
      r2 == [i \in 1..Len(names) |-> <<names[i], base + i>>] \o r
      m2 == [m EXCEPT !.st = @ \o [i \in 1..Len(names) |-> UndefV]]
  IN  EvSeq(m2, body, r2)

-----------------------------------------------------------------------------
(* quasiquote (R7RS 4.2.8) as a source-to-source rewriting into applications *)
(* of the list constructors; unquote-splicing is not modelled.               *)
OomExpr == [t |-> "oomexpr"]
RECURSIVE QQ(_, _)
RECURSIVE QQTail(_, _, _, _)
QQ(d, n) ==
  CASE d.t = "list" ->
         IF d.tl.t = "nil" /\ Len(d.v) = 2 /\ IsKwSym(d.v[1], K_unquote)
         THEN IF n = 0 THEN d.v[2]
              ELSE App(Lit(PrimV("list")), <<QuoteD(d.v[1]), QQ(d.v[2], n - 1)>>)
         ELSE IF d.tl.t = "nil" /\ Len(d.v) = 2 /\ IsKwSym(d.v[1], K_quasiquote)
         THEN App(Lit(PrimV("list")), <<QuoteD(d.v[1]), QQ(d.v[2], n + 1)>>)
         ELSE IF d.tl.t = "nil" /\ Len(d.v) = 2 /\ IsKwSym(d.v[1], K_unquote_splicing)
         THEN OomExpr
         ELSE QQTail(d.v, 1, d.tl, n)
    [] d.t = "vec" ->
         IF Len(d.v) = 0 THEN QuoteD(d)
         ELSE App(Lit(PrimV("list->vector")), <<QQTail(d.v, 1, NilV, n)>>)
    [] OTHER -> QuoteD(d)
\* the list made of items[i..] followed by tl
QQTail(items, i, tl, n) ==
  IF i > Len(items) THEN QQ(tl, n)
  ELSE IF i > 1 /\ tl.t = "nil" /\ Len(items) = i + 1 /\ IsKwSym(items[i], K_unquote)
       THEN \* (a ... . ,x)
            IF n = 0 THEN items[i + 1]
            ELSE App(Lit(PrimV("list")), <<QuoteD(items[i]), QQ(items[i + 1], n - 1)>>)
  ELSE IF items[i].t = "list" /\ items[i].tl.t = "nil" /\ Len(items[i].v) = 2
          /\ IsKwSym(items[i].v[1], K_unquote_splicing)
       THEN OomExpr
  ELSE App(Lit(PrimV("cons")), <<QQ(items[i], n), QQTail(items, i + 1, tl, n)>>)

-----------------------------------------------------------------------------
(* Derived forms by rewriting (R7RS 7.3) where no fresh name is needed *)

\* bindings datum ((name init) ...) -> [ok, names, inits]
Bindings(d) ==
  IF ~IsProperD(d) THEN [ok |-> FALSE]
  ELSE LET bs == Items(d) IN
       IF \A i \in 1..Len(bs) : bs[i].t = "list" /\ bs[i].tl.t = "nil" /\ Len(bs[i].v) = 2
                                /\ bs[i].v[1].t = "sym" /\ bs[i].v[1].v > NKeywords
       THEN [ok |-> TRUE, names |-> [i \in 1..Len(bs) |-> bs[i].v[1]], inits |-> [i \in 1..Len(bs) |-> bs[i].v[2]]]
       ELSE [ok |-> FALSE]

LambdaD(names, body) == App(SymD(K_lambda), <<ListD(names)>> \o body)

RECURSIVE LetStarD(_, _, _)
LetStarD(bs, i, body) ==
  IF i > Len(bs.names) THEN App(SymD(K_let), <<NilV>> \o body)
  ELSE IF i = Len(bs.names) THEN App(SymD(K_let), <<ListD(<<ListD(<<bs.names[i], bs.inits[i]>>)>>)>> \o body)
  ELSE App(SymD(K_let), <<ListD(<<ListD(<<bs.names[i], bs.inits[i]>>)>>), LetStarD(bs, i + 1, body)>>)

-----------------------------------------------------------------------------
(* Evaluation of a compound expression  (head . args) *)

EvForm(m, e, r) ==
  LET head == e.v[1]
      args == Tail(e.v)
      n == Len(args)
      kw == head.v
  IN
  CASE kw = K_quote ->
         IF n # 1 THEN Syntax(m)
         ELSE LET q == DatumToVal(args[1], m.hp) IN Rt([WithRule(m, "quote") EXCEPT !.hp = q.hp], q.v)
    [] kw = K_quasiquote ->
         IF n # 1 THEN Syntax(m) ELSE Ev(WithRule(m, "quasiquote"), QQ(args[1], 0), r)
    [] kw = K_lambda ->
         IF n < 2 THEN Syntax(m)
         ELSE LET fm == Formals(args[1]) IN
              IF ~fm.ok THEN Syntax(m)
              ELSE Rt(WithRule(m, IF fm.rest = 0 THEN "lambda" ELSE "lambda-rest"), MkClosure(fm, Tail(args), r))
    [] kw = K_define ->
         IF n < 2 THEN Syntax(m)
         ELSE IF args[1].t = "sym" THEN
              IF n # 2 \/ args[1].v <= NKeywords THEN Syntax(m)
              ELSE EvK(WithRule(m, "define"), args[2], r, [f |-> "def", name |-> args[1].v, r |-> r])
         ELSE IF args[1].t = "list" /\ args[1].v[1].t = "sym" /\ args[1].v[1].v > NKeywords THEN
              LET fd == IF Len(args[1].v) = 1 THEN args[1].tl
                        ELSE [t |-> "list", v |-> Tail(args[1].v), tl |-> args[1].tl]
                  fm == Formals(fd) IN
              IF ~fm.ok THEN Syntax(m)
              ELSE [Rt(WithRule(m, "define-proc"), MkClosure(fm, Tail(args), r))
                     EXCEPT !.k = <<[f |-> "def", name |-> args[1].v[1].v, r |-> r]>> \o m.k,
                            !.maxd = Max2(@, Len(m.k) + 1)]
         ELSE Syntax(m)
    [] kw = K_set_bang ->
         IF n # 2 \/ args[1].t # "sym" THEN Syntax(m)
         ELSE IF args[1].v <= NKeywords THEN Syntax(m)
         ELSE EvK(WithRule(m, "set!"), args[2], r, [f |-> "set", name |-> args[1].v, r |-> r])
    [] kw = K_if ->
         IF n = 2 THEN EvK(WithRule(m, "if"), args[1], r, [f |-> "if", th |-> args[2], el |-> Lit(VoidV), r |-> r])
         ELSE IF n = 3 THEN EvK(WithRule(m, "if"), args[1], r, [f |-> "if", th |-> args[2], el |-> args[3], r |-> r])
         ELSE Syntax(m)
    [] kw = K_let ->
         IF n < 2 THEN Syntax(m)
         ELSE IF args[1].t = "sym" THEN      \* named let
              IF n < 3 \/ args[1].v <= NKeywords THEN Syntax(m)
              ELSE LET bs == Bindings(args[2]) IN
                   IF ~bs.ok THEN Syntax(m)
                   ELSE Ev(WithRule(m, "named-let"),
                           App(App(SymD(K_letrec),
                                   <<ListD(<<ListD(<<args[1], LambdaD(bs.names, Tail(Tail(args)))>>)>>), args[1]>>),
                               bs.inits), r)
         ELSE LET bs == Bindings(args[1]) IN
              IF ~bs.ok THEN Syntax(m)
              ELSE Ev(WithRule(m, "let"), App(LambdaD(bs.names, Tail(args)), bs.inits), r)
    [] kw = K_let_star ->
         IF n < 2 THEN Syntax(m)
         ELSE LET bs == Bindings(args[1]) IN
              IF ~bs.ok THEN Syntax(m) ELSE Ev(WithRule(m, "let*"), LetStarD(bs, 1, Tail(args)), r)
    [] kw \in {K_letrec, K_letrec_star} ->
         IF n < 2 THEN Syntax(m)
         ELSE LET bs == Bindings(args[1]) IN
              IF ~bs.ok THEN Syntax(m)
              ELSE Ev(WithRule(m, "letrec"),
                      App(SymD(K_let),
                          <<ListD([i \in 1..Len(bs.names) |-> ListD(<<bs.names[i], Lit(UndefV)>>)])>>
                          \o [i \in 1..Len(bs.names) |-> App(SymD(K_set_bang), <<bs.names[i], bs.inits[i]>>)]
                          \o <<App(SymD(K_let), <<NilV>> \o Tail(args))>>), r)
    [] kw = K_begin -> EvSeq(WithRule(m, "begin"), args, r)
    [] kw = K_and ->
         IF n = 0 THEN Rt(WithRule(m, "and"), TrueV)
         ELSE IF n = 1 THEN Ev(WithRule(m, "and"), args[1], r)
         ELSE EvK(WithRule(m, "and"), args[1], r,
                  [f |-> "if", th |-> App(SymD(K_and), Tail(args)), el |-> Lit(FalseV), r |-> r])
    [] kw = K_or ->
         IF n = 0 THEN Rt(WithRule(m, "or"), FalseV)
         ELSE IF n = 1 THEN Ev(WithRule(m, "or"), args[1], r)
         ELSE EvK(WithRule(m, "or"), args[1], r, [f |-> "or", rest |-> Tail(args), r |-> r])
    [] kw = K_when ->
         IF n < 2 THEN Syntax(m)
         ELSE EvK(WithRule(m, "when"), args[1], r,
                  [f |-> "if", th |-> App(SymD(K_begin), Tail(args)), el |-> Lit(VoidV), r |-> r])
    [] kw = K_unless ->
         IF n < 2 THEN Syntax(m)
         ELSE EvK(WithRule(m, "unless"), args[1], r,
                  [f |-> "if", th |-> Lit(VoidV), el |-> App(SymD(K_begin), Tail(args)), r |-> r])
    [] kw = K_cond ->
         IF n = 0 THEN Rt(WithRule(m, "cond"), VoidV)
         ELSE LET cl == args[1] IN
              IF cl.t # "list" \/ cl.tl.t # "nil" THEN Syntax(m)
              ELSE IF IsForm(cl.v[1], r) /\ cl.v[1].v = K_else
                   THEN (IF n # 1 THEN Syntax(m) ELSE EvSeq(WithRule(m, "cond-else"), Tail(cl.v), r))
              ELSE EvK(WithRule(m, "cond"), cl.v[1], r,
                       [f |-> "cond", body |-> Tail(cl.v), rest |-> Tail(args), r |-> r])
    [] kw = K_case ->
         IF n < 1 THEN Syntax(m)
         ELSE EvK(WithRule(m, "case"), args[1], r, [f |-> "case", clauses |-> Tail(args), r |-> r])
    [] kw = K_delay_force ->
         IF n # 1 THEN Syntax(m)
         ELSE LET b == Len(m.hp) + 1 IN
              Rt([WithRule(m, "delay-force") EXCEPT !.hp = @ \o
                     <<[k |-> "box", done |-> FALSE,
                        val |-> MkClosure([ps |-> <<>>, rest |-> 0], <<args[1]>>, r)],
                       [k |-> "prom", b |-> b]>>], PromV(b + 1))
    [] kw = K_delay ->
         IF n # 1 THEN Syntax(m)
         ELSE Ev(WithRule(m, "delay"),
                 App(SymD(K_delay_force), <<App(Lit(PrimV("make-promise")), <<args[1]>>)>>), r)
    [] kw = K_define_syntax ->
         \* (define-syntax name (syntax-rules ...)) at top level binds name to the transformer.  The machine expands a
         \* use when it evaluates it; the generators define every macro once, as a whole top-level form, before its
         \* first use, and write templates that need no renaming (hygiene is out of the model).
         IF n # 2 \/ args[1].t # "sym" THEN Syntax(m)
         ELSE IF args[1].v <= NKeywords \/ Len(r) # 0 THEN OutOfModel(m, "define-syntax of a keyword or not at top level")
         ELSE Rt([WithRule(m, "define-syntax") EXCEPT !.gl[args[1].v] = [t |-> "macro", def |-> e]], VoidV)
    [] OTHER -> Syntax(m)     \* else, =>, unquote, ... in operator position

EvStep(m) ==
  LET e == m.c.e
      r == m.c.r
  IN
  CASE e.t \in {"int", "bool", "char"} -> Rt(WithRule(m, "const"), e)
    [] e.t = "lit" -> Rt(m, e.v)
    [] e.t = "oomexpr" -> OutOfModel(m, "unquote-splicing")
    [] e.t = "num" -> OutOfModel(m, "number outside the model")
    [] e.t \in {"str", "vec"} -> LET q == DatumToVal(e, m.hp) IN Rt([WithRule(m, "const") EXCEPT !.hp = q.hp], q.v)
    [] e.t = "sym" ->
         IF Bound(r, e.v)
         THEN LET v == m.st[LocOf(r, e.v)] IN
              IF v.t = "undef" THEN OutOfModel(m, "read of an unassigned variable")
              ELSE Rt(WithRule(m, "var-lexical"), v)
         ELSE IF e.v <= NKeywords THEN Syntax(m)
         ELSE IF m.gl[e.v].t = "undef" THEN Fail(WithRule(m, "var-unbound"), "unbound", <<>>)
         ELSE Rt(WithRule(m, "var-global"), m.gl[e.v])
    [] e.t = "nil" -> Syntax(m)
    [] e.t = "list" ->
         IF e.tl.t # "nil" THEN Syntax(m)
         ELSE IF IsForm(e.v[1], r) THEN EvForm(m, e, r)
         ELSE IF e.v[1].t = "sym" /\ ~Bound(r, e.v[1].v) /\ m.gl[e.v[1].v].t = "macro" THEN
              \* macro use: first matching rule, template instantiation
              LET x == SR!Expand(m.gl[e.v[1].v].def, e) IN
              CASE x.k = "exp" -> Ev(WithRule(m, "macro-use"), x.d, r)
                [] x.k = "nomatch" -> Syntax(WithRule(m, "macro-no-match"))
                [] OTHER -> OutOfModel(m, "macro use the report does not define")
         ELSE \* application: operands left to right, then the operator
              IF Len(e.v) = 1
              THEN EvK(WithRule(m, "app"), e.v[1], r, [f |-> "op", args |-> <<>>])
              ELSE EvK(WithRule(m, "app"), e.v[2], r,
                       [f |-> "arg", done |-> <<>>, rest |-> Tail(Tail(e.v)), op |-> e.v[1], r |-> r])
    [] OTHER -> Syntax(m)    \* opaque objects, void, ... are not expressions

-----------------------------------------------------------------------------
(* Returning a value to the top frame *)

AssignVar(m, name, r, v, define) ==
  IF Bound(r, name) THEN [m EXCEPT !.st[LocOf(r, name)] = v]
  ELSE IF ~define /\ m.gl[name].t = "undef" THEN OutOfModel(m, "set! of an undefined variable")
  ELSE [m EXCEPT !.gl[name] = v]

\* index of the first case clause selecting key v (0 = none); ok = clauses well-formed
RECURSIVE CaseSelect(_, _, _, _)
CaseSelect(cls, i, v, r) ==
  IF i > Len(cls) THEN 0
  ELSE LET cl == cls[i] IN
       IF cl.t # "list" \/ cl.tl.t # "nil" \/ Len(cl.v) < 2 THEN -1
       ELSE IF IsForm(cl.v[1], r) /\ cl.v[1].v = K_else THEN (IF i = Len(cls) THEN i ELSE -1)
       ELSE IF ~IsProperD(cl.v[1]) THEN -1
       ELSE IF \E j \in 1..Len(Items(cl.v[1])) :
                 LET d == Items(cl.v[1])[j] IN d.t = v.t /\ d.t \in {"int", "bool", "char", "sym", "nil"} /\ d = v
            THEN i
            ELSE CaseSelect(cls, i + 1, v, r)

RtStep(m) ==
  LET v == m.c.v IN
  IF Len(m.k) = 0 THEN [m EXCEPT !.status = "done", !.res = v]
  ELSE
  LET fr == m.k[1]
      m1 == [m EXCEPT !.k = Tail(m.k)]     \* frame popped
  IN
  CASE fr.f = "arg" ->
         IF Len(fr.rest) = 0
         THEN EvK(m1, fr.op, fr.r, [f |-> "op", args |-> Append(fr.done, v)])
         ELSE EvK(m1, fr.rest[1], fr.r, [fr EXCEPT !.done = Append(@, v), !.rest = Tail(@)])
    [] fr.f = "op" -> Ap(m1, v, fr.args)
    [] fr.f = "if" -> Ev(m1, IF IsTrue(v) THEN fr.th ELSE fr.el, fr.r)
    [] fr.f = "seq" -> EvSeq(m1, fr.rest, fr.r)
    [] fr.f = "def" -> LET m2 == AssignVar(m1, fr.name, fr.r, v, TRUE) IN
                       IF m2.status # "run" THEN m2 ELSE Rt(m2, VoidV)
    [] fr.f = "set" -> LET m2 == AssignVar(m1, fr.name, fr.r, v, FALSE) IN
                       IF m2.status # "run" THEN m2 ELSE Rt(m2, VoidV)
    [] fr.f = "or" ->
         IF IsTrue(v) THEN Rt(m1, v)
         ELSE IF Len(fr.rest) = 1 THEN Ev(m1, fr.rest[1], fr.r)
         ELSE EvK(m1, fr.rest[1], fr.r, [fr EXCEPT !.rest = Tail(@)])
    [] fr.f = "cond" ->
         IF IsTrue(v)
         THEN IF Len(fr.body) = 0 THEN Rt(WithRule(m1, "cond-test-only"), v)
              ELSE IF IsForm(fr.body[1], fr.r) /\ fr.body[1].v = K_arrow
              THEN IF Len(fr.body) # 2 THEN Syntax(m1)
                   ELSE EvK(WithRule(m1, "cond-arrow"), fr.body[2], fr.r, [f |-> "op", args |-> <<v>>])
              ELSE EvSeq(m1, fr.body, fr.r)
         ELSE Ev(m1, App(SymD(K_cond), fr.rest), fr.r)
    [] fr.f = "case" ->
         LET i == CaseSelect(fr.clauses, 1, v, fr.r) IN
         IF i = -1 THEN Syntax(m1)
         ELSE IF i = 0 THEN Rt(m1, VoidV)
         ELSE LET body == Tail(fr.clauses[i].v) IN
              IF IsForm(body[1], fr.r) /\ body[1].v = K_arrow
              THEN IF Len(body) # 2 THEN Syntax(m1)
                   ELSE EvK(WithRule(m1, "case-arrow"), body[2], fr.r, [f |-> "op", args |-> <<v>>])
              ELSE EvSeq(m1, body, fr.r)
    [] fr.f = "map" ->
         LET done == IF fr.each THEN fr.done ELSE Append(fr.done, v) IN
         IF \E i \in 1..Len(fr.lists) : Len(fr.lists[i]) = 0
         THEN IF fr.each THEN Rt(m1, VoidV)
              ELSE LET l == SeqToList(done, NilV, m1.hp) IN Rt([m1 EXCEPT !.hp = l.hp], l.v)
         ELSE ApK(m1, fr.fn, [i \in 1..Len(fr.lists) |-> fr.lists[i][1]],
                  [fr EXCEPT !.done = done, !.lists = [i \in 1..Len(fr.lists) |-> Tail(fr.lists[i])]])
    [] fr.f = "force" ->
         \* R7RS 7.3: (let ((promise* (thunk))) (unless (promise-done? promise) (promise-update! promise* promise)) (force promise))
         IF v.t # "prom" THEN OutOfModel(m1, "delay-force of a non-promise")
         ELSE LET pb == m1.hp[fr.p.v].b
                  nb == m1.hp[v.v].b
                  hp2 == IF m1.hp[pb].done THEN m1.hp
                         ELSE [m1.hp EXCEPT ![pb] = m1.hp[nb], ![v.v] = [k |-> "prom", b |-> pb]]
              IN Ap([m1 EXCEPT !.hp = hp2], PrimV("force"), <<fr.p>>)
    [] OTHER -> OutOfModel(m1, "unknown frame")

-----------------------------------------------------------------------------
(* Procedure application *)

ApplyClosure(m, f, a) ==
  LET np == Len(f.ps) IN
  IF Len(a) < np \/ (f.rest = 0 /\ Len(a) > np) THEN Fail(WithRule(m, "arity-error"), "arity", <<>>)
  ELSE
  LET restl == IF f.rest = 0 THEN [v |-> NilV, hp |-> m.hp] ELSE SeqToList(SubSeq(a, np + 1, Len(a)), NilV, m.hp)
      base == Len(m.st)
      newvals == IF f.rest = 0 THEN SubSeq(a, 1, np) ELSE Append(SubSeq(a, 1, np), restl.v)
      names == IF f.rest = 0 THEN f.ps ELSE Append(f.ps, f.rest)
      r2 == [i \in 1..Len(names) |-> <<names[i], base + i>>] \o f.r
      m2 == [m EXCEPT !.st = @ \o newvals, !.hp = restl.hp]
  IN  EnterBody(WithRule(m2, IF f.rest = 0 THEN "call" ELSE "call-rest"), f.body, r2)

\* intern a name
RECURSIVE FindName(_, _, _)
FindName(sy, name, i) == IF i > Len(sy) THEN 0 ELSE IF sy[i] = name THEN i ELSE FindName(sy, name, i + 1)

ApplyPrim(m, n, a) ==
  CASE n \in {"call/cc", "call-with-current-continuation"} ->
         IF Len(a) # 1 THEN Fail(m, "arity", <<>>)
         ELSE IF a[1].t \notin {"clo", "prim", "kont"} THEN Fail(m, "type", <<>>)
         ELSE Ap(WithRule(m, "call/cc"), a[1], <<[t |-> "kont", k |-> m.k]>>)
    [] n = "apply" ->
         IF Len(a) < 2 THEN Fail(m, "arity", <<>>)
         ELSE LET l == ListToSeq(a[Len(a)], m.hp) IN
              IF ~l.ok THEN Fail(m, "type", <<>>)
              ELSE Ap(WithRule(m, "apply"), a[1], SubSeq(a, 2, Len(a) - 1) \o l.s)
    [] n = "eval" ->
         IF Len(a) # 1 THEN (IF Len(a) = 2 THEN OutOfModel(m, "eval with environment") ELSE Fail(m, "arity", <<>>))
         ELSE Ev(WithRule(m, "eval"), ValToDatum(a[1], m.hp, 64, <<>>), <<>>)
    [] n = "error" ->
         IF Len(a) < 1 THEN Fail(m, "arity", <<>>)
         ELSE Fail(WithRule(m, "error"), "user", [i \in 1..Len(a) |-> Render(m, a[i])])
    [] n \in {"display", "write"} ->
         IF Len(a) # 1 THEN (IF Len(a) = 2 THEN OutOfModel(m, "port argument") ELSE Fail(m, "arity", <<>>))
         ELSE Rt([WithRule(m, n) EXCEPT !.out = Append(@, [w |-> n, v |-> Render(m, a[1])])], VoidV)
    [] n = "newline" ->
         IF Len(a) # 0 THEN OutOfModel(m, "port argument")
         ELSE Rt([m EXCEPT !.out = Append(@, [w |-> "display", v |-> CharV(10)])], VoidV)
    [] n \in {"map", "for-each"} ->
         IF Len(a) < 2 THEN Fail(m, "arity", <<>>)
         ELSE LET ls == [i \in 1..(Len(a) - 1) |-> ListToSeq(a[i + 1], m.hp)] IN
              IF \E i \in 1..Len(ls) : ~ls[i].ok THEN OutOfModel(m, "map over a non-list")
              ELSE LET fr == [f |-> "map", fn |-> a[1], done |-> <<>>, each |-> TRUE,
                              lists |-> [i \in 1..Len(ls) |-> ls[i].s]]
                   IN \* enter the loop through the frame's own return rule
                      [Rt(WithRule(m, n), VoidV) EXCEPT !.k = <<[fr EXCEPT !.each = (n = "for-each"),
                                                                          !.done = <<>>]>> \o m.k,
                                                        !.maxd = Max2(@, Len(m.k) + 1),
                                                        !.c = [m |-> "mapstart"]]
    [] n = "make-promise" ->
         IF Len(a) # 1 THEN Fail(m, "arity", <<>>)
         ELSE IF a[1].t = "prom" THEN Rt(m, a[1])
         ELSE LET b == Len(m.hp) + 1 IN
              Rt([WithRule(m, "make-promise") EXCEPT !.hp = @ \o <<[k |-> "box", done |-> TRUE, val |-> a[1]],
                                                                   [k |-> "prom", b |-> b]>>], PromV(b + 1))
    [] n = "force" ->
         IF Len(a) # 1 THEN Fail(m, "arity", <<>>)
         ELSE IF a[1].t # "prom" THEN OutOfModel(m, "force of a non-promise")
         ELSE LET bx == m.hp[m.hp[a[1].v].b] IN
              IF bx.done THEN Rt(WithRule(m, "force"), bx.val)
              ELSE ApK(WithRule(m, "force"), bx.val, <<>>, [f |-> "force", p |-> a[1]])
    [] n = "string->symbol" ->
         IF Len(a) # 1 THEN Fail(m, "arity", <<>>)
         ELSE IF a[1].t # "str" THEN Fail(m, "type", <<>>)
         ELSE LET name == StrChars(a[1], m.hp)
                  i == FindName(m.sy, name, 1) IN
              IF i # 0 THEN Rt(WithRule(m, "string->symbol"), SymV(i))
              ELSE Rt([WithRule(m, "string->symbol-new") EXCEPT !.sy = Append(@, name), !.gl = Append(@, UndefV)],
                      SymV(Len(m.sy) + 1))
    [] n = "symbol->string" ->
         IF Len(a) # 1 THEN Fail(m, "arity", <<>>)
         ELSE IF a[1].t # "sym" THEN Fail(m, "type", <<>>)
         ELSE LET s == MkStr(m.sy[a[1].v], m.hp) IN Rt([WithRule(m, "symbol->string") EXCEPT !.hp = s.hp], s.v)
    [] OTHER ->
         LET p == Prim(n, a, m.hp) IN
         CASE p.s = "ok" -> Rt([WithRule(m, "prim") EXCEPT !.hp = p.hp], p.v)
           [] p.s = "err" -> Fail(WithRule(m, "prim-error"), p.c, <<>>)
           [] OTHER -> OutOfModel(m, n)

MapStart(m) ==   \* first iteration of map / for-each: behave as if a callback had just returned
  LET fr == m.k[1]
      m1 == [m EXCEPT !.k = Tail(m.k)] IN
  IF \E i \in 1..Len(fr.lists) : Len(fr.lists[i]) = 0
  THEN Rt(m1, IF fr.each THEN VoidV ELSE NilV)
  ELSE ApK(m1, fr.fn, [i \in 1..Len(fr.lists) |-> fr.lists[i][1]],
           [fr EXCEPT !.lists = [i \in 1..Len(fr.lists) |-> Tail(fr.lists[i])]])

ApStep(m) ==
  LET f == m.c.f
      a == m.c.a IN
  CASE f.t = "clo" -> ApplyClosure(m, f, a)
    [] f.t = "prim" -> ApplyPrim(m, f.v, a)
    [] f.t = "kont" ->
         IF Len(a) # 1 THEN OutOfModel(m, "continuation applied to other than one value")
         ELSE Rt([WithRule(m, "throw") EXCEPT !.k = f.k, !.maxd = Max2(@, Len(f.k))], a[1])
    [] OTHER -> Fail(WithRule(m, "not-a-procedure"), "notproc", <<>>)

-----------------------------------------------------------------------------
(* One machine step *)
StepM(m) ==
  LET n == CASE m.c.m = "ev" -> EvStep(m)
             [] m.c.m = "rt" -> RtStep(m)
             [] m.c.m = "ap" -> ApStep(m)
             [] m.c.m = "mapstart" -> MapStart(m)
  IN [n EXCEPT !.steps = @ + 1]

Running(m) == m.status = "run"

\* Start evaluating a top-level form in the state left by the previous ones.
StartForm(m, form) ==
  [m EXCEPT !.c = [m |-> "ev", e |-> form, r |-> <<>>], !.k = <<>>, !.status = "run", !.res = VoidV,
            !.out = <<>>, !.maxd = 0, !.steps = 0]

\* The initial machine of a session with symbol table sy (fixed names first).
PrimNames == {FixedNames[i] : i \in (NKeywords + 1)..NFixed}
InitMachine(sy) ==
  [c |-> [m |-> "rt", v |-> VoidV], k |-> <<>>, st |-> <<>>, hp |-> <<>>,
   gl |-> [i \in 1..Len(sy) |-> IF i > NKeywords /\ i <= NFixed THEN PrimV(FixedNames[i]) ELSE UndefV],
   sy |-> sy, out |-> <<>>, status |-> "done", res |-> VoidV, maxd |-> 0, steps |-> 0, rules |-> {}]

\* Big-step: run to completion inside one evaluation (fuel bounds the number of steps).
RECURSIVE RunM(_, _)
RunM(m, fuel) == IF ~Running(m) THEN m ELSE IF fuel = 0 THEN OutOfModel(m, "fuel") ELSE RunM(StepM(m), fuel - 1)

=============================================================================
