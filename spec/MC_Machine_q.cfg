SPECIFICATION Spec
CONSTANTS
  Depth = 2
  Stride = 61
  Blocks = 64
INVARIANT Agree
CHECK_DEADLOCK FALSE
