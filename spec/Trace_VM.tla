------------------------------ MODULE Trace_VM ------------------------------
(***************************************************************************)
(* Validation of instruction traces of the real VM against the register    *)
(* arithmetic of the calling protocol (VMRules, the same operators the     *)
(* model-checked MarwoodVM uses).  The harness records, at every           *)
(* instruction boundary, the instruction about to execute, sp, bp, the     *)
(* kind of value in acc and the frame slots the rule needs; consecutive    *)
(* records give pre- and post-state of the instruction.  One behaviour per *)
(* recorded evaluation (sequence of steps).                                *)
(***************************************************************************)
EXTENDS VMRules, Sequences, Json, IOUtils, TLC

Rec == ndJsonDeserialize(IOEnv.TRACE)      \* each record: [id, text, steps: sequence of step records, end]
VARIABLES ri, k, ph
vars == <<ri, k, ph>>

Report(what, pre, post, exp) ==
  PrintT(<<"MISMATCH", ToJson([id |-> Rec[ri].id, text |-> Rec[ri].text, step |-> k, op |-> pre.op, what |-> what,
                               pre |-> pre, post |-> [sp |-> post.sp, bp |-> post.bp], exp |-> exp])>>)
Check(c, what, pre, post, exp) == IF c THEN TRUE ELSE Report(what, pre, post, exp)

Same(pre, post) == post.sp = pre.sp /\ post.bp = pre.bp
ControlBuiltins == {"apply", "call/cc", "call-with-current-continuation", "eval"}

\* the required (sp, bp) after executing the instruction recorded in pre, when the rule is determinate
StepOK(pre, post) ==
  LET op == pre.op IN
  CASE op \in {"Mov", "MovImmediate", "Jmp", "Jnt", "ClosureAcc"} ->
         Check(Same(pre, post), "sp/bp changed by an instruction that does not touch the stack", pre, post, [sp |-> pre.sp, bp |-> pre.bp])
    [] op \in {"Push", "PushImmediate", "PushAcc"} ->
         Check(post.sp = pre.sp + 1 /\ post.bp = pre.bp, "push", pre, post, [sp |-> pre.sp + 1, bp |-> pre.bp])
    [] op = "Cons" -> Check(post.sp = pre.sp - 2 /\ post.bp = pre.bp, "cons pops two", pre, post, [sp |-> pre.sp - 2, bp |-> pre.bp])
    [] op = "VPushAcc" -> Check(post.sp = pre.sp - 1 /\ post.bp = pre.bp, "vpush pops one", pre, post, [sp |-> pre.sp - 1, bp |-> pre.bp])
    [] op = "Enter" ->
         Check(post.sp = EnterSp(pre.sp) /\ post.bp = EnterBp(pre.sp), "ENTER", pre, post, [sp |-> EnterSp(pre.sp), bp |-> EnterBp(pre.sp)])
    [] op = "Ret" ->
         Check(post.sp = RetSp(pre.bp, pre.fargc) /\ post.bp = pre.sbp, "RET", pre, post, [sp |-> RetSp(pre.bp, pre.fargc), bp |-> pre.sbp])
    [] op = "VarArg" ->
         Check(post.sp = VarArgSp(pre.sp, pre.argc2, pre.nreq) /\ post.bp = pre.bp, "VARARG", pre, post,
               [sp |-> VarArgSp(pre.sp, pre.argc2, pre.nreq), bp |-> pre.bp])
    [] op = "CallAcc" /\ pre.acck \in {"closure", "lambda"} ->
         Check(post.sp = CallSp(pre.sp) /\ post.bp = pre.bp /\ post.ipo = 0, "CALL", pre, post, [sp |-> CallSp(pre.sp), bp |-> pre.bp])
    [] op = "TCallAcc" /\ pre.acck \in {"closure", "lambda"} ->
         Check(post.sp = TCallSp(pre.bp, pre.fargc, pre.targc) /\ post.bp = pre.sbp /\ post.ipo = 0, "TCALL", pre, post,
               [sp |-> TCallSp(pre.bp, pre.fargc, pre.targc), bp |-> pre.sbp])
    [] op \in {"CallAcc", "TCallAcc"} /\ pre.acck = "builtin" /\ pre.bname \notin ControlBuiltins ->
         Check(post.sp = BuiltinSp(pre.sp, pre.targc) /\ post.bp = pre.bp, "builtin call", pre, post,
               [sp |-> BuiltinSp(pre.sp, pre.targc), bp |-> pre.bp])
    [] OTHER -> TRUE      \* control builtins, continuation invocation, Halt: decided by the session-level checks

Init == ri \in 1..Len(Rec) /\ k = 1 /\ ph = "run"
Step ==
  /\ ph = "run" /\ k < Len(Rec[ri].steps)
  /\ StepOK(Rec[ri].steps[k], Rec[ri].steps[k + 1])
  /\ k' = k + 1
  /\ UNCHANGED <<ri, ph>>
End ==
  /\ ph = "run" /\ k >= Len(Rec[ri].steps)
  /\ PrintT(<<"END", ToJson([id |-> Rec[ri].id, steps |-> Len(Rec[ri].steps)])>>)
  /\ ph' = "done"
  /\ UNCHANGED <<ri, k>>
Spec == Init /\ [][Step \/ End]_vars
=============================================================================
