------------------------------ MODULE MarwoodVM ------------------------------
(***************************************************************************)
(* The calling protocol of marwood's stack VM (run.rs, stack.rs,           *)
(* continuation.rs, builtin/procedure.rs) as a state machine over abstract *)
(* well-formed instruction streams.                                        *)
(*                                                                         *)
(* The compiler emits, for an application (f a1 .. an):                    *)
(*     <a1> PUSH .. <an> PUSH ; PUSHI argc n ; <f> -> acc ; CALL | TCALL   *)
(* and for a procedure body   [VARARG] ENTER ; body ; RET.                 *)
(* The model abstracts the evaluation of operands to "push a fresh value"  *)
(* and keeps exactly the stack discipline:                                 *)
(*   stack slots  [k:"val", v] [k:"argc", n] [k:"ep", e] [k:"ip", p]       *)
(*                [k:"bp", b]                                              *)
(*   registers    sp (index of the top slot, 0 = empty), bp, ep, ip, acc   *)
(* A frame with base b = bp:  arguments at b-argc+1 .. b,                  *)
(*   stk[b+1] = argc, stk[b+2] = saved ep, stk[b+3] = return ip,           *)
(*   stk[b+4] = saved bp.                                                  *)
(*                                                                         *)
(* Ghost state: ctl, the ideal control stack (one record per pending       *)
(* activation: its arguments, return address, caller's ep/bp and the stack *)
(* pointer before its first argument was pushed).  The invariants relate   *)
(* the concrete frames to it.                                              *)
(***************************************************************************)
EXTENDS VMRules, Sequences, FiniteSets, TLC

CONSTANTS MaxDepth,    \* bound on pending activations
          MaxArity,    \* arities 0..MaxArity, with or without a rest parameter
          MaxConts,    \* continuations that may be stored
          MaxSteps     \* bound on the length of a behaviour (state constraint)

VARIABLES stk, sp, bp, ep, ip, acc,
          ph,        \* phase of the abstract instruction stream
          pend,      \* the call being assembled: [n args pushed, tail?, callee arity r, rest?]
          ctl,       \* ghost: ideal control stack, innermost first
          conts,     \* stored continuations
          fresh,     \* counter for fresh value / environment / return-address tokens
          steps, budget, last
vars == <<stk, sp, bp, ep, ip, acc, ph, pend, ctl, conts, fresh, steps, budget, last>>

Val(v)  == [k |-> "val", v |-> v]
Argc(n) == [k |-> "argc", v |-> n]
Ep(e)   == [k |-> "ep", v |-> e]
Ip(p)   == [k |-> "ip", v |-> p]
Bp(b)   == [k |-> "bp", v |-> b]
Idle    == 0            \* idle ep / ip token

Push(s, p, x) == [s EXCEPT ![p + 1] = x]      \* stk is a function 1..Cap
Cap == 64
Empty == [k |-> "none", v |-> 0]

Init ==
  /\ stk = [i \in 1..Cap |-> Empty]
  /\ sp = 0 /\ bp = 0 /\ ep = Idle /\ ip = Idle /\ acc = 0
  /\ ph = "idle"
  /\ pend = [n |-> 0, tail |-> FALSE, r |-> 0, rest |-> FALSE, args |-> <<>>, sp0 |-> 0]
  /\ ctl = <<>> /\ conts = <<>> /\ fresh = 1 /\ steps = 0 /\ budget = 0
  /\ last = [a |-> "init"]

Tick(name) == /\ steps' = steps + 1 /\ last' = [a |-> name, sp |-> sp, bp |-> bp, nctl |-> Len(ctl)]

-----------------------------------------------------------------------------
(* prepare_eval: entry = PUSHI argc 0 ; MOVI main -> acc ; CALL ; HALT.  Registers are not touched. *)
PrepareEval ==
  /\ ph = "idle"
  /\ ip' = 1000 + fresh /\ fresh' = fresh + 1        \* the entry lambda
  /\ pend' = [n |-> 0, tail |-> FALSE, r |-> 0, rest |-> FALSE, args |-> <<>>, sp0 |-> sp]
  /\ ph' = "body"
  /\ Tick("PrepareEval")
  /\ UNCHANGED <<stk, sp, bp, ep, acc, ctl, conts, budget>>

(* body: start assembling a call with n arguments (tail call only inside an activation) *)
StartCall(n, tail, r, rest) ==
  /\ ph = "body" /\ Len(ctl) < MaxDepth
  /\ (tail => Len(ctl) > 0)
  /\ sp + n + 6 <= Cap
  /\ stk' = [i \in 1..Cap |-> IF i > sp /\ i <= sp + n THEN Val(fresh + (i - sp) - 1)
                             ELSE IF i = sp + n + 1 THEN Argc(n) ELSE stk[i]]
  /\ sp' = sp + n + 1
  /\ fresh' = fresh + n
  /\ pend' = [n |-> n, tail |-> tail, r |-> r, rest |-> rest, args |-> [j \in 1..n |-> fresh + j - 1], sp0 |-> sp]
  /\ ph' = "pushed"
  /\ Tick("PushArgs")
  /\ UNCHANGED <<bp, ep, ip, acc, ctl, conts, budget>>

(* CALL with a closure in acc: push ep, push the return address, jump *)
Call ==
  /\ ph = "pushed" /\ ~pend.tail
  /\ stk' = [stk EXCEPT ![sp + 1] = Ep(ep), ![sp + 2] = Ip(fresh)]
  /\ sp' = CallSp(sp)
  /\ ip' = 2000 + fresh       \* the callee's code
  /\ fresh' = fresh + 1
  /\ ctl' = <<[args |-> pend.args, ret |-> fresh, ep |-> ep, bp |-> bp, sp0 |-> pend.sp0, entered |-> FALSE]>> \o ctl
  /\ ph' = "called"
  /\ Tick("Call")
  /\ UNCHANGED <<bp, ep, acc, pend, conts, budget>>

(* TCALL with a closure in acc: the frame of the running activation is rewritten in place *)
TCall ==
  /\ ph = "pushed" /\ pend.tail /\ Len(ctl) > 0 /\ ctl[1].entered
  /\ LET a == pend.n
         f == stk[bp + 1].v
         top == ctl[1] IN
     IF a = f
     THEN /\ stk' = [i \in 1..Cap |-> IF i > bp - a /\ i <= bp THEN stk[sp - 1 - (bp - i)] ELSE stk[i]]
          /\ sp' = TCallSp(bp, f, a)
          /\ bp' = stk[bp + 4].v
     ELSE LET base == bp - f IN
          /\ stk' = [i \in 1..Cap |->
                       IF i > base /\ i <= base + a THEN stk[sp - 1 - (a - (i - base))]
                       ELSE IF i = base + a + 1 THEN Argc(a)
                       ELSE IF i = base + a + 2 THEN stk[bp + 2]
                       ELSE IF i = base + a + 3 THEN stk[bp + 3]
                       ELSE stk[i]]
          /\ sp' = TCallSp(bp, f, a)
          /\ bp' = stk[bp + 4].v
  /\ ip' = 2000 + fresh
  /\ fresh' = fresh + 1
  \* the activation is replaced: same return address, same saved ep / bp, same base
  /\ ctl' = <<[ctl[1] EXCEPT !.args = pend.args, !.entered = FALSE]>> \o Tail(ctl)
  /\ ph' = "called"
  /\ Tick("TCall")
  /\ UNCHANGED <<ep, acc, pend, conts, budget>>

(* VARARG (first instruction of a procedure with a rest parameter): the extra arguments become one list *)
VarArg ==
  /\ ph = "called" /\ pend.rest
  /\ LET a == stk[sp - 2].v
         r == pend.r IN
     /\ a >= r                    \* fewer: Fail (below)
     /\ IF a = r + 1
        THEN /\ stk' = [stk EXCEPT ![sp - 3] = Val(fresh)]
             /\ sp' = VarArgSp(sp, a, r)
             /\ ctl' = <<[ctl[1] EXCEPT !.args = SubSeq(@, 1, r) \o <<fresh>>]>> \o Tail(ctl)
        ELSE LET base == sp - 3 - a IN      \* slot below the first argument
             /\ stk' = [i \in 1..Cap |->
                          IF i = base + r + 1 THEN Val(fresh)
                          ELSE IF i = base + r + 2 THEN Argc(r + 1)
                          ELSE IF i = base + r + 3 THEN stk[sp - 1]
                          ELSE IF i = base + r + 4 THEN stk[sp]
                          ELSE stk[i]]
             /\ sp' = VarArgSp(sp, a, r)
             /\ ctl' = <<[ctl[1] EXCEPT !.args = SubSeq(@, 1, r) \o <<fresh>>]>> \o Tail(ctl)
  /\ fresh' = fresh + 1
  /\ pend' = [pend EXCEPT !.rest = FALSE, !.r = pend.r + 1]
  /\ Tick("VarArg")
  /\ UNCHANGED <<bp, ep, ip, acc, ph, conts, budget>>

(* ENTER: arity check, push bp, bp := sp - 4, new activation environment *)
Enter ==
  /\ ph = "called" /\ ~pend.rest
  /\ stk[sp - 2].v = pend.r          \* otherwise: Fail
  /\ stk' = [stk EXCEPT ![sp + 1] = Bp(bp)]
  /\ sp' = EnterSp(sp)
  /\ bp' = EnterBp(sp)
  /\ ep' = 3000 + fresh /\ fresh' = fresh + 1
  /\ ctl' = <<[ctl[1] EXCEPT !.entered = TRUE]>> \o Tail(ctl)
  /\ ph' = "body"
  /\ Tick("Enter")
  /\ UNCHANGED <<ip, acc, pend, conts, budget>>

(* RET: drop the frame and the arguments *)
Ret ==
  /\ ph = "body" /\ Len(ctl) > 0 /\ ctl[1].entered
  /\ LET n == stk[bp + 1].v IN
     /\ sp' = RetSp(bp, n)
     /\ ep' = stk[bp + 2].v
     /\ ip' = stk[bp + 3].v
     /\ bp' = stk[bp + 4].v
  /\ ctl' = Tail(ctl)
  /\ acc' = fresh /\ fresh' = fresh + 1
  /\ Tick("Ret")
  /\ UNCHANGED <<stk, ph, pend, conts, budget>>

(* HALT: the result is taken from acc; stack contents are wiped *)
Halt ==
  /\ ph = "body" /\ Len(ctl) = 0
  /\ stk' = [i \in 1..Cap |-> Empty]
  /\ ph' = "idle"
  /\ Tick("Halt")
  /\ UNCHANGED <<sp, bp, ep, ip, acc, pend, ctl, conts, fresh, budget>>

(* call/cc: the builtin pops argc and the receiver, captures stack[0..sp] and the registers, pushes the
   continuation and argc 1 and re-dispatches the same CALL/TCALL on the receiver *)
CallCC ==
  /\ ph = "pushed" /\ pend.n = 1 /\ Len(conts) < MaxConts
  /\ LET sp1 == sp - 2       \* argc and receiver popped
         k == [stk |-> [i \in 1..Cap |-> IF i <= sp1 THEN stk[i] ELSE Empty], sp |-> sp1, bp |-> bp, ep |-> ep,
               ip |-> fresh, ctl |-> ctl, ph |-> "body"] IN
     /\ conts' = Append(conts, k)
     /\ stk' = [stk EXCEPT ![sp1 + 1] = Val(9000 + Len(conts) + 1), ![sp1 + 2] = Argc(1)]
     /\ sp' = sp1 + 2
     /\ pend' = [pend EXCEPT !.args = <<9000 + Len(conts) + 1>>, !.r = 1, !.rest = FALSE, !.sp0 = sp1]
  /\ fresh' = fresh + 1
  /\ Tick("CallCC")
  /\ UNCHANGED <<bp, ep, ip, acc, ph, ctl, budget>>

(* invoking a continuation with one value: pop argc and the value, restore stack and registers *)
Throw(j) ==
  /\ ph = "pushed" /\ pend.n = 1 /\ j \in 1..Len(conts)
  /\ LET k == conts[j] IN
     /\ stk' = [i \in 1..Cap |-> IF i <= k.sp THEN k.stk[i] ELSE stk[i]]
     /\ sp' = k.sp /\ bp' = k.bp /\ ep' = k.ep /\ ip' = k.ip
     /\ ctl' = k.ctl
     /\ ph' = k.ph
  /\ acc' = pend.args[1]
  /\ Tick("Throw")
  /\ UNCHANGED <<pend, conts, fresh, budget>>

(* a run-time error at any point of an evaluation: after the stack trace is taken the stack is cleared and
   the registers return to their idle values *)
Fail ==
  /\ ph \in {"body", "pushed", "called"}
  /\ stk' = [i \in 1..Cap |-> Empty]
  /\ sp' = 0 /\ bp' = 0 /\ ep' = Idle /\ acc' = 0
  /\ ctl' = <<>>
  /\ ph' = "idle"
  /\ Tick("Fail")
  /\ UNCHANGED <<ip, pend, conts, fresh, budget>>

(* run_count(n) returns between two instructions when the budget is used up, and is resumed later *)
Yield ==
  /\ ph \in {"body", "pushed", "called"}
  /\ budget' = budget + 1
  /\ Tick("Yield")
  /\ UNCHANGED <<stk, sp, bp, ep, ip, acc, ph, pend, ctl, conts, fresh>>

Next ==
  \/ PrepareEval
  \/ \E n \in 0..MaxArity, tail \in BOOLEAN, r \in 0..MaxArity, rest \in BOOLEAN : StartCall(n, tail, r, rest)
  \/ Call \/ TCall \/ VarArg \/ Enter \/ Ret \/ Halt \/ CallCC
  \/ \E j \in 1..MaxConts : Throw(j)
  \/ Fail \/ Yield
Spec == Init /\ [][Next]_vars
Bounded == steps <= MaxSteps /\ budget <= 1

-----------------------------------------------------------------------------
(* Invariants *)

\* the frames found by following bp are exactly the entered activations of the ideal control stack
RECURSIVE ChainOK(_, _)
ChainOK(b, c) ==
  IF Len(c) = 0 THEN TRUE
  ELSE LET f == c[1]
           n == Len(f.args) IN
       /\ stk[b + 1] = Argc(n)
       /\ stk[b + 2] = Ep(f.ep)
       /\ stk[b + 3] = Ip(f.ret)
       /\ stk[b + 4] = Bp(f.bp)
       /\ \A j \in 1..n : stk[b - n + j] = Val(f.args[j])
       /\ b - n = f.sp0
       /\ ChainOK(f.bp, Tail(c))
Entered == IF Len(ctl) > 0 /\ ~ctl[1].entered THEN Tail(ctl) ELSE ctl
FrameChain == ph \in {"body", "pushed"} => ChainOK(bp, Entered)

\* a tail call neither adds an activation nor changes where the activation returns to, and the new
\* frame sits exactly where the old one was
TailCallOK ==
  last.a = "TCall" => /\ Len(ctl) = last.nctl
                      /\ sp = ctl[1].sp0 + Len(ctl[1].args) + 3

\* a return restores the stack pointer to its value before the first argument was pushed
ReturnOK == last.a = "Ret" => sp <= last.sp /\ (Len(ctl) = last.nctl - 1)

\* after a failure the machine is idle with an empty stack
FailureOK == last.a = "Fail" => sp = 0 /\ bp = 0 /\ ctl = <<>> /\ \A i \in 1..Cap : stk[i] = Empty
\* between evaluations the stack is empty: the next evaluation starts from the idle stack pointer
IdleSp == ph = "idle" => sp = 0 /\ bp = 0

\* the stack never overflows the frame discipline: sp is at least the top of the innermost frame
SpOK == ph = "body" /\ Len(ctl) > 0 /\ ctl[1].entered => sp >= bp + 4

\* suspending between two instructions changes nothing but the budget
SliceInvisible == [][last'.a = "Yield" => <<stk, sp, bp, ep, ip, acc, ph, ctl>>' = <<stk, sp, bp, ep, ip, acc, ph, ctl>>]_vars

\* invoking a continuation re-establishes exactly the captured machine state
RestoreOK ==
  last.a = "Throw" => \E j \in 1..Len(conts) :
      LET k == conts[j] IN sp = k.sp /\ bp = k.bp /\ ep = k.ep /\ ip = k.ip /\ ctl = k.ctl
                           /\ \A i \in 1..k.sp : stk[i] = k.stk[i]
=============================================================================
