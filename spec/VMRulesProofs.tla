--------------------------- MODULE VMRulesProofs ---------------------------
(***************************************************************************)
(* Machine-checked (TLAPS) consequences of the register arithmetic of the  *)
(* calling protocol (VMRules, shared by MarwoodVM, Trace_VM and, through   *)
(* the same formulas, Machine.tla).  sp0 is the stack pointer before the   *)
(* first argument of a call is pushed.                                     *)
(*                                                                         *)
(*  CallReturns     CALL n args; ENTER; ...; RET  leaves sp = sp0          *)
(*  TailCallKeeps   TCALL replaces a frame of f arguments by one of a      *)
(*                  arguments on the same base: the activation entered by  *)
(*                  it returns with exactly the sp the replaced activation *)
(*                  would have returned with -- by induction a loop of     *)
(*                  tail calls never moves the base: constant stack space  *)
(*  VarArgFrame     VARARG turns a frame of a >= r arguments into a frame  *)
(*                  of r + 1 arguments on the same base                    *)
(*  BuiltinReturns  an ordinary builtin pops argc and its arguments        *)
(***************************************************************************)
EXTENDS VMRules, TLAPS

\* the frame of a call with n arguments pushed from sp0: n values, argc
PushedSp(sp0, n) == sp0 + n + 1

THEOREM CallReturns ==
  \A sp0, n \in Nat :
     LET sp1 == CallSp(PushedSp(sp0, n))      \* CALL pushes ep and the return address
         sp2 == EnterSp(sp1)                  \* ENTER pushes bp
         bp2 == EnterBp(sp1)
     IN  /\ bp2 = sp0 + n                     \* bp points at the last argument
         /\ sp2 = bp2 + 4                     \* argc, ep, ip, bp above it
         /\ RetSp(bp2, n) = sp0               \* RET drops the frame and the arguments
  BY DEF CallSp, PushedSp, EnterSp, EnterBp, RetSp

THEOREM TailCallKeeps ==
  \A bp, f, a \in Nat : f <= bp =>
     LET sp1 == TCallSp(bp, f, a)             \* new frame: a args, argc, ep, ip on the old base
         bp2 == EnterBp(sp1)
     IN  /\ bp2 = (bp - f) + a
         /\ RetSp(bp2, a) = RetSp(bp, f)      \* the same sp the replaced activation would have left
  BY DEF TCallSp, EnterBp, RetSp

THEOREM VarArgFrame ==
  \A sp0, a, r \in Nat : r <= a =>
     LET sp1 == CallSp(PushedSp(sp0, a))
     IN  \* the frame now holds r + 1 arguments (the last one the list of the extra ones) on the same base
         \/ (a = r + 1 /\ VarArgSp(sp1, a, r) = sp1)
         \/ (a # r + 1 /\ VarArgSp(sp1, a, r) = CallSp(PushedSp(sp0, r + 1)))
  BY DEF CallSp, PushedSp, VarArgSp

THEOREM VarArgReturns ==
  \A sp0, a, r \in Nat : r <= a =>
     LET sp1 == VarArgSp(CallSp(PushedSp(sp0, a)), a, r)
     IN  RetSp(EnterBp(sp1), r + 1) = sp0
  BY DEF CallSp, PushedSp, VarArgSp, EnterBp, RetSp

THEOREM BuiltinReturns ==
  \A sp0, n \in Nat : BuiltinSp(PushedSp(sp0, n), n) = sp0
  BY DEF BuiltinSp, PushedSp
=============================================================================
