SPECIFICATION Spec
CONSTANTS
  N = 4
  Depth = 1
  Sim = FALSE
INVARIANTS Emit FrameOK LengthsOK ScalarsOK
CHECK_DEADLOCK FALSE
