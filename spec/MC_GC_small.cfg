SPECIFICATION Spec
CONSTANTS
  MaxCells = 3
  Cap0 = 2
  ChunkM = 1
  Names = {"n1"}
  RootSlots = {"r1", "r2"}
INVARIANTS TypeOK Safety Exactness FreeListOK MarksReset InternOK
PROPERTIES NoChange
CHECK_DEADLOCK FALSE
