----------------------------- MODULE CharTable -----------------------------
(***************************************************************************)
(* Case mapping and character classes for the characters the models use:   *)
(* all of ASCII plus an explicit palette covering UTF-8 widths 2, 3 and 4. *)
(* Taken from the Unicode character database (UnicodeData.txt,             *)
(* PropList.txt), not from the implementation.  Outside the table the      *)
(* models prescribe nothing (CaseKnown / ClassKnown are FALSE).            *)
(* U+00DF (sharp s), U+0149, U+01F0 and U+FB01 have a FULL upper-case      *)
(* mapping of several characters and no SIMPLE one.  The string operations *)
(* may use either (R7RS allows a length change), so they are not in the    *)
(* case table used for strings; the character operations return one        *)
(* character and use the simple mapping, under which these four are their  *)
(* own upper case, lower case and folding (CharCaseKnown).                 *)
(***************************************************************************)
EXTENDS Naturals

\* palette (beyond ASCII): multiplication sign (between E-acute and e-acute, no case), e-acute, E-acute, sharp s, lambda, Lambda, euro, CJK "middle",
\* U+FFFF, grinning face, U+10FFFF, no-break space, em space, ideographic space,
\* arabic-indic digit three
PaletteCase  == {215, 233, 201, 955, 923, 8364, 20013, 65535, 128512, 1114111, 160, 8195, 12288, 1635}
PaletteClass == PaletteCase \cup {223}

\* no simple case mapping, a multi-character full upper-case mapping: sharp s, n-apostrophe, j-caron, fi ligature
MultiUpper == {223, 329, 496, 64257}
CaseKnown(c)  == c < 128 \/ c \in PaletteCase
CharCaseKnown(c) == CaseKnown(c) \/ c \in MultiUpper      \* for char-upcase / char-downcase / char-foldcase
ClassKnown(c) == c < 128 \/ c \in PaletteClass

Upcase(c) ==
  IF c >= 97 /\ c <= 122 THEN c - 32
  ELSE IF c = 233 THEN 201 ELSE IF c = 955 THEN 923 ELSE c
Downcase(c) ==
  IF c >= 65 /\ c <= 90 THEN c + 32
  ELSE IF c = 201 THEN 233 ELSE IF c = 923 THEN 955 ELSE c
Foldcase(c) == Downcase(c)

IsUpper(c) == (c >= 65 /\ c <= 90) \/ c \in {201, 923}
IsLower(c) == (c >= 97 /\ c <= 122) \/ c \in {233, 955, 223}
IsAlphabetic(c) == IsUpper(c) \/ IsLower(c) \/ c = 20013
IsNumeric(c) == (c >= 48 /\ c <= 57) \/ c = 1635
IsWhitespace(c) == (c >= 9 /\ c <= 13) \/ c = 32 \/ c \in {160, 8195, 12288}
=============================================================================
