---------------------------- MODULE Trace_Highlight ----------------------------
(***************************************************************************)
(* I -> S: trace validation for C20.  The harness (mwverif highlight       *)
(* unicode) generates seeded random texts with random byte cursors, also   *)
(* past the end and inside multi-byte characters, runs the real            *)
(* ReplHighlighter and records one ndjson record per call (IOEnv.TRACE):   *)
(*   id, kind ("struct" | "raw"), cps (code points of the text), p (byte   *)
(*   cursor), out ([k |-> "same"] | [k |-> "text", cps] | [k |-> "panic"]),*)
(*   chk ("true" | "false" | "panic"),                                     *)
(*   items (kind "struct" only): the text as a sequence of lexical items   *)
(*   [k, sh, cp] in the sense of Highlight, with multi-byte identifiers    *)
(*   and character literals.                                               *)
(* Each record is one behaviour (Init chooses the record).  For "struct"   *)
(* records the required outcome is recomputed with the operators of        *)
(* Highlight (full requirement); for "raw" records only the weak clauses   *)
(* apply: no panic, and the output equals the input or differs from it by  *)
(* exactly one escape pair around one bracket spelling.  A difference is   *)
(* printed as a MISMATCH line; TLC's count of distinct states tells the    *)
(* driver that every record was consumed.                                  *)
(***************************************************************************)
EXTENDS Highlight, Json, IOUtils, TLC

Rec == ndJsonDeserialize(IOEnv.TRACE)

VARIABLE ri
Init == ri \in 1..Len(Rec)
Next == UNCHANGED ri
Spec == Init /\ [][Next]_ri

Report(r, what, req) ==
  PrintT(<<"MISMATCH", ToJson([id |-> r.id, kind |-> r.kind, what |-> what, cps |-> r.cps, p |-> r.p,
                               req |-> req, out |-> r.out, chk |-> r.chk])>>)

ItemsOK(r) == \A i \in 1..Len(r.items) :
                 /\ r.items[i].k \in {"open", "close", "vopen", "quote", "semi", "nl", "sp", "atom", "chr"}
                 /\ Len(r.items[i].cp) >= 1

NoReq == [k |-> "any", bs |-> 0, be |-> 0, cs |-> 0, ce |-> 0]

CheckStruct(r) ==
  LET t == r.items
      L == Lex(t)
      req == Required(t, L, r.p)
      creq == CheckRequired(L, r.p)
  IN IF ~ItemsOK(r) \/ Flat(t) # r.cps THEN Report(r, "record: items do not render to cps", NoReq)
     ELSE /\ IF Conforms(req, r.cps, r.out) THEN TRUE
             ELSE Report(r, "highlight", req @@ [tags |-> Tags(t, L, r.p)])
          /\ IF r.chk = "panic" \/ (creq = "false" /\ r.chk = "true")
             THEN Report(r, "check", [NoReq EXCEPT !.k = creq] @@ [tags |-> Tags(t, L, r.p)])
             ELSE TRUE

CheckRaw(r) ==
  /\ IF r.out.k # "panic" /\ Weak(r.cps, r.out) THEN TRUE ELSE Report(r, "highlight", NoReq)
  /\ IF r.chk = "panic" THEN Report(r, "check", NoReq) ELSE TRUE

Judge == LET r == Rec[ri] IN IF r.kind = "struct" THEN CheckStruct(r) ELSE CheckRaw(r)
=============================================================================
