SPECIFICATION Spec
CONSTANTS
  MinArity = 2
  MaxArity = 2
  Stride = 1
  Offset = 0
  Reduced = FALSE
INVARIANT SigOK
CHECK_DEADLOCK FALSE
