------------------------------- MODULE Machine -------------------------------
(***************************************************************************)
(* The implementation-shaped semantics of marwood: the compiler            *)
(* (compile.rs, lambda.rs, environment.rs) as the function Compile from    *)
(* core forms to instruction sequences, and the instruction set (run.rs,   *)
(* stack.rs, continuation.rs, builtin/procedure.rs) as the step function   *)
(* Exec over a register machine                                            *)
(*     stk (sp = Len(stk)), bp, ep, ip = [l: lambda, o: instruction], acc, *)
(*     hp (objects), envs (lexical environments), gl (global slots),       *)
(*     code (compiled lambdas), sy (symbol table).                         *)
(*                                                                         *)
(* Input of Compile is a form after macro expansion: the seven primitive   *)
(* forms define / lambda / if / quote / quasiquote / set! (and the macro    *)
(* definition define-syntax) and application.  Derived forms, and the      *)
(* library procedures marwood writes in Scheme (list, map, force, ...),     *)
(* reach the machine as the expanded text of prelude.scm, evaluated first  *)
(* in every session.                                                       *)
(*                                                                         *)
(* Where the implementation numbers environment slots (in an order that    *)
(* depends on hash-set iteration) the model names them by the variable:    *)
(* an operand [k:"e", n: x] is "the slot of x in the running activation's  *)
(* environment".  A lexical environment is a function from the names of    *)
(* the lambda's environment map (parameters, internal definitions,         *)
(* captured free variables) to a slot content: a value, or a pointer       *)
(* [t:"eptr", e, n] to the slot of another environment in which the        *)
(* variable lives.  That indirection is what makes closures share mutable  *)
(* locations: CLOSURE points captured names at the creator's activation    *)
(* environment, ENTER clones the closure's environment per activation and  *)
(* fills in the arguments.                                                 *)
(*                                                                         *)
(* The model is deliberately a second, independent formulation of the      *)
(* language next to SchemeCEK: Trace_Machine binds it to the real compiler *)
(* output and the real instruction-by-instruction register trace;          *)
(* MC_Machine checks it against SchemeCEK on all small programs.           *)
(***************************************************************************)
EXTENDS Prims, CEKNames

-----------------------------------------------------------------------------
(* Source data *)
Kw(d, k) == d.t = "sym" /\ d.v = k
Prim7Ids == {K_define, K_lambda, K_if, K_quasiquote, K_quote, K_set_bang, K_unquote}
IsPrim7(d) == d.t = "sym" /\ d.v \in Prim7Ids
CdrD(d) == IF Len(d.v) > 1 THEN [t |-> "list", v |-> Tail(d.v), tl |-> d.tl] ELSE d.tl

RECURSIVE SortSet(_)
SortSet(S) == IF S = {} THEN <<>> ELSE LET x == CHOOSE y \in S : \A z \in S : y <= z IN <<x>> \o SortSet(S \ {x})
SeqSet(s) == {s[i] : i \in 1..Len(s)}
RECURSIVE IndexOf(_, _, _)
IndexOf(s, x, i) == IF i > Len(s) THEN 0 ELSE IF s[i] = x THEN i ELSE IndexOf(s, x, i + 1)

\* formals: [ok, ps: parameter names (a rest parameter last), vararg]
MFormals(d) ==
  CASE d.t = "nil" -> [ok |-> TRUE, ps |-> <<>>, vararg |-> FALSE]
    [] d.t = "sym" -> [ok |-> ~IsPrim7(d), ps |-> <<d.v>>, vararg |-> TRUE]
    [] d.t = "list" ->
         IF \E i \in 1..Len(d.v) : d.v[i].t # "sym" \/ IsPrim7(d.v[i]) THEN [ok |-> FALSE, ps |-> <<>>, vararg |-> FALSE]
         ELSE IF d.tl.t = "sym"
              THEN [ok |-> ~IsPrim7(d.tl), ps |-> [i \in 1..(Len(d.v) + 1) |-> IF i <= Len(d.v) THEN d.v[i].v ELSE d.tl.v], vararg |-> TRUE]
              ELSE [ok |-> TRUE, ps |-> [i \in 1..Len(d.v) |-> d.v[i].v], vararg |-> FALSE]
    [] OTHER -> [ok |-> TRUE, ps |-> <<>>, vararg |-> FALSE]     \* (lambda 5 ...): no parameters

IsDefineForm(e) == e.t = "list" /\ Kw(e.v[1], K_define)
DefName(e) == IF Len(e.v) < 2 THEN 0
              ELSE IF e.v[2].t = "sym" THEN e.v[2].v
              ELSE IF e.v[2].t = "list" /\ e.v[2].v[1].t = "sym" THEN e.v[2].v[1].v ELSE 0
\* internal definitions: the defines at the beginning of a body; a define after an expression is a syntax error
RECURSIVE IDefs(_, _, _, _)
IDefs(body, i, beginning, acc) ==
  IF i > Len(body) THEN [ok |-> TRUE, names |-> acc]
  ELSE IF IsDefineForm(body[i])
       THEN IF ~beginning THEN [ok |-> FALSE, names |-> acc]
            ELSE LET n == DefName(body[i]) IN
                 IDefs(body, i + 1, TRUE, IF n = 0 \/ n \in SeqSet(acc) THEN acc ELSE Append(acc, n))
       ELSE IDefs(body, i + 1, FALSE, acc)

\* Free variables of a core form (R7RS sense: referenced or assigned, not bound by an enclosing lambda of the form)
RECURSIVE FV(_), FVSeq(_, _), FVQQ(_, _), FVQQItems(_, _, _, _)
FVLambda(formals, body) ==
  LET fm == MFormals(formals)
      idf == IDefs(body, 1, TRUE, <<>>) IN
  FVSeq(body, 1) \ (SeqSet(fm.ps) \cup SeqSet(idf.names))
FV(e) ==
  CASE e.t = "sym" -> IF IsPrim7(e) THEN {} ELSE {e.v}
    [] e.t = "list" ->
         LET h == e.v[1] IN
         CASE Kw(h, K_quote) -> {}
           [] Kw(h, K_define_syntax) -> {}
           [] Kw(h, K_quasiquote) -> IF Len(e.v) >= 2 THEN FVQQ(e.v[2], 0) ELSE {}
           [] Kw(h, K_lambda) -> IF Len(e.v) >= 3 THEN FVLambda(e.v[2], SubSeq(e.v, 3, Len(e.v))) ELSE {}
           [] Kw(h, K_define) ->
                IF Len(e.v) < 3 THEN {}
                ELSE IF e.v[2].t = "list" THEN FVLambda(CdrD(e.v[2]), SubSeq(e.v, 3, Len(e.v)))
                ELSE FVSeq(e.v, 3)
           [] OTHER -> FVSeq(e.v, 1) \cup (IF e.tl.t = "sym" THEN FV(e.tl) ELSE {})
    [] OTHER -> {}
FVSeq(es, i) == IF i > Len(es) THEN {} ELSE FV(es[i]) \cup FVSeq(es, i + 1)
\* quasiquote templates: only the expressions unquoted at nesting level 0 are code (same walk as CompQQ)
FVQQ(t, depth) ==
  CASE t.t = "vec" -> UNION {FVQQ(t.v[i], depth) : i \in 1..Len(t.v)}
    [] t.t = "list" ->
         IF Kw(t.v[1], K_unquote) /\ depth = 0 THEN (IF Len(t.v) >= 2 THEN FV(t.v[2]) ELSE {})
         ELSE LET d2 == IF Kw(t.v[1], K_unquote) THEN depth - 1
                        ELSE IF Kw(t.v[1], K_quasiquote) THEN depth + 1 ELSE depth IN
              FVQQItems(t, 1, d2, {})
    [] OTHER -> {}
FVQQItems(t, i, depth, acc) ==
  IF i > Len(t.v) THEN acc \cup FVQQ(t.tl, depth)
  ELSE IF i > 1 /\ Kw(t.v[i], K_unquote) THEN acc \cup FVQQ([t |-> "list", v |-> SubSeq(t.v, i, Len(t.v)), tl |-> t.tl], depth)
  ELSE FVQQItems(t, i + 1, depth, acc \cup FVQQ(t.v[i], depth))

-----------------------------------------------------------------------------
(* Instructions.  Sizes give the offsets in marwood's flat bytecode vector. *)
I0(op) == [op |-> op]
Acc == [k |-> "acc"]
MovI(x, d) == [op |-> "MovImmediate", x |-> x, d |-> d]
Mov(s, d) == [op |-> "Mov", s |-> s, d |-> d]
PushI(x) == [op |-> "PushImmediate", x |-> x]
ImmArgc(n) == [k |-> "argc", n |-> n]
ImmVal(v) == [k |-> "val", v |-> v]
ImmLam(l) == [k |-> "lam", l |-> l]
Size(i) == CASE i.op \in {"Mov", "MovImmediate"} -> 3
             [] i.op \in {"PushImmediate", "Jmp", "Jnt", "Push"} -> 2
             [] OTHER -> 1
RECURSIVE Offsets(_, _, _, _)
Offsets(bc, i, pos, acc) == IF i > Len(bc) THEN Append(acc, pos) ELSE Offsets(bc, i + 1, pos + Size(bc[i]), Append(acc, pos))
\* flat offset of every instruction (0-based, as in the implementation), plus the total size as last element
OffsetsOf(bc) == Offsets(bc, 1, 0, <<>>)

-----------------------------------------------------------------------------
(* Compile.  State S = [code, hp]; results [ok, err, bc, S].                *)
COk(bc, S) == [ok |-> TRUE, err |-> "", bc |-> bc, S |-> S]
CErr(e, S) == [ok |-> FALSE, err |-> e, bc |-> <<>>, S |-> S]

\* binding location: a name of the lambda's environment map, or global
Loc(x, ctx) == IF x \in SeqSet(ctx) THEN [k |-> "e", n |-> x] ELSE [k |-> "g", n |-> x]

CompQuote(d, S) ==
  LET r == DatumToVal(d, S.hp) IN COk(<<MovI(ImmVal(r.v), Acc)>>, [S EXCEPT !.hp = r.hp])

RECURSIVE CompExpr(_, _, _, _), CompArgs(_, _, _, _, _), CompBody(_, _, _, _, _),
          CompQQ(_, _, _, _), CompQQItems(_, _, _, _, _, _), CompQQVec(_, _, _, _, _, _), CompLambda(_, _, _, _)

ConsChain(n) == [i \in 1..(2 * n - 1) |-> IF i % 2 = 1 THEN I0("Cons") ELSE I0("PushAcc")]

CompQQ(t, depth, ctx, S) ==
  CASE t.t = "vec" -> CompQQVec(t.v, 1, depth, ctx, S, <<>>)
    [] t.t = "list" ->
         IF Kw(t.v[1], K_unquote) /\ depth = 0
         THEN IF Len(t.v) >= 2 THEN CompExpr(t.v[2], FALSE, ctx, S) ELSE CErr("syntax", S)
         ELSE LET d2 == IF Kw(t.v[1], K_unquote) THEN depth - 1
                        ELSE IF Kw(t.v[1], K_quasiquote) THEN depth + 1 ELSE depth IN
              CompQQItems(t, 1, d2, ctx, S, <<>>)
    [] OTHER -> CompQuote(t, S)
CompQQVec(es, i, depth, ctx, S, acc) ==
  IF i > Len(es)
  THEN COk(acc \o <<PushI(ImmArgc(Len(es))), MovI([k |-> "vecctor"], Acc), I0("CallAcc")>>, S)
  ELSE LET r == CompQQ(es[i], depth, ctx, S) IN
       IF ~r.ok THEN r ELSE CompQQVec(es, i + 1, depth, ctx, r.S, acc \o r.bc \o <<I0("PushAcc")>>)
\* list template: elements pushed left to right, then the tail, then one CONS per element
CompQQItems(t, i, depth, ctx, S, acc) ==
  LET n == i - 1 IN      \* elements compiled so far
  IF i <= Len(t.v) /\ ~(i > 1 /\ Kw(t.v[i], K_unquote))
  THEN LET r == CompQQ(t.v[i], depth, ctx, S) IN
       IF ~r.ok THEN r ELSE CompQQItems(t, i + 1, depth, ctx, r.S, acc \o r.bc \o <<I0("PushAcc")>>)
  ELSE LET rest == IF i > Len(t.v) THEN t.tl ELSE [t |-> "list", v |-> SubSeq(t.v, i, Len(t.v)), tl |-> t.tl] IN
       IF rest.t \in {"list", "vec"}
       THEN LET r == CompQQ(rest, depth, ctx, S) IN
            IF ~r.ok THEN r ELSE COk(acc \o r.bc \o <<I0("PushAcc")>> \o ConsChain(n), r.S)
       ELSE LET q == DatumToVal(rest, S.hp) IN
            COk(acc \o <<PushI(ImmVal(q.v))>> \o ConsChain(n), [S EXCEPT !.hp = q.hp])

\* operands: each followed by PUSH
CompArgs(es, i, ctx, S, acc) ==
  IF i > Len(es) THEN COk(acc, S)
  ELSE LET r == CompExpr(es[i], FALSE, ctx, S) IN
       IF ~r.ok THEN r ELSE CompArgs(es, i + 1, ctx, r.S, acc \o r.bc \o <<I0("PushAcc")>>)
\* body: the last expression is in tail position
CompBody(es, i, ctx, S, acc) ==
  IF i > Len(es) THEN COk(acc, S)
  ELSE LET r == CompExpr(es[i], i = Len(es), ctx, S) IN
       IF ~r.ok THEN r ELSE CompBody(es, i + 1, ctx, r.S, acc \o r.bc)

\* e = (lambda formals body ...) or (define (name . formals) body ...); ctx = names of the enclosing lambda
CompLambda(e, isDefine, ctx, S) ==
  IF Len(e.v) < 2 THEN CErr("arity", S)
  ELSE
  LET formals == IF isDefine THEN CdrD(e.v[2]) ELSE e.v[2]
      body == SubSeq(e.v, 3, Len(e.v))
      fm == MFormals(formals)
      idf == IDefs(body, 1, TRUE, <<>>) IN
  IF ~fm.ok \/ ~idf.ok \/ Len(body) = 0 THEN CErr("syntax", S)
  ELSE
  LET capt == SortSet((FVSeq(body, 1) \ (SeqSet(fm.ps) \cup SeqSet(idf.names))) \cap SeqSet(ctx))
      names == fm.ps \o idf.names \o capt
      r == CompBody(body, 1, names, S, <<>>) IN
  IF ~r.ok THEN r
  ELSE LET bc == (IF fm.vararg THEN <<I0("VarArg")>> ELSE <<>>) \o <<I0("Enter")>> \o r.bc \o <<I0("Ret")>>
           lam == [args |-> fm.ps, vararg |-> fm.vararg, idefs |-> idf.names, capt |-> capt, top |-> FALSE,
                   bc |-> bc, off |-> OffsetsOf(bc)]
           S2 == [r.S EXCEPT !.code = Append(@, lam)] IN
       COk(<<MovI(ImmLam(Len(S2.code)), Acc), I0("ClosureAcc")>>, S2)

StoreTo(x, ctx) == <<Mov(Acc, Loc(x, ctx)), MovI([k |-> "void"], Acc)>>

CompExpr(e, tail, ctx, S) ==
  CASE e.t = "sym" -> IF IsPrim7(e) THEN CErr("syntax", S) ELSE COk(<<Mov(Loc(e.v, ctx), Acc)>>, S)
    [] e.t \in {"bool", "char", "int", "num", "str", "vec"} -> CompQuote(e, S)
    [] e.t = "list" ->
         LET h == e.v[1]
             n == Len(e.v) IN
         CASE Kw(h, K_define) ->
                IF n < 3 THEN CErr("arity", S)
                ELSE IF e.v[2].t = "sym"
                     THEN IF n # 3 \/ e.tl.t # "nil" THEN CErr("arity", S)
                          ELSE IF IsPrim7(e.v[2]) THEN CErr("syntax", S)
                          ELSE LET r == CompExpr(e.v[3], FALSE, ctx, S) IN
                               IF ~r.ok THEN r ELSE COk(r.bc \o StoreTo(e.v[2].v, ctx), r.S)
                ELSE IF e.v[2].t = "list"
                     THEN IF e.v[2].v[1].t # "sym" \/ IsPrim7(e.v[2].v[1]) THEN CErr("syntax", S)
                          ELSE LET r == CompLambda(e, TRUE, ctx, S) IN
                               IF ~r.ok THEN r ELSE COk(r.bc \o StoreTo(e.v[2].v[1].v, ctx), r.S)
                ELSE CErr("syntax", S)
           [] Kw(h, K_define_syntax) ->
                IF n < 3 \/ e.v[2].t # "sym" THEN CErr("syntax", S)
                ELSE COk(<<MovI([k |-> "macro"], [k |-> "g", n |-> e.v[2].v]), MovI([k |-> "void"], Acc)>>, S)
           [] Kw(h, K_lambda) -> CompLambda(e, FALSE, ctx, S)
           [] Kw(h, K_quasiquote) -> IF n < 2 THEN CErr("syntax", S) ELSE CompQQ(e.v[2], 0, ctx, S)
           [] Kw(h, K_quote) -> IF n < 2 THEN CErr("syntax", S) ELSE CompQuote(e.v[2], S)
           [] Kw(h, K_if) ->
                IF e.tl.t # "nil" \/ n < 3 \/ n > 4 THEN CErr("arity", S)
                ELSE LET t == CompExpr(e.v[2], FALSE, ctx, S) IN
                     IF ~t.ok THEN t
                     ELSE LET c == CompExpr(e.v[3], tail, ctx, t.S) IN
                          IF ~c.ok THEN c
                          ELSE LET a == IF n = 4 THEN CompExpr(e.v[4], tail, ctx, c.S)
                                        ELSE COk(<<MovI([k |-> "void"], Acc)>>, c.S) IN
                               IF ~a.ok THEN a
                               ELSE COk(t.bc \o <<[op |-> "Jnt", rel |-> Len(c.bc) + 2]>> \o c.bc
                                             \o <<[op |-> "Jmp", rel |-> Len(a.bc) + 1]>> \o a.bc, a.S)
           [] Kw(h, K_set_bang) ->
                IF n # 3 \/ e.tl.t # "nil" THEN CErr("arity", S)
                ELSE IF e.v[2].t # "sym" \/ IsPrim7(e.v[2]) THEN CErr("syntax", S)
                ELSE LET r == CompExpr(e.v[3], FALSE, ctx, S) IN
                     IF ~r.ok THEN r ELSE COk(r.bc \o StoreTo(e.v[2].v, ctx), r.S)
           [] OTHER ->
                LET a == CompArgs(SubSeq(e.v, 2, n), 1, ctx, S, <<>>) IN
                IF ~a.ok THEN a
                ELSE LET f == CompExpr(h, FALSE, ctx, a.S) IN
                     IF ~f.ok THEN f
                     ELSE COk(a.bc \o <<PushI(ImmArgc(n - 1))>> \o f.bc
                                   \o <<I0(IF tail THEN "TCallAcc" ELSE "CallAcc")>>, f.S)
    [] OTHER -> CErr("syntax", S)      \* (), and objects that are not expressions

\* compile_runnable: the top-level lambda (no environment) and the entry stub; returns [ok, entry, S]
CompileRunnable(form, S) ==
  LET r == CompExpr(form, TRUE, <<>>, S) IN
  IF ~r.ok THEN [ok |-> FALSE, err |-> r.err, entry |-> 0, S |-> S]
  ELSE LET mbc == <<I0("Enter")>> \o r.bc \o <<I0("Ret")>>
           main == [args |-> <<>>, vararg |-> FALSE, idefs |-> <<>>, capt |-> <<>>, top |-> TRUE, bc |-> mbc, off |-> OffsetsOf(mbc)]
           S2 == [r.S EXCEPT !.code = Append(@, main)]
           ebc == <<PushI(ImmArgc(0)), MovI(ImmLam(Len(S2.code)), Acc), I0("CallAcc"), I0("Halt")>>
           entry == [args |-> <<>>, vararg |-> FALSE, idefs |-> <<>>, capt |-> <<>>, top |-> FALSE, bc |-> ebc, off |-> OffsetsOf(ebc)]
           S3 == [S2 EXCEPT !.code = Append(@, entry)] IN
       [ok |-> TRUE, err |-> "", entry |-> Len(S3.code), S |-> S3]

-----------------------------------------------------------------------------
(* The register machine *)
Clo(l, e) == [t |-> "mclo", l |-> l, e |-> e]
LamV(l) == [t |-> "mlam", l |-> l]
EPtr(e, n) == [t |-> "eptr", e |-> e, n |-> n]
SArgc(n) == [t |-> "argc", v |-> n]
SEp(e) == [t |-> "ep", v |-> e]
SIp(p) == [t |-> "ip", v |-> p]
SBp(b) == [t |-> "bp", v |-> b]
IsProc(v) == v.t \in {"mclo", "mlam", "prim", "mkont"}

MFail(m, why) == [m EXCEPT !.status = "fail", !.res = [t |-> "err", why |-> why],
                           !.stk = <<>>, !.bp = 0, !.ep = 0, !.acc = UndefV]
MOom(m, why) == [m EXCEPT !.status = "oom", !.res = [t |-> "oom", why |-> why]]
Sp(m) == Len(m.stk)
PushS(m, x) == [m EXCEPT !.stk = Append(@, x)]
Next1(m) == [m EXCEPT !.ip.o = @ + 1]
Cur(m) == m.code[m.ip.l].bc[m.ip.o]
LamNames(L) == SeqSet(L.args) \cup SeqSet(L.idefs) \cup SeqSet(L.capt)

ImmValue(x) == CASE x.k = "val" -> x.v
                 [] x.k = "lam" -> LamV(x.l)
                 [] x.k = "void" -> VoidV
                 [] x.k = "macro" -> [t |-> "macro"]
                 [] x.k = "vecctor" -> PrimV("vector")
                 [] x.k = "argc" -> SArgc(x.n)

\* load / store through an operand
Load(m, s) ==
  CASE s.k = "acc" -> [ok |-> TRUE, v |-> m.acc]
    [] s.k = "g" -> IF m.gl[s.n].t = "undef" THEN [ok |-> FALSE, v |-> UndefV] ELSE [ok |-> TRUE, v |-> m.gl[s.n]]
    [] s.k = "e" -> LET c == m.envs[m.ep][s.n] IN
                    [ok |-> TRUE, v |-> IF c.t = "eptr" THEN m.envs[c.e][c.n] ELSE c]
Store(m, d, v) ==
  CASE d.k = "acc" -> [m EXCEPT !.acc = v]
    [] d.k = "g" -> [m EXCEPT !.gl[d.n] = v]
    [] d.k = "e" -> LET c == m.envs[m.ep][d.n] IN
                    IF c.t = "eptr" THEN [m EXCEPT !.envs[c.e][c.n] = v] ELSE [m EXCEPT !.envs[m.ep][d.n] = v]

RECURSIVE FindSym(_, _, _)
FindSym(sy, name, i) == IF i > Len(sy) THEN 0 ELSE IF sy[i] = name THEN i ELSE FindSym(sy, name, i + 1)

\* a procedure implemented in Rust: pops argc and the arguments, the result goes to acc
Builtin(m, n) ==
  LET argc == m.stk[Sp(m)].v
      base == Sp(m) - 1 - argc
      a == SubSeq(m.stk, base + 1, Sp(m) - 1)
      m0 == [m EXCEPT !.stk = SubSeq(@, 1, base)] IN
  CASE n \in {"call/cc", "call-with-current-continuation"} ->
         IF argc # 1 THEN MFail(m, "arity")
         ELSE IF ~IsProc(a[1]) THEN MFail(m, "type")
         ELSE LET k == [t |-> "mkont", stk |-> m0.stk, bp |-> m.bp, ep |-> m.ep, ip |-> [l |-> m.ip.l, o |-> m.ip.o + 1]] IN
              \* the same CALL / TCALL is executed again, now on the receiver
              [m0 EXCEPT !.stk = @ \o <<k, SArgc(1)>>, !.acc = a[1]]
    [] n = "apply" ->
         IF argc < 2 THEN MFail(m, "arity")
         ELSE LET l == ListToSeq(a[argc], m.hp) IN
              IF ~l.ok THEN MFail(m, "type")
              ELSE LET args == SubSeq(a, 2, argc - 1) \o l.s IN
                   [m0 EXCEPT !.stk = @ \o args \o <<SArgc(Len(args))>>, !.acc = a[1]]
    [] n = "error" -> IF argc < 1 THEN MFail(m, "arity") ELSE MFail(m, "user")
    [] n = "eval" -> MOom(m, "eval")
    [] n \in {"display", "write"} -> IF argc = 1 THEN Next1([m0 EXCEPT !.acc = VoidV]) ELSE MOom(m, "port argument")
    [] n = "string->symbol" ->
         IF argc # 1 THEN MFail(m, "arity")
         ELSE IF a[1].t # "str" THEN MFail(m, "type")
         ELSE LET name == StrChars(a[1], m.hp)
                  i == FindSym(m.sy, name, 1) IN
              IF i # 0 THEN Next1([m0 EXCEPT !.acc = SymV(i)])
              ELSE Next1([m0 EXCEPT !.sy = Append(@, name), !.gl = Append(@, UndefV), !.acc = SymV(Len(m.sy) + 1)])
    [] n = "symbol->string" ->
         IF argc # 1 THEN MFail(m, "arity")
         ELSE IF a[1].t # "sym" THEN MFail(m, "type")
         ELSE LET s == MkStr(m.sy[a[1].v], m.hp) IN Next1([m0 EXCEPT !.hp = s.hp, !.acc = s.v])
    [] n = "procedure?" -> IF argc # 1 THEN MFail(m, "arity") ELSE Next1([m0 EXCEPT !.acc = BoolV(IsProc(a[1]))])
    [] OTHER ->
         \* continuations are compared by object identity in the implementation; the model has no identity for them
         IF n \in {"eq?", "eqv?", "equal?"} /\ \E i \in 1..argc : a[i].t \in {"mkont", "macro", "mlam"}
         THEN MOom(m, "identity of a continuation")
         ELSE LET p == Prim(n, a, m.hp) IN
              CASE p.s = "ok" -> Next1([m0 EXCEPT !.hp = p.hp, !.acc = p.v])
                [] p.s = "err" -> MFail(m, p.c)
                [] OTHER -> MOom(m, "builtin outside the model")

\* CALL / TCALL
CallOrTail(m, tail) ==
  LET f == m.acc IN
  CASE f.t \in {"mclo", "mlam"} ->
         IF ~tail
         THEN [m EXCEPT !.stk = @ \o <<SEp(m.ep), SIp([l |-> m.ip.l, o |-> m.ip.o + 1])>>, !.ip = [l |-> f.l, o |-> 1]]
         ELSE LET argc == m.stk[Sp(m)].v
                  fargc == m.stk[m.bp + 1].v
                  args == SubSeq(m.stk, Sp(m) - argc, Sp(m) - 1) IN
              \* the frame of the running activation is replaced: same return address, saved ep and saved bp
              [m EXCEPT !.stk = SubSeq(@, 1, m.bp - fargc) \o args \o <<SArgc(argc), m.stk[m.bp + 2], m.stk[m.bp + 3]>>,
                        !.bp = m.stk[m.bp + 4].v, !.ip = [l |-> f.l, o |-> 1]]
    [] f.t = "prim" -> Builtin(m, f.v)
    [] f.t = "mkont" ->
         LET argc == m.stk[Sp(m)].v IN
         IF argc = 0 THEN MFail(m, "arity")
         ELSE [m EXCEPT !.stk = f.stk, !.bp = f.bp, !.ep = f.ep, !.ip = f.ip, !.acc = m.stk[Sp(m) - 1]]
    [] OTHER -> MFail(m, "notproc")

\* one instruction
Exec(m) ==
  LET i == Cur(m) IN
  CASE i.op = "Jmp" -> [m EXCEPT !.ip.o = @ + i.rel]
    [] i.op = "Jnt" -> IF m.acc.t = "bool" /\ m.acc.v = FALSE THEN [m EXCEPT !.ip.o = @ + i.rel] ELSE Next1(m)
    [] i.op = "Mov" -> LET v == Load(m, i.s) IN IF ~v.ok THEN MFail(m, "unbound") ELSE Next1(Store(m, i.d, v.v))
    [] i.op = "MovImmediate" -> Next1(Store(m, i.d, ImmValue(i.x)))
    [] i.op = "PushImmediate" -> Next1(PushS(m, ImmValue(i.x)))
    [] i.op = "PushAcc" -> Next1(PushS(m, m.acc))
    [] i.op = "Halt" -> [m EXCEPT !.status = "done", !.res = m.acc]
    [] i.op = "Cons" ->
         LET c == Cons(m.stk[Sp(m) - 1], m.stk[Sp(m)], m.hp) IN
         Next1([m EXCEPT !.stk = SubSeq(@, 1, Sp(m) - 2), !.hp = c.hp, !.acc = c.v])
    [] i.op = "ClosureAcc" ->
         LET L == m.code[m.acc.l]
             E == [x \in LamNames(L) |->
                     IF x \in SeqSet(L.args) \cup SeqSet(L.idefs) THEN UndefV
                     ELSE LET c == m.envs[m.ep][x] IN IF c.t = "eptr" THEN c ELSE EPtr(m.ep, x)] IN
         Next1([m EXCEPT !.envs = Append(@, E), !.acc = Clo(m.acc.l, Len(m.envs) + 1)])
    [] i.op = "CallAcc" -> CallOrTail(m, FALSE)
    [] i.op = "TCallAcc" -> CallOrTail(m, TRUE)
    [] i.op = "Enter" ->
         LET f == m.acc
             L == m.code[f.l]
             argc == m.stk[Sp(m) - 2].v
             nbp == Sp(m) + 1 - 4 IN
         IF argc # Len(L.args) THEN MFail(m, "arity")
         ELSE IF f.t = "mlam" THEN Next1([m EXCEPT !.stk = Append(@, SBp(m.bp)), !.bp = nbp])
         ELSE LET ce == m.envs[f.e]
                  E == [x \in DOMAIN ce |->
                          IF x \in SeqSet(L.args) THEN m.stk[nbp - argc + IndexOf(L.args, x, 1)]
                          ELSE IF x \in SeqSet(L.idefs) THEN ce[x]
                          ELSE IF ce[x].t = "eptr" THEN ce[x] ELSE EPtr(f.e, x)] IN
              Next1([m EXCEPT !.stk = Append(@, SBp(m.bp)), !.bp = nbp, !.envs = Append(@, E), !.ep = Len(m.envs) + 1])
    [] i.op = "Ret" ->
         LET n == m.stk[m.bp + 1].v IN
         [m EXCEPT !.stk = SubSeq(@, 1, m.bp - n), !.ep = m.stk[m.bp + 2].v, !.ip = m.stk[m.bp + 3].v, !.bp = m.stk[m.bp + 4].v]
    [] i.op = "VarArg" ->
         LET L == m.code[m.ip.l]
             req == Len(L.args) - 1
             sp == Sp(m)
             argc == m.stk[sp - 2].v IN
         IF argc < req THEN MFail(m, "arity")
         ELSE LET base == sp - 3 - argc      \* slot below the first argument
                  l == SeqToList(SubSeq(m.stk, base + req + 1, base + argc), NilV, m.hp) IN
              Next1([m EXCEPT !.stk = SubSeq(@, 1, base + req) \o <<l.v, SArgc(req + 1), m.stk[sp - 1], m.stk[sp]>>, !.hp = l.hp])
    [] OTHER -> MOom(m, "instruction outside the model")

-----------------------------------------------------------------------------
(* Sessions *)
\* builtins: the procedures implemented in Rust, as a sequence of [id: symbol id, name: string]
BuiltinName(builtins, i) == LET S == {j \in 1..Len(builtins) : builtins[j].id = i} IN
                            IF S = {} THEN "" ELSE builtins[CHOOSE j \in S : TRUE].name
InitM(sy, builtins) ==
  [stk |-> <<>>, bp |-> 0, ep |-> 0, ip |-> [l |-> 0, o |-> 1], acc |-> UndefV, hp |-> <<>>, envs |-> <<>>,
   gl |-> [i \in 1..Len(sy) |-> IF BuiltinName(builtins, i) # "" THEN PrimV(BuiltinName(builtins, i)) ELSE UndefV],
   code |-> <<>>, sy |-> sy, status |-> "done", res |-> VoidV]

\* prepare_eval: compile and point ip at the entry stub; registers and stack are left as they are
StartM(m, form) ==
  LET c == CompileRunnable(form, [code |-> m.code, hp |-> m.hp]) IN
  IF ~c.ok THEN [m EXCEPT !.status = "fail", !.res = [t |-> "err", why |-> c.err]]
  ELSE [m EXCEPT !.code = c.S.code, !.hp = c.S.hp, !.ip = [l |-> c.entry, o |-> 1], !.status = "run", !.res = VoidV]

RECURSIVE RunMachine(_, _)
RunMachine(m, fuel) == IF m.status # "run" THEN m ELSE IF fuel = 0 THEN MOom(m, "fuel") ELSE RunMachine(Exec(m), fuel - 1)
=============================================================================
