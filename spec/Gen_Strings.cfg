SPECIFICATION Spec
CONSTANTS
  N = 4
  Depth = 10
  Sim = TRUE
INVARIANTS Emit FrameOK LengthsOK ScalarsOK
CHECK_DEADLOCK FALSE
