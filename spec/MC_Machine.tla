----------------------------- MODULE MC_Machine -----------------------------
(***************************************************************************)
(* The two semantics of the language against each other, without the       *)
(* implementation in between: for EVERY program of a small grammar the     *)
(* compiler + register machine (module Machine: Compile, Exec) must        *)
(* produce the outcome of the reference semantics (module SchemeCEK): the  *)
(* same value or both a failure, and the same final values of the global   *)
(* variables.  This is the design-level statement behind C01/C02/C05: the  *)
(* slot-and-pointer environments, the frame protocol and the stack-copying *)
(* continuations implement lexical scoping with shared mutable locations   *)
(* and first-class continuations.                                          *)
(*                                                                         *)
(* Programs: expressions over the global variables x = 10, y = 20 of       *)
(* nesting depth <= Depth built from                                       *)
(*   x  y  1  2  #f                                                         *)
(*   (lambda (x) E)  (lambda (y) E)  (lambda x E)                           *)
(*   (E E)  (set! x E)  (set! y E)  (if E E leaf)  (+ E E)                  *)
(*   (call/cc (lambda (x) E))  ((lambda () (define y E) E'))  with E' = y   *)
(*   ((lambda (x y) E) E leaf)                                             *)
(* numbered 0 .. Cnt(Depth)-1; a configuration checks every Stride-th.     *)
(***************************************************************************)
EXTENDS SchemeCEK, TLC, Json

CONSTANTS Depth, Stride, Blocks

M == INSTANCE Machine

X == SymD(NFixed + 1)
Y == SymD(NFixed + 2)
RECURSIVE IdOfR(_, _)
IdOfR(name, i) == IF FixedNames[i] = name THEN i ELSE IdOfR(name, i + 1)
IdOf(name) == IdOfR(name, 1)
PlusD == SymD(IdOf("+"))
CallccD == SymD(IdOf("call/cc"))
KwD(k) == SymD(k)
L(items) == [t |-> "list", v |-> items, tl |-> NilV]
Lam(formals, body) == L(<<KwD(K_lambda), formals>> \o body)

NLeaf == 5
Leaf(i) == CASE i = 0 -> X [] i = 1 -> Y [] i = 2 -> IntV(1) [] i = 3 -> IntV(2) [] OTHER -> FalseV

RECURSIVE Cnt(_), Dec(_, _)
Cnt(d) == IF d = 0 THEN NLeaf
          ELSE LET n == Cnt(d - 1) IN NLeaf + 7 * n + 2 * n * n + 2 * n * n * NLeaf
Dec(d, c) ==
  IF d = 0 \/ c < NLeaf THEN Leaf(c)
  ELSE LET n == Cnt(d - 1)
           c1 == c - NLeaf
           E(i) == Dec(d - 1, i) IN
       IF c1 < 7 * n
       THEN LET k == c1 \div n
                e == E(c1 % n) IN
            CASE k = 0 -> Lam(L(<<X>>), <<e>>)
              [] k = 1 -> Lam(L(<<Y>>), <<e>>)
              [] k = 2 -> Lam(X, <<e>>)
              [] k = 3 -> L(<<KwD(K_set_bang), X, e>>)
              [] k = 4 -> L(<<KwD(K_set_bang), Y, e>>)
              [] k = 5 -> L(<<CallccD, Lam(L(<<X>>), <<e>>)>>)
              [] k = 6 -> L(<<Lam(NilV, <<L(<<KwD(K_define), Y, e>>), Y>>)>>)
       ELSE LET c2 == c1 - 7 * n IN
            IF c2 < 2 * n * n
            THEN LET k == c2 \div (n * n)
                     r == c2 % (n * n)
                     a == E(r \div n)
                     b == E(r % n) IN
                 IF k = 0 THEN L(<<a, b>>) ELSE L(<<PlusD, a, b>>)
            ELSE LET c3 == c2 - 2 * n * n
                     k == c3 \div (n * n * NLeaf)
                     r == c3 % (n * n * NLeaf)
                     a == E(r \div (n * NLeaf))
                     b == E((r \div NLeaf) % n)
                     lf == Leaf(r % NLeaf) IN
                 IF k = 0 THEN L(<<KwD(K_if), a, b, lf>>)
                 ELSE L(<<Lam(L(<<X, Y>>), <<a>>), b, lf>>)

Total == Cnt(Depth)

-----------------------------------------------------------------------------
(* Families with a fixed skeleton (what the uniform grammar cannot reach at depth 2): a closure is created,      *)
(* bound, invoked, and the captured variable is assigned by creator and closure in every order of three steps.  *)
F == SymD(NFixed + 3)
G == SymD(NFixed + 4)
Z == SymD(NFixed + 5)
K == SymD(NFixed + 6)
ConsD == SymD(IdOf("cons"))
ProcPD == SymD(IdOf("procedure?"))
SetX(e) == L(<<KwD(K_set_bang), X, e>>)
Plus(a, b) == L(<<PlusD, a, b>>)
Three(s1, s2, s3) == L(<<ConsD, s1, L(<<ConsD, s2, s3>>)>>)     \* evaluates s1, s2, s3 in this order and shows all three

Steps1 == <<L(<<F, IntV(1)>>), L(<<F, IntV(2)>>), SetX(IntV(5)), X, L(<<F, X>>)>>
Bodies1 == <<X, Z, SetX(Z), SetX(Plus(X, Z)), Plus(X, Z), Lam(L(<<Y>>), <<X>>)>>
Formals1 == <<L(<<Z>>), Z>>
NT1 == 125 * 6 * 2 * 2
T1(c) ==
  LET s1 == Steps1[(c % 5) + 1]
      s2 == Steps1[((c \div 5) % 5) + 1]
      s3 == Steps1[((c \div 25) % 5) + 1]
      b == Bodies1[((c \div 125) % 6) + 1]
      fz == Formals1[((c \div 750) % 2) + 1]
      h0 == IF (c \div 1500) % 2 = 0 THEN IntV(1) ELSE Y IN
  <<L(<<Lam(L(<<X>>), <<L(<<Lam(L(<<F>>), <<Three(s1, s2, s3)>>), Lam(fz, <<b>>)>>)>>), h0>>)>>

\* two closures over the same variable
Steps2 == <<L(<<F, IntV(1)>>), L(<<F, IntV(2)>>), L(<<G>>), X, SetX(IntV(9))>>
Setters2 == <<SetX(Z), SetX(Plus(X, Z))>>
Getters2 == <<X, Plus(X, IntV(1)), Lam(NilV, <<X>>)>>
NT2 == 125 * 2 * 3
T2(c) ==
  LET s1 == Steps2[(c % 5) + 1]
      s2 == Steps2[((c \div 5) % 5) + 1]
      s3 == Steps2[((c \div 25) % 5) + 1]
      st == Setters2[((c \div 125) % 2) + 1]
      gt == Getters2[((c \div 250) % 3) + 1] IN
  <<L(<<Lam(L(<<X>>), <<L(<<Lam(L(<<F, G>>), <<Three(s1, s2, s3)>>), Lam(L(<<Z>>), <<st>>), Lam(NilV, <<gt>>)>>)>>), IntV(1)>>)>>

\* one location per activation: two counters made by the same procedure, stepped in every order of three
Mk(v) == IF v = 0
         THEN L(<<KwD(K_define), F, Lam(L(<<Z>>), <<Lam(NilV, <<L(<<KwD(K_set_bang), Z, Plus(Z, IntV(1))>>), Z>>)>>)>>)
         ELSE L(<<KwD(K_define), L(<<F, Z>>), L(<<KwD(K_define), G, Z>>),
                  Lam(NilV, <<L(<<KwD(K_set_bang), G, Plus(G, IntV(1))>>), G>>)>>)
NT3 == 16
T3(c) ==
  LET st(i) == IF (c \div i) % 2 = 0 THEN L(<<X>>) ELSE L(<<Y>>) IN
  <<Mk((c \div 8) % 2),
    L(<<Lam(L(<<X, Y>>), <<Three(st(1), st(2), st(4))>>), L(<<F, IntV(1)>>), L(<<F, IntV(10)>>)>>)>>

\* continuations: escape, and re-entry from a later top-level form (also into a closure activation whose
\* variable is assigned after the capture)
Capture(h) == L(<<CallccD, Lam(L(<<Z>>), <<L(<<KwD(K_set_bang), K, Z>>), h>>)>>)
ReEnter == L(<<KwD(K_if), L(<<ProcPD, K>>), L(<<Lam(L(<<Z>>), <<L(<<KwD(K_set_bang), K, IntV(0)>>), L(<<Z, IntV(10)>>)>>), K>>), X>>)
NT4 == 6
T4(c) ==
  LET h == CASE c % 3 = 0 -> IntV(1) [] c % 3 = 1 -> L(<<Z, IntV(5)>>) [] OTHER -> Plus(IntV(2), L(<<Z, IntV(5)>>))
      f2 == IF c < 3 THEN Plus(IntV(1), Capture(h))
            ELSE L(<<Lam(L(<<G>>), <<Plus(Capture(h), L(<<KwD(K_if), L(<<KwD(K_set_bang), G, Plus(G, IntV(1))>>), G, G>>))>>), IntV(100)>>) IN
  <<L(<<KwD(K_define), K, FalseV>>), f2, ReEnter, K, ReEnter>>

NFam == NT1 + NT2 + NT3 + NT4
Fam(c) == IF c < NT1 THEN T1(c)
          ELSE IF c < NT1 + NT2 THEN T2(c - NT1)
          ELSE IF c < NT1 + NT2 + NT3 THEN T3(c - NT1 - NT2)
          ELSE T4(c - NT1 - NT2 - NT3)

-----------------------------------------------------------------------------
Sy == [i \in 1..(NFixed + 6) |-> <<i>>]
Builtins == <<[id |-> IdOf("+"), name |-> "+"], [id |-> IdOf("call/cc"), name |-> "call/cc"],
              [id |-> IdOf("cons"), name |-> "cons"], [id |-> IdOf("procedure?"), name |-> "procedure?"]>>

Cek0 == [InitMachine(Sy) EXCEPT !.gl[X.v] = IntV(10), !.gl[Y.v] = IntV(20)]
Mach0 == [M!InitM(Sy, Builtins) EXCEPT !.gl[X.v] = IntV(10), !.gl[Y.v] = IntV(20)]

RECURSIVE Same(_, _)
Same(a, b) ==
  IF a.t \in {"proc", "opaque", "void", "undef"} \/ b.t \in {"proc", "opaque", "void", "undef"}
  THEN (a.t \in {"proc", "opaque"}) = (b.t \in {"proc", "opaque"})
  ELSE /\ a.t = b.t
       /\ CASE a.t \in {"int", "bool", "sym"} -> a.v = b.v
            [] a.t = "list" -> Len(a.v) = Len(b.v) /\ (\A i \in 1..Len(a.v) : Same(a.v[i], b.v[i])) /\ Same(a.tl, b.tl)
            [] OTHER -> TRUE

FormAgree(c, k) ==
  /\ (c.status = "done") = (k.status = "done")
  /\ (c.status = "done" =>
        /\ Same(ValToDatum(c.res, c.hp, 12, <<>>), ValToDatum(k.res, k.hp, 12, <<>>))
        /\ \A g \in {X.v, Y.v, K.v} : Same(ValToDatum(c.gl[g], c.hp, 12, <<>>), ValToDatum(k.gl[g], k.hp, 12, <<>>)))

\* a session: the forms one after the other in both machines; the first form that leaves a model ends the comparison
RECURSIVE Session(_, _, _, _, _)
Session(forms, i, c, k, last) ==
  IF i > Len(forms) THEN last
  ELSE LET c2 == RunM(StartForm(c, forms[i]), 3000)
           k2 == M!RunMachine(M!StartM(k, forms[i]), 6000) IN
       IF c2.status = "oom" \/ k2.status = "oom" THEN [cek |-> "oom", mach |-> "oom", agree |-> TRUE]
       ELSE IF ~FormAgree(c2, k2) THEN [cek |-> c2.status, mach |-> k2.status, agree |-> FALSE]
       ELSE Session(forms, i + 1, c2, k2, [cek |-> c2.status, mach |-> k2.status, agree |-> TRUE])
Outcome(forms) == Session(forms, 1, Cek0, Mach0, [cek |-> "", mach |-> "", agree |-> TRUE])

\* anti-vacuity: the classification of a strided sample of the programs, printed once at start-up
RECURSIVE SampleR(_, _, _)
SampleR(c, step, acc) ==
  IF c >= Total THEN acc
  ELSE LET o == Outcome(<<Dec(Depth, c)>>)
           key == IF o.cek = "oom" \/ o.mach = "oom" THEN "oom" ELSE o.cek IN
       SampleR(c + step, step, [acc EXCEPT ![key] = @ + 1, !.n = @ + 1])
SampleStep == IF Total <= 400 THEN 1 ELSE Total \div 400
SampleStats == SampleR(0, SampleStep, [done |-> 0, fail |-> 0, oom |-> 0, n |-> 0])
RECURSIVE FamR(_, _)
FamR(c, acc) ==
  IF c >= NFam THEN acc
  ELSE LET o == Outcome(Fam(c))
           key == IF o.cek = "oom" \/ o.mach = "oom" THEN "oom" ELSE o.cek IN
       FamR(c + 9, [acc EXCEPT ![key] = @ + 1, !.n = @ + 1])
FamStats == FamR(0, [done |-> 0, fail |-> 0, oom |-> 0, n |-> 0])

VARIABLES blk, pi, res
vars == <<blk, pi, res>>

Init == blk \in -1..(Blocks - 1) /\ pi = -1 /\ res = [cek |-> "", mach |-> "", agree |-> TRUE]
Sample == /\ pi = -1 /\ blk = -1
          /\ PrintT(<<"SAMPLE", ToJson([grammar |-> SampleStats, grammar_programs |-> Total, stride |-> Stride,
                                       families |-> FamStats, family_programs |-> NFam])>>)
          /\ pi' = -2 /\ UNCHANGED <<blk, res>>
Check == /\ pi = -1 /\ blk >= 0
        /\ \/ \E c \in {x \in 0..(Total - 1) : x % Stride = 0 /\ (x \div Stride) % Blocks = blk} :
                 /\ pi' = c
                 /\ res' = Outcome(<<Dec(Depth, c)>>)
           \/ \E c \in {x \in 0..(NFam - 1) : x % Blocks = blk} :       \* the skeleton families, always all of them
                 /\ pi' = Total + c
                 /\ res' = Outcome(Fam(c))
        /\ UNCHANGED blk
Next == Sample \/ Check
Spec == Init /\ [][Next]_vars

\* the two semantics agree on every program
Agree == res.agree
\* anti-vacuity, reported by the driver from the coverage of these state predicates
BothDone == res.cek = "done" /\ res.mach = "done"
BothFail == res.cek = "fail" /\ res.mach = "fail"
EitherOom == res.cek = "oom" \/ res.mach = "oom"
=============================================================================
