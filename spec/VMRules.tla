------------------------------ MODULE VMRules ------------------------------
(* The register arithmetic of the calling protocol, shared by the abstract machine MarwoodVM (model   *)
(* checked) and by Trace_VM (validation of instruction traces of the real VM).                        *)
EXTENDS Naturals, Integers
CallSp(sp) == sp + 2                                   \* CALL of a closure pushes ep and the return address
EnterSp(sp) == sp + 1                                  \* ENTER pushes the caller's bp ...
EnterBp(sp) == sp + 1 - 4                              \* ... and bp points at the last argument
RetSp(bp, n) == bp - n                                 \* RET drops the frame and its n arguments
TCallSp(bp, f, a) == (bp - f) + a + 3                  \* TCALL: new frame (a args, argc, ep, ip) on the old base
VarArgSp(sp, a, r) == IF a = r + 1 THEN sp ELSE (sp - 3 - a) + r + 4   \* extra arguments collapse into one list
BuiltinSp(sp, a) == sp - a - 1                         \* an ordinary builtin pops argc and its arguments
=============================================================================
