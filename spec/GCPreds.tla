------------------------------ MODULE GCPreds ------------------------------
(***************************************************************************)
(* The collector's correctness conditions as operators over explicit data, *)
(* shared by the abstract model (MarwoodGC, exhaustively checked for small *)
(* heaps) and by the validation of snapshots recorded from the real        *)
(* collector (Trace_GC).                                                   *)
(*   Out  : function cell -> set of cells it refers to                     *)
(*   roots: set of cells                                                   *)
(***************************************************************************)
EXTENDS Naturals, FiniteSets, Sequences

RECURSIVE ReachR(_, _, _)
ReachR(Out, frontier, seen) ==
  IF frontier = {} THEN seen
  ELSE LET next == (UNION {Out[c] : c \in frontier}) \ seen
       IN  ReachR(Out, next, seen \cup next)
\* cells reachable from roots following Out (cells outside DOMAIN Out have no out-edges)
Reach(Out, roots) ==
  LET O == [c \in DOMAIN Out \cup roots \cup UNION {Out[d] : d \in DOMAIN Out} |->
              IF c \in DOMAIN Out THEN Out[c] ELSE {}]
  IN  ReachR(O, roots, roots)

\* Safety + exactness of one collection: exactly the allocated cells reachable from the roots survive.
SurvivorsExact(allocPre, Out, roots, allocPost) == allocPost = allocPre \cap Reach(Out, roots)

\* no reachable cell refers to a cell that is not allocated (no dangling reference)
NoDangling(alloc, Out, roots) == Reach(Out, roots) \subseteq alloc

\* heap growth policy: new capacity after one growth step, in cells, for chunk size ch
Grown(cap, ch) == (((3 * (cap \div ch)) + 1) \div 2) * ch
RECURSIVE GrownTimes(_, _, _)
GrownTimes(cap, ch, k) == IF k = 0 THEN cap ELSE GrownTimes(Grown(cap, ch), ch, k - 1)
\* utilisation strictly above 3/4
Crowded(used, cap) == 4 * used > 3 * cap
=============================================================================
