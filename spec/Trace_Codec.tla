---------------------------- MODULE Trace_Codec ----------------------------
(* Validation of recorded write/read/eval steps against Codec.  The records *)
(* are sorted by written text, so the ghost map's injectivity condition is  *)
(* checked on neighbours: equal texts must carry the same datum.            *)
EXTENDS Codec, Json, IOUtils, TLC

Rec == ndJsonDeserialize(IOEnv.TRACE)
VARIABLES i, ph
vars == <<i, ph>>
Has(r, f) == f \in DOMAIN r
Report(what, got) ==
  PrintT(<<"MISMATCH", ToJson([id |-> Rec[i].id, what |-> what, text |-> IF Has(Rec[i], "text") THEN Rec[i].text ELSE "",
                               d |-> Rec[i].d, got |-> got])>>)
Check(c, what, got) == IF c THEN TRUE ELSE Report(what, got)

RecordOK(r) ==
  /\ Check(r.write = "ok", "write panicked", r.write)
  /\ IF r.write # "ok" THEN TRUE ELSE
     /\ Check(r.read = "ok", "the written text cannot be read back",
              IF Has(r, "readerr") THEN r.readerr ELSE r.read)
     /\ IF r.read # "ok" THEN TRUE ELSE
        /\ Check(r.rest = 0, "reading the written text leaves text over", r.rest)
        /\ Check(Same(r.d, r.d2), "read(write(d)) differs from d", r.d2)
        /\ Check(r.t2 = r.t, "write(read(t)) differs from t", r.t2)
     /\ Check(r.ev.r = "ok", "evaluating the quoted datum fails", r.ev)
     /\ IF r.ev.r # "ok" THEN TRUE ELSE Check(Same(r.d, r.ev.d), "evaluating (quote d) does not return d", r.ev.d)
     \* injectivity of write: the next record (sorted by text) with the same text has the same datum
     /\ IF i < Len(Rec) /\ Rec[i + 1].write = "ok" /\ Rec[i + 1].t = r.t
        THEN Check(WriteOK({<<r.t, r.d>>}, Rec[i + 1].t, Rec[i + 1].d), "two different data are written as the same text", Rec[i + 1].d)
        ELSE TRUE

Init == i \in 1..Len(Rec) /\ ph = "check"
Validate ==
  /\ ph = "check"
  /\ RecordOK(Rec[i])
  /\ PrintT(<<"END", ToJson([id |-> Rec[i].id, t |-> Rec[i].d.t])>>)
  /\ ph' = "done" /\ UNCHANGED i
Spec == Init /\ [][Validate]_vars
=============================================================================
