SPECIFICATION Spec
CONSTANTS
  N = 4
  Depth = 1
INVARIANTS Emit FrameOK TypeOK
CHECK_DEADLOCK FALSE
