SPECIFICATION Spec
CONSTANTS
  N = 4
  Depth = 1
  Sim = FALSE
INVARIANTS Emit FrameOK TypeOK
CHECK_DEADLOCK FALSE
