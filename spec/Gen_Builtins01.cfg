SPECIFICATION Spec
CONSTANTS
  MinArity = 0
  MaxArity = 1
  Stride = 1
  Offset = 0
INVARIANT SigOK
CHECK_DEADLOCK FALSE
