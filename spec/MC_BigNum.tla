------------------------------ MODULE MC_BigNum ------------------------------
(***************************************************************************)
(* Self-check of BigNum against TLC's native integers: on all pairs of     *)
(* small values (-R..R and values around the limb boundaries 10^4 and 10^8,*)
(* the SmallMax bound and sqrt(2^31)) every operation agrees with native   *)
(* arithmetic wherever the native result fits 32 bits; beyond 32 bits the  *)
(* operations are checked against each other by algebraic identities       *)
(* ((x*y + r) divmod y = (x, r), x*(y+z) = x*y + x*z, gcd(x*g, y*g)).      *)
(* This is the regression of the specification's own arithmetic.           *)
(***************************************************************************)
EXTENDS NumTower, TLC

CONSTANT R

Extra == {9999, 10000, 10001, 19999, 20000, 46340, 46341, 65535, 65536, 99999, 100000,
          199999, 200000, 200001, 99999999, 100000000, 100000001, 99990000, 100009999,
          123456789, 999999999, 1000000000}
V == (-R..R) \cup Extra \cup {-x : x \in Extra}

Abs(x) == IF x < 0 THEN -x ELSE x
Sgn(x) == IF x < 0 THEN -1 ELSE IF x > 0 THEN 1 ELSE 0
Min(x, y) == IF x < y THEN x ELSE y

VARIABLES a, b, ok
vars == <<a, b, ok>>

MulFits(x, y) == x = 0 \/ Abs(y) <= 2147483647 \div Abs(x)

Agree(x, y) ==
  LET X == SFromInt(x)
      Y == SFromInt(y)
      ax == Abs(x)
      ay == Abs(y)
  IN
  /\ IsNat(X.m) /\ FitsInt(X.m) /\ ToInt(X.m) = ax /\ X.s = Sgn(x)
  /\ SAdd(X, Y) = SFromInt(x + y)
  /\ SSub(X, Y) = SFromInt(x - y)
  /\ SCmp(X, Y) = Sgn(x - y)
  /\ Cmp(X.m, Y.m) = Sgn(ax - ay)
  /\ (MulFits(x, y) => SMul(X, Y) = SFromInt(x * y))
  /\ (ay <= SmallMax /\ MulFits(x, y) => MulSmall(X.m, ay) = FromInt(ax * ay))
  /\ (ay >= 1 /\ ay <= SmallMax => DivModSmall(X.m, ay) = [q |-> FromInt(ax \div ay), r |-> ax % ay])
  /\ (y # 0 => DivModN(X.m, Y.m) = [q |-> FromInt(ax \div ay), r |-> FromInt(ax % ay)])
  /\ (y # 0 => STruncDiv(X, Y) = [q |-> SFromInt(Sgn(x) * Sgn(y) * (ax \div ay)), r |-> SFromInt(Sgn(x) * (ax % ay))])
  /\ GcdN(X.m, Y.m) = FromInt(GcdInt(ax, ay))
  /\ GcdCapped(X.m, Y.m, 50) = GcdN(X.m, Y.m)
  /\ IsEven(X.m) = (ax % 2 = 0)
  \* beyond 32 bits: identities
  /\ LET P == MulN(X.m, Y.m)
         P3 == MulN(P, AddN(X.m, <<7, 3>>))
     IN /\ IsNat(P) /\ IsNat(P3)
        /\ MulN(Y.m, X.m) = P
        /\ (x # 0 /\ y # 0 => MulCols(X.m, Y.m) = P /\ MulRows(X.m, Y.m) = P /\ MulCols(P3, P) = MulRows(P3, P))
        /\ (y # 0 => LET rr == FromInt(ay - 1)
                         d == DivModN(AddN(P, rr), Y.m)
                     IN d.q = X.m /\ d.r = rr)
        /\ (Cmp(P, <<1>>) > 0 => LET d == DivModN(AddN(P3, <<1>>), P) IN d.q = AddN(X.m, <<7, 3>>) /\ d.r = <<1>>)
        /\ MulN(X.m, AddN(Y.m, P)) = AddN(P, MulN(X.m, P))
        /\ SubN(AddN(P3, P), P) = P3
        /\ (x # 0 /\ y # 0 => GcdN(MulN(P, <<1, 0, 1>>), MulN(P, <<2, 0, 1>>)) = P)
        /\ (x # 0 /\ y # 0 => GcdCapped(MulN(P3, <<1, 0, 1>>), MulN(P3, <<2, 0, 1>>), 50) = P3)
        /\ Cmp(P3, P) = IF Len(P) = 0 THEN 0 ELSE 1

RECURSIVE Fib(_, _, _)
Fib(n, u, v) == IF n = 0 THEN <<u, v>> ELSE Fib(n - 1, v, AddN(u, v))

Small ==
  \* consecutive Fibonacci numbers: the worst case of Euclid's algorithm, 300 steps
  /\ LET p == Fib(300, <<1>>, <<1>>) IN GcdCapped(p[2], p[1], 50) = <<>> /\ GcdCapped(p[2], p[1], 400) = <<1>> /\ GcdN(p[2], p[1]) = <<1>>
  /\ \A x \in 1..20 : \A k \in 0..7 : (x ^ k < 200000000 /\ k * x < 140) => PowN(FromInt(x), k) = FromInt(x ^ k)
  /\ \A k \in 0..30 : Pow2(k) = FromInt(2 ^ k)
  /\ \A k \in 0..9 : Pow10(k) = FromInt(10 ^ k)
  /\ Pow2(64) = <<1616, 955, 737, 6744, 1844>>
  /\ Pow2(100) = MulN(Pow2(50), Pow2(50))
  /\ MulCols(Pow2(1000), PowN(<<7>>, 300)) = MulRows(Pow2(1000), PowN(<<7>>, 300))
  /\ MulCols(PowN(<<9999>>, 40), PowN(<<9999>>, 41)) = MulRows(PowN(<<9999>>, 40), PowN(<<9999>>, 41))
  /\ PowN(<<3>>, 40) = MulN(PowN(<<3>>, 27), PowN(<<3>>, 13))
  /\ DivModN(Pow2(200), Pow2(77)) = [q |-> Pow2(123), r |-> <<>>]
  /\ Pow10(13) = MulN(Pow10(6), Pow10(7))
  /\ \A k \in {0, 1, 12, 13, 14, 52, 63, 64, 1074, 1075, 1182, 1183, 1200} :
        Pow2(k) = MulN(PowN(<<8192>>, k \div 13), FromInt(2 ^ (k % 13)))
  /\ P52 = Pow2(52) /\ I31p = Pow2(31) /\ I31 = SubN(Pow2(31), <<1>>)
  \* digit strings: "18446744073709551616", "ffff", "777", "101", and decimal limbs against Horner
  /\ LET s == <<49, 56, 52, 52, 54, 55, 52, 52, 48, 55, 51, 55, 48, 57, 53, 53, 49, 54, 49, 54>>
     IN /\ DecLimbs(s, 1, 20) = Pow2(64) /\ Horner(s, 1, 20, 10, <<>>) = Pow2(64)
        /\ \A i \in 1..20 : \A j \in i..20 : DecLimbs(s, i, j) = Horner(s, i, j, 10, <<>>)
  /\ Horner(<<102, 102, 70, 102>>, 1, 4, 16, <<>>) = FromInt(65535)
  /\ Horner(<<55, 55, 55>>, 1, 3, 8, <<>>) = FromInt(511)
  /\ Horner([i \in 1..40 |-> 49], 1, 40, 2, <<>>) = SubN(Pow2(40), <<1>>)
  /\ ParseExact(<<45, 49, 48, 47, 52>>, 10) = [ok |-> TRUE, q |-> [n |-> SFromInt(-10), d |-> <<4>>]]
  /\ ~ParseExact(<<49, 50>>, 2).ok /\ ~ParseExact(<<49, 47, 48>>, 10).ok /\ ~ParseExact(<<45>>, 10).ok
  \* doubles: 1.0 = 3ff0 0000 0000 0000, 0.1 = 3fb9 9999 9999 999a, least subnormal, -0.0
  /\ QEq(DQ(<<16368, 0, 0, 0>>), QOne)
  /\ DQ(<<16313, 39321, 39321, 39322>>) = [n |-> SInt(1, <<2794, 379, 7594, 7205>>), d |-> Pow2(56)]
  /\ DQ(<<0, 0, 0, 1>>) = [n |-> SOne, d |-> Pow2(1074)]
  /\ DQ(<<32768, 0, 0, 0>>).n.s = 0 /\ ~DIsFinite(<<32752, 0, 0, 0>>) /\ DIsNaN(<<32760, 0, 0, 0>>)
  \* "0.1" denotes the double 0.1 but "0.10000000000000002" (the next double) does not; "-0.0" denotes -0.0 only
  /\ LET p == ParseDecimal(<<48, 46, 49>>) IN p.ok /\ DenotesDouble(p.m, p.k, p.neg, <<16313, 39321, 39321, 39322>>)
                                                 /\ ~DenotesDouble(p.m, p.k, p.neg, <<16313, 39321, 39321, 39323>>)
  /\ LET p == ParseDecimal(<<49, 101, 50, 50>>) IN p.ok /\ p.k = 22 /\ DenotesDouble(p.m, p.k, p.neg, <<17536, 61647, 1613, 54674>>)
  /\ LET p == ParseDecimal(<<45, 48, 46, 48>>) IN p.ok /\ DenotesDouble(p.m, p.k, p.neg, <<32768, 0, 0, 0>>) /\ ~DenotesDouble(p.m, p.k, p.neg, <<0, 0, 0, 0>>)
  /\ ~ParseDecimal(<<105, 110, 102>>).ok /\ ~ParseDecimal(<<46>>).ok
  /\ Norm(<<1, 0, 0>>) = <<1>> /\ Norm(<<0, 0>>) = <<>>
  /\ ~IsNat(<<1, 0>>) /\ ~IsNat(<<10000>>) /\ IsNat(<<>>)
  /\ ~FitsInt(<<3648, 4748, 21>>) /\ FitsInt(<<3647, 4748, 21>>) /\ ToInt(<<3647, 4748, 21>>) = 2147483647

\* (evaluated in the Next step, on a worker thread with a large stack, for the pair (0, 0))

Init == a \in V /\ b \in V /\ ok = TRUE
Next == ok' = (Agree(a, b) /\ (a = 0 /\ b = 0 => Small)) /\ UNCHANGED <<a, b>>
Spec == Init /\ [][Next]_vars
Ok == ok
=============================================================================
