SPECIFICATION Spec
CONSTANT R = 300
INVARIANT Ok
CHECK_DEADLOCK FALSE
