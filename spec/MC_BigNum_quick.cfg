SPECIFICATION Spec
CONSTANT R = 60
INVARIANT Ok
CHECK_DEADLOCK FALSE
