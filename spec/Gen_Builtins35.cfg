SPECIFICATION Spec
CONSTANTS
  MinArity = 3
  MaxArity = 5
  Stride = 4
  Offset = 0
  Reduced = FALSE
INVARIANT SigOK
CHECK_DEADLOCK FALSE
