SPECIFICATION Spec
INVARIANT ExampleOK
CHECK_DEADLOCK FALSE
