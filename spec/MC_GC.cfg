SPECIFICATION Spec
CONSTANTS
  MaxCells = 4
  Cap0 = 2
  ChunkM = 2
  Names = {"n1", "n2"}
  RootSlots = {"r1", "r2"}
INVARIANTS TypeOK Safety Exactness FreeListOK MarksReset InternOK
PROPERTIES NoChange
CHECK_DEADLOCK FALSE
