------------------------------ MODULE NumTower ------------------------------
(***************************************************************************)
(* The numerical tower of R7RS as far as properties C08, C09 and C16 need  *)
(* it, over the arbitrary-precision integers of BigNum.                    *)
(*                                                                         *)
(*  - exact rationals Q = [n |-> signed integer, d |-> natural # 0]        *)
(*    (not necessarily reduced), compared by cross-multiplication;         *)
(*  - IEEE-754 binary64 values given by their bit pattern as four 16-bit   *)
(*    words (most significant first), decoded to sign * m * 2^e exactly,   *)
(*    so every finite double is an exact rational;                         *)
(*  - extended values X = [t |-> "fin", q |-> Q] | [t |-> "inf", s |-> +-1]*)
(*    | [t |-> "nan"] and their order;                                     *)
(*  - the REQUIRED result of the arithmetic procedures (C08), of the       *)
(*    comparison procedures (C09), and what a digit string denotes (C16).  *)
(*                                                                         *)
(* Written from R7RS section 6.2 and the property statements; marwood's    *)
(* only contribution is the description of what it can represent exactly:  *)
(* unbounded integers, and rationals whose reduced numerator and           *)
(* denominator fit 32-bit signed integers.                                 *)
(***************************************************************************)
EXTENDS BigNum

Has(r, f) == f \in DOMAIN r

-----------------------------------------------------------------------------
(* exact rationals *)
One == <<1>>
QInt(n) == [n |-> n, d |-> One]
QZero == QInt(SZero)
QOne == QInt(SOne)
SScale(a, m) == IF m = One THEN a ELSE SInt(a.s, MulN(a.m, m))
QNeg(a) == [n |-> SNeg(a.n), d |-> a.d]
QAbs(a) == [n |-> SAbs(a.n), d |-> a.d]
QAdd(a, b) == IF a.d = b.d THEN [n |-> SAdd(a.n, b.n), d |-> a.d]
              ELSE [n |-> SAdd(SScale(a.n, b.d), SScale(b.n, a.d)), d |-> MulN(a.d, b.d)]
QSub(a, b) == QAdd(a, QNeg(b))
QMul(a, b) == [n |-> SMul(a.n, b.n), d |-> MulN(a.d, b.d)]
\* b # 0
QDiv(a, b) == [n |-> SInt(a.n.s * b.n.s, MulN(a.n.m, b.d)), d |-> MulN(a.d, b.n.m)]
QCmp(a, b) == IF a.n.s # b.n.s THEN (IF a.n.s < b.n.s THEN -1 ELSE 1)
              ELSE IF a.n.s = 0 THEN 0
              ELSE IF a.d = b.d THEN SCmp(a.n, b.n)
              ELSE SCmp(SScale(a.n, b.d), SScale(b.n, a.d))
QEq(a, b) == QCmp(a, b) = 0
QIsInt(a) == a.d = One \/ DivModN(a.n.m, a.d).r = <<>>
QReduce(a) == IF a.d = One THEN a
              ELSE IF a.n.s = 0 THEN QZero
              ELSE LET g == GcdN(a.n.m, a.d)
                   IN IF g = One THEN a
                      ELSE [n |-> SInt(a.n.s, DivModN(a.n.m, g).q), d |-> DivModN(a.d, g).q]
QPow(a, k) == [n |-> SInt(IF k % 2 = 0 THEN 1 ELSE a.n.s, PowN(a.n.m, k)), d |-> PowN(a.d, k)]
QMax(a, b) == IF QCmp(a, b) >= 0 THEN a ELSE b

\* integer parts of a rational (d > 0): truncate, floor, ceiling as signed integers
QTrunc(a) == IF a.d = One THEN a.n ELSE SInt(a.n.s, DivModN(a.n.m, a.d).q)
QFrac0(a) == a.d = One \/ DivModN(a.n.m, a.d).r = <<>>      \* is the value an integer
QFloor(a) == IF QFrac0(a) \/ a.n.s >= 0 THEN QTrunc(a) ELSE SSub(QTrunc(a), SOne)
QCeil(a) == IF QFrac0(a) \/ a.n.s <= 0 THEN QTrunc(a) ELSE SAdd(QTrunc(a), SOne)

-----------------------------------------------------------------------------
(* recorded numbers:                                                       *)
(*   exact   [k |-> "x", s |-> sign, n |-> limbs of |numerator|, d |-> limbs of denominator] *)
(*   double  [k |-> "f", w |-> <<w3, w2, w1, w0>>]                         *)
WfExact(v) == /\ v.s \in {-1, 0, 1} /\ IsNat(v.n) /\ IsNat(v.d) /\ Len(v.d) > 0
              /\ (v.s = 0) = (Len(v.n) = 0)
WfDouble(v) == Len(v.w) = 4 /\ \A i \in 1..4 : v.w[i] >= 0 /\ v.w[i] < 65536
WfNum(v) == IF v.k = "x" THEN WfExact(v) ELSE IF v.k = "f" THEN WfDouble(v) ELSE FALSE
QOf(v) == [n |-> SInt(v.s, v.n), d |-> v.d]

DSignBit(w) == w[1] \div 32768
DExp(w) == (w[1] % 32768) \div 16
DFrac(w) == AddN(MulSmall(AddN(MulSmall(AddN(MulSmall(FromInt(w[1] % 16), 65536), FromInt(w[2])), 65536),
                               FromInt(w[3])), 65536), FromInt(w[4]))
P52 == <<496, 2737, 5996, 4503>>     \* 2^52 (MC_BigNum checks it against Pow2)
DMant(w) == IF DExp(w) = 0 THEN DFrac(w) ELSE AddN(DFrac(w), P52)
DE(w) == IF DExp(w) = 0 THEN -1074 ELSE DExp(w) - 1075
DIsFinite(w) == DExp(w) # 2047
DIsNaN(w) == DExp(w) = 2047 /\ DFrac(w) # <<>>
\* 2^e as a rational
QPow2(e) == IF e >= 0 THEN [n |-> SInt(1, Pow2(e)), d |-> One] ELSE [n |-> SOne, d |-> Pow2(-e)]
DQ(w) == LET m == DMant(w)
             e == DE(w)
             sg == IF DSignBit(w) = 1 THEN -1 ELSE 1
         IN IF e >= 0 THEN [n |-> SInt(sg, MulN(m, Pow2(e))), d |-> One]
            ELSE [n |-> SInt(sg, m), d |-> Pow2(-e)]

\* extended value of a recorded number
XOf(v) == IF v.k = "x" THEN [t |-> "fin", q |-> QOf(v)]
          ELSE IF DIsFinite(v.w) THEN [t |-> "fin", q |-> DQ(v.w)]
          ELSE IF DIsNaN(v.w) THEN [t |-> "nan"]
          ELSE [t |-> "inf", s |-> IF DSignBit(v.w) = 1 THEN -1 ELSE 1]

\* order of extended values other than NaN: -1, 0, 1
XCmp(x, y) == IF x.t = "inf" THEN (IF y.t = "inf" THEN (IF x.s = y.s THEN 0 ELSE x.s) ELSE x.s)
              ELSE IF y.t = "inf" THEN -y.s
              ELSE QCmp(x.q, y.q)

-----------------------------------------------------------------------------
(* C08: required results of exact arithmetic *)
RECURSIVE QSumAcc(_, _, _), QProdAcc(_, _, _)
QSumAcc(A, i, acc) == IF i > Len(A) THEN acc ELSE QSumAcc(A, i + 1, QAdd(acc, A[i]))
QProdAcc(A, i, acc) == IF i > Len(A) THEN acc ELSE QProdAcc(A, i + 1, QMul(acc, A[i]))
QSum(A, i) == QSumAcc(A, i, QZero)
QProd(A, i) == QProdAcc(A, i, QOne)

IntOps == {"floor", "ceiling", "truncate", "numerator", "denominator", "quotient", "remainder", "modulo"}
DivOps == {"quotient", "remainder", "modulo"}

\* the operation is undefined (R7RS: "it is an error") for these arguments: any outcome but a crash is accepted
Undefined(op, A) ==
  \/ op = "/" /\ A[Len(A)].n.s = 0
  \/ op \in DivOps /\ A[2].n.s = 0

\* mathematically exact value of (op . A) as a rational; arguments are in the domain of op
TrueQ(op, A) ==
  IF op = "+" THEN QSum(A, 1)
  ELSE IF op = "*" THEN QProd(A, 1)
  ELSE IF op = "-" THEN (IF Len(A) = 1 THEN QNeg(A[1]) ELSE QSub(A[1], QSum(A, 2)))
  ELSE IF op = "/" THEN (IF Len(A) = 1 THEN QDiv(QOne, A[1]) ELSE QDiv(A[1], A[2]))
  ELSE IF op = "abs" THEN QAbs(A[1])
  ELSE IF op = "expt" THEN QPow(QReduce(A[1]), ToInt(QTrunc(A[2]).m))
  ELSE IF op = "truncate" THEN QInt(QTrunc(A[1]))
  ELSE IF op = "floor" THEN QInt(QFloor(A[1]))
  ELSE IF op = "ceiling" THEN QInt(QCeil(A[1]))
  ELSE IF op = "numerator" THEN QInt(QReduce(A[1]).n)
  ELSE IF op = "denominator" THEN QInt(SInt(1, QReduce(A[1]).d))
  ELSE \* quotient remainder modulo on integers
       LET a == QTrunc(A[1])
           b == QTrunc(A[2])
           x == STruncDiv(a, b)
       IN IF op = "quotient" THEN QInt(x.q)
          ELSE IF op = "remainder" THEN QInt(x.r)
          ELSE QInt(IF x.r.s = 0 \/ x.r.s = b.s THEN x.r ELSE SAdd(x.r, b))

\* the specification's own divisions are verified by multiplication where they are used
DivSelfCheck(op, A) ==
  IF op \in DivOps THEN
     LET a == QTrunc(A[1])
         b == QTrunc(A[2])
         x == STruncDiv(a, b)
     IN /\ SAdd(SMul(x.q, b), x.r) = a
        /\ Cmp(x.r.m, b.m) < 0
        /\ x.r.s \in {0, a.s}
  ELSE IF op \in {"floor", "ceiling", "truncate"} THEN
     LET r == TrueQ(op, A).n
         lo == SScale(r, A[1].d)
         hi == SScale(SAdd(r, SOne), A[1].d)
         lo1 == SScale(SSub(r, SOne), A[1].d)
     IN IF op = "floor" THEN SCmp(lo, A[1].n) <= 0 /\ SCmp(A[1].n, hi) < 0
        ELSE IF op = "ceiling" THEN SCmp(lo1, A[1].n) < 0 /\ SCmp(A[1].n, lo) <= 0
        ELSE IF A[1].n.s >= 0 THEN SCmp(lo, A[1].n) <= 0 /\ SCmp(A[1].n, hi) < 0
        ELSE SCmp(lo1, A[1].n) < 0 /\ SCmp(A[1].n, lo) <= 0
  ELSE TRUE

\* what marwood can hold exactly: any integer; a ratio whose reduced components fit i32.
I31 == <<3647, 4748, 21>>      \* 2^31 - 1
I31p == <<3648, 4748, 21>>     \* 2^31
\* rd is reduced.  "must": an exact answer is required.  "may": an inexact one is acceptable.
MustBeExact(rd) == rd.d = One \/ (Cmp(rd.n.m, I31) <= 0 /\ Cmp(rd.d, I31) <= 0)
MayBeInexact(rd) == rd.d # One /\ (Cmp(rd.n.m, I31) > 0 \/ Cmp(rd.d, I31) > 0)
\* (a reduced numerator of exactly -2^31 with a small denominator satisfies neither "must" nor is it
\*  rejected when exact: both answers are accepted there)

\* Is the reduced form of t (t.d # 1, t # 0 handled by the caller) within marwood's exact representations?
\* "exact": an exact answer is required; "inexact": an inexact one is acceptable; "either": the reduced
\* numerator is exactly -2^31 with a denominator that fits (accepted both ways).
ReprClass(t) ==
  IF t.d = One \/ t.n.s = 0 THEN "exact"
  ELSE LET g == GcdCapped(t.n.m, t.d, 50)
       IN IF g = <<>> THEN "inexact"
          ELSE LET rd == IF g = One THEN t ELSE [n |-> SInt(t.n.s, DivModN(t.n.m, g).q), d |-> DivModN(t.d, g).q]
               IN IF MustBeExact(rd) THEN "exact" ELSE IF MayBeInexact(rd) THEN "inexact" ELSE "either"

\* |f - t| <= 2^-50 * max(|a_1|, ..., |a_n|, |t|), cleared of denominators: with E = |f.n t.d - t.n f.d|
\*   against |t|:    E 2^50 <= |t.n| f.d                 (the common factor 1/t.d cancels)
\*   against |a_i|:  E 2^50 a_i.d <= |a_i.n| f.d t.d
\* so that only products of a long and a short number occur (f has at most 5 limbs over a power of two).
WithinBound(f, t, A) ==
  LET E == SAdd(SScale(f.n, t.d), SNeg(SScale(t.n, f.d))).m
      E50 == MulN(E, Pow2(50))
  IN \/ Cmp(E50, MulN(t.n.m, f.d)) <= 0
     \/ \E i \in 1..Len(A) : Cmp(MulN(E50, A[i].d), MulN(MulN(A[i].n.m, f.d), t.d)) <= 0

\* the greatest finite double, (2^53 - 1) * 2^971
MaxDouble == QInt(SInt(1, MulN(SubN(Pow2(53), <<1>>), Pow2(971))))

\* Judge one recorded result of (op . args): "" or the kind of failure.
\* A: argument values (rationals), t: TrueQ(op, A), rc: ReprClass(t) (both only evaluated when needed)
JudgeArith(op, A, t, rc, res) ==
  IF res.k \in {"panic", "timeout"} THEN "panic"
  ELSE IF Undefined(op, A) THEN ""
  ELSE IF res.k = "err" THEN "error"
  ELSE IF res.k \notin {"x", "f"} THEN "non-number"
  ELSE IF ~WfNum(res) THEN "malformed-record"
  ELSE IF res.k = "x" THEN (IF QEq(QOf(res), t) THEN "" ELSE "wrong-exact")
  ELSE IF op \in IntOps THEN "inexact-where-exact-representable"
  ELSE IF rc = "exact" THEN "inexact-where-exact-representable"
  ELSE IF ~DIsFinite(res.w) THEN
         \* beyond the range of doubles no representation is left: the infinity of the right sign is accepted
         (IF ~DIsNaN(res.w) /\ QCmp(QAbs(t), MaxDouble) > 0 /\ (DSignBit(res.w) = 1) = (t.n.s < 0) THEN ""
          ELSE "inexact-out-of-bound")
  ELSE IF WithinBound(DQ(res.w), t, A) THEN "" ELSE "inexact-out-of-bound"

\* results of two runs on the same mathematical arguments must be the same number
SameNumber(r1, r2) ==
  IF r1.k # r2.k THEN FALSE
  ELSE IF r1.k = "x" THEN (WfNum(r1) /\ WfNum(r2) /\ QEq(QOf(r1), QOf(r2)))
  ELSE IF r1.k = "f" THEN r1.w = r2.w
  ELSE TRUE

-----------------------------------------------------------------------------
(* C09: comparison procedures over extended values (no NaN) *)
Rel(op, c) == IF op = "<" THEN c < 0
              ELSE IF op = "=" THEN c = 0
              ELSE IF op = ">" THEN c > 0
              ELSE IF op = "<=" THEN c <= 0
              ELSE c >= 0
CmpOps == {"<", "=", ">", "<=", ">="}
Chain(op, X) == \A i \in 1..(Len(X) - 1) : Rel(op, XCmp(X[i], X[i + 1]))
RECURSIVE XBest(_, _, _, _)
XBest(X, i, acc, dir) == IF i > Len(X) THEN acc
                         ELSE XBest(X, i + 1, IF XCmp(X[i], acc) * dir > 0 THEN X[i] ELSE acc, dir)
XZero == [t |-> "fin", q |-> QZero]

JudgeOrder(op, X, res) ==
  IF res.k \in {"panic", "timeout"} THEN "panic"
  ELSE IF res.k = "err" THEN "error"
  ELSE IF op \in CmpOps THEN
         (IF res.k # "b" THEN "non-boolean" ELSE IF res.v = Chain(op, X) THEN "" ELSE "wrong-truth-value")
  ELSE IF op \in {"zero?", "positive?", "negative?"} THEN
         (IF res.k # "b" THEN "non-boolean"
          ELSE LET c == XCmp(X[1], XZero)
                   e == IF op = "zero?" THEN c = 0 ELSE IF op = "positive?" THEN c > 0 ELSE c < 0
               IN IF res.v = e THEN "" ELSE "wrong-truth-value")
  ELSE \* min max
       IF res.k \notin {"x", "f"} THEN "non-number"
       ELSE IF ~WfNum(res) THEN "malformed-record"
       ELSE LET b == XBest(X, 2, X[1], IF op = "max" THEN 1 ELSE -1)
                r == XOf(res)
            IN IF r.t = "nan" THEN "wrong-value"
               ELSE IF XCmp(r, b) = 0 THEN "" ELSE "wrong-value"

-----------------------------------------------------------------------------
(* C16: what a spelling denotes.  Text is a sequence of code points. *)
DigitVal(c) == IF c >= 48 /\ c <= 57 THEN c - 48
               ELSE IF c >= 97 /\ c <= 102 THEN c - 87
               ELSE IF c >= 65 /\ c <= 70 THEN c - 55
               ELSE 99
AllDigits(s, i, j, r) == i <= j /\ \A p \in i..j : DigitVal(s[p]) < r
\* digits per native chunk: r^ChunkLen(r) <= SmallMax
ChunkLen(r) == IF r = 2 THEN 17 ELSE IF r = 8 THEN 5 ELSE IF r = 10 THEN 5 ELSE 4
RECURSIVE NatChunk(_, _, _, _, _)
NatChunk(s, i, j, r, acc) == IF i > j THEN acc ELSE NatChunk(s, i + 1, j, r, acc * r + DigitVal(s[i]))
RECURSIVE Horner(_, _, _, _, _)
\* value of the digits s[i..j] in radix r
Horner(s, i, j, r, acc) ==
  IF i > j THEN acc
  ELSE LET c == IF j - i + 1 < ChunkLen(r) THEN j - i + 1 ELSE ChunkLen(r)
       IN Horner(s, i + c, j, r, AddN(MulSmall(acc, r ^ c), FromInt(NatChunk(s, i, i + c - 1, r, 0))))
\* value of the decimal digits s[i..j] (i <= j): in base 10^4 the limbs are the groups of four digits from the right
DecLimbs(s, i, j) ==
  Norm([t \in 1..((j - i + 4) \div 4) |->
          NatChunk(s, IF j - 4 * t + 1 < i THEN i ELSE j - 4 * t + 1, j - 4 * (t - 1), 10, 0)])
NatOf(s, i, j, r) == IF r = 10 THEN DecLimbs(s, i, j) ELSE Horner(s, i, j, r, <<>>)
First(s, c, i, j) == LET I == {p \in i..j : s[p] = c}
                     IN IF I = {} THEN 0 ELSE CHOOSE p \in I : \A q \in I : p <= q
SignOf(s) == IF Len(s) > 0 /\ s[1] = 45 THEN -1 ELSE 1
StartOf(s) == IF Len(s) > 0 /\ s[1] \in {43, 45} THEN 2 ELSE 1

\* <exact> ::= [+|-] digits [/ digits]      result [ok, q]
ParseExact(s, r) ==
  LET st == StartOf(s)
      sl == First(s, 47, st, Len(s))
  IN IF sl = 0 THEN
        (IF AllDigits(s, st, Len(s), r)
         THEN [ok |-> TRUE, q |-> QInt(SInt(SignOf(s), NatOf(s, st, Len(s), r)))]
         ELSE [ok |-> FALSE])
     ELSE IF AllDigits(s, st, sl - 1, r) /\ AllDigits(s, sl + 1, Len(s), r)
        THEN LET dn == NatOf(s, sl + 1, Len(s), r)
             IN IF dn = <<>> THEN [ok |-> FALSE]
                ELSE [ok |-> TRUE, q |-> [n |-> SInt(SignOf(s), NatOf(s, st, sl - 1, r)), d |-> dn]]
        ELSE [ok |-> FALSE]

\* <decimal> ::= [+|-] digits* [. digits*] [e [+|-] digits]   (at least one mantissa digit)
\* result [ok, neg, m, k]: the magnitude denoted is m * 10^k  (m a natural, k a native integer)
ParseDecimal(s) ==
  LET st == StartOf(s)
      e1 == First(s, 101, st, Len(s))
      e2 == First(s, 69, st, Len(s))
      ep == IF e1 # 0 THEN e1 ELSE e2
      mend == IF ep = 0 THEN Len(s) ELSE ep - 1
      dot == First(s, 46, st, mend)
      iend == IF dot = 0 THEN mend ELSE dot - 1
      nint == iend - st + 1
      nfrac == IF dot = 0 THEN 0 ELSE mend - dot
      okm == /\ nint + nfrac >= 1
             /\ (nint = 0 \/ AllDigits(s, st, iend, 10))
             /\ (nfrac = 0 \/ AllDigits(s, dot + 1, mend, 10))
      es == IF ep # 0 /\ ep < Len(s) /\ s[ep + 1] \in {43, 45} THEN ep + 2 ELSE ep + 1
      oke == ep = 0 \/ (AllDigits(s, es, Len(s), 10) /\ Len(s) - es + 1 <= 4)
  IN IF ~(okm /\ oke) THEN [ok |-> FALSE]
     ELSE LET digs == (IF nint = 0 THEN <<>> ELSE SubSeq(s, st, iend)) \o (IF nfrac = 0 THEN <<>> ELSE SubSeq(s, dot + 1, mend))
              m == DecLimbs(digs, 1, Len(digs))
              ex0 == IF ep = 0 THEN 0 ELSE NatChunk(s, es, Len(s), 10, 0)
              ex == IF ep # 0 /\ s[ep + 1] = 45 THEN -ex0 ELSE ex0
          IN [ok |-> TRUE, neg |-> SignOf(s) = -1, m |-> m, k |-> ex - nfrac]

\* a * 10^k  (k >= 0)
Mul10(a, k) == IF Len(a) = 0 THEN <<>> ELSE Zeros(k \div 4) \o MulSmall(a, 10 ^ (k % 4))

(* The decimal magnitude D = dm * 10^dk denotes the finite double w when D lies in the closed     *)
(* interval of reals that round to |w| under round-to-nearest: with |w| = m * 2^e and the unit    *)
(* u = 2^(e-2), |w| = 4m u, the next double above is 4 u away, the next below 4 u -- or 2 u when  *)
(* m = 2^52 and w is not in the lowest binade -- so the interval is                               *)
(*        (4m - lowgap) u <= D <= (4m + 2) u,   lowgap = 1 or 2.                                  *)
(* Both sides are cleared of denominators (powers of 10 and 2), so the test is three integer      *)
(* comparisons X vs lo*Y, hi*Y.  The signs must agree as well (-0.0 is spelled with a minus).     *)
DenotesDouble(dm, dk, neg, w) ==
  LET m == DMant(w)
      e2 == DE(w) - 2
      lowgap == IF m = P52 /\ DExp(w) > 1 THEN 1 ELSE 2
      m4 == MulSmall(m, 4)
      lo == IF Len(m4) = 0 THEN <<>> ELSE SubN(m4, FromInt(lowgap))
      hi == AddN(m4, <<2>>)
      T == Pow2(IF e2 < 0 THEN -e2 ELSE e2)
      X0 == IF dk >= 0 THEN Mul10(dm, dk) ELSE dm
      X == IF e2 < 0 THEN MulN(T, X0) ELSE X0
      \* b * Y for the denominator Y = (2^e2 if e2 >= 0) * (10^-dk if dk < 0), the power of ten applied last (a shift)
      TimesY(b) == LET b1 == IF e2 >= 0 THEN MulN(T, b) ELSE b
                   IN IF dk < 0 THEN Mul10(b1, -dk) ELSE b1
  IN /\ neg = (DSignBit(w) = 1)
     /\ Cmp(TimesY(lo), X) <= 0
     /\ Cmp(X, TimesY(hi)) <= 0
=============================================================================
