SPECIFICATION Spec
CONSTANTS
  Depth = 2
  Stride = 1
  Blocks = 256
INVARIANT Agree
CHECK_DEADLOCK FALSE
