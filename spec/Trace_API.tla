------------------------------ MODULE Trace_API ------------------------------
(* C06, text entry points: every recorded call of the scanner, the parser, eval_text, the sliced       *)
(* evaluator and the highlighter (both methods, every byte position of the text and two beyond it)    *)
(* on a generated text ended with a value or an error; a panic, an error that cannot be     *)
(* rendered, or a missing outcome is rejected.                                                        *)
EXTENDS Naturals, Sequences, Json, IOUtils, TLC
Rec == ndJsonDeserialize(IOEnv.TRACE)
VARIABLES i, ph
vars == <<i, ph>>
AllowedOutcome == {"ok", "err"}
Points == <<"scan", "parse", "eval", "sliced", "highlight">>
Report(p, got) == PrintT(<<"MISMATCH", ToJson([id |-> Rec[i].id, point |-> p, shown |-> Rec[i].shown, text |-> Rec[i].text, got |-> got])>>)
Init == i \in 1..Len(Rec) /\ ph = "check"
Validate ==
  /\ ph = "check"
  /\ \A j \in 1..Len(Points) :
        IF Points[j] \in DOMAIN Rec[i] /\ Rec[i][Points[j]] \in AllowedOutcome THEN TRUE
        ELSE Report(Points[j], IF Points[j] \in DOMAIN Rec[i] THEN Rec[i][Points[j]] ELSE "missing")
  /\ PrintT(<<"END", ToJson([id |-> Rec[i].id])>>)
  /\ ph' = "done" /\ UNCHANGED i
Spec == Init /\ [][Validate]_vars
=============================================================================
