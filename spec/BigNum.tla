------------------------------- MODULE BigNum -------------------------------
(***************************************************************************)
(* Arbitrary-precision integers for TLC (whose native integers are signed  *)
(* 32-bit and raise an error on overflow).                                 *)
(*                                                                         *)
(* A natural number is a sequence of limbs in base 10^4, least significant *)
(* limb first, without a most significant zero limb; zero is <<>>.         *)
(* A signed integer is a record [s |-> -1|0|1, m |-> natural], s = 0 iff   *)
(* m = <<>>.                                                               *)
(*                                                                         *)
(* Every intermediate native value stays below 2^31: limb products are     *)
(* < 10^8; "small" factors and divisors are at most SmallMax = 200000      *)
(* (9999 * 200000 + 200000 < 2^31 and 199999 * 10^4 + 9999 < 2^31).        *)
(* The module is self-checked against native arithmetic by MC_BigNum.      *)
(***************************************************************************)
EXTENDS Integers, Sequences

Base == 10000
SmallMax == 200000

Limb(a, i) == IF i <= Len(a) THEN a[i] ELSE 0
Zeros(k) == [i \in 1..k |-> 0]

RECURSIVE Norm(_)
Norm(a) == IF Len(a) = 0 THEN <<>>
           ELSE IF a[Len(a)] = 0 THEN Norm(SubSeq(a, 1, Len(a) - 1)) ELSE a

\* well-formedness of a recorded natural
IsNat(a) == /\ \A i \in 1..Len(a) : a[i] >= 0 /\ a[i] < Base
            /\ (Len(a) > 0 => a[Len(a)] # 0)

RECURSIVE FromInt(_)
FromInt(n) == IF n = 0 THEN <<>> ELSE <<n % Base>> \o FromInt(n \div Base)

\* does the natural fit a native non-negative integer (<= 2^31 - 1)?
FitsInt(a) == \/ Len(a) <= 2
              \/ /\ Len(a) = 3
                 /\ \/ a[3] < 21
                    \/ a[3] = 21 /\ a[2] * Base + a[1] <= 47483647
ToInt(a) == Limb(a, 1) + Limb(a, 2) * Base + Limb(a, 3) * Base * Base

-----------------------------------------------------------------------------
RECURSIVE CmpFrom(_, _, _)
CmpFrom(a, b, i) == IF i = 0 THEN 0
                    ELSE IF a[i] < b[i] THEN -1
                    ELSE IF a[i] > b[i] THEN 1
                    ELSE CmpFrom(a, b, i - 1)
\* -1, 0, 1
Cmp(a, b) == IF Len(a) < Len(b) THEN -1
             ELSE IF Len(a) > Len(b) THEN 1
             ELSE CmpFrom(a, b, Len(a))

RECURSIVE AddC(_, _, _, _, _)
AddC(a, b, i, c, acc) ==
  IF i > Len(a) /\ i > Len(b) THEN (IF c = 0 THEN acc ELSE Append(acc, c))
  ELSE LET s == Limb(a, i) + Limb(b, i) + c
       IN AddC(a, b, i + 1, s \div Base, Append(acc, s % Base))
AddN(a, b) == IF Len(a) = 0 THEN b ELSE IF Len(b) = 0 THEN a ELSE AddC(a, b, 1, 0, <<>>)

RECURSIVE SubC(_, _, _, _, _)
SubC(a, b, i, br, acc) ==
  IF i > Len(a) THEN acc
  ELSE LET t == a[i] - Limb(b, i) - br
       IN IF t < 0 THEN SubC(a, b, i + 1, 1, Append(acc, t + Base))
                   ELSE SubC(a, b, i + 1, 0, Append(acc, t))
\* requires a >= b
SubN(a, b) == IF Len(b) = 0 THEN a ELSE Norm(SubC(a, b, 1, 0, <<>>))

RECURSIVE MulSC(_, _, _, _, _)
MulSC(a, d, i, c, acc) ==
  IF i > Len(a) THEN acc \o FromInt(c)
  ELSE LET t == a[i] * d + c
       IN MulSC(a, d, i + 1, t \div Base, Append(acc, t % Base))
\* 0 <= d <= SmallMax
MulSmall(a, d) == IF d = 0 \/ Len(a) = 0 THEN <<>> ELSE IF d = 1 THEN a ELSE MulSC(a, d, 1, 0, <<>>)

AddSmall(a, d) == AddN(a, FromInt(d))

RECURSIVE MulAcc(_, _, _, _)
MulAcc(a, b, j, acc) ==
  IF j > Len(b) THEN acc
  ELSE MulAcc(a, b, j + 1,
              IF b[j] = 0 THEN acc ELSE AddN(acc, Zeros(j - 1) \o MulSmall(a, b[j])))
\* row by row: one MulSmall and one AddN per limb of the shorter factor b
MulRows(a, b) == MulAcc(a, b, 1, <<>>)

(* Column by column, for two long factors.  Column k collects the products a[i] * b[k+1-i]; their low  *)
(* and high halves (mod / div Base) are summed separately -- each sum is below Base * min(Len) -- so   *)
(* nothing exceeds 32 bits, and one carry pass turns the column values into limbs.  The sums are       *)
(* FoldLeft of SequencesExt (evaluated by TLC's Java implementation, several times faster than a       *)
(* recursive operator); MC_BigNum checks that both methods agree.                                       *)
LOCAL INSTANCE SequencesExt
LOCAL Max2(x, y) == IF x > y THEN x ELSE y
LOCAL Min2(x, y) == IF x < y THEN x ELSE y
LOCAL ColIdx(a, b, k) == [t \in 1..(Min2(Len(a), k) - Max2(1, k + 1 - Len(b)) + 1) |-> t + Max2(1, k + 1 - Len(b)) - 1]
LOCAL ColLo(a, b, k) == FoldLeft(LAMBDA acc, i : acc + ((a[i] * b[k + 1 - i]) % Base), 0, ColIdx(a, b, k))
LOCAL ColHi(a, b, k) == FoldLeft(LAMBDA acc, i : acc + ((a[i] * b[k + 1 - i]) \div Base), 0, ColIdx(a, b, k))
LOCAL Cols(a, b) == [k \in 1..(Len(a) + Len(b)) |->
                       (IF k <= Len(a) + Len(b) - 1 THEN ColLo(a, b, k) ELSE 0) + (IF k >= 2 THEN ColHi(a, b, k - 1) ELSE 0)]
RECURSIVE CarryPass(_, _, _, _)
CarryPass(c, i, cy, acc) == IF i > Len(c) THEN Norm(acc \o FromInt(cy))
                            ELSE LET t == c[i] + cy IN CarryPass(c, i + 1, t \div Base, Append(acc, t % Base))
MulCols(a, b) == CarryPass(Cols(a, b), 1, 0, <<>>)

MulN(a, b) == IF Len(a) = 0 \/ Len(b) = 0 THEN <<>>
              ELSE IF Len(b) <= 6 THEN MulRows(a, b)
              ELSE IF Len(a) <= 6 THEN MulRows(b, a)
              ELSE MulCols(a, b)

RECURSIVE DMS(_, _, _, _, _)
DMS(a, d, i, r, acc) ==
  IF i = 0 THEN [q |-> Norm(acc), r |-> r]
  ELSE LET t == r * Base + a[i]
       IN DMS(a, d, i - 1, t % d, <<t \div d>> \o acc)
\* 1 <= d <= SmallMax; result [q |-> natural, r |-> native]
DivModSmall(a, d) == DMS(a, d, Len(a), 0, <<>>)

-----------------------------------------------------------------------------
(* General division: schoolbook, one quotient limb per dividend limb.  The  *)
(* quotient limb k = max {k : k*b <= rem} lies between rt \div (bt+1) and   *)
(* rt \div bt for the leading limbs rt, bt of rem and b; it is located by   *)
(* bisection with MulSmall and Cmp, so no estimate has to be trusted.       *)
RECURSIVE Bisect(_, _, _, _)
Bisect(b, rem, lo, hi) ==
  IF lo >= hi THEN lo
  ELSE LET mid == (lo + hi + 1) \div 2
       IN IF Cmp(MulSmall(b, mid), rem) <= 0 THEN Bisect(b, rem, mid, hi)
          ELSE Bisect(b, rem, lo, mid - 1)

QLimb(b, rem) ==
  IF Cmp(rem, b) < 0 THEN 0
  ELSE LET L == Len(b)
           rt == IF Len(rem) = L THEN rem[L] ELSE rem[L + 1] * Base + rem[L]
           bt == b[L]
           hi0 == rt \div bt
           hi == IF hi0 > Base - 1 THEN Base - 1 ELSE hi0
           lo == rt \div (bt + 1)
       IN Bisect(b, rem, lo, hi)

RECURSIVE DMG(_, _, _, _, _)
DMG(a, b, i, rem, acc) ==
  IF i = 0 THEN [q |-> Norm(acc), r |-> rem]
  ELSE LET r1 == Norm(<<a[i]>> \o rem)
           k == QLimb(b, r1)
       IN DMG(a, b, i - 1, IF k = 0 THEN r1 ELSE SubN(r1, MulSmall(b, k)), <<k>> \o acc)

\* b # <<>>; result [q |-> natural, r |-> natural].
\* Dividend and divisor are first scaled by f = Base \div (leading limb of b + 1) (Knuth's normalisation:
\* the quotient is unchanged, the remainder is scaled by f), which makes the leading limb of the divisor
\* at least Base/2 - 1 and the bracket [lo, hi] of QLimb at most a few values wide.
DivModN(a, b) ==
  IF Cmp(a, b) < 0 THEN [q |-> <<>>, r |-> a]
  ELSE IF Len(b) = 1 THEN LET x == DivModSmall(a, b[1]) IN [q |-> x.q, r |-> FromInt(x.r)]
  ELSE LET f == Base \div (b[Len(b)] + 1)
       IN IF f <= 1 THEN DMG(a, b, Len(a), <<>>, <<>>)
          ELSE LET x == DMG(MulSmall(a, f), MulSmall(b, f), Len(MulSmall(a, f)), <<>>, <<>>)
               IN [q |-> x.q, r |-> DivModSmall(x.r, f).q]

RECURSIVE GcdInt(_, _)
GcdInt(a, b) == IF b = 0 THEN a ELSE GcdInt(b, a % b)

RECURSIVE GcdN(_, _)
GcdN(a, b) == IF Len(b) = 0 THEN a
              ELSE IF FitsInt(a) /\ FitsInt(b) THEN FromInt(GcdInt(ToInt(a), ToInt(b)))
              ELSE GcdN(b, DivModN(a, b).r)

\* Euclid's algorithm abandoned after n division steps on numbers beyond native integers: the gcd, or <<>>
\* when the steps did not suffice (a, b # 0: a gcd is never <<>>).  A pair whose reduced form has both
\* components below 2^31 finishes within 47 steps (the quotients of Euclid's algorithm on (a, b) are those
\* on the reduced pair, and Fibonacci(47) > 2^31).
RECURSIVE GcdCapped(_, _, _)
GcdCapped(a, b, n) == IF Len(b) = 0 THEN a
                      ELSE IF FitsInt(a) /\ FitsInt(b) THEN FromInt(GcdInt(ToInt(a), ToInt(b)))
                      ELSE IF n = 0 THEN <<>>
                      ELSE GcdCapped(b, DivModN(a, b).r, n - 1)

(* Every recursive operator of this module is in accumulator style: an expression that contains *)
(* the operator's own application is never bound by LET nor passed where it would be referenced  *)
(* more than once (TLC does not cache such lazy values, which makes evaluation exponential).     *)
RECURSIVE PowAcc(_, _, _)
PowAcc(b, k, acc) == IF k = 0 THEN acc
                     ELSE IF k = 1 THEN MulN(acc, b)
                     ELSE PowAcc(MulN(b, b), k \div 2, IF k % 2 = 1 THEN MulN(acc, b) ELSE acc)
PowN(a, k) == PowAcc(a, k, <<1>>)

\* 2^k.  2^13 = 8192 < Base.  The powers 2^(13 j), j = 0..P13Max, are a constant of the module (TLC
\* evaluates a constant-level definition once), so that 2^k for k up to 13 * P13Max + 12 = 1182 -- enough for
\* every binary64 exponent -- costs one MulSmall.
P13Max == 90
RECURSIVE P13Build(_, _)
P13Build(n, acc) == IF n = 0 THEN acc ELSE P13Build(n - 1, Append(acc, MulSmall(acc[Len(acc)], 8192)))
P13 == P13Build(P13Max, << <<1>> >>)
Pow2(k) == IF k <= 13 * P13Max + 12 THEN MulSmall(P13[k \div 13 + 1], 2 ^ (k % 13))
           ELSE MulN(PowN(<<8192>>, k \div 13), FromInt(2 ^ (k % 13)))
\* 10^k is a shift in this base
Pow10(k) == Zeros(k \div 4) \o <<10 ^ (k % 4)>>

\* number of limbs is a cheap size measure: a < Base^Len(a)
IsEven(a) == Len(a) = 0 \/ a[1] % 2 = 0

-----------------------------------------------------------------------------
(* signed integers *)
SInt(s, m) == [s |-> IF Len(m) = 0 THEN 0 ELSE s, m |-> m]
SZero == [s |-> 0, m |-> <<>>]
SOne == [s |-> 1, m |-> <<1>>]
SFromInt(n) == IF n = 0 THEN SZero ELSE IF n < 0 THEN [s |-> -1, m |-> FromInt(-n)] ELSE [s |-> 1, m |-> FromInt(n)]
SNeg(a) == [s |-> -a.s, m |-> a.m]
SAbs(a) == [s |-> IF a.s = 0 THEN 0 ELSE 1, m |-> a.m]
SAdd(a, b) ==
  IF a.s = 0 THEN b ELSE IF b.s = 0 THEN a
  ELSE IF a.s = b.s THEN [s |-> a.s, m |-> AddN(a.m, b.m)]
  ELSE LET c == Cmp(a.m, b.m)
       IN IF c = 0 THEN SZero
          ELSE IF c > 0 THEN [s |-> a.s, m |-> SubN(a.m, b.m)]
          ELSE [s |-> b.s, m |-> SubN(b.m, a.m)]
SSub(a, b) == SAdd(a, SNeg(b))
SMul(a, b) == IF a.s = 0 \/ b.s = 0 THEN SZero ELSE [s |-> a.s * b.s, m |-> MulN(a.m, b.m)]
SCmp(a, b) == IF a.s # b.s THEN (IF a.s < b.s THEN -1 ELSE 1)
              ELSE IF a.s = 0 THEN 0
              ELSE IF a.s > 0 THEN Cmp(a.m, b.m) ELSE Cmp(b.m, a.m)
\* truncating division (quotient towards zero, remainder with the sign of the dividend); b # 0
STruncDiv(a, b) == LET x == DivModN(a.m, b.m)
                   IN [q |-> SInt(a.s * b.s, x.q), r |-> SInt(a.s, x.r)]
=============================================================================
