---------------------------- MODULE Gen_Reader ----------------------------
(***************************************************************************)
(* Behaviour replay, specification -> implementation: every token-class    *)
(* sequence of length 0..N (IOEnv.N, default 5) is one state; each is      *)
(* printed once, with the outcome Reader.tla requires of a one-datum       *)
(* reader and of a datum-by-datum loop over the same text:                 *)
(*   t    the token classes                                                *)
(*   c,k  Classify(t): "D" (first datum = first k tokens), "I", "E", "U"   *)
(*   ks   ends of the successive complete data (Split)                     *)
(*   fin  what the reader must report after the last of them: "End" (no    *)
(*        token left), "Incomplete", "Error", "Unspecified"                *)
(* The harness (mwverif reader replay) renders each sequence as texts and  *)
(* compares marwood's parse_text / eval_text with these.                   *)
(***************************************************************************)
EXTENDS Reader, IOUtils, TLC, Json

N == IF "N" \in DOMAIN IOEnv THEN atoi(IOEnv.N) ELSE 5

VARIABLE toks
Init == toks = <<>>
Next == Len(toks) < N /\ \E t \in Classes : toks' = Append(toks, t)
Spec == Init /\ [][Next]_toks

Letter(c) == CASE c = "Datum" -> "D" [] c = "Incomplete" -> "I" [] c = "Error" -> "E" [] OTHER -> "U"

Case(s) ==
  LET r == Classify(s) IN
  [t |-> s, c |-> Letter(r.c), k |-> r.k, ks |-> Split(s, 0), fin |-> Rest(s)]

Emit == PrintT(<<"REPLAY", ToJson(Case(toks))>>)
=============================================================================
