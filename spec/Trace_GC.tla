------------------------------ MODULE Trace_GC ------------------------------
(***************************************************************************)
(* Validation of collection events recorded from the real collector        *)
(* (harness gcsnap: forced and natural collections, snapshot before        *)
(* marking and after sweeping) against the conditions of GCPreds.          *)
(* One behaviour per event; every failed condition prints a MISMATCH line. *)
(***************************************************************************)
EXTENDS GCPreds, Json, IOUtils, TLC

Rec == ndJsonDeserialize(IOEnv.TRACE)
Chunk == 8192

VARIABLES ei, ph
vars == <<ei, ph>>

Has(r, f) == f \in DOMAIN r
Report(what, exp, got) ==
  PrintT(<<"MISMATCH", ToJson([sess |-> Rec[ei].sess, form |-> Rec[ei].form, n |-> IF Has(Rec[ei], "n") THEN Rec[ei].n ELSE 0,
                               ev |-> Rec[ei].ev, what |-> what, exp |-> exp, got |-> got])>>)
Check(cond, what, exp, got) == IF cond THEN TRUE ELSE Report(what, exp, got)

\* snapshots are dense: st, dig and out are sequences indexed by cell number + 1
Cells(s) == {c \in 0..(s.cap - 1) : s.st[c + 1] # 0}
FreeSet(s) == UNION {(s.free.ranges[k][1])..(s.free.ranges[k][2]) : k \in 1..Len(s.free.ranges)}
RangeCount(s) == LET RECURSIVE Sum(_)
                     Sum(k) == IF k = 0 THEN 0 ELSE (s.free.ranges[k][2] - s.free.ranges[k][1] + 1) + Sum(k - 1)
                 IN Sum(Len(s.free.ranges))

\* conditions on one snapshot (pre or post): collector marks are reset, the free list is exactly the
\* set of free cells without duplicates, the intern table is exactly the set of symbol cells by name
SnapshotOK(s, which) ==
  LET cs == Cells(s) IN
  /\ Check(\A c \in cs : s.st[c + 1] = 1, which \o ": a cell is left in state Used or outside the collector map",
           1, {c \in cs : s.st[c + 1] # 1})
  /\ Check(s.free.n = RangeCount(s), which \o ": the free list holds a cell more than once", RangeCount(s), s.free.n)
  /\ Check(FreeSet(s) = (0..(s.cap - 1)) \ cs, which \o ": the free list is not the set of free cells",
           Cardinality((0..(s.cap - 1)) \ cs), Cardinality(FreeSet(s)))
  /\ Check(s.used = Cardinality(cs), which \o ": used count differs from the number of non-free cells", Cardinality(cs), s.used)
  /\ LET tab == {<<s.symtab[k].nh, s.symtab[k].i>> : k \in 1..Len(s.symtab)}
         syms == {<<s.syms[k].nh, s.syms[k].i>> : k \in 1..Len(s.syms)}
     IN  /\ Check(tab = syms, which \o ": intern table differs from the allocated symbol cells",
                  syms \ tab, tab \ syms)
         /\ Check(Cardinality({p[1] : p \in syms}) = Cardinality(syms), which \o ": two symbol cells with one name", 0, 0)

GcOK(e) ==
  LET pre == e.pre
      post == e.post
      cpre == Cells(pre)
      cpost == Cells(post)
      Out == [c \in cpre |-> {pre.out[c + 1][j] : j \in 1..Len(pre.out[c + 1])}]
      roots == {pre.roots[j] : j \in 1..Len(pre.roots)}
      R == Reach(Out, roots)
  IN
  /\ SnapshotOK(pre, "before collection")
  /\ SnapshotOK(post, "after collection")
  /\ Check(R \subseteq cpre, "a reachable cell is free (dangling reference)", {}, R \ cpre)
  /\ Check(cpost = cpre \cap R,
           "survivors differ from the allocated cells reachable from the roots",
           [lost |-> (cpre \cap R) \ cpost, retained |-> cpost \ (cpre \cap R)],
           Cardinality(cpost))
  /\ Check(\A c \in cpost \cap cpre : post.dig[c + 1] = pre.dig[c + 1],
           "a surviving cell was changed by the collection",
           {}, {c \in cpost \cap cpre : post.dig[c + 1] # pre.dig[c + 1]})
  /\ Check(post.cap = pre.cap, "capacity changed during mark/sweep", pre.cap, post.cap)

\* growth after a sweep: exactly when utilisation is above 3/4, by the policy's amount
GrowthOK(e) ==
  IF e.ev = "gc"
  THEN Check(e.cap1 = IF Crowded(e.live, e.cap0) THEN Grown(e.cap0, Chunk) ELSE e.cap0,
             "capacity after a collection does not follow the growth policy",
             IF Crowded(e.live, e.cap0) THEN Grown(e.cap0, Chunk) ELSE e.cap0, e.cap1)
  ELSE \* growth on allocation: one or more policy steps
       Check(\E k \in 1..8 : e.cap1 = GrownTimes(e.cap0, Chunk, k),
             "capacity change outside a collection is not a growth step of the policy", e.cap0, e.cap1)

\* C12: a garbage-producing loop with a bounded live set runs in a heap that stops growing:
\* the capacity after 10n iterations equals the capacity after n iterations, and it is bounded by a
\* function of the live data L and of A, the cells allocated between two collection opportunities
\* (after a sweep the heap grows only if L > 3/4 cap; on allocation only if the heap filled up
\* within one window after an opportunity that found it less than 3/4 full, i.e. cap <= 4A, or
\* L + A >= cap)
Max2(a, b) == IF a >= b THEN a ELSE b
CapBound(L, A) ==
  LET need == Max2(Max2((4 * L) \div 3 + 1, L + A), 4 * A)
      chunks == (need + Chunk - 1) \div Chunk
  IN  Max2(Chunk, Grown(chunks * Chunk, Chunk))
RunOK(e) ==
  LET A == Max2(e.maxwindow, 2 * Chunk) IN
  /\ Check(e.ok, "a garbage-producing loop failed", TRUE, e.ok)
  /\ Check(e.cap_10n = e.cap_n, "heap capacity depends on the amount of work done, not on the live data",
           e.cap_n, e.cap_10n)
  /\ Check(e.cap_10n <= CapBound(e.maxlive, A), "heap capacity exceeds the bound derived from the live data",
           CapBound(e.maxlive, A), e.cap_10n)

Init == ei \in 1..Len(Rec) /\ ph = "check"
Validate ==
  /\ ph = "check"
  /\ IF Rec[ei].ev = "gc" /\ Has(Rec[ei], "pre") THEN GcOK(Rec[ei]) ELSE TRUE
  /\ IF Rec[ei].ev = "run" THEN RunOK(Rec[ei])
     ELSE IF Rec[ei].ev = "abort" THEN Report("the run under forced collections crashed or did not terminate", "termination", Rec[ei].how)
     ELSE GrowthOK(Rec[ei])
  /\ PrintT(<<"END", ToJson([sess |-> Rec[ei].sess, ev |-> Rec[ei].ev, snap |-> Has(Rec[ei], "pre"),
                            cells |-> IF Has(Rec[ei], "pre") THEN Rec[ei].pre.ncells ELSE 0,
                            freed |-> IF Has(Rec[ei], "pre") THEN Rec[ei].pre.ncells - Rec[ei].post.ncells ELSE 0])>>)
  /\ ph' = "done"
  /\ UNCHANGED ei
Spec == Init /\ [][Validate]_vars
=============================================================================
