------------------------------ MODULE Builtins ------------------------------
(***************************************************************************)
(* C06: the public procedures as a table of signatures, and the set of     *)
(* outcome classes a call may have.  A call is (procedure, arguments),     *)
(* arguments drawn from a palette of 41 values of every kind with boundary *)
(* values.  The outcome of evaluating the call is one of                   *)
(*     "ok" (a value), "err" (a reported error),                           *)
(*     "panic", "abort", "timeout" (never allowed).                        *)
(* From R7RS 6: a call with a number of arguments outside the signature,   *)
(* or with an argument of a kind the signature excludes, must be an error; *)
(* a total procedure (type predicates, constructors, equivalence           *)
(* predicates) given the right number of arguments must return a value;    *)
(* everything else may return a value or report an error.  After the call  *)
(* the same VM must evaluate a probe correctly (checked by the harness).   *)
(* Procedures marwood defines beyond R7RS get the default signature: any   *)
(* arguments, value or error.                                              *)
(***************************************************************************)
EXTENDS Naturals, Integers, Sequences, FiniteSets, TLC, Json, IOUtils

\* ---- palette: index -> set of kind tags (the harness builds the values in this order)
Palette == <<
  {"list", "nil"},                     \* 1  '()
  {"list", "pair"},                    \* 2  (1)
  {"list", "pair"},                    \* 3  ((1 2) (1 2)) with a shared element
  {"pair"},                            \* 4  (1 . 2)
  {"pair", "circ"},                    \* 5  circular list
  {"vec"},                             \* 6  #()
  {"vec"},                             \* 7  #(1 2 3)
  {"vec", "circ"},                     \* 8  vector containing itself
  {"str"},                             \* 9  ""
  {"str"},                             \* 10 non-ASCII string (also C1 and C0 controls, backslash, double quote)
  {"char"},                            \* 11 #\a
  {"char"},                            \* 12 a 4-byte character
  {"num", "int", "exact", "index"},    \* 13 0
  {"num", "int", "exact"},             \* 14 -1
  {"num", "int", "exact", "index"},    \* 15 2^31
  {"num", "int", "exact"},             \* 16 -2^63
  {"num", "int", "exact", "index"},    \* 17 2^63-1
  {"num", "int", "exact"},             \* 18 2^200
  {"num", "exact"},                    \* 19 1/2
  {"num", "exact"},                    \* 20 -7/3
  {"num", "float"},                    \* 21 +inf
  {"num", "float"},                    \* 22 NaN
  {"num", "float", "maybeint"},        \* 23 -0.0
  {"num", "float"},                    \* 24 1.5
  {"sym"},                             \* 25 a symbol
  {"proc"},                            \* 26 a closure
  {"proc"},                            \* 27 a builtin
  {"proc"},                            \* 28 a continuation
  {"macro"},                           \* 29 a macro keyword's value
  {"void"},                            \* 30 the unspecified value
  {"num", "int", "exact", "index"},    \* 31 100000 (an allocation size within the 10^6 bound of the property)
  {"bool"},                            \* 32 #t
  {"num", "int", "exact", "index"},    \* 33 zero left in rational representation by cancelling arithmetic: (- 1/2 1/2)
  {"num", "int", "exact", "index"},    \* 34 zero left in bignum representation: (- (expt 2 64) (expt 2 64))
  {"list", "pair"},                    \* 35 a quote form around a procedure: (list 'quote car)
  {"list", "pair"},                    \* 36 a list holding a macro value, a continuation and a closure
  {"vec"},                             \* 37 a vector holding a procedure
  {"char"},                            \* 38 a numeric character outside ASCII (arabic-indic digit four)
  {"num", "int", "exact", "index"},    \* 39 2 (a small count, a valid radix)
  {"num", "int", "exact", "index"},    \* 40 16 (a valid radix)
  {"num", "int", "exact"},             \* 41 -1 left in bignum representation: (- (- (expt 2 64) (expt 2 64)) 1)
  {"str"}                              \* 42 an ASCII string of length 2 (with 2 and 0 of the palette: an index equal to the length)
>>
NPal == Len(Palette)

\* does palette value p satisfy the kind class k of a parameter?  "yes" | "no" | "maybe"
Fits(p, k) ==
  LET tags == Palette[p] IN
  CASE k = "any" -> "yes"
    [] k = "num" -> IF "num" \in tags THEN "yes" ELSE "no"
    [] k = "int" -> IF "int" \in tags THEN "yes" ELSE IF "maybeint" \in tags THEN "maybe" ELSE "no"
    [] k = "index" -> IF "index" \in tags THEN "yes" ELSE IF "maybeint" \in tags THEN "maybe" ELSE "no"
    [] k = "list" -> IF "list" \in tags THEN "yes" ELSE "no"
    [] k = "pair" -> IF "pair" \in tags THEN "yes" ELSE "no"
    [] k = "vec" -> IF "vec" \in tags THEN "yes" ELSE "no"
    [] k = "str" -> IF "str" \in tags THEN "yes" ELSE "no"
    [] k = "char" -> IF "char" \in tags THEN "yes" ELSE "no"
    [] k = "sym" -> IF "sym" \in tags THEN "yes" ELSE "no"
    [] k = "proc" -> IF "proc" \in tags THEN "yes" ELSE "no"

\* ---- signatures: [min, max (-1: any number), total, ks: kind classes by position (last one repeats)]
S(mn, mx, total, ks) == [min |-> mn, max |-> mx, total |-> total, ks |-> ks]
Default == S(0, -1, FALSE, <<"any">>)

Sig(n) ==
  CASE n \in {"boolean?", "char?", "null?", "number?", "complex?", "real?", "rational?", "integer?", "pair?", "procedure?",
              "string?", "symbol?", "vector?", "not", "list?", "port?"} -> S(1, 1, TRUE, <<"any">>)
    [] n \in {"eq?", "eqv?", "equal?"} -> S(2, 2, TRUE, <<"any">>)
    [] n = "cons" -> S(2, 2, TRUE, <<"any">>)
    [] n \in {"list", "vector"} -> S(0, -1, TRUE, <<"any">>)
    [] n \in {"car", "cdr", "caar", "cadr", "cdar", "cddr"} -> S(1, 1, FALSE, <<"pair">>)
    [] n \in {"set-car!", "set-cdr!"} -> S(2, 2, FALSE, <<"pair", "any">>)
    [] n \in {"length", "reverse", "list->vector", "list->string"} -> S(1, 1, FALSE, <<"list">>)
    [] n = "append" -> S(0, -1, FALSE, <<"any">>)
    [] n \in {"list-tail", "list-ref"} -> S(2, 2, FALSE, <<"any", "index">>)
    [] n \in {"memq", "memv", "member", "assq", "assv", "assoc"} -> S(2, 2, FALSE, <<"any", "any">>)
    [] n \in {"+", "*"} -> S(0, -1, FALSE, <<"num">>)
    [] n = "-" -> S(1, -1, FALSE, <<"num">>)
    [] n = "/" -> S(1, -1, FALSE, <<"num">>)
    [] n \in {"=", "<", ">", "<=", ">="} -> S(1, -1, FALSE, <<"num">>)
    [] n \in {"quotient", "remainder", "modulo"} -> S(2, 2, FALSE, <<"int", "int">>)
    [] n \in {"abs", "floor", "ceiling", "round", "truncate", "exp", "log", "sin", "cos", "tan", "asin", "acos",
              "sqrt", "exact->inexact", "inexact->exact", "zero?", "positive?", "negative?"} -> S(1, 1, FALSE, <<"num">>)
    [] n \in {"numerator", "denominator"} -> S(1, 1, FALSE, <<"num">>)
    [] n \in {"even?", "odd?"} -> S(1, 1, FALSE, <<"int">>)
    [] n = "atan" -> S(1, 2, FALSE, <<"num">>)
    [] n = "expt" -> S(2, 2, FALSE, <<"num", "num">>)
    [] n \in {"min", "max"} -> S(1, -1, FALSE, <<"num">>)
    [] n = "number->string" -> S(1, 2, FALSE, <<"num", "int">>)
    [] n = "string->number" -> S(1, 2, FALSE, <<"str", "int">>)
    [] n \in {"char->integer", "char-upcase", "char-downcase", "char-foldcase", "char-alphabetic?", "char-numeric?",
              "char-whitespace?", "char-upper-case?", "char-lower-case?", "digit-value"} -> S(1, 1, FALSE, <<"char">>)
    [] n = "integer->char" -> S(1, 1, FALSE, <<"int">>)
    [] n \in {"char=?", "char<?", "char>?", "char<=?", "char>=?", "char-ci=?", "char-ci<?", "char-ci>?", "char-ci<=?",
              "char-ci>=?"} -> S(1, -1, FALSE, <<"char">>)
    [] n \in {"string=?", "string<?", "string>?", "string<=?", "string>=?", "string-ci=?", "string-ci<?", "string-ci>?",
              "string-ci<=?", "string-ci>=?"} -> S(1, -1, FALSE, <<"str">>)
    [] n \in {"string-length", "string-upcase", "string-downcase", "string-foldcase", "string->symbol", "string->vector"}
         -> S(1, 1, FALSE, <<"str">>)
    [] n = "string-append" -> S(0, -1, FALSE, <<"str">>)
    [] n = "string-ref" -> S(2, 2, FALSE, <<"str", "index">>)
    [] n = "string-set!" -> S(3, 3, FALSE, <<"str", "index", "char">>)
    [] n = "substring" -> S(3, 3, FALSE, <<"str", "index", "index">>)
    [] n \in {"string-copy", "string->list"} -> S(1, 3, FALSE, <<"str", "index", "index">>)
    [] n = "string-fill!" -> S(2, 4, FALSE, <<"str", "char", "index", "index">>)
    [] n = "make-string" -> S(1, 2, FALSE, <<"index", "char">>)
    [] n = "string" -> S(0, -1, FALSE, <<"char">>)
    [] n \in {"symbol->string"} -> S(1, 1, FALSE, <<"sym">>)
    [] n = "symbol=?" -> S(1, -1, FALSE, <<"sym">>)
    [] n = "make-vector" -> S(1, 2, FALSE, <<"index", "any">>)
    [] n \in {"vector-length", "vector->list", "vector->string"} -> S(1, 1, FALSE, <<"vec">>)
    [] n = "vector-ref" -> S(2, 2, FALSE, <<"vec", "index">>)
    [] n = "vector-set!" -> S(3, 3, FALSE, <<"vec", "index", "any">>)
    [] n = "vector-fill!" -> S(2, 4, FALSE, <<"vec", "any", "index", "index">>)
    [] n = "vector-copy" -> S(1, 3, FALSE, <<"vec", "index", "index">>)
    [] n = "vector-copy!" -> S(3, 5, FALSE, <<"vec", "index", "vec", "index", "index">>)
    [] n = "apply" -> S(1, -1, FALSE, <<"proc", "any">>)
    [] n \in {"call/cc", "call-with-current-continuation"} -> S(1, 1, FALSE, <<"proc">>)
    [] n \in {"map", "for-each"} -> S(2, -1, FALSE, <<"proc", "any">>)
    [] n = "force" -> S(1, 1, FALSE, <<"any">>)
    [] n = "make-promise" -> S(1, 1, FALSE, <<"any">>)
    [] n = "error" -> S(1, -1, FALSE, <<"any">>)
    [] n = "newline" -> S(0, 1, FALSE, <<"any">>)
    [] n \in {"display", "write"} -> S(1, 2, FALSE, <<"any">>)
    [] OTHER -> Default

KindAt(sig, i) == IF i <= Len(sig.ks) THEN sig.ks[i] ELSE sig.ks[Len(sig.ks)]

\* circular arguments go only to the procedures the property names as having to cope with them
CopesWithCycles == {"list?", "length", "equal?", "display", "write"}
HasCycle(a) == \E i \in 1..Len(a) : "circ" \in Palette[a[i]]
\* the property bounds requested allocation sizes by 10^6: sizes (and exponents, which size the result)
\* beyond that are outside its quantifier.  Palette entries 15..18 are 2^31, -2^63, 2^63-1, 2^200.
Huge == {15, 16, 17, 18}
OutOfScope(name, a) ==
  \/ name \in {"make-vector", "make-string"} /\ Len(a) >= 1 /\ a[1] \in Huge
  \/ name \in {"expt", "pow"} /\ Len(a) >= 2 /\ a[2] \in Huge \cup {31}
  \/ name \in {"list-tail", "list-ref"} /\ FALSE

\* What R7RS prescribes for the call (name, a): "err" where the call is an error by the signature,
\* "ok" where a total procedure must return a value, "either" otherwise.  C06 itself demands less: every
\* call must end with a value or a reported error (Allowed); the prescription is emitted for information
\* and counted in the evidence, but a lenient outcome (a value where R7RS says "it is an error") is not a
\* violation of C06.
Prescribed(name, a) ==
  LET sig == Sig(name)
      n == Len(a) IN
  IF name = "error" THEN "err"
  ELSE IF n < sig.min \/ (sig.max >= 0 /\ n > sig.max) THEN (IF sig = Default THEN "either" ELSE "err")
  ELSE IF \E i \in 1..n : Fits(a[i], KindAt(sig, i)) = "no" THEN "err"
  ELSE IF sig.total THEN "ok"
  ELSE "either"
Allowed(name, a) == {"ok", "err"}

-----------------------------------------------------------------------------
(* Generation of call descriptors.  Names = the global procedures of the VM (read from IOEnv.NAMES, one  *)
(* JSON line with field names).  Calls are numbered in mixed radix (procedure, arity, arguments); the     *)
(* configuration selects an arity range and a stride, so that the arities <= 1 are enumerated completely   *)
(* and the larger ones are sampled evenly.                                                                 *)
Names == ndJsonDeserialize(IOEnv.NAMES)[1].names
NP == Len(Names)

CONSTANTS MinArity, MaxArity, Stride, Offset,
          Reduced      \* TRUE: arguments from the reduced palette below, all tuples, procedures taking >= 3 arguments

\* reduced palette: a list, a vector, the empty / a non-ASCII / an ASCII string, a character, 0, -1, 100000, 2 -- the
\* same object may occupy several positions (aliasing between arguments), and 0 and 2 are exactly the lengths of two
\* of the strings (an index one past the end)
RPal3 == <<2, 7, 9, 10, 11, 13, 14, 31, 39, 42>>
\* four and five arguments: the seven-value palette (all tuples of the ten-value one would be five million calls)
RPal45 == <<2, 7, 10, 11, 13, 14, 31>>
RPalOf(a) == IF a <= 3 THEN RPal3 ELSE RPal45
NRof(a) == Len(RPalOf(a))

Mod(a, b) == a - b * (a \div b)
RECURSIVE Pow(_, _)
Pow(b, e) == IF e = 0 THEN 1 ELSE b * Pow(b, e - 1)
\* number of calls of arity ar for one procedure
PerProc(ar) == Pow(NPal, ar)
\* decode index k (0-based) of the (procedure, argument tuple) space of arity ar
Decode(ar, k) ==
  LET p == (k \div PerProc(ar)) + 1
      r == Mod(k, PerProc(ar))
  IN [name |-> Names[p], a |-> [j \in 1..ar |-> Mod(r \div Pow(NPal, j - 1), NPal) + 1]]

VARIABLES ar, k, done
vars == <<ar, k, done>>
Space(a) == NP * PerProc(a)

\* arities up to 2 have at most 185 * 1024 calls; larger arities are sampled from the first 2^30 indices
\* procedures that accept three or more arguments
Wide == {p \in 1..NP : LET sg == Sig(Names[p]) IN sg # Default /\ (sg.max = -1 \/ sg.max >= 3)}
RInit == /\ Reduced
         /\ ar \in MinArity..MaxArity
         /\ \E p \in Wide : \E x \in 0..(Pow(NRof(ar), ar) - 1) : k = p * 100000 + x
         /\ done = FALSE
RCall == LET p == k \div 100000
             r == Mod(k, 100000)
             nr == NRof(ar)
         IN [name |-> Names[p], a |-> [j \in 1..ar |-> RPalOf(ar)[Mod(r \div Pow(nr, j - 1), nr) + 1]]]

Init == IF Reduced THEN RInit ELSE ar \in MinArity..MaxArity /\ k \in {x \in 0..((IF ar <= 2 THEN Space(ar) ELSE 1000000) - 1) : Mod(x, Stride) = Mod(Offset, Stride)} /\ done = FALSE

CallOf == IF ar <= 2 THEN Decode(ar, k)
          ELSE \* sampled: spread the index over the space with a multiplicative step (space sizes stay below 2^31 by reducing modulo)
               LET p == Mod(k * 37 + ar, NP) + 1
               IN [name |-> Names[p], a |-> [j \in 1..ar |-> Mod((k \div Pow(7, j - 1)) * 5 + j * 11 + k, NPal) + 1]]

EmitLine(c) ==
  IF (HasCycle(c.a) /\ c.name \notin CopesWithCycles) \/ OutOfScope(c.name, c.a) THEN TRUE
  ELSE PrintT(<<"REPLAY", ToJson([name |-> c.name, a |-> c.a, allow |-> Allowed(c.name, c.a), r7rs |-> Prescribed(c.name, c.a)])>>)
Emit ==
  /\ ~done
  /\ EmitLine(IF Reduced THEN RCall ELSE CallOf)
  /\ done' = TRUE
  /\ UNCHANGED <<ar, k>>
Spec == Init /\ [][Emit]_vars

\* sanity of the table itself: every signature is well formed
SigOK == \A i \in 1..NP : LET s == Sig(Names[i]) IN s.min >= 0 /\ (s.max = -1 \/ s.max >= s.min) /\ Len(s.ks) >= 1
=============================================================================
