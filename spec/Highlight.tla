------------------------------ MODULE Highlight ------------------------------
(***************************************************************************)
(* C20  "The REPL highlighter marks exactly the matching bracket and        *)
(*       nothing else."                                                    *)
(*                                                                         *)
(* Written from the property statement and the lexical structure of R7RS   *)
(* (section 7.1.1), not from marwood/src/syntax.rs.                        *)
(*                                                                         *)
(* A TEXT is a sequence of ITEMS.  An item is a lexical unit of the        *)
(* alphabet of the property,   ( ) [ ] #( " ; newline space a #\(  ,       *)
(* given as a record  [k |-> kind, sh |-> shape, cp |-> code points]:      *)
(*    kind  open | close | vopen | quote | semi | nl | sp | atom | chr     *)
(*    shape round | square | curly  for brackets ("-" otherwise); the      *)
(*          vector opener #( has shape round: it is closed by ")"          *)
(* The rendered text is the concatenation of the code points; byte         *)
(* positions are positions in its UTF-8 encoding.  The trace specification *)
(* uses the same operators for items with multi-byte code points.          *)
(*                                                                         *)
(* Lexical structure (R7RS): a " opens a string that extends to the next   *)
(* " (every other item, including #\( whose backslash escapes the          *)
(* parenthesis, is content); a ; outside a string opens a comment that     *)
(* extends to the end of the line; #\( is a character literal; adjacent    *)
(* atoms form one identifier; ; " ( ) [ ] and white space are delimiters.  *)
(* BRACKET TOKENS are the items ( [ #( (opening) and ) ] (closing) that    *)
(* are neither inside a string nor inside a comment (a character literal   *)
(* is an item of its own, so its parenthesis is never a bracket).          *)
(*                                                                         *)
(* Where the statement leaves the outcome open the requirement is "any":   *)
(* every non-panicking outcome that satisfies the weak clauses (output     *)
(* equals input, or differs from it by exactly one escape pair around one  *)
(* bracket spelling).  That is the case for                                *)
(*   - an unterminated string (there is no token stream),                  *)
(*   - an identifier or character literal that is not followed by a        *)
(*     delimiter (a#(  a#\(  #\(a  #\(#(  #\(#\( : R7RS requires a         *)
(*     delimiter there, so where the tokens end is not defined),           *)
(*   - a cursor that is not on a character boundary,                       *)
(*   - a bracket whose partner by nesting has another shape, or whose      *)
(*     scanned region contains such a pair  ( "(]" , "([)]" ):  "properly  *)
(*     nested" does not say which bracket, if any, is the partner.         *)
(***************************************************************************)
EXTENDS Naturals, Sequences, FiniteSets

Item(k, sh, cp) == [k |-> k, sh |-> sh, cp |-> cp]

\* The alphabet of the property, in the order of its statement.
Alphabet == <<
  Item("open",  "round",  <<40>>),          \*  1  (
  Item("close", "round",  <<41>>),          \*  2  )
  Item("open",  "square", <<91>>),          \*  3  [
  Item("close", "square", <<93>>),          \*  4  ]
  Item("vopen", "round",  <<35, 40>>),      \*  5  #(
  Item("quote", "-",      <<34>>),          \*  6  "
  Item("semi",  "-",      <<59>>),          \*  7  ;
  Item("nl",    "-",      <<10>>),          \*  8  newline
  Item("sp",    "-",      <<32>>),          \*  9  space
  Item("atom",  "-",      <<97>>),          \* 10  a
  Item("chr",   "-",      <<35, 92, 40>>)   \* 11  #\(
>>

\* The escape pair (format constants of the output; ESC [ 4 m  and  ESC [ 0 m).
EscOn  == <<27, 91, 52, 109>>
EscOff == <<27, 91, 48, 109>>

\* How to read "the bracket at or just before the cursor" when the cursor is on a token that
\* is not a bracket and a bracket token ends exactly at the cursor ( "(a)" with the cursor on a ):
\*   "either":  both "unchanged" and "the partner of the bracket before the cursor" are accepted
\*   "strict":  the bracket before the cursor counts (literal reading)
\*   "none":    only a cursor on no token falls back to the bracket before it
BeforeOverTokenPolicy == "either"

-----------------------------------------------------------------------------
(* UTF-8 geometry *)
U8(c) == IF c < 128 THEN 1 ELSE IF c < 2048 THEN 2 ELSE IF c < 65536 THEN 3 ELSE 4

RECURSIVE Bytes(_)
Bytes(cp) == IF cp = <<>> THEN 0 ELSE U8(Head(cp)) + Bytes(Tail(cp))

RECURSIVE Flat(_)
Flat(t) == IF t = <<>> THEN <<>> ELSE Head(t).cp \o Flat(Tail(t))

-----------------------------------------------------------------------------
(* Lexical structure *)
NextMode(m, k) ==
  IF m = "code" THEN (IF k = "quote" THEN "str" ELSE IF k = "semi" THEN "cmt" ELSE "code")
  ELSE IF m = "str" THEN (IF k = "quote" THEN "code" ELSE "str")
  ELSE (IF k = "nl" THEN "code" ELSE "cmt")

\* role of an item met in mode m:  open / close (bracket token), tok (part of another token), none
RoleOf(m, k) ==
  IF m = "code" THEN (IF k \in {"open", "vopen"} THEN "open"
                      ELSE IF k = "close" THEN "close"
                      ELSE IF k \in {"quote", "atom", "chr"} THEN "tok"
                      ELSE "none")
  ELSE IF m = "str" THEN "tok"
  ELSE "none"

\* an identifier or character literal directly followed by something that is not a delimiter
Glued(pk, k) == \/ pk \in {"atom", "chr"} /\ k \in {"vopen", "chr"}
                \/ pk = "chr" /\ k = "atom"

RECURSIVE Scan(_, _, _)
Scan(t, i, a) ==
  IF i > Len(t) THEN a
  ELSE LET it == t[i]
           nb == a.bo[i] + Bytes(it.cp)
       IN Scan(t, i + 1,
               [mode |-> NextMode(a.mode, it.k),
                pk   |-> IF a.mode = "code" THEN it.k ELSE "-",
                bad  |-> a.bad \/ (a.mode = "code" /\ Glued(a.pk, it.k)),
                role |-> Append(a.role, RoleOf(a.mode, it.k)),
                bo   |-> Append(a.bo, nb),
                co   |-> Append(a.co, a.co[i] + Len(it.cp)),
                cb   |-> a.cb \cup { a.bo[i] + Bytes(SubSeq(it.cp, 1, j)) : j \in 0..(Len(it.cp) - 1) },
                d    |-> Append(a.d, LET r == RoleOf(a.mode, it.k) IN
                                     IF r = "open" THEN a.d[i] + 1
                                     ELSE IF r = "close" THEN a.d[i] - 1 ELSE a.d[i])])

\* Stray closing brackets would make the depth negative: it is kept with an offset of Len(t)
\* so that it stays a natural number.
Lex0(t) == Scan(t, 1, [mode |-> "code", pk |-> "-", bad |-> FALSE, role |-> <<>>, bo |-> <<0>>, co |-> <<0>>,
                       cb |-> {}, d |-> <<Len(t)>>])

-----------------------------------------------------------------------------
(* Nesting.  For a lexed text a (the record built by Scan) and item indices:                  *)
(*   a.d[i+1] is the nesting depth after item i (plus the offset).  The items x..y are        *)
(*   BALANCED iff the depth never falls below the depth before x and ends at it.  The partner *)
(*   of an opening bracket i is the closing bracket k > i such that the items strictly        *)
(*   between them are balanced; symmetrically for a closing bracket.  (At most one k exists.) *)
IsBr(a, i) == a.role[i] \in {"open", "close"}

Bal(a, x, y) == /\ a.d[y + 1] = a.d[x]
                /\ \A m \in x..y : a.d[m + 1] >= a.d[x]

PartnerOf(a, n, i) ==
  IF a.role[i] = "open" THEN
       LET S == {k \in (i + 1)..n : a.role[k] = "close" /\ Bal(a, i + 1, k - 1)} IN
       IF S = {} THEN 0 ELSE CHOOSE k \in S : TRUE
  ELSE IF a.role[i] = "close" THEN
       LET S == {k \in 1..(i - 1) : a.role[k] = "open" /\ Bal(a, k + 1, i - 1)} IN
       IF S = {} THEN 0 ELSE CHOOSE k \in S : TRUE
  ELSE 0

\* The lexed text:  n items, byte/char offsets, char boundaries, roles, partners.
Lex(t) ==
  LET a == Lex0(t)
      n == Len(t)
  IN [n |-> n, bytes |-> a.bo[n + 1], chars |-> a.co[n + 1],
      bo |-> a.bo, co |-> a.co, cb |-> a.cb, role |-> a.role, d |-> a.d,
      bad |-> a.bad \/ a.mode = "str",
      P |-> [i \in 1..n |-> PartnerOf(a, n, i)]]

\* the part of the bracket structure that decides the partner of bracket i
Region(L, i) ==
  IF L.P[i] # 0 THEN (IF L.P[i] > i THEN i..L.P[i] ELSE L.P[i]..i)
  ELSE IF L.role[i] = "open" THEN i..L.n ELSE 1..i

WellShaped(t, L, i) ==
  \A x \in Region(L, i) :
     (L.role[x] = "open" /\ L.P[x] # 0 /\ L.P[x] \in Region(L, i)) => t[x].sh = t[L.P[x]].sh

-----------------------------------------------------------------------------
(* The cursor *)
ItemAt(L, p) == IF p >= L.bytes THEN 0
                ELSE CHOOSE i \in 1..L.n : L.bo[i] <= p /\ p < L.bo[i + 1]
RoleAt(L, p) == IF ItemAt(L, p) = 0 THEN "none" ELSE L.role[ItemAt(L, p)]
BrAt(L, p)   == IF RoleAt(L, p) \in {"open", "close"} THEN ItemAt(L, p) ELSE 0

OnBoundary(L, p) == p >= L.bytes \/ p \in L.cb

\* character index of a byte position on a boundary (positions past the end continue to count)
CharIdx(L, p) == IF p >= L.bytes THEN L.chars + (p - L.bytes)
                 ELSE Cardinality({q \in L.cb : q < p})

-----------------------------------------------------------------------------
(* Required outcome of  highlight(text, p) :                                                  *)
(*   [k |-> "same"]                the text unchanged                                         *)
(*   [k |-> "wrap", bs, be, cs, ce]  the text with EscOn before byte bs (char cs) and EscOff  *)
(*                                 before byte be (char ce): exactly the partner token        *)
(*   [k |-> "either", ...]         "same" or that "wrap"                                      *)
(*   [k |-> "any"]                 open: the weak clauses only                                *)
Out(k, i, L) == IF i = 0 THEN [k |-> k, bs |-> 0, be |-> 0, cs |-> 0, ce |-> 0]
                ELSE [k |-> k, bs |-> L.bo[i], be |-> L.bo[i + 1], cs |-> L.co[i], ce |-> L.co[i + 1]]

ForBracket(t, L, i) ==
  IF ~WellShaped(t, L, i) THEN Out("any", 0, L)
  ELSE IF L.P[i] = 0 THEN Out("same", 0, L)
  ELSE Out("wrap", L.P[i], L)

Required(t, L, p) ==
  IF L.bad \/ ~OnBoundary(L, p) THEN Out("any", 0, L)
  ELSE LET at == BrAt(L, p)
           bf == IF p = 0 THEN 0 ELSE BrAt(L, p - 1)
       IN IF at # 0 THEN ForBracket(t, L, at)
          ELSE IF bf = 0 THEN Out("same", 0, L)
          ELSE IF RoleAt(L, p) = "none" \/ BeforeOverTokenPolicy = "strict" THEN ForBracket(t, L, bf)
          ELSE IF BeforeOverTokenPolicy = "none" THEN Out("same", 0, L)
          ELSE LET r == ForBracket(t, L, bf) IN
               IF r.k = "wrap" THEN [r EXCEPT !.k = "either"] ELSE r

\* the bracket token the cursor selects (0 if none), for reporting
CursorBracket(L, p) ==
  IF L.bad \/ ~OnBoundary(L, p) THEN 0
  ELSE IF BrAt(L, p) # 0 THEN BrAt(L, p)
  ELSE IF p = 0 THEN 0 ELSE BrAt(L, p - 1)

(* Required outcome of  highlight_check(text, p) :  "false" when no bracket token lies within *)
(* one position of the cursor, otherwise "free".  A bracket token occupying [s, e) is within  *)
(* one position of the cursor p iff  s - 1 <= p <= e + 1, counted in bytes or in characters   *)
(* (whichever is more generous).                                                              *)
Near(L, i, p) ==
  \/ L.bo[i] <= p + 1 /\ p <= L.bo[i + 1] + 1
  \/ L.co[i] <= CharIdx(L, p) + 1 /\ CharIdx(L, p) <= L.co[i + 1] + 1

CheckRequired(L, p) ==
  IF L.bad \/ ~OnBoundary(L, p) THEN "free"
  ELSE IF \E i \in 1..L.n : IsBr(L, i) /\ Near(L, i, p) THEN "free"
  ELSE "false"

-----------------------------------------------------------------------------
(* Rendering of outcomes and the weak clauses (on code points) *)
Wrap(cps, cs, ce) ==
  SubSeq(cps, 1, cs) \o EscOn \o SubSeq(cps, cs + 1, ce) \o EscOff \o SubSeq(cps, ce + 1, Len(cps))

\* every spelling of a bracket token ( { } are accepted as brackets as well)
BracketSpellings == { <<40>>, <<41>>, <<91>>, <<93>>, <<123>>, <<125>>, <<35, 40>> }

\* obs is  [k |-> "same"] | [k |-> "text", cps |-> ...] | [k |-> "panic"]
Weak(cps, obs) ==
  \/ obs.k = "same"
  \/ /\ obs.k = "text"
     /\ Len(obs.cps) = Len(cps) + 8
     /\ \E i \in 0..(Len(cps) - 1) : \E w \in {1, 2} :
           /\ i + w <= Len(cps)
           /\ SubSeq(cps, i + 1, i + w) \in BracketSpellings
           /\ obs.cps = Wrap(cps, i, i + w)

Conforms(req, cps, obs) ==
  IF obs.k = "panic" THEN FALSE
  ELSE IF req.k = "same" THEN obs.k = "same"
  ELSE IF req.k = "wrap" THEN obs.k = "text" /\ obs.cps = Wrap(cps, req.cs, req.ce)
  ELSE IF req.k = "either" THEN obs.k = "same" \/ (obs.k = "text" /\ obs.cps = Wrap(cps, req.cs, req.ce))
  ELSE Weak(cps, obs)

-----------------------------------------------------------------------------
(* Structural tags of a case, used only to name classes of mismatches *)
Tags(t, L, p) ==
  LET i == CursorBracket(L, p) IN
  (IF i = 0 THEN <<>>
   ELSE <<"cur:" \o t[i].k>>
        \o (IF L.P[i] = 0 THEN <<"partner:none">> ELSE <<"partner:" \o t[L.P[i]].k>>)
        \o (IF \E x \in Region(L, i) : x # i /\ L.role[x] = "open" /\ t[x].k = "vopen"
            THEN <<"vopen-in-region">> ELSE <<>>)
        \o (IF BrAt(L, p) # 0 THEN <<"how:at">>
            ELSE IF RoleAt(L, p) = "none" THEN <<"how:before">> ELSE <<"how:before-over-token">>))
  \o (IF \E x \in 1..(L.n - 1) : L.role[x] = "tok" /\ t[x].k = "atom" /\ t[x + 1].k = "semi"
                                 /\ L.role[x + 1] = "none"
      THEN <<"atom-semi">> ELSE <<>>)
=============================================================================
